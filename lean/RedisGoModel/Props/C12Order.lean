import RedisGoModel.Ds.ZTree
/-! C12, order part: the tree operations of Ds/ZTree refine operations on the in-order node list (`nodes`): `insert` is ordered
    insertion (`insN`), `del` is removal from the node list (`delN`).  Everything about members — one score per member, "removing a
    member affects that member only", sorted output — is then proved on node lists. -/
namespace ZT
open T

/-! ### the byte order is a strict total order -/

theorem blt_irrefl : ∀ a : Bytes, blt a a = false
| [] => rfl
| a :: as => by simp [blt, UInt8.lt_irrefl, blt_irrefl as]

theorem blt_trichotomy : ∀ a b : Bytes, blt a b = true ∨ a = b ∨ blt b a = true
| [], [] => Or.inr (Or.inl rfl)
| [], _ :: _ => Or.inl rfl
| _ :: _, [] => Or.inr (Or.inr rfl)
| a :: as, b :: bs => by
  by_cases h1 : a < b
  · left; simp [blt, h1]
  · by_cases h2 : b < a
    · right; right; simp [blt, h2]
    · have hab : a = b := UInt8.le_antisymm (UInt8.not_lt.mp h2) (UInt8.not_lt.mp h1)
      subst hab
      rcases blt_trichotomy as bs with h | h | h
      · left; simp [blt, h1, h]
      · right; left; rw [h]
      · right; right; simp [blt, h1, h]

theorem blt_trans : ∀ a b c : Bytes, blt a b = true → blt b c = true → blt a c = true
| [], [], _, h, _ => by simp [blt] at h
| [], _ :: _, [], _, h => by simp [blt] at h
| [], _ :: _, _ :: _, _, _ => rfl
| _ :: _, [], _, h, _ => by simp [blt] at h
| _ :: _, _ :: _, [], _, h => by simp [blt] at h
| a :: as, b :: bs, c :: cs, h1, h2 => by
  simp only [blt] at h1 h2 ⊢
  by_cases ab : a < b
  · by_cases bc : b < c
    · simp [UInt8.lt_trans ab bc]
    · simp only [bc, if_false] at h2
      by_cases cb : c < b
      · simp [cb] at h2
      · have : b = c := UInt8.le_antisymm (UInt8.not_lt.mp cb) (UInt8.not_lt.mp bc)
        subst this; simp [ab]
  · simp only [ab, if_false] at h1
    by_cases ba : b < a
    · simp [ba] at h1
    · have : a = b := UInt8.le_antisymm (UInt8.not_lt.mp ba) (UInt8.not_lt.mp ab)
      subst this
      simp only [ba, if_false] at h1
      by_cases bc : a < c
      · simp [bc]
      · simp only [bc, if_false] at h2 ⊢
        by_cases cb : c < a
        · simp [cb] at h2
        · simp only [cb, if_false] at h2 ⊢
          exact blt_trans as bs cs h1 h2

theorem blt_asymm (a b : Bytes) (h : blt a b = true) : blt b a = false := by
  cases hb : blt b a with
  | false => rfl
  | true => have := blt_trans a b a h hb; rw [blt_irrefl] at this; cases this

/-- strictly ascending name list -/
abbrev NSorted (ns : List Bytes) : Prop := ns.Pairwise (fun a b => blt a b = true)

theorem nsorted_nodup {ns : List Bytes} (h : NSorted ns) : ns.Nodup :=
  List.Pairwise.imp (fun {a b} hab e => by subst e; rw [blt_irrefl] at hab; cases hab) h

theorem mem_nins (m : Bytes) (ns : List Bytes) (y : Bytes) : y ∈ nins m ns ↔ y = m ∨ y ∈ ns := by
  induction ns with
  | nil => simp [nins]
  | cons a l ih =>
    simp only [nins]
    split
    · simp
    · split
      · simp [ih]; constructor <;> (intro h; rcases h with h | h | h <;> simp [h])
      · rename_i h1 h2
        rcases blt_trichotomy m a with h | h | h
        · exact absurd h h1
        · subst h; simp
        · exact absurd h h2

theorem nins_sorted (m : Bytes) (ns : List Bytes) (s : NSorted ns) : NSorted (nins m ns) := by
  induction ns with
  | nil => simp [nins, NSorted]
  | cons a l ih =>
    simp only [NSorted, List.pairwise_cons] at s
    simp only [nins]
    split
    · rename_i h
      simp only [NSorted, List.pairwise_cons]
      refine ⟨?_, s⟩
      intro b hb
      rcases List.mem_cons.mp hb with rfl | hb
      · exact h
      · exact blt_trans _ _ _ h (s.1 b hb)
    · split
      · rename_i h
        simp only [NSorted, List.pairwise_cons]
        refine ⟨?_, ih s.2⟩
        intro b hb
        rcases (mem_nins m l b).mp hb with rfl | hb
        · exact h
        · exact s.1 b hb
      · simp only [NSorted, List.pairwise_cons]; exact s

theorem nins_ne_nil (m : Bytes) (ns : List Bytes) : nins m ns ≠ [] := by
  cases ns with
  | nil => simp [nins]
  | cons a l =>
    simp only [nins]
    split
    · simp
    · split <;> simp

/-! ### node lists -/

abbrev NL := List (Int × List Bytes)

/-- ordered insertion of member `m` with score `s` into a node list -/
def insN (s : Int) (m : Bytes) : NL → NL
| [] => [(s, [m])]
| (k, ns) :: rest =>
  if s < k then (s, [m]) :: (k, ns) :: rest
  else if k < s then (k, ns) :: insN s m rest
  else (k, nins m ns) :: rest

/-- removal from a node list: `some m` takes member `m` out of the node with score `x` (the node goes with its last name),
    `none` takes the node out -/
def delN (x : Int) (o : Option Bytes) : NL → NL
| [] => []
| (k, ns) :: rest =>
  if k = x then
    (match o with
     | some m => if ns.length ≤ 1 then rest else (k, ns.erase m) :: rest
     | none => rest)
  else (k, ns) :: delN x o rest

/-- scores strictly ascending -/
abbrev KSorted (L : NL) : Prop := L.Pairwise (fun a b => a.1 < b.1)

/-- no node without names; names strictly ascending inside each node -/
def NamesOK (L : NL) : Prop := ∀ p ∈ L, p.2 ≠ [] ∧ NSorted p.2

theorem ksorted_split {A B : NL} {k : Int} {ns : List Bytes} (h : KSorted (A ++ (k, ns) :: B)) :
    KSorted A ∧ KSorted B ∧ (∀ p ∈ A, p.1 < k) ∧ (∀ p ∈ B, k < p.1) := by
  simp only [KSorted, List.pairwise_append, List.pairwise_cons] at h
  exact ⟨h.1, h.2.1.2, fun p hp => h.2.2 p hp (k, ns) (by simp), h.2.1.1⟩

theorem insN_left (s : Int) (m : Bytes) (k : Int) (ns : List Bytes) (A B : NL) (h : s < k) :
    insN s m (A ++ (k, ns) :: B) = insN s m A ++ (k, ns) :: B := by
  induction A with
  | nil => simp [insN, h]
  | cons a A ih =>
    obtain ⟨ak, ans⟩ := a
    simp only [List.cons_append, insN]
    split
    · rfl
    · split
      · rw [ih]; rfl
      · rfl

theorem insN_right (s : Int) (m : Bytes) (k : Int) (ns : List Bytes) (A B : NL) (h : k < s) (hA : ∀ p ∈ A, p.1 < k) :
    insN s m (A ++ (k, ns) :: B) = A ++ (k, ns) :: insN s m B := by
  induction A with
  | nil =>
    have : ¬ s < k := by omega
    simp [insN, this, h]
  | cons a A ih =>
    obtain ⟨ak, ans⟩ := a
    have ha : ak < s := by have := hA (ak, ans) (by simp); simp at this; omega
    have : ¬ s < ak := by omega
    simp only [List.cons_append, insN, this, if_false, ha, if_true]
    rw [ih (fun p hp => hA p (by simp [hp]))]

theorem insN_same (m : Bytes) (k : Int) (ns : List Bytes) (A B : NL) (hA : ∀ p ∈ A, p.1 < k) :
    insN k m (A ++ (k, ns) :: B) = A ++ (k, nins m ns) :: B := by
  induction A with
  | nil => simp [insN]
  | cons a A ih =>
    obtain ⟨ak, ans⟩ := a
    have ha : ak < k := by have := hA (ak, ans) (by simp); simpa using this
    have : ¬ k < ak := by omega
    simp only [List.cons_append, insN, this, if_false, ha, if_true]
    rw [ih (fun p hp => hA p (by simp [hp]))]

theorem delN_notin (x : Int) (o : Option Bytes) (B : NL) (h : ∀ p ∈ B, p.1 ≠ x) : delN x o B = B := by
  induction B with
  | nil => rfl
  | cons b B ih =>
    obtain ⟨bk, bns⟩ := b
    have hb : ¬ bk = x := by have := h (bk, bns) (by simp); simpa using this
    simp only [delN, hb, if_false]
    rw [ih (fun p hp => h p (by simp [hp]))]

theorem delN_append_of_notin (x : Int) (o : Option Bytes) (A B : NL) (hA : ∀ p ∈ A, p.1 ≠ x) :
    delN x o (A ++ B) = A ++ delN x o B := by
  induction A with
  | nil => rfl
  | cons a A ih =>
    obtain ⟨ak, ans⟩ := a
    have ha : ¬ ak = x := by have := hA (ak, ans) (by simp); simpa using this
    simp only [List.cons_append, delN, ha, if_false]
    rw [ih (fun p hp => hA p (by simp [hp]))]

theorem delN_left (x : Int) (o : Option Bytes) (k : Int) (ns : List Bytes) (A B : NL) (h : x < k) (hB : ∀ p ∈ B, k < p.1) :
    delN x o (A ++ (k, ns) :: B) = delN x o A ++ (k, ns) :: B := by
  induction A with
  | nil =>
    have : ¬ k = x := by omega
    simp only [List.nil_append, delN, this, if_false]
    rw [delN_notin x o B (fun p hp => by have := hB p hp; omega)]
  | cons a A ih =>
    obtain ⟨ak, ans⟩ := a
    simp only [List.cons_append, delN]
    split
    · cases o with
      | none => rfl
      | some m => simp only; split <;> rfl
    · rw [ih]; rfl

/-! ### the tree operations on the node list -/

theorem nodes_mk (l : T) (k : Int) (ns : List Bytes) (r : T) : nodes (mk l k ns r) = nodes l ++ (k, ns) :: nodes r := rfl

theorem nodes_rotR (t : T) : nodes (rotR t) = nodes t := by
  cases t with
  | nil => rfl
  | node l y ys h c =>
    cases l with
    | nil => rfl
    | node a x xs h' b => simp [rotR, mk, nodes, List.append_assoc]

theorem nodes_rotL (t : T) : nodes (rotL t) = nodes t := by
  cases t with
  | nil => rfl
  | node a x xs h r =>
    cases r with
    | nil => rfl
    | node b y ys h' c => simp [rotL, mk, nodes, List.append_assoc]

theorem nodes_rebalance (l : T) (k : Int) (ns : List Bytes) (r : T) :
    nodes (rebalance l k ns r) = nodes l ++ (k, ns) :: nodes r := by
  unfold rebalance
  split
  · split
    · rw [nodes_rotR, nodes_mk]
    · rw [nodes_rotR, nodes_mk, nodes_rotL]
  · split
    · split
      · rw [nodes_rotL, nodes_mk]
      · rw [nodes_rotL, nodes_mk, nodes_rotR]
    · rw [nodes_mk]

/-- `insert` is ordered insertion into the node list -/
theorem nodes_insert (s : Int) (m : Bytes) : ∀ t, KSorted (nodes t) → nodes (insert t s m) = insN s m (nodes t) := by
  intro t
  induction t with
  | nil => intro _; rfl
  | node l k ns h r ihl ihr =>
    intro b
    obtain ⟨bl, br, hlk, hrk⟩ := ksorted_split b
    simp only [insert]
    by_cases hlt : s < k
    · simp only [hlt, if_true]
      have key : nodes (mk (insert l s m) k ns r) = insN s m (nodes (node l k ns h r)) := by
        rw [nodes_mk, ihl bl]; simp only [nodes]; rw [insN_left _ _ _ _ _ _ hlt]
      split
      · split
        · rw [nodes_rotR, key]
        · rw [nodes_rotR, nodes_mk, nodes_rotL, ← nodes_mk, key]
      · exact key
    · simp only [hlt, if_false]
      by_cases hgt : k < s
      · simp only [hgt, if_true]
        have key : nodes (mk l k ns (insert r s m)) = insN s m (nodes (node l k ns h r)) := by
          rw [nodes_mk, ihr br]; simp only [nodes]; rw [insN_right _ _ _ _ _ _ hgt hlk]
        split
        · split
          · rw [nodes_rotL, key]
          · rw [nodes_rotL, nodes_mk, nodes_rotR, ← nodes_mk, key]
        · exact key
      · simp only [hgt, if_false]
        have : s = k := by omega
        subst this
        simp only [nodes]
        rw [insN_same _ _ _ _ _ hlk]

theorem minNode_head : ∀ (l : T) (k : Int) (ns : List Bytes) (h : Nat) (r : T),
    ∃ tl, nodes (node l k ns h r) = minNode (node l k ns h r) :: tl := by
  intro l
  induction l with
  | nil => intro k ns h r; exact ⟨nodes r, by simp [nodes, minNode]⟩
  | node ll lk lns lh lr ih _ =>
    intro k ns h r
    obtain ⟨tl, e⟩ := ih lk lns lh lr
    refine ⟨tl ++ (k, ns) :: nodes r, ?_⟩
    have : minNode (node (node ll lk lns lh lr) k ns h r) = minNode (node ll lk lns lh lr) := by simp [minNode]
    rw [this]
    show nodes (node ll lk lns lh lr) ++ (k, ns) :: nodes r = _
    rw [e]; simp

/-- the structural removal of a node (leaf / one child / two children with the successor moved up), as in `del` -/
def unlink' (l r : T) : T :=
  match l, r with
  | nil, _ => r
  | _, nil => l
  | _, _ => rebalance l (minNode r).1 (minNode r).2 (del r (minNode r).1 none)

theorem del_node_eq' (l : T) (k : Int) (ns : List Bytes) (h : Nat) (r : T) (x : Int) (o : Option Bytes) :
    del (node l k ns h r) x o =
      if x < k then rebalance (del l x o) k ns r
      else if k < x then rebalance l k ns (del r x o)
      else match o with
        | some m => if ns.length ≤ 1 then unlink' l r else node l k (ns.erase m) h r
        | none => unlink' l r := by
  simp only [del, unlink']
  split
  · rfl
  · split
    · rfl
    · cases o <;> rfl

theorem nodes_unlink (l r : T) (br : KSorted (nodes r))
    (ihr : ∀ x o, nodes (del r x o) = delN x o (nodes r)) : nodes (unlink' l r) = nodes l ++ nodes r := by
  cases l with
  | nil => simp [unlink', nodes]
  | node ll lk lns lh lr =>
    cases r with
    | nil => simp [unlink', nodes]
    | node rl rk rns rh rr =>
      simp only [unlink']
      rw [nodes_rebalance, ihr]
      obtain ⟨tl, e⟩ := minNode_head rl rk rns rh rr
      rw [e]
      simp [delN]

/-- `del` is removal from the node list -/
theorem nodes_del : ∀ t (x : Int) (o : Option Bytes), KSorted (nodes t) → nodes (del t x o) = delN x o (nodes t) := by
  intro t
  induction t with
  | nil => intro x o _; rfl
  | node l k ns h r ihl ihr =>
    intro x o b
    obtain ⟨bl, br, hlk, hrk⟩ := ksorted_split b
    rw [del_node_eq']
    have hun : nodes (unlink' l r) = nodes l ++ nodes r := nodes_unlink l r br (fun x o => ihr x o br)
    by_cases hlt : x < k
    · simp only [hlt, if_true]
      rw [nodes_rebalance, ihl x o bl]
      simp only [nodes]
      rw [delN_left _ _ _ _ _ _ hlt hrk]
    · simp only [hlt, if_false]
      have hA : ∀ p ∈ nodes l, p.1 ≠ x := fun p hp => by have := hlk p hp; omega
      by_cases hgt : k < x
      · simp only [hgt, if_true]
        rw [nodes_rebalance, ihr x o br]
        simp only [nodes]
        rw [delN_append_of_notin _ _ _ _ hA]
        have : ¬ k = x := by omega
        simp [delN, this]
      · simp only [hgt, if_false]
        have hx : k = x := by omega
        simp only [nodes]
        rw [delN_append_of_notin _ _ _ _ hA]
        cases o with
        | none => simp [delN, hx, hun]
        | some m =>
          simp only [delN, hx, if_true]
          split
          · exact hun
          · simp [nodes]

/-! ### node-list facts -/

theorem mem_insN_key (s : Int) (m : Bytes) (L : NL) (p : Int × List Bytes) (h : p ∈ insN s m L) :
    p.1 = s ∨ ∃ q ∈ L, q.1 = p.1 := by
  induction L with
  | nil => simp [insN] at h; left; rw [h]
  | cons a L ih =>
    obtain ⟨k, ns⟩ := a
    simp only [insN] at h
    split at h
    · rcases List.mem_cons.mp h with rfl | h
      · left; rfl
      · right; exact ⟨p, h, rfl⟩
    · split at h
      · rcases List.mem_cons.mp h with rfl | h
        · right; exact ⟨(k, ns), by simp, rfl⟩
        · rcases ih h with h | ⟨q, hq, e⟩
          · left; exact h
          · right; exact ⟨q, by simp [hq], e⟩
      · rcases List.mem_cons.mp h with rfl | h
        · right; exact ⟨(k, ns), by simp, rfl⟩
        · right; exact ⟨p, by simp [h], rfl⟩

theorem ksorted_insN (s : Int) (m : Bytes) (L : NL) (h : KSorted L) : KSorted (insN s m L) := by
  induction L with
  | nil => simp [insN, KSorted]
  | cons a L ih =>
    obtain ⟨k, ns⟩ := a
    simp only [KSorted, List.pairwise_cons] at h
    simp only [insN]
    split
    · rename_i hs
      simp only [KSorted, List.pairwise_cons]
      refine ⟨?_, h⟩
      intro b hb
      rcases List.mem_cons.mp hb with rfl | hb
      · exact hs
      · have : k < b.1 := h.1 b hb
        show s < b.1
        omega
    · split
      · rename_i hs
        simp only [KSorted, List.pairwise_cons]
        refine ⟨?_, ih h.2⟩
        intro b hb
        rcases mem_insN_key s m L b hb with e | ⟨q, hq, e⟩
        · show k < b.1
          omega
        · have : k < q.1 := h.1 q hq
          show k < b.1
          omega
      · simp only [KSorted, List.pairwise_cons]; exact h

theorem mem_delN_sub (x : Int) (o : Option Bytes) (L : NL) (p : Int × List Bytes) (h : p ∈ delN x o L) :
    ∃ q ∈ L, q.1 = p.1 ∧ (p.2 = q.2 ∨ ∃ m, p.2 = q.2.erase m ∧ q.2.length > 1) := by
  induction L with
  | nil => simp [delN] at h
  | cons a L ih =>
    obtain ⟨k, ns⟩ := a
    simp only [delN] at h
    split at h
    · cases o with
      | none => exact ⟨p, by simp [h], rfl, Or.inl rfl⟩
      | some m =>
        simp only at h
        split at h
        · exact ⟨p, by simp [h], rfl, Or.inl rfl⟩
        · rcases List.mem_cons.mp h with rfl | h
          · exact ⟨(k, ns), by simp, rfl, Or.inr ⟨m, rfl, by simp at *; omega⟩⟩
          · exact ⟨p, by simp [h], rfl, Or.inl rfl⟩
    · rcases List.mem_cons.mp h with rfl | h
      · exact ⟨(k, ns), by simp, rfl, Or.inl rfl⟩
      · obtain ⟨q, hq, e⟩ := ih h
        exact ⟨q, by simp [hq], e⟩

theorem ksorted_delN (x : Int) (o : Option Bytes) (L : NL) (h : KSorted L) : KSorted (delN x o L) := by
  induction L with
  | nil => simp [delN, KSorted]
  | cons a L ih =>
    obtain ⟨k, ns⟩ := a
    simp only [KSorted, List.pairwise_cons] at h
    simp only [delN]
    split
    · cases o with
      | none => exact h.2
      | some m =>
        simp only
        split
        · exact h.2
        · simp only [KSorted, List.pairwise_cons]; exact h
    · simp only [KSorted, List.pairwise_cons]
      refine ⟨?_, ih h.2⟩
      intro b hb
      obtain ⟨q, hq, e, _⟩ := mem_delN_sub x o L b hb
      have : k < q.1 := h.1 q hq
      show k < b.1
      omega

theorem namesOK_insN (s : Int) (m : Bytes) (L : NL) (h : NamesOK L) : NamesOK (insN s m L) := by
  induction L with
  | nil =>
    intro p hp
    simp [insN] at hp; subst hp
    exact ⟨by simp, by simp [NSorted]⟩
  | cons a L ih =>
    obtain ⟨k, ns⟩ := a
    have hhd := h (k, ns) (by simp)
    have htl : NamesOK L := fun p hp => h p (by simp [hp])
    simp only [insN]
    split
    · intro p hp
      rcases List.mem_cons.mp hp with rfl | hp
      · exact ⟨by simp, by simp [NSorted]⟩
      · exact h p hp
    · split
      · intro p hp
        rcases List.mem_cons.mp hp with rfl | hp
        · exact hhd
        · exact ih htl p hp
      · intro p hp
        rcases List.mem_cons.mp hp with rfl | hp
        · exact ⟨nins_ne_nil m ns, nins_sorted m ns hhd.2⟩
        · exact htl p hp

theorem namesOK_delN (x : Int) (o : Option Bytes) (L : NL) (h : NamesOK L) : NamesOK (delN x o L) := by
  intro p hp
  obtain ⟨q, hq, _, e⟩ := mem_delN_sub x o L p hp
  have hq' := h q hq
  rcases e with e | ⟨m, e, hlen⟩
  · rw [e]; exact hq'
  · rw [e]
    refine ⟨?_, List.Pairwise.sublist List.erase_sublist hq'.2⟩
    intro hnil
    have h1 : (q.2.erase m).length = 0 := by rw [hnil]; rfl
    have h2 := @List.length_erase_le _ _ m q.2
    have h3 : q.2.length - 1 ≤ (q.2.erase m).length := by
      by_cases hm : m ∈ q.2
      · rw [List.length_erase_of_mem hm]; omega
      · rw [List.erase_of_not_mem hm]; omega
    omega

/-! ### members -/

theorem flat_append (A B : NL) : flat (A ++ B) = flat A ++ flat B := by simp [flat, List.flatMap_append]

theorem flat_cons (k : Int) (ns : List Bytes) (L : NL) : flat ((k, ns) :: L) = ns.map (fun n => (n, k)) ++ flat L := by
  simp [flat, List.flatMap_cons]

theorem mem_flat {L : NL} {n : Bytes} {s : Int} : (n, s) ∈ flat L ↔ ∃ ns, (s, ns) ∈ L ∧ n ∈ ns := by
  simp only [flat, List.mem_flatMap, List.mem_map]
  constructor
  · rintro ⟨⟨k, ns⟩, hp, y, hy, e⟩
    simp at e
    obtain ⟨rfl, rfl⟩ := e
    exact ⟨ns, hp, hy⟩
  · rintro ⟨ns, hp, hn⟩
    exact ⟨(s, ns), hp, n, hn, rfl⟩

/-- insertion adds exactly the pair (m, s) -/
theorem mem_flat_insN (s : Int) (m : Bytes) (L : NL) (p : Bytes × Int) : p ∈ flat (insN s m L) ↔ p = (m, s) ∨ p ∈ flat L := by
  induction L with
  | nil => simp [insN, flat]
  | cons a L ih =>
    obtain ⟨k, ns⟩ := a
    simp only [insN]
    split
    · rw [flat_cons]; simp
    · split
      · rw [flat_cons, flat_cons, List.mem_append, List.mem_append, ih]
        constructor <;> (intro h; rcases h with h | h | h <;> simp [h])
      · rename_i h1 h2
        have : s = k := by omega
        subst this
        rw [flat_cons, flat_cons, List.mem_append, List.mem_append]
        simp only [List.mem_map, mem_nins]
        constructor
        · rintro (⟨y, hy | hy, rfl⟩ | h)
          · left; rw [hy]
          · right; left; exact ⟨y, hy, rfl⟩
          · right; right; exact h
        · rintro (rfl | ⟨y, hy, rfl⟩ | h)
          · left; exact ⟨m, Or.inl rfl, rfl⟩
          · left; exact ⟨y, Or.inr hy, rfl⟩
          · right; exact h

theorem mem_flat_key {L : NL} {p : Bytes × Int} (h : p ∈ flat L) : ∃ q ∈ L, q.1 = p.2 := by
  obtain ⟨n, s⟩ := p
  obtain ⟨ns, hq, _⟩ := mem_flat.mp h
  exact ⟨(s, ns), hq, rfl⟩

/-- removing member `m` (held with score `x`) removes exactly the pair (m, x) -/
theorem mem_flat_delN (x : Int) (m : Bytes) (L : NL) (hs : KSorted L) (hn : NamesOK L) (hm : (m, x) ∈ flat L)
    (p : Bytes × Int) : p ∈ flat (delN x (some m) L) ↔ p ∈ flat L ∧ p ≠ (m, x) := by
  induction L with
  | nil => simp [flat] at hm
  | cons a L ih =>
    obtain ⟨k, ns⟩ := a
    simp only [KSorted, List.pairwise_cons] at hs
    have hhd := hn (k, ns) (by simp)
    have htl : NamesOK L := fun p hp => hn p (by simp [hp])
    rw [flat_cons, List.mem_append] at hm
    simp only [delN]
    by_cases hk : k = x
    · subst hk
      have hnot : ∀ q : Bytes × Int, q ∈ flat L → q.2 ≠ k := by
        intro q hq e
        obtain ⟨r, hr, e'⟩ := mem_flat_key hq
        have : k < r.1 := hs.1 r hr
        omega
      have hmns : m ∈ ns := by
        rcases hm with hm | hm
        · obtain ⟨y, hy, e⟩ := List.mem_map.mp hm
          simp at e
          rw [← e]; exact hy
        · exact absurd rfl (hnot _ hm)
      simp only [if_true]
      split
      · rename_i hlen
        have hns : ns = [m] := by
          cases ns with
          | nil => simp at hmns
          | cons a t =>
            cases t with
            | nil => simp at hmns; rw [hmns]
            | cons b t' => simp at hlen
        subst hns
        rw [flat_cons]
        simp only [List.map_cons, List.map_nil, List.mem_append, List.mem_singleton]
        constructor
        · intro h
          exact ⟨Or.inr h, fun e => hnot p h (by rw [e])⟩
        · rintro ⟨h | h, hne⟩
          · exact absurd h hne
          · exact h
      · rw [flat_cons, flat_cons, List.mem_append, List.mem_append]
        simp only [List.mem_map]
        constructor
        · rintro (⟨y, hy, rfl⟩ | h)
          · have := (List.Nodup.mem_erase_iff (nsorted_nodup hhd.2)).mp hy
            exact ⟨Or.inl ⟨y, this.2, rfl⟩, fun e => this.1 (by simpa using congrArg Prod.fst e)⟩
          · exact ⟨Or.inr h, fun e => hnot p h (by rw [e])⟩
        · rintro ⟨⟨y, hy, rfl⟩ | h, hne⟩
          · left
            refine ⟨y, (List.Nodup.mem_erase_iff (nsorted_nodup hhd.2)).mpr ⟨?_, hy⟩, rfl⟩
            intro e; apply hne; rw [e]
          · right; exact h
    · simp only [hk, if_false]
      have hm' : (m, x) ∈ flat L := by
        rcases hm with hm | hm
        · obtain ⟨y, hy, e⟩ := List.mem_map.mp hm
          simp at e
          exact absurd e.2 hk
        · exact hm
      rw [flat_cons, flat_cons, List.mem_append, List.mem_append, ih hs.2 htl hm']
      constructor
      · rintro (h | ⟨h, hne⟩)
        · refine ⟨Or.inl h, ?_⟩
          intro e; subst e
          obtain ⟨y, hy, e⟩ := List.mem_map.mp h
          simp at e
          exact hk e.2
        · exact ⟨Or.inr h, hne⟩
      · rintro ⟨h | h, hne⟩
        · left; exact h
        · right; exact ⟨h, hne⟩

/-- … and the sequence gets shorter by exactly one -/
theorem length_flat_delN (x : Int) (m : Bytes) (L : NL) (hs : KSorted L) (hm : (m, x) ∈ flat L) :
    (flat (delN x (some m) L)).length + 1 = (flat L).length := by
  induction L with
  | nil => simp [flat] at hm
  | cons a L ih =>
    obtain ⟨k, ns⟩ := a
    simp only [KSorted, List.pairwise_cons] at hs
    rw [flat_cons, List.mem_append] at hm
    simp only [delN]
    by_cases hk : k = x
    · subst hk
      have hmns : m ∈ ns := by
        rcases hm with hm | hm
        · obtain ⟨y, hy, e⟩ := List.mem_map.mp hm
          simp at e
          rw [← e]; exact hy
        · obtain ⟨r, hr, e'⟩ := mem_flat_key hm
          have : k < r.1 := hs.1 r hr
          simp at e'; omega
      simp only [if_true]
      have hpos : ns.length ≥ 1 := by cases ns with | nil => simp at hmns | cons _ _ => simp
      split
      · rename_i hlen
        rw [flat_cons, List.length_append, List.length_map]; omega
      · rw [flat_cons, flat_cons, List.length_append, List.length_append, List.length_map, List.length_map,
          List.length_erase_of_mem hmns]
        omega
    · simp only [hk, if_false]
      have hm' : (m, x) ∈ flat L := by
        rcases hm with hm | hm
        · obtain ⟨y, hy, e⟩ := List.mem_map.mp hm
          simp at e
          exact absurd e.2 hk
        · exact hm
      rw [flat_cons, flat_cons, List.length_append, List.length_append]
      have := ih hs.2 hm'
      omega

/-- removing a whole node removes exactly the pairs with that score -/
theorem mem_flat_delN_none (x : Int) (L : NL) (hs : KSorted L) (p : Bytes × Int) :
    p ∈ flat (delN x none L) ↔ p ∈ flat L ∧ p.2 ≠ x := by
  induction L with
  | nil => simp [flat, delN]
  | cons a L ih =>
    obtain ⟨k, ns⟩ := a
    simp only [KSorted, List.pairwise_cons] at hs
    simp only [delN]
    by_cases hk : k = x
    · subst hk
      simp only [if_true]
      rw [flat_cons, List.mem_append]
      constructor
      · intro h
        refine ⟨Or.inr h, ?_⟩
        intro e
        obtain ⟨r, hr, e'⟩ := mem_flat_key h
        have : k < r.1 := hs.1 r hr
        omega
      · rintro ⟨h | h, hne⟩
        · simp at h; obtain ⟨y, _, rfl⟩ := h; simp at hne
        · exact h
    · simp only [hk, if_false]
      rw [flat_cons, flat_cons, List.mem_append, List.mem_append, ih hs.2]
      constructor
      · rintro (h | ⟨h, hne⟩)
        · refine ⟨Or.inl h, ?_⟩
          simp at h; obtain ⟨y, _, rfl⟩ := h; exact hk
        · exact ⟨Or.inr h, hne⟩
      · rintro ⟨h | h, hne⟩
        · left; exact h
        · right; exact ⟨h, hne⟩

/-- the order of the member sequence: by score, score-mates by name -/
def mlt (a b : Bytes × Int) : Prop := a.2 < b.2 ∨ (a.2 = b.2 ∧ blt a.1 b.1 = true)

/-- a node list with ascending scores and ascending names per node flattens to a strictly (score, name)-ascending sequence -/
theorem flat_sorted (L : NL) (hs : KSorted L) (hn : NamesOK L) : (flat L).Pairwise mlt := by
  induction L with
  | nil => simp [flat]
  | cons a L ih =>
    obtain ⟨k, ns⟩ := a
    simp only [KSorted, List.pairwise_cons] at hs
    have hhd := hn (k, ns) (by simp)
    have htl : NamesOK L := fun p hp => hn p (by simp [hp])
    rw [flat_cons, List.pairwise_append]
    refine ⟨?_, ih hs.2 htl, ?_⟩
    · rw [List.pairwise_map]
      exact List.Pairwise.imp (fun {a b} hab => Or.inr ⟨rfl, hab⟩) hhd.2
    · intro a ha b hb
      simp at ha
      obtain ⟨y, _, rfl⟩ := ha
      obtain ⟨r, hr, e⟩ := mem_flat_key hb
      have : k < r.1 := hs.1 r hr
      left
      show k < b.2
      omega

end ZT
