import RedisGoModel.Props.C06
/-! # C01 — string and key commands behave as a sequential Redis keyspace

Full statement (`Exec.C01_statement`, proved: `Exec.C01_holds`).  `C01.KS` is a deliberately small reference keyspace: a total
function key ↦ optional (value, deadline) — no association list, no order, no physical deletion of expired entries; a key *shows*
`ks.at now k` (nothing once its deadline is reached).  `C01.SpecStep` gives, for each of the 24 operations of `stringKeyTable`
(`C01.Op`, `C01.table_is_ops`), the reply and the next keyspace the Redis command reference prescribes, written on that function
(`specSet` … `specRename`; KEYS, which a function cannot enumerate, by what the answer must contain: `SpecKeys`).  The statement: for
**every program** over these operations — any argument lists (any arity, any bytes), any observed replies / float bits, clock
readings that do not go backwards — run step by step on the model the driver executes (`C01.run`), from a database and a reference
keyspace that show the same under every key (`C01.Rel`, e.g. both empty: `C01.rel_empty`): the model's replies are exactly those of
the reference semantics, step by step, and the final states show the same (`C01.c01_refines`, by `C01.step_refines` and one `sim_*`
lemma per command).  The reference semantics has: exact integer arithmetic for the counters (sum in range or rejection), the
list-level `StrOps.specGetRange`/`specSetRange`, closed forms for the multi-key commands (MSET: last pair per key wins; DEL: the
named keys are gone and the reply counts the distinct visible ones, `c01_delCount_distinct`; EXISTS counts repeats; MGET: nil for
missing and wrong-typed), WRONGTYPE-and-no-change for every type-testing command.

Shared with the model, not re-specified (syntax, not keyspace semantics): the option scanner `parseSetOpts` (its word-by-word
behaviour, any letter case: `c01_parse_word`), `setDeadline` (characterised by `c01_set_deadline`), `parseI64`/`fmtInt`
(strconv mirrors, trusted + differentially exercised), the glob matcher `GlobEq.m` (equal to the documented grammar by C17), the
canonical sort of KEYS, INCRBYFLOAT's checker mode (float arithmetic and formatting are the implementation's), error texts.

Command-level theorems (all on the definitions the driver runs; `D` = database after the expiry check of the key):
 (1) `c01_bytes_unchanged` — binary safety and case sensitivity of SET/GET for all byte strings.
 (2) `c01_wrongtype_nochange` — GET, GETRANGE, SETRANGE, STRLEN, APPEND, INCR, DECR, INCRBY, DECRBY, INCRBYFLOAT, SET on a live
     key of another type: reply WRONGTYPE, database literally unchanged.
 (3) `c01_set_spec` (all options at once), `c01_set_rejected`, `c01_set_deadline`, `c01_parse_word`, and the one-option laws
     `c01_set_nx`, `c01_set_xx`, `c01_set_get`, `c01_set_keepttl`, `c01_set_expiry`, `c01_set_ex_nonpositive`, `c01_set_nx_xx`.
 (4) `c01_incrBy_spec`, `c01_counter_cmds`, `c01_incrby_exact` — exact sum stored as decimal text or rejected, deadline kept.
 (5) `c01_strlen_spec`, `c01_append_spec`, `c01_getrange_spec`, `c01_getrange_length`, `c01_setrange_spec`, `c01_setrange_bad_offset`.
 (6) `c01_del_spec`, `c01_delCount_distinct`, `c01_exists_spec`, `c01_mget_spec`, `c01_mset_spec`, `c01_setnx_spec`, `c01_setex_spec`.
 (7) `c01_rename_spec`, `c01_type_spec`, `c01_keys_spec`.
 (8) `c01_commands_preserve_wf` — every command of the table keeps keys unique.
 (9) `C01.step_refines`, `C01.c01_refines`, `C01_holds`.

Uniqueness of the KEYS answer among sorted duplicate-free lists is proved in `Props/C01Keys.lean` (`keys_reply_unique`,
`specKeys_deterministic`).  Not proved here: programs whose clock goes backwards (an entry the model has lazily deleted
would reappear in the reference keyspace); the tie of `Exec.exec`'s name lookup (lower-casing, other families' tables) to `Op`.
Non-vacuity examples are at the end of the file. -/
namespace Exec
open Resp (Reply Bytes)

/-! ### definitions the statement needs -/

/-- what a command may see of an optional entry at time `now`: nothing once the deadline has been reached -/
def c01_vis (now : Int) (o : Option Entry) : Option Entry := o.bind fun e => if e.liveAt now then some e else none

/-- which SET option combinations the command accepts -/
def c01_setOptsOk (o : SetOpts) : Bool := !((o.nx && o.xx) || o.nexp > 1 || (o.keepttl && o.nexp > 0))

/-- the integer a counter command starts from: a missing key counts as 0, a string must parse as an int64 -/
def c01_curInt (old : Option Bytes) : Option Int := match old with | none => some 0 | some b => parseI64 b

/-- DEL on a function-style view: delete one named key after the other, counting those that were visible -/
def c01_delCount (live : Bytes → Bool) : List Bytes → Nat
| [] => 0
| k :: ks => (if live k then 1 else 0) + c01_delCount (fun k' => k' != k && live k') ks

/-- the bulk reply MGET gives for what a key shows: nil for a missing key and for a key of another type -/
def c01_mgetReply (o : Option Entry) : Reply :=
  match o with
  | some e => (match e.val with | .str b => bulk b | _ => nil)
  | none => nil

/-- the value MSET leaves under `g`: that of the last pair naming `g` -/
def c01_lastVal : List Bytes → Bytes → Option Bytes
| k :: v :: rest, g => (match c01_lastVal rest g with | some w => some w | none => if k = g then some v else none)
| _, _ => none

end Exec

namespace C01
open Exec Resp

/-- the reference keyspace: a total function from key to optional (value, deadline) — no list, no order, no physical deletion -/
abbrev KS := Bytes → Option Entry
/-- what a key shows at time `now` -/
def KS.at (ks : KS) (now : Int) (k : Bytes) : Option Entry := c01_vis now (ks k)
def KS.set (ks : KS) (k : Bytes) (o : Option Entry) : KS := fun k' => if k' = k then o else ks k'
/-- the string a key shows: `none` = missing, `some none` = a value of another type -/
def KS.str (ks : KS) (now : Int) (k : Bytes) : Option (Option Bytes) :=
  (ks.at now k).map fun e => match e.val with | .str b => some b | _ => none
/-- overwrite the value, keep the deadline the key shows -/
def KS.setVal (ks : KS) (now : Int) (k : Bytes) (v : Value) : KS :=
  ks.set k (some { val := v, exp := (ks.at now k).bind (·.exp) })

def specSet (env : Env) (ks : KS) : List Bytes → Reply × KS
| _ :: k :: v :: opts =>
  match parseSetOpts opts {} with
  | none => (errSyntax, ks)
  | some o =>
    if !c01_setOptsOk o then (errSyntax, ks) else
    match setDeadline o env.now with
    | none => (.err (ofStr "ERR invalid expire time in 'set' command"), ks)
    | some dl =>
      match ks.str env.now k with
      | some none => (wrongType, ks)
      | old =>
        let refused := (o.nx && old.isSome) || (o.xx && !old.isSome)
        (if o.get then .bulk (old.bind id) else if refused then nil else ok,
         if refused then ks
         else ks.set k (some { val := .str v, exp := if o.keepttl then (ks.at env.now k).bind (·.exp) else dl }))
| _ => (errArgs, ks)

def specGet (env : Env) (ks : KS) : List Bytes → Reply × KS
| [_, k] =>
  match ks.str env.now k with
  | none => (nil, ks)
  | some none => (wrongType, ks)
  | some (some b) => (bulk b, ks)
| _ => (errArgs, ks)

def specGetRange (env : Env) (ks : KS) : List Bytes → Reply × KS
| [_, k, s, e] =>
  match ks.str env.now k with
  | some none => (wrongType, ks)
  | old =>
    match parseI64 s, parseI64 e with
    | some s, some e => (bulk (StrOps.specGetRange ((old.bind id).getD []) s e), ks)
    | _, _ => (errInt, ks)
| _ => (errArgs, ks)

def specSetRange (env : Env) (ks : KS) : List Bytes → Reply × KS
| [_, k, off, v] =>
  match parseI64 off with
  | some (.ofNat offset) =>
    match ks.str env.now k with
    | some none => (wrongType, ks)
    | old =>
      let oldVal := (old.bind id).getD []
      if v.isEmpty then (.int oldVal.length, ks)
      else if offset + v.length > maxStrLen then (.err (ofStr "ERR string exceeds maximum allowed size (512MB)"), ks)
      else (.int (max oldVal.length (offset + v.length) : Nat), ks.setVal env.now k (.str (StrOps.specSetRange oldVal offset v)))
  | _ => (.err (ofStr "ERR offset is out of range"), ks)
| _ => (errArgs, ks)

def specStrLen (env : Env) (ks : KS) : List Bytes → Reply × KS
| [_, k] =>
  match ks.str env.now k with
  | none => (.int 0, ks)
  | some none => (wrongType, ks)
  | some (some b) => (.int b.length, ks)
| _ => (errArgs, ks)

def specAppend (env : Env) (ks : KS) : List Bytes → Reply × KS
| [_, k, v] =>
  match ks.str env.now k with
  | some none => (wrongType, ks)
  | old => (.int (((old.bind id).getD []).length + v.length : Nat), ks.setVal env.now k (.str ((old.bind id).getD [] ++ v)))
| _ => (errArgs, ks)

/-- counters on true integers: the exact sum or a rejection -/
def specIncrBy (env : Env) (ks : KS) (k : Bytes) (delta : Int) : Reply × KS :=
  match ks.str env.now k with
  | some none => (wrongType, ks)
  | old =>
    match c01_curInt (old.bind id) with
    | none => (errInt, ks)
    | some cur =>
      if minI64 ≤ cur + delta ∧ cur + delta ≤ maxI64
      then (.int (cur + delta), ks.setVal env.now k (.str (fmtInt (cur + delta))))
      else (errOverflow, ks)

def specIncr (env : Env) (ks : KS) : List Bytes → Reply × KS
| [_, k] => specIncrBy env ks k 1 | _ => (errArgs, ks)
def specDecr (env : Env) (ks : KS) : List Bytes → Reply × KS
| [_, k] => specIncrBy env ks k (-1) | _ => (errArgs, ks)
def specIncrByCmd (env : Env) (ks : KS) : List Bytes → Reply × KS
| [_, k, d] => (match parseI64 d with | some d => specIncrBy env ks k d | none => (errInt, ks))
| _ => (errArgs, ks)
def specDecrByCmd (env : Env) (ks : KS) : List Bytes → Reply × KS
| [_, k, d] =>
  (match parseI64 d with
   | some d => if d = minI64 then (errOverflow, ks) else specIncrBy env ks k (-d)
   | none => (errInt, ks))
| _ => (errArgs, ks)

/-- INCRBYFLOAT, checker mode like the model: the float arithmetic and formatting are the implementation's -/
def specIncrByFloat (env : Env) (ks : KS) : List Bytes → Reply × KS
| [_, k, _d] =>
  match env.fl 2 with
  | none => (errFloat, ks)
  | some bits =>
    match ks.str env.now k with
    | some none => (wrongType, ks)
    | old =>
      let curOk := match old.bind id with | none => true | some b => looksDecimal b
      if !curOk then (errFloat, ks)
      else if flExp bits == 2047 then (.err (ofStr "ERR increment would produce NaN or Infinity"), ks)
      else match env.obs with
        | some (.bulk (some r)) =>
          if looksDecimal r then (bulk r, ks.setVal env.now k (.str r)) else (rejectObs env.obs "INCRBYFLOAT result is not a finite decimal", ks)
        | some (.err e) =>
          let curHuge := match old.bind id with | none => false | some b => hugeDecimal b
          if (flExp bits ≥ 2045 || curHuge) && !isWrongType e then (.err e, ks) else (rejectObs env.obs "INCRBYFLOAT must succeed", ks)
        | _ => (rejectObs env.obs "INCRBYFLOAT answers a bulk string", ks)
| _ => (errArgs, ks)

def specMGet (env : Env) (ks : KS) : List Bytes → Reply × KS
| _ :: k :: rest => (arrOf ((k :: rest).map fun k => c01_mgetReply (ks.at env.now k)), ks)
| _ => (errArgs, ks)

def specMSet (_env : Env) (ks : KS) : List Bytes → Reply × KS
| _ :: rest =>
  if rest.length < 2 || rest.length % 2 != 0 then (errArgs, ks)
  else (ok, fun g => match c01_lastVal rest g with | some w => some { val := .str w, exp := none } | none => ks g)
| _ => (errArgs, ks)

def specSetEx (env : Env) (ks : KS) : List Bytes → Reply × KS
| [_, k, secs, v] =>
  match parseI64 secs with
  | none => (errInt, ks)
  | some s =>
    if s ≤ 0 || !inI64 (env.now + s) then (.err (ofStr "ERR invalid expire time in 'setex' command"), ks)
    else (ok, ks.set k (some { val := .str v, exp := some (env.now + s) }))
| _ => (errArgs, ks)

def specSetNx (env : Env) (ks : KS) : List Bytes → Reply × KS
| [_, k, v] => if (ks.at env.now k).isSome then (.int 0, ks) else (.int 1, ks.set k (some { val := .str v, exp := none }))
| _ => (errArgs, ks)

def specDel (env : Env) (ks : KS) : List Bytes → Reply × KS
| _ :: k :: rest =>
  (.int (c01_delCount (fun k => (ks.at env.now k).isSome) (k :: rest) : Nat), fun g => if g ∈ k :: rest then none else ks g)
| _ => (errArgs, ks)

def specExists (env : Env) (ks : KS) : List Bytes → Reply × KS
| _ :: k :: rest => (.int (((k :: rest).filter fun k => (ks.at env.now k).isSome).length : Nat), ks)
| _ => (errArgs, ks)

def specExpire (env : Env) (ks : KS) : List Bytes → Reply × KS
| _ :: k :: secs :: optl =>
  if optl.length > 1 then (errArgs, ks) else
  match parseI64 secs with
  | none => (errInt, ks)
  | some s =>
    let opt := lower (optl.headD [])
    if !(optl.isEmpty || opt == ofStr "nx" || opt == ofStr "xx" || opt == ofStr "gt" || opt == ofStr "lt") then
      (.err (ofStr "ERR Unsupported option"), ks) else
    if !inI64 (env.now + s) then (.err (ofStr "ERR invalid expire time in 'expire' command"), ks) else
    match ks.at env.now k with
    | none => (.int 0, ks)
    | some e =>
      if expireActs opt e.exp (env.now + s) then (.int 1, ks.set k (some { e with exp := some (env.now + s) })) else (.int 0, ks)
| _ => (errArgs, ks)

def specPersist (env : Env) (ks : KS) : List Bytes → Reply × KS
| [_, k] =>
  match ks.at env.now k with
  | some e => if e.exp.isSome then (.int 1, ks.set k (some { e with exp := none })) else (.int 0, ks)
  | none => (.int 0, ks)
| _ => (errArgs, ks)

def specTTL (env : Env) (ks : KS) : List Bytes → Reply × KS
| [_, k] =>
  match ks.at env.now k with
  | none => (.int (-2), ks)
  | some e => (match e.exp with | none => (.int (-1), ks) | some d => (.int (d - env.now), ks))
| _ => (errArgs, ks)

def specType (env : Env) (ks : KS) : List Bytes → Reply × KS
| [_, k] =>
  match ks.at env.now k with
  | none => (.simple (ofStr "none"), ks)
  | some e => (.simple (ofStr e.val.typeName), ks)
| _ => (errArgs, ks)

def specRename (env : Env) (ks : KS) : List Bytes → Reply × KS
| [_, old, new] =>
  match ks.at env.now old with
  | none => (.err (ofStr "ERR no such key"), ks)
  | some e => if old = new then (ok, ks) else (ok, (ks.set old none).set new (some e))
| _ => (errArgs, ks)

def specPing (_env : Env) (ks : KS) : List Bytes → Reply × KS
| [_] => (.simple (ofStr "PONG"), ks)
| [_, m] => (bulk m, ks)
| _ => (errArgs, ks)

/-- KEYS cannot be computed from a function: it is specified by what the answer must contain -/
def SpecKeys (env : Env) (ks : KS) (args : List Bytes) (r : Reply) (ks' : KS) : Prop :=
  ks' = ks ∧
  match args with
  | [_, pat] => ∃ l : List Bytes, r = bulks (sortBytes l) ∧ l.Nodup ∧ ∀ k, k ∈ l ↔ ((ks.at env.now k).isSome = true ∧ GlobEq.m pat k = true)
  | _ => r = errArgs

inductive Op
| set | get | getrange | setrange | mget | mset | setex | setnx | strlen | incr | incrby | decr | decrby | incrbyfloat | append
| ping | del | exists | keys | expire | persist | ttl | type | rename

def Op.name : Op → String
| .set => "set" | .get => "get" | .getrange => "getrange" | .setrange => "setrange" | .mget => "mget" | .mset => "mset"
| .setex => "setex" | .setnx => "setnx" | .strlen => "strlen" | .incr => "incr" | .incrby => "incrby" | .decr => "decr"
| .decrby => "decrby" | .incrbyfloat => "incrbyfloat" | .append => "append" | .ping => "ping" | .del => "del"
| .exists => "exists" | .keys => "keys" | .expire => "expire" | .persist => "persist" | .ttl => "ttl" | .type => "type"
| .rename => "rename"

def Op.model : Op → Cmd
| .set => cmdSet | .get => cmdGet | .getrange => cmdGetRange | .setrange => cmdSetRange | .mget => cmdMGet | .mset => cmdMSet
| .setex => cmdSetEx | .setnx => cmdSetNx | .strlen => cmdStrLen | .incr => cmdIncr | .incrby => cmdIncrBy | .decr => cmdDecr
| .decrby => cmdDecrBy | .incrbyfloat => cmdIncrByFloat | .append => cmdAppend | .ping => cmdPing | .del => cmdDel
| .exists => cmdExists | .keys => cmdKeys | .expire => cmdExpire | .persist => cmdPersist | .ttl => cmdTTL | .type => cmdType
| .rename => cmdRename

def Op.all : List Op := [.set, .get, .getrange, .setrange, .mget, .mset, .setex, .setnx, .strlen, .incr, .incrby, .decr, .decrby,
  .incrbyfloat, .append, .ping, .del, .exists, .keys, .expire, .persist, .ttl, .type, .rename]

/-- one step of the reference semantics -/
def SpecStep (op : Op) (env : Env) (ks : KS) (args : List Bytes) (r : Reply) (ks' : KS) : Prop :=
  match op with
  | .set => (r, ks') = specSet env ks args | .get => (r, ks') = specGet env ks args
  | .getrange => (r, ks') = specGetRange env ks args | .setrange => (r, ks') = specSetRange env ks args
  | .mget => (r, ks') = specMGet env ks args | .mset => (r, ks') = specMSet env ks args
  | .setex => (r, ks') = specSetEx env ks args | .setnx => (r, ks') = specSetNx env ks args
  | .strlen => (r, ks') = specStrLen env ks args | .incr => (r, ks') = specIncr env ks args
  | .incrby => (r, ks') = specIncrByCmd env ks args | .decr => (r, ks') = specDecr env ks args
  | .decrby => (r, ks') = specDecrByCmd env ks args | .incrbyfloat => (r, ks') = specIncrByFloat env ks args
  | .append => (r, ks') = specAppend env ks args | .ping => (r, ks') = specPing env ks args
  | .del => (r, ks') = specDel env ks args | .exists => (r, ks') = specExists env ks args
  | .keys => SpecKeys env ks args r ks' | .expire => (r, ks') = specExpire env ks args
  | .persist => (r, ks') = specPersist env ks args | .ttl => (r, ks') = specTTL env ks args
  | .type => (r, ks') = specType env ks args | .rename => (r, ks') = specRename env ks args

structure Step where
  op : Op
  env : Env
  argv : List Bytes

/-- running a program on the model: replies and final database -/
def run : Db → List Step → List Reply × Db
| db, [] => ([], db)
| db, s :: rest => ((s.op.model s.env db s.argv).1 :: (run (s.op.model s.env db s.argv).2 rest).1, (run (s.op.model s.env db s.argv).2 rest).2)

inductive SpecRun : KS → List Step → List Reply → KS → Prop
| nil (ks : KS) : SpecRun ks [] [] ks
| cons {ks ks1 ks2 : KS} {s : Step} {rest : List Step} {r : Reply} {rs : List Reply} :
    SpecStep s.op s.env ks s.argv r ks1 → SpecRun ks1 rest rs ks2 → SpecRun ks (s :: rest) (r :: rs) ks2

/-- clock readings never go backwards -/
def clockOk (t : Int) : List Step → Prop
| [] => True
| s :: rest => t ≤ s.env.now ∧ clockOk s.env.now rest

def lastNow (t : Int) : List Step → Int
| [] => t
| s :: rest => lastNow s.env.now rest

/-- the list database and the function keyspace show the same thing under every key at `now` (and the list has unique keys) -/
def Rel (db : Db) (now : Int) (ks : KS) : Prop := db.WF ∧ ∀ k, c01_vis now (db.get k) = c01_vis now (ks k)

end C01

namespace Exec
open C01 in
/-- **C01.** The command table is the 24 operations below; and for every program over them (any arguments, any arities, any
    bytes), run with clock readings that do not go backwards, from a database and a reference keyspace that show the same: the
    replies of the model are replies the reference semantics prescribes, step by step, and the final database shows the same as the
    final reference keyspace. -/
def C01_statement : Prop :=
  stringKeyTable = Op.all.map (fun o => (o.name, o.model)) ∧
  (∀ t, Rel [] t (fun _ => none)) ∧
  ∀ (prog : List Step) (t : Int) (db : Db) (ks : KS), Rel db t ks → clockOk t prog →
    ∃ ks', SpecRun ks prog (run db prog).1 ks' ∧ Rel (run db prog).2 (lastNow t prog) ks'
end Exec

namespace Exec
open Resp (Reply Bytes)

/-! ### the visible part of an entry, and what the lazy expiry check does to it -/


theorem c01_vis_none (now : Int) : c01_vis now none = none := rfl

theorem c01_vis_live {now : Int} {e : Entry} (h : e.liveAt now = true) : c01_vis now (some e) = some e := by
  simp [c01_vis, h]

theorem c01_vis_noexp (now : Int) (v : Value) : c01_vis now (some { val := v, exp := none }) = some { val := v, exp := none } := by
  simp [c01_vis, Entry.liveAt]

theorem c01_vis_some {now : Int} {o : Option Entry} {e : Entry} (h : c01_vis now o = some e) : o = some e ∧ e.liveAt now = true := by
  cases o with
  | none => cases h
  | some e' =>
    simp only [c01_vis, Option.bind_some] at h
    split at h
    · cases h; exact ⟨rfl, by assumption⟩
    · cases h

theorem c01_vis_idem (now : Int) (o : Option Entry) : c01_vis now (c01_vis now o) = c01_vis now o := by
  cases o with
  | none => rfl
  | some e =>
    by_cases h : e.liveAt now = true
    · rw [c01_vis_live h, c01_vis_live h]
    · simp [c01_vis, h]

/-- time passing only hides more: looking at `now' ≥ now` through the view of `now` is looking at `now'` -/
theorem c01_vis_mono {now now' : Int} (hle : now ≤ now') (o : Option Entry) : c01_vis now' (c01_vis now o) = c01_vis now' o := by
  cases o with
  | none => rfl
  | some e =>
    by_cases h : e.liveAt now = true
    · rw [c01_vis_live h]
    · have h' : e.liveAt now' = false := by
        unfold Entry.liveAt at *
        cases hd : e.exp with
        | none => simp [hd] at h
        | some d => simp only [hd, decide_eq_true_eq] at h; simp only [decide_eq_false_iff_not]; omega
      simp [c01_vis, h, h']

/-- after the lazy check the physical entry under the probed key is exactly its visible part -/
theorem c01_check_get (db : Db) (now : Int) (k : Bytes) : (checkTTL db now k).1.get k = c01_vis now (db.get k) := by
  unfold checkTTL c01_vis
  cases hg : db.get k with
  | none => simp [hg]
  | some e =>
    cases hd : e.exp with
    | none => simp [hg, Entry.liveAt, hd]
    | some d =>
      by_cases hle : d ≤ now
      · have : ¬ now < d := by omega
        simp [hle, Db.get_del_same, Entry.liveAt, hd, this]
      · have : now < d := by omega
        simp [hle, hg, Entry.liveAt, hd, this]

/-- the lazy check changes the visible part of no key -/
theorem c01_check_vis (db : Db) (now : Int) (k k' : Bytes) :
    c01_vis now ((checkTTL db now k).1.get k') = c01_vis now (db.get k') := by
  by_cases hk : k' = k
  · subst hk; rw [c01_check_get, c01_vis_idem]
  · rw [checkTTL_other db now hk]

/-- a live key (or a missing one) is left alone by the check: the database is literally unchanged -/
theorem c01_check_live {db : Db} {now : Int} {k : Bytes} {e : Entry} (hg : db.get k = some e) (hl : e.liveAt now = true) :
    checkTTL db now k = (db, true) := by
  unfold checkTTL
  simp only [hg]
  unfold Entry.liveAt at hl
  cases hd : e.exp with
  | none => rfl
  | some d =>
    simp only [hd, decide_eq_true_eq] at hl
    have : ¬ d ≤ now := by omega
    simp [this]

theorem c01_check_missing {db : Db} {now : Int} {k : Bytes} (hg : db.get k = none) : checkTTL db now k = (db, true) := by
  unfold checkTTL; simp only [hg]

theorem c01_getStr_eq (db : Db) (k : Bytes) :
    getStr db k = (db.get k).map fun e => match e.val with | .str b => some b | _ => none := by
  unfold getStr
  cases db.get k with
  | none => rfl
  | some e => obtain ⟨v, x⟩ := e; cases v <;> rfl

theorem c01_setVal_get (db : Db) (k : Bytes) (v : Value) :
    (db.setVal k v).get k = some { val := v, exp := (db.get k).bind (·.exp) } := by
  unfold Db.setVal; rw [Db.get_put_same]

theorem c01_setVal_other (db : Db) {k k' : Bytes} (v : Value) (h : k' ≠ k) : (db.setVal k v).get k' = db.get k' := by
  unfold Db.setVal; rw [Db.get_put_other _ _ h]

/-! ### (1) bytes in, bytes out -/

/-- the reply of GET is a function of the visible entry alone -/
theorem c01_get_reply (env : Env) (db : Db) (n k : Bytes) :
    (cmdGet env db [n, k]).1 = match c01_vis env.now (db.get k) with
      | none => nil
      | some e => (match e.val with | .str b => bulk b | _ => wrongType) := by
  simp only [cmdGet]
  rw [← c01_check_get]
  generalize (checkTTL db env.now k).1 = D
  unfold getStr
  cases D.get k with
  | none => rfl
  | some e => obtain ⟨v, x⟩ := e; cases v <;> rfl

/-- **Binary safety and case sensitivity.**  For all byte strings `k`, `v` (every byte value, any length, the empty string included)
    and every keyspace in which `k` is missing, expired or holds a string: `SET k v` answers OK and stores exactly `v`; a later `GET k`
    (at any clock reading: the entry has no deadline) answers exactly `bulk v`; and GET of every other key `k'` — any byte string that
    differs from `k` in any byte, e.g. only in letter case — answers what it answered before. -/
theorem c01_bytes_unchanged (env env' : Env) (db : Db) (name name' k v : Bytes)
    (hk : getStr (checkTTL db env.now k).1 k ≠ some none) :
    (cmdSet env db [name, k, v]).1 = ok ∧
    (cmdSet env db [name, k, v]).2.get k = some { val := .str v, exp := none } ∧
    (cmdGet env' (cmdSet env db [name, k, v]).2 [name', k]).1 = bulk v ∧
    ∀ k', k' ≠ k → (cmdGet env' (cmdSet env db [name, k, v]).2 [name', k']).1 = (cmdGet env' db [name', k']).1 := by
  rw [set_replaces_deadline env db name k v hk]
  refine ⟨rfl, Db.get_put_same _ _ _, ?_, ?_⟩
  · rw [c01_get_reply, Db.get_put_same, c01_vis_noexp]
  · intro k' hne
    rw [c01_get_reply, c01_get_reply, Db.get_put_other _ _ hne, checkTTL_other db env.now hne]

/-! ### (2) WRONGTYPE changes nothing -/

theorem c01_wrong_pre {db : Db} {k : Bytes} {e : Entry} {now : Int} (hg : db.get k = some e) (hl : e.liveAt now = true)
    (hs : ∀ b, e.val ≠ .str b) : checkTTL db now k = (db, true) ∧ getStr db k = some none := by
  refine ⟨c01_check_live hg hl, ?_⟩
  unfold getStr
  rw [hg]
  obtain ⟨v, x⟩ := e
  cases v with
  | str b => exact absurd rfl (hs b)
  | _ => rfl


/-- **A string command on a live key of another type answers WRONGTYPE and the database is literally the same list afterwards**
    (not merely live-equal: nothing was expired, nothing written).  Covers every command of the family that type-tests its key, for
    all well-formed argument lists (ill-formed ones are rejected before the key is looked at: `c01_set_rejected`,
    `c01_setrange_bad_offset`, `c01_counter_cmds`). -/
theorem c01_wrongtype_nochange (env : Env) (db : Db) (k : Bytes) (e : Entry) (hg : db.get k = some e)
    (hl : e.liveAt env.now = true) (hs : ∀ b, e.val ≠ .str b) :
    (∀ n, cmdGet env db [n, k] = (wrongType, db)) ∧
    (∀ n s t, cmdGetRange env db [n, k, s, t] = (wrongType, db)) ∧
    (∀ n off v o, parseI64 off = some (.ofNat o) → cmdSetRange env db [n, k, off, v] = (wrongType, db)) ∧
    (∀ n, cmdStrLen env db [n, k] = (wrongType, db)) ∧
    (∀ n v, cmdAppend env db [n, k, v] = (wrongType, db)) ∧
    (∀ n, cmdIncr env db [n, k] = (wrongType, db)) ∧
    (∀ n, cmdDecr env db [n, k] = (wrongType, db)) ∧
    (∀ n d i, parseI64 d = some i → cmdIncrBy env db [n, k, d] = (wrongType, db)) ∧
    (∀ n d i, parseI64 d = some i → i ≠ minI64 → cmdDecrBy env db [n, k, d] = (wrongType, db)) ∧
    (∀ n d, (env.fl 2).isSome = true → cmdIncrByFloat env db [n, k, d] = (wrongType, db)) ∧
    (∀ n v opts o dl, parseSetOpts opts {} = some o → c01_setOptsOk o = true → setDeadline o env.now = some dl →
        cmdSet env db (n :: k :: v :: opts) = (wrongType, db)) := by
  obtain ⟨h1, h2⟩ := c01_wrong_pre hg hl hs
  refine ⟨?_, ?_, ?_, ?_, ?_, ?_, ?_, ?_, ?_, ?_, ?_⟩
  · intro n; simp only [cmdGet, h1, h2]
  · intro n s t; simp only [cmdGetRange, h1, h2]
  · intro n off v o ho; simp only [cmdSetRange, ho, h1, h2]
  · intro n; simp only [cmdStrLen, h1, h2]
  · intro n v; simp only [cmdAppend, h1, h2]
  · intro n; simp only [cmdIncr, incrBy, h1, h2]
  · intro n; simp only [cmdDecr, incrBy, h1, h2]
  · intro n d i hd; simp only [cmdIncrBy, hd, incrBy, h1, h2]
  · intro n d i hd hne
    have : (i == minI64) = false := by simpa using hne
    simp only [cmdDecrBy, hd, this, incrBy, h1, h2]; rfl
  · intro n d hf
    cases hfl : env.fl 2 with
    | none => simp [hfl] at hf
    | some x => simp only [cmdIncrByFloat, hfl, h1, h2]
  · intro n v opts o dl hp hv hd
    have hv' : ((o.nx && o.xx) || decide (o.nexp > 1) || (o.keepttl && decide (o.nexp > 0))) = false := by
      have := hv; unfold c01_setOptsOk at this; exact (Bool.not_eq_true' _).mp this
    simp only [cmdSet, hp, hv', hd, h1, h2]; rfl

/-! ### (3) SET and its options -/

/-- **SET, all options at once.**  With a well-formed option list (`parseSetOpts` succeeds, no conflict, expire time valid) the
    command does exactly this, where `D` is the database after the expiry check of `k` and `old` the string it shows there:
    wrong type → WRONGTYPE, `D` unchanged.  Otherwise the write is *refused* iff (NX and the key exists) or (XX and it does not);
    the reply is the old value (nil if none) under GET, else nil when refused, else OK; a refused SET leaves `D`; an accepted one
    stores exactly `v` with the deadline `dl` the options ask for, or the key's current deadline under KEEPTTL. -/
theorem c01_set_spec (env : Env) (db : Db) (n k v : Bytes) (opts : List Bytes) (o : SetOpts) (dl : Option Int)
    (hp : parseSetOpts opts {} = some o) (hv : c01_setOptsOk o = true) (hd : setDeadline o env.now = some dl) :
    cmdSet env db (n :: k :: v :: opts) =
      match getStr (checkTTL db env.now k).1 k with
      | some none => (wrongType, (checkTTL db env.now k).1)
      | old =>
        let refused := (o.nx && old.isSome) || (o.xx && !old.isSome)
        (if o.get then .bulk (old.bind id) else if refused then nil else ok,
         if refused then (checkTTL db env.now k).1
         else (checkTTL db env.now k).1.put k
           { val := .str v, exp := if o.keepttl then ((checkTTL db env.now k).1.get k).bind (·.exp) else dl }) := by
  have hv' : ((o.nx && o.xx) || decide (o.nexp > 1) || (o.keepttl && decide (o.nexp > 0))) = false := by
    have := hv; unfold c01_setOptsOk at this; exact (Bool.not_eq_true' _).mp this
  simp only [cmdSet, hp, hv', hd]
  generalize (checkTTL db env.now k).1 = D
  cases getStr D k with
  | none => simp; split <;> rfl
  | some ob =>
    cases ob with
    | none => rfl
    | some b => simp; split <;> rfl

/-- SET is rejected without touching the database — not even the expiry check runs — when the option list is malformed, options
    conflict (NX with XX, two expiry options, KEEPTTL with an expiry option), or the expire time is not positive / overflows -/
theorem c01_set_rejected (env : Env) (db : Db) (n k v : Bytes) (opts : List Bytes) :
    (parseSetOpts opts {} = none → cmdSet env db (n :: k :: v :: opts) = (errSyntax, db)) ∧
    (∀ o, parseSetOpts opts {} = some o → c01_setOptsOk o = false → cmdSet env db (n :: k :: v :: opts) = (errSyntax, db)) ∧
    (∀ o, parseSetOpts opts {} = some o → c01_setOptsOk o = true → setDeadline o env.now = none →
      (cmdSet env db (n :: k :: v :: opts)).1.isErr = true ∧ (cmdSet env db (n :: k :: v :: opts)).2 = db) := by
  refine ⟨?_, ?_, ?_⟩
  · intro hp; simp only [cmdSet, hp]
  · intro o hp hv
    have hv' : ((o.nx && o.xx) || decide (o.nexp > 1) || (o.keepttl && decide (o.nexp > 0))) = true := by
      have := hv; unfold c01_setOptsOk at this
      generalize ((o.nx && o.xx) || decide (o.nexp > 1) || (o.keepttl && decide (o.nexp > 0))) = b at this
      cases b <;> simp_all
    simp only [cmdSet, hp, hv']; rfl
  · intro o hp hv hd
    have hv' : ((o.nx && o.xx) || decide (o.nexp > 1) || (o.keepttl && decide (o.nexp > 0))) = false := by
      have := hv; unfold c01_setOptsOk at this; exact (Bool.not_eq_true' _).mp this
    simp only [cmdSet, hp, hv', hd]; exact ⟨rfl, rfl⟩

/-- the deadline the expiry options install: EX s → now+s, PX ms → now + ms/1000 (whole seconds), EXAT t → t, none → no deadline;
    a non-positive amount (or EX overflowing int64) is invalid -/
theorem c01_set_deadline (o : SetOpts) (now : Int) :
    (∀ s, o.ex = some s → setDeadline o now = if s ≤ 0 ∨ inI64 (now + s) = false then none else some (some (now + s))) ∧
    (∀ ms, o.ex = none → o.px = some ms → setDeadline o now = if ms ≤ 0 then none else some (some (now + ms / 1000))) ∧
    (∀ t, o.ex = none → o.px = none → o.exat = some t → setDeadline o now = if t ≤ 0 then none else some (some t)) ∧
    (o.ex = none → o.px = none → o.exat = none → setDeadline o now = some none) := by
  refine ⟨?_, ?_, ?_, ?_⟩
  · intro s h; simp only [setDeadline, h]; by_cases h1 : s ≤ 0 <;> cases h2 : inI64 (now + s) <;> simp [h1]
  · intro ms h1 h2; simp only [setDeadline, h1, h2]
  · intro t h1 h2 h3; simp only [setDeadline, h1, h2, h3]
  · intro h1 h2 h3; simp only [setDeadline, h1, h2, h3]

/-! the option words (any letter case) and what the scanner makes of them -/

theorem c01_w_nx : ofStr "nx" = [110, 120] := by decide +kernel
theorem c01_w_xx : ofStr "xx" = [120, 120] := by decide +kernel
theorem c01_w_get : ofStr "get" = [103, 101, 116] := by decide +kernel
theorem c01_w_keepttl : ofStr "keepttl" = [107, 101, 101, 112, 116, 116, 108] := by decide +kernel
theorem c01_w_ex : ofStr "ex" = [101, 120] := by decide +kernel
theorem c01_w_px : ofStr "px" = [112, 120] := by decide +kernel
theorem c01_w_exat : ofStr "exat" = [101, 120, 97, 116] := by decide +kernel

/-- one scanner step per option word; the word is compared after ASCII lower-casing, so `NX`, `nx`, `Nx` are the same option -/
theorem c01_parse_word (w : Bytes) (rest : List Bytes) (o : SetOpts) :
    (lower w = ofStr "nx" → parseSetOpts (w :: rest) o = parseSetOpts rest { o with nx := true }) ∧
    (lower w = ofStr "xx" → parseSetOpts (w :: rest) o = parseSetOpts rest { o with xx := true }) ∧
    (lower w = ofStr "get" → parseSetOpts (w :: rest) o = parseSetOpts rest { o with get := true }) ∧
    (lower w = ofStr "keepttl" → parseSetOpts (w :: rest) o = parseSetOpts rest { o with keepttl := true }) ∧
    (∀ a rest' x, lower w = ofStr "ex" → rest = a :: rest' → parseI64 a = some x →
        parseSetOpts (w :: rest) o = parseSetOpts rest' { o with ex := some x, nexp := o.nexp + 1 }) ∧
    (∀ a rest' x, lower w = ofStr "px" → rest = a :: rest' → parseI64 a = some x →
        parseSetOpts (w :: rest) o = parseSetOpts rest' { o with px := some x, nexp := o.nexp + 1 }) ∧
    (∀ a rest' x, lower w = ofStr "exat" → rest = a :: rest' → parseI64 a = some x →
        parseSetOpts (w :: rest) o = parseSetOpts rest' { o with exat := some x, nexp := o.nexp + 1 }) := by
  refine ⟨?_, ?_, ?_, ?_, ?_, ?_, ?_⟩
  · intro h; rw [parseSetOpts.eq_def]; simp only [h, c01_w_nx, c01_w_xx, c01_w_get, c01_w_keepttl, c01_w_ex, c01_w_px, c01_w_exat]; rfl
  · intro h; rw [parseSetOpts.eq_def]; simp only [h, c01_w_nx, c01_w_xx, c01_w_get, c01_w_keepttl, c01_w_ex, c01_w_px, c01_w_exat]; rfl
  · intro h; rw [parseSetOpts.eq_def]; simp only [h, c01_w_nx, c01_w_xx, c01_w_get, c01_w_keepttl, c01_w_ex, c01_w_px, c01_w_exat]; rfl
  · intro h; rw [parseSetOpts.eq_def]; simp only [h, c01_w_nx, c01_w_xx, c01_w_get, c01_w_keepttl, c01_w_ex, c01_w_px, c01_w_exat]; rfl
  · intro a rest' x h hr hx; subst hr; rw [parseSetOpts.eq_def]
    simp only [h, hx, c01_w_nx, c01_w_xx, c01_w_get, c01_w_keepttl, c01_w_ex, c01_w_px, c01_w_exat]; rfl
  · intro a rest' x h hr hx; subst hr; rw [parseSetOpts.eq_def]
    simp only [h, hx, c01_w_nx, c01_w_xx, c01_w_get, c01_w_keepttl, c01_w_ex, c01_w_px, c01_w_exat]; rfl
  · intro a rest' x h hr hx; subst hr; rw [parseSetOpts.eq_def]
    simp only [h, hx, c01_w_nx, c01_w_xx, c01_w_get, c01_w_keepttl, c01_w_ex, c01_w_px, c01_w_exat]; rfl

/-- `SET k v NX` writes iff the key is missing (reply OK; nil and no change when it exists) -/
theorem c01_set_nx (env : Env) (db : Db) (n k v w : Bytes) (hw : lower w = ofStr "nx") :
    cmdSet env db [n, k, v, w] =
      match getStr (checkTTL db env.now k).1 k with
      | some none => (wrongType, (checkTTL db env.now k).1)
      | none => (ok, (checkTTL db env.now k).1.put k { val := .str v, exp := none })
      | some (some _) => (nil, (checkTTL db env.now k).1) := by
  have hp : parseSetOpts [w] {} = some { nx := true } := by rw [(c01_parse_word w [] {}).1 hw]; rfl
  rw [c01_set_spec env db n k v [w] _ none hp rfl rfl]
  cases getStr (checkTTL db env.now k).1 k with
  | none => rfl
  | some ob => cases ob <;> rfl

/-- `SET k v XX` writes iff the key exists (reply OK; nil and no change when it is missing) -/
theorem c01_set_xx (env : Env) (db : Db) (n k v w : Bytes) (hw : lower w = ofStr "xx") :
    cmdSet env db [n, k, v, w] =
      match getStr (checkTTL db env.now k).1 k with
      | some none => (wrongType, (checkTTL db env.now k).1)
      | none => (nil, (checkTTL db env.now k).1)
      | some (some _) => (ok, (checkTTL db env.now k).1.put k { val := .str v, exp := none }) := by
  have hp : parseSetOpts [w] {} = some { xx := true } := by rw [(c01_parse_word w [] {}).2.1 hw]; rfl
  rw [c01_set_spec env db n k v [w] _ none hp rfl rfl]
  cases getStr (checkTTL db env.now k).1 k with
  | none => rfl
  | some ob => cases ob <;> rfl

/-- `SET k v GET` answers the old value (nil if there was none) and writes -/
theorem c01_set_get (env : Env) (db : Db) (n k v w : Bytes) (hw : lower w = ofStr "get") :
    cmdSet env db [n, k, v, w] =
      match getStr (checkTTL db env.now k).1 k with
      | some none => (wrongType, (checkTTL db env.now k).1)
      | none => (nil, (checkTTL db env.now k).1.put k { val := .str v, exp := none })
      | some (some old) => (bulk old, (checkTTL db env.now k).1.put k { val := .str v, exp := none }) := by
  have hp : parseSetOpts [w] {} = some { get := true } := by rw [(c01_parse_word w [] {}).2.2.1 hw]; rfl
  rw [c01_set_spec env db n k v [w] _ none hp rfl rfl]
  cases getStr (checkTTL db env.now k).1 k with
  | none => rfl
  | some ob => cases ob <;> rfl

/-- `SET k v KEEPTTL` replaces the value and keeps the deadline the key had (none for a new key) -/
theorem c01_set_keepttl (env : Env) (db : Db) (n k v w : Bytes) (hw : lower w = ofStr "keepttl")
    (hk : getStr (checkTTL db env.now k).1 k ≠ some none) :
    cmdSet env db [n, k, v, w] =
      (ok, (checkTTL db env.now k).1.put k { val := .str v, exp := ((checkTTL db env.now k).1.get k).bind (·.exp) }) := by
  have hp : parseSetOpts [w] {} = some { keepttl := true } := by rw [(c01_parse_word w [] {}).2.2.2.1 hw]; rfl
  rw [c01_set_spec env db n k v [w] _ none hp rfl rfl]
  generalize (checkTTL db env.now k).1 = D at *
  cases hq : getStr D k with
  | none => rfl
  | some ob =>
    cases ob with
    | none => exact absurd hq hk
    | some b => rfl

/-- `SET k v EX s` / `PX ms` / `EXAT t` (valid amounts): OK, the value is `v`, the deadline `now+s` / `now+ms/1000` / `t` -/
theorem c01_set_expiry (env : Env) (db : Db) (n k v w a : Bytes) (x : Int) (hx : parseI64 a = some x) (hpos : 0 < x)
    (hk : getStr (checkTTL db env.now k).1 k ≠ some none) :
    (lower w = ofStr "ex" → inI64 (env.now + x) = true →
      cmdSet env db [n, k, v, w, a] = (ok, (checkTTL db env.now k).1.put k { val := .str v, exp := some (env.now + x) })) ∧
    (lower w = ofStr "px" →
      cmdSet env db [n, k, v, w, a] = (ok, (checkTTL db env.now k).1.put k { val := .str v, exp := some (env.now + x / 1000) })) ∧
    (lower w = ofStr "exat" →
      cmdSet env db [n, k, v, w, a] = (ok, (checkTTL db env.now k).1.put k { val := .str v, exp := some x })) := by
  have hn : ¬ x ≤ 0 := by omega
  have fin : ∀ (o : SetOpts) (dl : Option Int), o.nx = false → o.xx = false → o.get = false → o.keepttl = false →
      (match getStr (checkTTL db env.now k).1 k with
      | some none => (wrongType, (checkTTL db env.now k).1)
      | old =>
        let refused := (o.nx && old.isSome) || (o.xx && !old.isSome)
        ((if o.get then .bulk (old.bind id) else if refused then nil else ok : Reply),
         if refused then (checkTTL db env.now k).1
         else (checkTTL db env.now k).1.put k
           { val := .str v, exp := if o.keepttl then ((checkTTL db env.now k).1.get k).bind (·.exp) else dl })) =
      (ok, (checkTTL db env.now k).1.put k { val := .str v, exp := dl }) := by
    intro o dl h1 h2 h3 h4
    generalize (checkTTL db env.now k).1 = D at *
    cases hq : getStr D k with
    | none => simp [h1, h2, h3, h4]
    | some ob =>
      cases ob with
      | none => exact absurd hq hk
      | some b => simp [h1, h2, h3, h4]
  refine ⟨?_, ?_, ?_⟩
  · intro hw hr
    have hp : parseSetOpts [w, a] {} = some { ex := some x, nexp := 1 } := by
      rw [(c01_parse_word w [a] {}).2.2.2.2.1 a [] x hw rfl hx]; rfl
    have hd : setDeadline { ex := some x, nexp := 1 } env.now = some (some (env.now + x)) := by
      simp [setDeadline, hn, hr]
    rw [c01_set_spec env db n k v [w, a] _ _ hp rfl hd]
    exact fin _ _ rfl rfl rfl rfl
  · intro hw
    have hp : parseSetOpts [w, a] {} = some { px := some x, nexp := 1 } := by
      rw [(c01_parse_word w [a] {}).2.2.2.2.2.1 a [] x hw rfl hx]; rfl
    have hd : setDeadline { px := some x, nexp := 1 } env.now = some (some (env.now + x / 1000)) := by
      simp [setDeadline, hn]
    rw [c01_set_spec env db n k v [w, a] _ _ hp rfl hd]
    exact fin _ _ rfl rfl rfl rfl
  · intro hw
    have hp : parseSetOpts [w, a] {} = some { exat := some x, nexp := 1 } := by
      rw [(c01_parse_word w [a] {}).2.2.2.2.2.2 a [] x hw rfl hx]; rfl
    have hd : setDeadline { exat := some x, nexp := 1 } env.now = some (some x) := by
      simp [setDeadline, hn]
    rw [c01_set_spec env db n k v [w, a] _ _ hp rfl hd]
    exact fin _ _ rfl rfl rfl rfl

/-- a non-positive EX amount is an error and changes nothing (same for PX, EXAT: `c01_set_rejected` + `c01_set_deadline`) -/
theorem c01_set_ex_nonpositive (env : Env) (db : Db) (n k v w a : Bytes) (x : Int) (hx : parseI64 a = some x) (hpos : x ≤ 0)
    (hw : lower w = ofStr "ex") :
    (cmdSet env db [n, k, v, w, a]).1.isErr = true ∧ (cmdSet env db [n, k, v, w, a]).2 = db := by
  have hp : parseSetOpts [w, a] {} = some { ex := some x, nexp := 1 } := by
    rw [(c01_parse_word w [a] {}).2.2.2.2.1 a [] x hw rfl hx]; rfl
  exact (c01_set_rejected env db n k v [w, a]).2.2 _ hp rfl (by simp [setDeadline, hpos])

/-- NX together with XX is a syntax error and changes nothing -/
theorem c01_set_nx_xx (env : Env) (db : Db) (n k v w1 w2 : Bytes) (h1 : lower w1 = ofStr "nx") (h2 : lower w2 = ofStr "xx") :
    cmdSet env db [n, k, v, w1, w2] = (errSyntax, db) := by
  have hp : parseSetOpts [w1, w2] {} = some { nx := true, xx := true } := by
    rw [(c01_parse_word w1 [w2] {}).1 h1, (c01_parse_word w2 [] _).2.1 h2]; rfl
  exact (c01_set_rejected env db n k v [w1, w2]).2.1 _ hp rfl

/-! ### (4) counters -/

theorem c01_parseI64_range (b : Bytes) (c : Int) (h : parseI64 b = some c) : minI64 ≤ c ∧ c ≤ maxI64 := by
  have e : (2:Nat)^63 = 9223372036854775808 := by decide
  unfold parseI64 Resp.parseInt at h
  unfold minI64 maxI64
  rw [e] at h
  split at h
  · cases h
  · split at h
    · simp only [Option.bind_eq_some_iff] at h
      obtain ⟨n, _, hn⟩ := h
      split at hn
      · cases hn; omega
      · cases hn
    · split at h <;>
      · simp only [Option.bind_eq_some_iff] at h
        obtain ⟨n, _, hn⟩ := h
        split at hn
        · cases hn; omega
        · cases hn


/-- **Counters are exact or rejected, never wrapped.**  `incrBy` (the body of INCR/DECR/INCRBY/DECRBY) with an int64 `delta`:
    wrong type → WRONGTYPE; a value that is not an integer → error; otherwise the true integer sum `cur + delta` is answered and
    stored as its decimal text when it fits int64, and the command is rejected when it does not.  Every non-writing case returns the
    database after the expiry check unchanged; the write keeps the key's deadline (`Db.setVal`, `c01_setVal_get`). -/
theorem c01_incrBy_spec (env : Env) (db : Db) (k : Bytes) (delta : Int) (hd : minI64 ≤ delta ∧ delta ≤ maxI64) :
    incrBy env db k delta =
      match getStr (checkTTL db env.now k).1 k with
      | some none => (wrongType, (checkTTL db env.now k).1)
      | old =>
        match c01_curInt (old.bind id) with
        | none => (errInt, (checkTTL db env.now k).1)
        | some cur =>
          if minI64 ≤ cur + delta ∧ cur + delta ≤ maxI64
          then (.int (cur + delta), (checkTTL db env.now k).1.setVal k (.str (fmtInt (cur + delta))))
          else (errOverflow, (checkTTL db env.now k).1) := by
  simp only [incrBy]
  generalize (checkTTL db env.now k).1 = D
  have key : ∀ ob : Option Bytes,
      (match (match ob with | none => some 0 | some b => parseI64 b) with
        | none => (errInt, D)
        | some cur => match StrOps.goIncrBy cur delta with
          | none => (errOverflow, D)
          | some n => (.int n, D.setVal k (.str (fmtInt n)))) =
      (match c01_curInt ob with
        | none => (errInt, D)
        | some cur => if minI64 ≤ cur + delta ∧ cur + delta ≤ maxI64
            then (.int (cur + delta), D.setVal k (.str (fmtInt (cur + delta)))) else (errOverflow, D)) := by
    intro ob
    have hr : ∀ cur, c01_curInt ob = some cur → minI64 ≤ cur ∧ cur ≤ maxI64 := by
      intro cur hc
      cases ob with
      | none => simp only [c01_curInt, Option.some.injEq] at hc; subst hc; exact ⟨by decide, by decide⟩
      | some b => exact c01_parseI64_range b cur hc
    show (match c01_curInt ob with | none => _ | some cur => _) = _
    cases hc : c01_curInt ob with
    | none => rfl
    | some cur =>
      have := StrOps.incr_exact_or_rejected cur delta (hr cur hc) hd
      simp only
      rw [this]
      have e1 : StrOps.minI64 = minI64 := rfl
      have e2 : StrOps.maxI64 = maxI64 := rfl
      rw [e1, e2]
      by_cases hin : minI64 ≤ cur + delta ∧ cur + delta ≤ maxI64
      · simp only [if_pos hin]
      · simp only [if_neg hin]
  cases hq : getStr D k with
  | none => exact key none
  | some ob =>
    cases ob with
    | none => rfl
    | some b => exact key (some b)

/-- INCR = +1, DECR = −1, INCRBY d = +d, DECRBY d = −d (DECRBY of −2^63 is rejected outright: its negation is not an int64) -/
theorem c01_counter_cmds (env : Env) (db : Db) (n k : Bytes) :
    cmdIncr env db [n, k] = incrBy env db k 1 ∧ cmdDecr env db [n, k] = incrBy env db k (-1) ∧
    (∀ d i, parseI64 d = some i → cmdIncrBy env db [n, k, d] = incrBy env db k i) ∧
    (∀ d i, parseI64 d = some i → i ≠ minI64 → cmdDecrBy env db [n, k, d] = incrBy env db k (-i)) ∧
    (∀ d, parseI64 d = some minI64 → cmdDecrBy env db [n, k, d] = (errOverflow, db)) ∧
    (∀ d, parseI64 d = none → cmdIncrBy env db [n, k, d] = (errInt, db) ∧ cmdDecrBy env db [n, k, d] = (errInt, db)) := by
  refine ⟨rfl, rfl, ?_, ?_, ?_, ?_⟩
  · intro d i h; simp only [cmdIncrBy, h]
  · intro d i h hne
    have : (i == minI64) = false := by simpa using hne
    simp only [cmdDecrBy, h, this]; rfl
  · intro d h; simp only [cmdDecrBy, h]; rfl
  · intro d h; simp only [cmdIncrBy, cmdDecrBy, h, and_self]

/-- INCRBY on a key showing the integer `cur` (or missing: 0), in the form used most: reply, stored text, deadline, other keys -/
theorem c01_incrby_exact (env : Env) (db : Db) (n k d : Bytes) (i cur : Int) (hd : parseI64 d = some i)
    (hk : getStr (checkTTL db env.now k).1 k ≠ some none)
    (hc : c01_curInt ((getStr (checkTTL db env.now k).1 k).bind id) = some cur) :
    (minI64 ≤ cur + i ∧ cur + i ≤ maxI64 →
      (cmdIncrBy env db [n, k, d]).1 = .int (cur + i) ∧
      (cmdIncrBy env db [n, k, d]).2.get k =
        some { val := .str (fmtInt (cur + i)), exp := ((checkTTL db env.now k).1.get k).bind (·.exp) } ∧
      ∀ k', k' ≠ k → (cmdIncrBy env db [n, k, d]).2.get k' = db.get k') ∧
    (¬ (minI64 ≤ cur + i ∧ cur + i ≤ maxI64) → cmdIncrBy env db [n, k, d] = (errOverflow, (checkTTL db env.now k).1)) := by
  rw [(c01_counter_cmds env db n k).2.2.1 d i hd, c01_incrBy_spec env db k i (c01_parseI64_range d i hd)]
  generalize hD : (checkTTL db env.now k).1 = D at *
  have hoth : ∀ k', k' ≠ k → D.get k' = db.get k' := by intro k' hne; rw [← hD]; exact checkTTL_other db env.now hne
  cases hq : getStr D k with
  | none =>
    rw [hq] at hc
    simp only [Option.bind_none] at hc
    simp only [Option.bind_none, hc]
    constructor
    · intro hin; rw [if_pos hin]
      exact ⟨rfl, c01_setVal_get _ _ _, fun k' hne => by rw [c01_setVal_other _ _ hne]; exact hoth k' hne⟩
    · intro hout; rw [if_neg hout]
  | some ob =>
    cases ob with
    | none => exact absurd hq hk
    | some b =>
      rw [hq] at hc
      simp only [Option.bind_some, id] at hc
      simp only [Option.bind_some, id, hc]
      constructor
      · intro hin; rw [if_pos hin]
        exact ⟨rfl, c01_setVal_get _ _ _, fun k' hne => by rw [c01_setVal_other _ _ hne]; exact hoth k' hne⟩
      · intro hout; rw [if_neg hout]

/-! ### (5) APPEND, STRLEN, GETRANGE, SETRANGE -/

/-- the string a key shows to the string commands: a missing key is the empty string -/
def c01_strOf (db : Db) (k : Bytes) : Bytes := ((getStr db k).bind id).getD []

theorem c01_strOf_missing {db : Db} {k : Bytes} (h : db.get k = none) : c01_strOf db k = [] := by
  simp [c01_strOf, getStr, h]

theorem c01_strOf_str {db : Db} {k : Bytes} {b : Bytes} {x : Option Int} (h : db.get k = some { val := .str b, exp := x }) :
    c01_strOf db k = b := by
  simp [c01_strOf, getStr, h]

/-- STRLEN answers the length of the shown string (0 for a missing key) and writes nothing -/
theorem c01_strlen_spec (env : Env) (db : Db) (n k : Bytes) (hk : getStr (checkTTL db env.now k).1 k ≠ some none) :
    cmdStrLen env db [n, k] = (.int (c01_strOf (checkTTL db env.now k).1 k).length, (checkTTL db env.now k).1) := by
  simp only [cmdStrLen, c01_strOf]
  generalize (checkTTL db env.now k).1 = D at *
  cases hq : getStr D k with
  | none => rfl
  | some ob =>
    cases ob with
    | none => exact absurd hq hk
    | some b => rfl

/-- APPEND stores old ++ v (a missing key starts from the empty string), answers the new length = old length + |v|, and keeps the deadline -/
theorem c01_append_spec (env : Env) (db : Db) (n k v : Bytes) (hk : getStr (checkTTL db env.now k).1 k ≠ some none) :
    cmdAppend env db [n, k, v] =
      (.int ((c01_strOf (checkTTL db env.now k).1 k).length + v.length : Nat),
       (checkTTL db env.now k).1.setVal k (.str (c01_strOf (checkTTL db env.now k).1 k ++ v))) := by
  simp only [cmdAppend, c01_strOf]
  generalize (checkTTL db env.now k).1 = D at *
  cases hq : getStr D k with
  | none => simp
  | some ob =>
    cases ob with
    | none => exact absurd hq hk
    | some b => simp

/-- GETRANGE answers the list-level specification `StrOps.specGetRange` of the shown string (negative indexes count from the end,
    the range is inclusive and clamped; a missing key is the empty string) and writes nothing; the PANIC arm is unreachable -/
theorem c01_getrange_spec (env : Env) (db : Db) (n k s t : Bytes) (i j : Int) (hs : parseI64 s = some i) (ht : parseI64 t = some j)
    (hk : getStr (checkTTL db env.now k).1 k ≠ some none) :
    cmdGetRange env db [n, k, s, t] =
      (bulk (StrOps.specGetRange (c01_strOf (checkTTL db env.now k).1 k) i j), (checkTTL db env.now k).1) := by
  simp only [cmdGetRange, c01_strOf, hs, ht, StrOps.getrange_spec]

/-- the length GETRANGE returns never exceeds the string -/
theorem c01_getrange_length (val : Bytes) (i j : Int) : (StrOps.specGetRange val i j).length ≤ val.length := by
  unfold StrOps.specGetRange
  simp only [List.length_drop, List.length_take]
  omega

/-- SETRANGE: an empty value changes nothing (reply = current length, even for a missing key, which stays missing); otherwise the
    string becomes `StrOps.specSetRange old off v` (zero-padded up to the offset, overwritten, tail kept), the reply is its length
    `max |old| (off + |v|)`, the deadline is kept; a result beyond 512 MB is refused without change -/
theorem c01_setrange_spec (env : Env) (db : Db) (n k off v : Bytes) (o : Nat) (ho : parseI64 off = some (.ofNat o))
    (hk : getStr (checkTTL db env.now k).1 k ≠ some none) :
    (v = [] → cmdSetRange env db [n, k, off, v] =
      (.int (c01_strOf (checkTTL db env.now k).1 k).length, (checkTTL db env.now k).1)) ∧
    (v ≠ [] → o + v.length ≤ maxStrLen → cmdSetRange env db [n, k, off, v] =
      (.int (max (c01_strOf (checkTTL db env.now k).1 k).length (o + v.length) : Nat),
       (checkTTL db env.now k).1.setVal k (.str (StrOps.specSetRange (c01_strOf (checkTTL db env.now k).1 k) o v)))) ∧
    (v ≠ [] → o + v.length > maxStrLen →
      (cmdSetRange env db [n, k, off, v]).1.isErr = true ∧ (cmdSetRange env db [n, k, off, v]).2 = (checkTTL db env.now k).1) := by
  have body : cmdSetRange env db [n, k, off, v] =
      if v.isEmpty then (.int (c01_strOf (checkTTL db env.now k).1 k).length, (checkTTL db env.now k).1)
      else if o + v.length > maxStrLen then (.err (ofStr "ERR string exceeds maximum allowed size (512MB)"), (checkTTL db env.now k).1)
      else (.int (StrOps.specSetRange (c01_strOf (checkTTL db env.now k).1 k) o v).length,
            (checkTTL db env.now k).1.setVal k (.str (StrOps.specSetRange (c01_strOf (checkTTL db env.now k).1 k) o v))) := by
    simp only [cmdSetRange, ho, c01_strOf]
  rw [body]
  refine ⟨?_, ?_, ?_⟩
  · intro hv; subst hv; rfl
  · intro hv hle
    have h1 : v.isEmpty = false := by cases v with | nil => exact absurd rfl hv | cons _ _ => rfl
    have h2 : ¬ o + v.length > maxStrLen := by omega
    simp only [h1, Bool.false_eq_true, if_false, h2, StrOps.setrange_length]
  · intro hv hgt
    have h1 : v.isEmpty = false := by cases v with | nil => exact absurd rfl hv | cons _ _ => rfl
    simp only [h1, Bool.false_eq_true, if_false, hgt, if_true, and_true]
    rfl

/-- a negative or unparsable SETRANGE offset is an error and changes nothing (not even the expiry check runs) -/
theorem c01_setrange_bad_offset (env : Env) (db : Db) (n k off v : Bytes) (h : ∀ o : Nat, parseI64 off ≠ some (.ofNat o)) :
    (cmdSetRange env db [n, k, off, v]).1.isErr = true ∧ (cmdSetRange env db [n, k, off, v]).2 = db := by
  simp only [cmdSetRange, and_true]
  rfl

/-! ### (6) DEL, EXISTS, MGET, MSET, SETNX, SETEX -/

/-- is the key visible at `now` -/
def c01_isLive (now : Int) (db : Db) (k : Bytes) : Bool := (c01_vis now (db.get k)).isSome

theorem c01_isLive_check (now : Int) (db : Db) (k : Bytes) : c01_isLive now (checkTTL db now k).1 = c01_isLive now db := by
  funext k'; unfold c01_isLive; rw [c01_check_vis]

theorem c01_has_check (now : Int) (db : Db) (k : Bytes) : (checkTTL db now k).1.has k = c01_isLive now db k := by
  unfold Db.has c01_isLive; rw [c01_check_get]

/-- EXISTS counts every argument that names a visible key — a key named twice is counted twice — and changes what no key shows -/
theorem c01_existsLoop (now : Int) (ks : List Bytes) : ∀ (db : Db) (n : Nat),
    (existsLoop now db ks n).1 = n + (ks.filter (c01_isLive now db)).length ∧
    ∀ k', c01_vis now ((existsLoop now db ks n).2.get k') = c01_vis now (db.get k') := by
  induction ks with
  | nil => intro db n; exact ⟨rfl, fun _ => rfl⟩
  | cons k ks ih =>
    intro db n
    simp only [existsLoop]
    obtain ⟨h1, h2⟩ := ih (checkTTL db now k).1 (if (checkTTL db now k).1.has k = true then n + 1 else n)
    refine ⟨?_, fun k' => by rw [h2, c01_check_vis]⟩
    rw [h1, c01_isLive_check, c01_has_check, List.filter_cons]
    cases c01_isLive now db k <;> simp <;> omega

theorem c01_exists_spec (env : Env) (db : Db) (n k : Bytes) (ks : List Bytes) :
    (cmdExists env db (n :: k :: ks)).1 = .int (((k :: ks).filter (c01_isLive env.now db)).length : Nat) ∧
    ∀ k', c01_vis env.now ((cmdExists env db (n :: k :: ks)).2.get k') = c01_vis env.now (db.get k') := by
  obtain ⟨h1, h2⟩ := c01_existsLoop env.now (k :: ks) db 0
  simp only [cmdExists]
  exact ⟨by rw [h1]; simp, h2⟩


theorem c01_isLive_del (now : Int) (db : Db) (k : Bytes) :
    c01_isLive now (db.del k) = fun k' => k' != k && c01_isLive now db k' := by
  funext k'
  unfold c01_isLive
  by_cases h : k' = k
  · subst h; simp [Db.get_del_same, c01_vis]
  · rw [Db.get_del_other db h]; simp [h]

/-- DEL: the reply counts the visible keys it removed (`c01_delCount`: a key named twice counts once, see `c01_delCount_distinct`),
    afterwards every named key is missing and every other key shows what it showed -/
theorem c01_delLoop (now : Int) (ks : List Bytes) : ∀ (db : Db) (n : Nat),
    (delLoop now db ks n).1 = n + c01_delCount (c01_isLive now db) ks ∧
    ∀ k', c01_vis now ((delLoop now db ks n).2.get k') = if k' ∈ ks then none else c01_vis now (db.get k') := by
  induction ks with
  | nil => intro db n; exact ⟨rfl, fun _ => by simp [delLoop]⟩
  | cons k ks ih =>
    intro db n
    simp only [delLoop, c01_delCount]
    rw [c01_has_check]
    have hvis : ∀ k', k' ≠ k → c01_vis now (((checkTTL db now k).1.del k).get k') = c01_vis now (db.get k') := by
      intro k' hne; rw [Db.get_del_other _ hne, c01_check_vis]
    cases hl : c01_isLive now db k with
    | true =>
      simp only [if_true]
      obtain ⟨h1, h2⟩ := ih ((checkTTL db now k).1.del k) (n + 1)
      rw [h1, c01_isLive_del, c01_isLive_check]
      refine ⟨by omega, fun k' => ?_⟩
      rw [h2]
      by_cases hk : k' = k
      · subst hk; simp [Db.get_del_same, c01_vis]
      · rw [hvis k' hk]; simp [hk]
    | false =>
      simp only [Bool.false_eq_true, if_false]
      obtain ⟨h1, h2⟩ := ih (checkTTL db now k).1 n
      have hf : c01_isLive now (checkTTL db now k).1 = fun k' => k' != k && c01_isLive now db k' := by
        rw [c01_isLive_check]; funext k'
        by_cases hk : k' = k
        · subst hk; simp [hl]
        · simp [hk]
      rw [h1, hf]
      refine ⟨by omega, fun k' => ?_⟩
      rw [h2, c01_check_vis]
      by_cases hk : k' = k
      · subst hk
        have : c01_vis now (db.get k') = none := by
          unfold c01_isLive at hl; cases h : c01_vis now (db.get k') with
          | none => rfl
          | some e => simp [h] at hl
        simp [this]
      · simp [hk]

theorem c01_del_spec (env : Env) (db : Db) (n k : Bytes) (ks : List Bytes) :
    (cmdDel env db (n :: k :: ks)).1 = .int (c01_delCount (c01_isLive env.now db) (k :: ks) : Nat) ∧
    ∀ k', c01_vis env.now ((cmdDel env db (n :: k :: ks)).2.get k') =
      if k' ∈ k :: ks then none else c01_vis env.now (db.get k') := by
  obtain ⟨h1, h2⟩ := c01_delLoop env.now (k :: ks) db 0
  simp only [cmdDel]
  exact ⟨by rw [h1]; simp, h2⟩


/-- **DEL counts distinct visible keys**: the reply is the number of *different* argument keys that were visible — naming a key
    twice counts it once (`List.eraseDups` keeps the first occurrence of each) -/
theorem c01_delCount_distinct (ks : List Bytes) : ∀ live : Bytes → Bool,
    c01_delCount live ks = ((ks.filter live).eraseDups).length := by
  induction ks with
  | nil => intro live; simp [c01_delCount]
  | cons k ks ih =>
    intro live
    simp only [c01_delCount, List.filter_cons]
    cases hl : live k with
    | true =>
      simp only [if_true, List.eraseDups_cons, List.length_cons, List.filter_filter]
      rw [ih]
      have e : (fun a => (!(a == k)) && live a) = (fun k' => k' != k && live k') := rfl
      rw [e]; omega
    | false =>
      simp only [Bool.false_eq_true, if_false, Nat.zero_add]
      have : (fun k' => k' != k && live k') = live := by
        funext k'; by_cases h : k' = k
        · subst h; simp [hl]
        · simp [h]
      rw [this, ih]

theorem c01_mgetLoop (now : Int) (ks : List Bytes) : ∀ (db : Db) (acc : List Reply),
    (mgetLoop now db ks acc).1 = acc.reverse ++ ks.map (fun k => c01_mgetReply (c01_vis now (db.get k))) ∧
    ∀ k', c01_vis now ((mgetLoop now db ks acc).2.get k') = c01_vis now (db.get k') := by
  induction ks with
  | nil => intro db acc; exact ⟨by simp [mgetLoop], fun _ => rfl⟩
  | cons k ks ih =>
    intro db acc
    simp only [mgetLoop]
    refine ⟨?_, fun k' => by rw [(ih _ _).2, c01_check_vis]⟩
    rw [(ih _ _).1]
    simp only [List.reverse_cons, List.append_assoc, List.singleton_append, List.map_cons, c01_check_vis]
    congr 2
    rw [← c01_check_get]
    generalize (checkTTL db now k).1 = D
    unfold getStr c01_mgetReply
    cases D.get k with
    | none => rfl
    | some e => obtain ⟨v, x⟩ := e; cases v <;> rfl

/-- MGET answers, in argument order, the string each key shows, nil for missing keys and for keys of another type (never WRONGTYPE),
    and changes what no key shows -/
theorem c01_mget_spec (env : Env) (db : Db) (n k : Bytes) (ks : List Bytes) :
    (cmdMGet env db (n :: k :: ks)).1 = arrOf ((k :: ks).map fun k => c01_mgetReply (c01_vis env.now (db.get k))) ∧
    ∀ k', c01_vis env.now ((cmdMGet env db (n :: k :: ks)).2.get k') = c01_vis env.now (db.get k') := by
  obtain ⟨h1, h2⟩ := c01_mgetLoop env.now (k :: ks) db []
  simp only [cmdMGet]
  exact ⟨by rw [h1]; rfl, h2⟩


theorem c01_msetLoop (l : List Bytes) : ∀ (db : Db) (g : Bytes),
    (msetLoop db l).get g = match c01_lastVal l g with
      | some w => some { val := .str w, exp := none }
      | none => db.get g := by
  intro db
  fun_induction msetLoop db l with
  | case1 db k v rest ih =>
    intro g
    rw [ih g, c01_lastVal]
    cases c01_lastVal rest g with
    | some w => rfl
    | none =>
      simp only
      by_cases h : k = g
      · subst h; simp [Db.setFresh, Db.get_put_same]
      · have h' : g ≠ k := fun e => h e.symm
        simp [h, Db.setFresh, Db.get_put_other _ _ h']
  | case2 db l hne =>
    intro g
    rw [c01_lastVal]
    · intro k v rest e; exact hne k v rest e

/-- MSET: OK; every named key afterwards holds the value of the *last* pair naming it, as a string without deadline (whatever it
    held before, any type); every other key is untouched; an odd or empty pair list is an arity error and changes nothing -/
theorem c01_mset_spec (env : Env) (db : Db) (n : Bytes) (rest : List Bytes) :
    (rest.length ≥ 2 ∧ rest.length % 2 = 0 →
      (cmdMSet env db (n :: rest)).1 = ok ∧
      ∀ g, (cmdMSet env db (n :: rest)).2.get g =
        match c01_lastVal rest g with | some w => some { val := .str w, exp := none } | none => db.get g) ∧
    (¬ (rest.length ≥ 2 ∧ rest.length % 2 = 0) → cmdMSet env db (n :: rest) = (errArgs, db)) := by
  constructor
  · intro ⟨h1, h2⟩
    have : (decide (rest.length < 2) || rest.length % 2 != 0) = false := by simp; omega
    simp only [cmdMSet, this, Bool.false_eq_true, if_false]
    exact ⟨trivial, c01_msetLoop rest db⟩
  · intro h
    have : (decide (rest.length < 2) || rest.length % 2 != 0) = true := by simp; omega
    simp only [cmdMSet, this, if_true]

/-- SETNX: 1 and the value is stored (no deadline) iff the key is not visible; 0 and no change otherwise — whatever type it holds -/
theorem c01_setnx_spec (env : Env) (db : Db) (n k v : Bytes) :
    cmdSetNx env db [n, k, v] =
      if c01_isLive env.now db k then (.int 0, (checkTTL db env.now k).1)
      else (.int 1, (checkTTL db env.now k).1.put k { val := .str v, exp := none }) := by
  simp only [cmdSetNx, c01_has_check, Db.setFresh]

/-- SETEX: a positive number of seconds (not overflowing) stores the value with deadline now+s, replacing whatever was there;
    anything else is an error and changes nothing -/
theorem c01_setex_spec (env : Env) (db : Db) (n k secs v : Bytes) :
    (∀ s, parseI64 secs = some s → 0 < s → inI64 (env.now + s) = true →
      cmdSetEx env db [n, k, secs, v] = (ok, db.put k { val := .str v, exp := some (env.now + s) })) ∧
    (∀ s, parseI64 secs = some s → (s ≤ 0 ∨ inI64 (env.now + s) = false) →
      (cmdSetEx env db [n, k, secs, v]).1.isErr = true ∧ (cmdSetEx env db [n, k, secs, v]).2 = db) ∧
    (parseI64 secs = none → cmdSetEx env db [n, k, secs, v] = (errInt, db)) := by
  refine ⟨?_, ?_, ?_⟩
  · intro s hs hp hr
    have : ¬ s ≤ 0 := by omega
    simp [cmdSetEx, hs, this, hr]
  · intro s hs hbad
    have : (decide (s ≤ 0) || !inI64 (env.now + s)) = true := by
      rcases hbad with h | h
      · simp [h]
      · simp [h]
    simp only [cmdSetEx, hs, this, if_true]
    constructor <;> first | rfl | trivial
  · intro h; simp only [cmdSetEx, h]

/-! ### (7) RENAME, TYPE, KEYS -/

/-- RENAME: a source that is not visible → error, nothing changes; same name → OK, nothing changes; otherwise the source's value
    *and deadline* (the whole entry) appear under the new name, replacing whatever was there (any type, any deadline), the old name
    is gone and every other key is untouched -/
theorem c01_rename_spec (env : Env) (db : Db) (n old new : Bytes) :
    (c01_vis env.now (db.get old) = none →
      cmdRename env db [n, old, new] = (.err (ofStr "ERR no such key"), (checkTTL db env.now old).1)) ∧
    (∀ e, c01_vis env.now (db.get old) = some e → old = new → cmdRename env db [n, old, new] = (ok, (checkTTL db env.now old).1)) ∧
    (∀ e, c01_vis env.now (db.get old) = some e → old ≠ new →
      (cmdRename env db [n, old, new]).1 = ok ∧
      (cmdRename env db [n, old, new]).2.get new = some e ∧
      (cmdRename env db [n, old, new]).2.get old = none ∧
      ∀ k', k' ≠ old → k' ≠ new → (cmdRename env db [n, old, new]).2.get k' = db.get k') := by
  refine ⟨?_, ?_, ?_⟩
  · intro h; rw [← c01_check_get] at h; simp only [cmdRename, h]
  · intro e h heq; rw [← c01_check_get] at h
    have : (old == new) = true := by simp [heq]
    simp only [cmdRename, h, this, if_true]
  · intro e h hne; rw [← c01_check_get] at h
    have : (old == new) = false := by simp [hne]
    simp only [cmdRename, h, this, Bool.false_eq_true, if_false]
    refine ⟨trivial, Db.get_put_same _ _ _, ?_, ?_⟩
    · rw [Db.get_put_other _ _ hne, Db.get_del_other _ hne, Db.get_del_same]
    · intro k' h1 h2
      rw [Db.get_put_other _ _ h2, Db.get_del_other _ h2, Db.get_del_other _ h1, checkTTL_other db env.now h1]

/-- TYPE answers the type name of what the key shows ("none" for a key that is not visible) and writes nothing -/
theorem c01_type_spec (env : Env) (db : Db) (n k : Bytes) :
    cmdType env db [n, k] =
      ((match c01_vis env.now (db.get k) with
        | none => .simple (ofStr "none")
        | some e => .simple (ofStr e.val.typeName)), (checkTTL db env.now k).1) := by
  simp only [cmdType]
  rw [← c01_check_get]
  cases (checkTTL db env.now k).1.get k <;> rfl

theorem c01_insertSorted_perm (lt : Bytes → Bytes → Bool) (x : Bytes) (l : List Bytes) : (insertSorted lt x l).Perm (x :: l) := by
  induction l with
  | nil => exact List.Perm.refl _
  | cons y ys ih =>
    simp only [insertSorted]
    split
    · exact List.Perm.refl _
    · exact (List.Perm.cons y ih).trans (List.Perm.swap x y ys)

theorem c01_sortBytes_perm (l : List Bytes) : (sortBytes l).Perm l := by
  unfold sortBytes sortBy
  induction l with
  | nil => exact List.Perm.refl _
  | cons x xs ih => exact (c01_insertSorted_perm _ x _).trans (List.Perm.cons x ih)

theorem c01_mem_keys (l : Db) (k : Bytes) : k ∈ l.keys ↔ (l.get k).isSome = true := by
  unfold Db.keys Db.get
  rw [Option.isSome_map, List.find?_isSome, List.mem_map]
  constructor
  · rintro ⟨p, hp, rfl⟩; exact ⟨p, hp, by simp⟩
  · rintro ⟨p, hp, he⟩; exact ⟨p, hp, by simpa using he⟩

theorem c01_live_get (db : Db) (h : db.WF) (now : Int) (k : Bytes) : (live db now).get k = c01_vis now (db.get k) :=
  get_live db h now k

theorem c01_live_wf {db : Db} (h : db.WF) (now : Int) : (live db now).WF := by
  unfold Db.WF live at *
  exact List.Nodup.sublist (List.Sublist.map _ List.filter_sublist) h

/-- KEYS: the reply lists exactly the visible keys whose name matches the pattern (`GlobEq.m`, the glob matcher of C17), each once,
    in the canonical (sorted) order; the database afterwards is the live view — expired entries dropped, every key shows what it
    showed, nothing else written -/
theorem c01_keys_spec (env : Env) (db : Db) (h : db.WF) (n pat : Bytes) :
    ∃ l : List Bytes, cmdKeys env db [n, pat] = (bulks l, live db env.now) ∧ l.Nodup ∧
      l = sortBytes ((live db env.now).keys.filter fun k => GlobEq.m pat k) ∧
      (∀ k, k ∈ l ↔ (c01_isLive env.now db k = true ∧ GlobEq.m pat k = true)) ∧
      (∀ k, c01_vis env.now ((live db env.now).get k) = c01_vis env.now (db.get k)) := by
  refine ⟨_, rfl, ?_, rfl, ?_, ?_⟩
  · rw [(c01_sortBytes_perm _).nodup_iff]
    have := c01_live_wf h env.now
    unfold Db.WF at this
    exact List.Nodup.sublist List.filter_sublist this
  · intro k
    rw [(c01_sortBytes_perm _).mem_iff, List.mem_filter, c01_mem_keys, c01_live_get db h]
    rfl
  · intro k; rw [c01_live_get db h, c01_vis_idem]

/-! ### (8) the invariant: keys stay unique -/

theorem c01_wf_setVal {db : Db} (h : db.WF) (k : Bytes) (v : Value) : (db.setVal k v).WF := Db.wf_put h k _
theorem c01_wf_setFresh {db : Db} (h : db.WF) (k : Bytes) (v : Value) : (db.setFresh k v).WF := Db.wf_put h k _

theorem c01_wf_msetLoop (l : List Bytes) : ∀ db : Db, db.WF → (msetLoop db l).WF := by
  intro db
  fun_induction msetLoop db l with
  | case1 db k v rest ih => intro h; exact ih (c01_wf_setFresh h k _)
  | case2 db l hne => intro h; exact h

theorem c01_wf_mgetLoop (now : Int) (ks : List Bytes) : ∀ (db : Db) (acc : List Reply), db.WF → (mgetLoop now db ks acc).2.WF := by
  induction ks with
  | nil => intro db acc h; exact h
  | cons k ks ih => intro db acc h; simp only [mgetLoop]; exact ih _ _ (checkTTL_wf db h now k)

theorem c01_wf_delLoop (now : Int) (ks : List Bytes) : ∀ (db : Db) (n : Nat), db.WF → (delLoop now db ks n).2.WF := by
  induction ks with
  | nil => intro db n h; exact h
  | cons k ks ih =>
    intro db n h; simp only [delLoop]
    split
    · exact ih _ _ (Db.wf_del (checkTTL_wf db h now k) k)
    · exact ih _ _ (checkTTL_wf db h now k)

theorem c01_wf_existsLoop (now : Int) (ks : List Bytes) : ∀ (db : Db) (n : Nat), db.WF → (existsLoop now db ks n).2.WF := by
  induction ks with
  | nil => intro db n h; exact h
  | cons k ks ih => intro db n h; simp only [existsLoop]; exact ih _ _ (checkTTL_wf db h now k)

theorem c01_wf_incrBy (env : Env) (db : Db) (k : Bytes) (d : Int) (h : db.WF) : (incrBy env db k d).2.WF := by
  have hc := checkTTL_wf db h env.now k
  unfold incrBy
  rcases hq : checkTTL db env.now k with ⟨D, b⟩
  rw [hq] at hc
  dsimp only
  repeat' split
  all_goals first | exact hc | exact c01_wf_setVal hc _ _

/-- closes the goals left after splitting a command body: the result is `db`, the checked `db`, or a put/del/setVal of it -/
macro "c01_wf_close" h:ident hc:ident : tactic =>
  `(tactic| all_goals (first | exact $h | exact $hc | exact c01_wf_setVal $hc _ _ | exact c01_wf_setFresh $hc _ _ | exact Db.wf_put $hc _ _ | exact Db.wf_put $h _ _))

theorem c01_wf_set (env : Env) (db : Db) (args : List Bytes) (h : db.WF) : (cmdSet env db args).2.WF := by
  unfold cmdSet
  split
  · rename_i k v opts
    have hc := checkTTL_wf db h env.now k
    rcases hq : checkTTL db env.now k with ⟨D, b⟩
    rw [hq] at hc
    dsimp only
    repeat' split
    c01_wf_close h hc
  · exact h

theorem c01_wf_get (env : Env) (db : Db) (args : List Bytes) (h : db.WF) : (cmdGet env db args).2.WF := by
  unfold cmdGet
  split
  · rename_i k
    have hc := checkTTL_wf db h env.now k
    rcases hq : checkTTL db env.now k with ⟨D, b⟩
    rw [hq] at hc
    dsimp only
    repeat' split
    c01_wf_close h hc
  · exact h

theorem c01_wf_getrange (env : Env) (db : Db) (args : List Bytes) (h : db.WF) : (cmdGetRange env db args).2.WF := by
  unfold cmdGetRange
  split
  · rename_i k s e
    have hc := checkTTL_wf db h env.now k
    rcases hq : checkTTL db env.now k with ⟨D, b⟩
    rw [hq] at hc
    dsimp only
    repeat' split
    c01_wf_close h hc
  · exact h

theorem c01_wf_setrange (env : Env) (db : Db) (args : List Bytes) (h : db.WF) : (cmdSetRange env db args).2.WF := by
  unfold cmdSetRange
  split
  · rename_i k off v
    have hc := checkTTL_wf db h env.now k
    rcases hq : checkTTL db env.now k with ⟨D, b⟩
    rw [hq] at hc
    dsimp only
    repeat' split
    c01_wf_close h hc
  · exact h

theorem c01_wf_strlen (env : Env) (db : Db) (args : List Bytes) (h : db.WF) : (cmdStrLen env db args).2.WF := by
  unfold cmdStrLen
  split
  · rename_i k
    have hc := checkTTL_wf db h env.now k
    rcases hq : checkTTL db env.now k with ⟨D, b⟩
    rw [hq] at hc
    dsimp only
    repeat' split
    c01_wf_close h hc
  · exact h

theorem c01_wf_append (env : Env) (db : Db) (args : List Bytes) (h : db.WF) : (cmdAppend env db args).2.WF := by
  unfold cmdAppend
  split
  · rename_i k v
    have hc := checkTTL_wf db h env.now k
    rcases hq : checkTTL db env.now k with ⟨D, b⟩
    rw [hq] at hc
    dsimp only
    repeat' split
    c01_wf_close h hc
  · exact h

theorem c01_wf_incrbyfloat (env : Env) (db : Db) (args : List Bytes) (h : db.WF) : (cmdIncrByFloat env db args).2.WF := by
  unfold cmdIncrByFloat
  split
  · rename_i k d
    have hc := checkTTL_wf db h env.now k
    rcases hq : checkTTL db env.now k with ⟨D, b⟩
    rw [hq] at hc
    dsimp only
    repeat' split
    c01_wf_close h hc
  · exact h

theorem c01_wf_expire (env : Env) (db : Db) (args : List Bytes) (h : db.WF) : (cmdExpire env db args).2.WF := by
  unfold cmdExpire
  split
  · rename_i k secs optl
    have hc := checkTTL_wf db h env.now k
    rcases hq : checkTTL db env.now k with ⟨D, b⟩
    rw [hq] at hc
    dsimp only
    repeat' split
    c01_wf_close h hc
  · exact h

theorem c01_wf_persist (env : Env) (db : Db) (args : List Bytes) (h : db.WF) : (cmdPersist env db args).2.WF := by
  unfold cmdPersist
  split
  · rename_i k
    have hc := checkTTL_wf db h env.now k
    rcases hq : checkTTL db env.now k with ⟨D, b⟩
    rw [hq] at hc
    dsimp only
    repeat' split
    c01_wf_close h hc
  · exact h

theorem c01_wf_ttl (env : Env) (db : Db) (args : List Bytes) (h : db.WF) : (cmdTTL env db args).2.WF := by
  unfold cmdTTL
  split
  · rename_i k
    have hc := checkTTL_wf db h env.now k
    rcases hq : checkTTL db env.now k with ⟨D, b⟩
    rw [hq] at hc
    dsimp only
    repeat' split
    c01_wf_close h hc
  · exact h

theorem c01_wf_type (env : Env) (db : Db) (args : List Bytes) (h : db.WF) : (cmdType env db args).2.WF := by
  unfold cmdType
  split
  · rename_i k
    have hc := checkTTL_wf db h env.now k
    rcases hq : checkTTL db env.now k with ⟨D, b⟩
    rw [hq] at hc
    dsimp only
    repeat' split
    c01_wf_close h hc
  · exact h

theorem c01_wf_setnx (env : Env) (db : Db) (args : List Bytes) (h : db.WF) : (cmdSetNx env db args).2.WF := by
  unfold cmdSetNx
  split
  · rename_i k v
    have hc := checkTTL_wf db h env.now k
    rcases hq : checkTTL db env.now k with ⟨D, b⟩
    rw [hq] at hc
    dsimp only
    repeat' split
    c01_wf_close h hc
  · exact h

theorem c01_wf_setex (env : Env) (db : Db) (args : List Bytes) (h : db.WF) : (cmdSetEx env db args).2.WF := by
  unfold cmdSetEx
  repeat' split
  all_goals first | exact h | exact Db.wf_put h _ _

theorem c01_wf_rename (env : Env) (db : Db) (args : List Bytes) (h : db.WF) : (cmdRename env db args).2.WF := by
  unfold cmdRename
  split
  · rename_i old new
    have hc := checkTTL_wf db h env.now old
    rcases hq : checkTTL db env.now old with ⟨D, b⟩
    rw [hq] at hc
    dsimp only
    repeat' split
    all_goals first | exact hc | exact Db.wf_put (Db.wf_del (Db.wf_del hc _) _) _ _
  · exact h

/-- **Every command of the string/key table keeps the keys of the association list unique**, for all argument lists (any arity, any
    bytes), clock readings, observed replies and float bits.  `Db.WF` is what makes the physical list and the function-style view
    interchangeable (`get_live`, `c01_keys_spec`). -/
theorem c01_commands_preserve_wf : ∀ p ∈ stringKeyTable, ∀ (env : Env) (db : Db) (args : List Bytes),
    db.WF → (p.2 env db args).2.WF := by
  intro p hp env db args h
  simp only [stringKeyTable, List.mem_cons, List.not_mem_nil, or_false] at hp
  rcases hp with rfl | rfl | rfl | rfl | rfl | rfl | rfl | rfl | rfl | rfl | rfl | rfl | rfl | rfl | rfl | rfl | rfl | rfl | rfl |
    rfl | rfl | rfl | rfl | rfl
  · exact c01_wf_set env db args h
  · exact c01_wf_get env db args h
  · exact c01_wf_getrange env db args h
  · exact c01_wf_setrange env db args h
  · show (cmdMGet env db args).2.WF
    unfold cmdMGet; split
    · exact c01_wf_mgetLoop _ _ _ _ h
    · exact h
  · show (cmdMSet env db args).2.WF
    unfold cmdMSet; repeat' split
    all_goals first | exact h | exact c01_wf_msetLoop _ _ h
  · exact c01_wf_setex env db args h
  · exact c01_wf_setnx env db args h
  · exact c01_wf_strlen env db args h
  · show (cmdIncr env db args).2.WF
    unfold cmdIncr; split
    · exact c01_wf_incrBy _ _ _ _ h
    · exact h
  · show (cmdIncrBy env db args).2.WF
    unfold cmdIncrBy; repeat' split
    all_goals first | exact h | exact c01_wf_incrBy _ _ _ _ h
  · show (cmdDecr env db args).2.WF
    unfold cmdDecr; split
    · exact c01_wf_incrBy _ _ _ _ h
    · exact h
  · show (cmdDecrBy env db args).2.WF
    unfold cmdDecrBy; repeat' split
    all_goals first | exact h | exact c01_wf_incrBy _ _ _ _ h
  · exact c01_wf_incrbyfloat env db args h
  · exact c01_wf_append env db args h
  · show (cmdPing env db args).2.WF
    unfold cmdPing; repeat' split
    all_goals exact h
  · show (cmdDel env db args).2.WF
    unfold cmdDel; split
    · exact c01_wf_delLoop _ _ _ _ h
    · exact h
  · show (cmdExists env db args).2.WF
    unfold cmdExists; split
    · exact c01_wf_existsLoop _ _ _ _ h
    · exact h
  · show (cmdKeys env db args).2.WF
    unfold cmdKeys; split
    · exact c01_live_wf h _
    · exact h
  · exact c01_wf_expire env db args h
  · exact c01_wf_persist env db args h
  · exact c01_wf_ttl env db args h
  · exact c01_wf_type env db args h
  · exact c01_wf_rename env db args h

end Exec

/-! ### (9) refinement: the model, run step by step, is the reference semantics -/
namespace C01
open Exec Resp

/-- same reply, and the results show the same -/
def Sim (now : Int) (m : Reply × Db) (s : Reply × KS) : Prop := m.1 = s.1 ∧ Rel m.2 now s.2

theorem rel_check {db : Db} {now : Int} {ks : KS} (h : Rel db now ks) (k : Bytes) : Rel (checkTTL db now k).1 now ks :=
  ⟨checkTTL_wf db h.1 now k, fun k' => by rw [c01_check_vis]; exact h.2 k'⟩

theorem rel_get {db : Db} {now : Int} {ks : KS} (h : Rel db now ks) (k : Bytes) : (checkTTL db now k).1.get k = ks.at now k := by
  rw [c01_check_get]; exact h.2 k

theorem rel_str {db : Db} {now : Int} {ks : KS} (h : Rel db now ks) (k : Bytes) :
    getStr (checkTTL db now k).1 k = ks.str now k := by
  rw [c01_getStr_eq, rel_get h]; rfl

theorem rel_put {D : Db} {now : Int} {ks : KS} (h : Rel D now ks) (k : Bytes) (e : Entry) :
    Rel (D.put k e) now (ks.set k (some e)) := by
  refine ⟨Db.wf_put h.1 k e, fun k' => ?_⟩
  by_cases hk : k' = k
  · subst hk; rw [Db.get_put_same]; simp [KS.set]
  · rw [Db.get_put_other _ _ hk]; simp only [KS.set, if_neg hk]; exact h.2 k'

theorem rel_del {D : Db} {now : Int} {ks : KS} (h : Rel D now ks) (k : Bytes) : Rel (D.del k) now (ks.set k none) := by
  refine ⟨Db.wf_del h.1 k, fun k' => ?_⟩
  by_cases hk : k' = k
  · subst hk; rw [Db.get_del_same]; simp [KS.set]
  · rw [Db.get_del_other _ hk]; simp only [KS.set, if_neg hk]; exact h.2 k'

theorem rel_setVal {D : Db} {now : Int} {ks : KS} {k : Bytes} (h : Rel D now ks) (hg : D.get k = ks.at now k) (v : Value) :
    Rel (D.setVal k v) now (ks.setVal now k v) := by
  unfold Db.setVal KS.setVal; rw [hg]; exact rel_put h k _

/-- time passing keeps the relation: both sides only hide more, and the same -/
theorem rel_mono {db : Db} {now now' : Int} {ks : KS} (h : Rel db now ks) (hle : now ≤ now') : Rel db now' ks :=
  ⟨h.1, fun k => by rw [← c01_vis_mono hle (db.get k), ← c01_vis_mono hle (ks k), h.2 k]⟩

theorem sim_get (env : Env) (db : Db) (ks : KS) (args : List Bytes) (h : Rel db env.now ks) :
    Sim env.now (cmdGet env db args) (specGet env ks args) := by
  match args with
  | [n, k] =>
    have hc := rel_check h k
    simp only [cmdGet, specGet, rel_str h]
    cases ks.str env.now k with
    | none => exact ⟨rfl, hc⟩
    | some o => cases o <;> exact ⟨rfl, hc⟩
  | [] | [_] | _ :: _ :: _ :: _ => exact ⟨rfl, h⟩

theorem sim_strlen (env : Env) (db : Db) (ks : KS) (args : List Bytes) (h : Rel db env.now ks) :
    Sim env.now (cmdStrLen env db args) (specStrLen env ks args) := by
  match args with
  | [n, k] =>
    have hc := rel_check h k
    simp only [cmdStrLen, specStrLen, rel_str h]
    cases ks.str env.now k with
    | none => exact ⟨rfl, hc⟩
    | some o => cases o <;> exact ⟨rfl, hc⟩
  | [] | [_] | _ :: _ :: _ :: _ => exact ⟨rfl, h⟩

theorem sim_append (env : Env) (db : Db) (ks : KS) (args : List Bytes) (h : Rel db env.now ks) :
    Sim env.now (cmdAppend env db args) (specAppend env ks args) := by
  match args with
  | [n, k, v] =>
    have hc := rel_check h k
    have hg := rel_get h k
    simp only [cmdAppend, specAppend, rel_str h]
    cases ks.str env.now k with
    | none => exact ⟨by simp, rel_setVal hc hg _⟩
    | some o =>
      cases o with
      | none => exact ⟨rfl, hc⟩
      | some b => exact ⟨by simp, rel_setVal hc hg _⟩
  | [] | [_] | [_, _] | _ :: _ :: _ :: _ :: _ => exact ⟨rfl, h⟩

theorem sim_getrange (env : Env) (db : Db) (ks : KS) (args : List Bytes) (h : Rel db env.now ks) :
    Sim env.now (cmdGetRange env db args) (specGetRange env ks args) := by
  match args with
  | [n, k, s, e] =>
    have hc := rel_check h k
    simp only [cmdGetRange, specGetRange, rel_str h, StrOps.getrange_spec]
    cases ks.str env.now k with
    | none => cases parseI64 s <;> cases parseI64 e <;> exact ⟨rfl, hc⟩
    | some o =>
      cases o with
      | none => exact ⟨rfl, hc⟩
      | some b => cases parseI64 s <;> cases parseI64 e <;> exact ⟨rfl, hc⟩
  | [] | [_] | [_, _] | [_, _, _] | _ :: _ :: _ :: _ :: _ :: _ => exact ⟨rfl, h⟩

theorem sim_setrange (env : Env) (db : Db) (ks : KS) (args : List Bytes) (h : Rel db env.now ks) :
    Sim env.now (cmdSetRange env db args) (specSetRange env ks args) := by
  match args with
  | [n, k, off, v] =>
    have hc := rel_check h k
    have hg := rel_get h k
    simp only [cmdSetRange, specSetRange]
    cases parseI64 off with
    | none => exact ⟨rfl, h⟩
    | some i =>
      cases i with
      | negSucc m => exact ⟨rfl, h⟩
      | ofNat o =>
        simp only [rel_str h, StrOps.setrange_length]
        have fin : ∀ old : Bytes, Sim env.now
            (if v.isEmpty = true then (Reply.int old.length, (checkTTL db env.now k).1)
             else if o + v.length > maxStrLen then
               (.err (ofStr "ERR string exceeds maximum allowed size (512MB)"), (checkTTL db env.now k).1)
             else (.int (max old.length (o + v.length) : Nat),
                   (checkTTL db env.now k).1.setVal k (.str (StrOps.specSetRange old o v))))
            (if v.isEmpty = true then (Reply.int old.length, ks)
             else if o + v.length > maxStrLen then (.err (ofStr "ERR string exceeds maximum allowed size (512MB)"), ks)
             else (.int (max old.length (o + v.length) : Nat), ks.setVal env.now k (.str (StrOps.specSetRange old o v)))) := by
          intro old
          split
          · exact ⟨rfl, hc⟩
          · split
            · exact ⟨rfl, hc⟩
            · exact ⟨rfl, rel_setVal hc hg _⟩
        cases ks.str env.now k with
        | none => exact fin _
        | some ob =>
          cases ob with
          | none => exact ⟨rfl, hc⟩
          | some b => exact fin _
  | [] | [_] | [_, _] | [_, _, _] | _ :: _ :: _ :: _ :: _ :: _ => exact ⟨rfl, h⟩

theorem sim_incrBy (env : Env) (db : Db) (ks : KS) (k : Bytes) (delta : Int) (hd : minI64 ≤ delta ∧ delta ≤ maxI64)
    (h : Rel db env.now ks) : Sim env.now (incrBy env db k delta) (specIncrBy env ks k delta) := by
  have hc := rel_check h k
  have hg := rel_get h k
  rw [c01_incrBy_spec env db k delta hd]
  simp only [specIncrBy, rel_str h]
  have fin : ∀ ci : Option Int, Sim env.now
      (match ci with
        | none => (errInt, (checkTTL db env.now k).1)
        | some cur =>
          if minI64 ≤ cur + delta ∧ cur + delta ≤ maxI64
          then (.int (cur + delta), (checkTTL db env.now k).1.setVal k (.str (fmtInt (cur + delta))))
          else (errOverflow, (checkTTL db env.now k).1))
      (match ci with
        | none => (errInt, ks)
        | some cur =>
          if minI64 ≤ cur + delta ∧ cur + delta ≤ maxI64
          then (.int (cur + delta), ks.setVal env.now k (.str (fmtInt (cur + delta))))
          else (errOverflow, ks)) := by
    intro ci
    cases ci with
    | none => exact ⟨rfl, hc⟩
    | some cur =>
      dsimp only
      split
      · exact ⟨rfl, rel_setVal hc hg _⟩
      · exact ⟨rfl, hc⟩
  cases ks.str env.now k with
  | none => exact fin (c01_curInt ((none : Option (Option Bytes)).bind id))
  | some o =>
    cases o with
    | none => exact ⟨rfl, hc⟩
    | some b => exact fin (c01_curInt ((some (some b) : Option (Option Bytes)).bind id))

theorem sim_incr (env : Env) (db : Db) (ks : KS) (args : List Bytes) (h : Rel db env.now ks) :
    Sim env.now (cmdIncr env db args) (specIncr env ks args) := by
  match args with
  | [n, k] => exact sim_incrBy env db ks k 1 (by decide) h
  | [] | [_] | _ :: _ :: _ :: _ => exact ⟨rfl, h⟩

theorem sim_decr (env : Env) (db : Db) (ks : KS) (args : List Bytes) (h : Rel db env.now ks) :
    Sim env.now (cmdDecr env db args) (specDecr env ks args) := by
  match args with
  | [n, k] => exact sim_incrBy env db ks k (-1) (by decide) h
  | [] | [_] | _ :: _ :: _ :: _ => exact ⟨rfl, h⟩

theorem sim_incrby (env : Env) (db : Db) (ks : KS) (args : List Bytes) (h : Rel db env.now ks) :
    Sim env.now (cmdIncrBy env db args) (specIncrByCmd env ks args) := by
  match args with
  | [n, k, d] =>
    simp only [cmdIncrBy, specIncrByCmd]
    cases hp : parseI64 d with
    | none => exact ⟨rfl, h⟩
    | some i => exact sim_incrBy env db ks k i (c01_parseI64_range d i hp) h
  | [] | [_] | [_, _] | _ :: _ :: _ :: _ :: _ => exact ⟨rfl, h⟩

theorem sim_decrby (env : Env) (db : Db) (ks : KS) (args : List Bytes) (h : Rel db env.now ks) :
    Sim env.now (cmdDecrBy env db args) (specDecrByCmd env ks args) := by
  match args with
  | [n, k, d] =>
    simp only [cmdDecrBy, specDecrByCmd]
    cases hp : parseI64 d with
    | none => exact ⟨rfl, h⟩
    | some i =>
      dsimp only
      by_cases hm : i = minI64
      · have : (i == minI64) = true := by simp [hm]
        simp only [this, if_true, if_pos hm]; exact ⟨rfl, h⟩
      · have : (i == minI64) = false := by simp [hm]
        simp only [this, Bool.false_eq_true, if_false, if_neg hm]
        have hr := c01_parseI64_range d i hp
        refine sim_incrBy env db ks k (-i) ?_ h
        unfold minI64 maxI64 at *; omega
  | [] | [_] | [_, _] | _ :: _ :: _ :: _ :: _ => exact ⟨rfl, h⟩

theorem sim_incrbyfloat (env : Env) (db : Db) (ks : KS) (args : List Bytes) (h : Rel db env.now ks) :
    Sim env.now (cmdIncrByFloat env db args) (specIncrByFloat env ks args) := by
  match args with
  | [n, k, d] =>
    have hc := rel_check h k
    have hg := rel_get h k
    simp only [cmdIncrByFloat, specIncrByFloat]
    cases env.fl 2 with
    | none => exact ⟨rfl, h⟩
    | some x =>
      simp only [rel_str h]
      have fin : ∀ (c : Bool) (hg' : Bool), Sim env.now
          (if (!c) = true then (errFloat, (checkTTL db env.now k).1)
           else if (flExp x == 2047) = true then (Reply.err (ofStr "ERR increment would produce NaN or Infinity"), (checkTTL db env.now k).1)
           else match env.obs with
             | some (.bulk (some r)) =>
               if looksDecimal r = true then (bulk r, (checkTTL db env.now k).1.setVal k (.str r))
               else (rejectObs env.obs "INCRBYFLOAT result is not a finite decimal", (checkTTL db env.now k).1)
             | some (.err e) =>
               if ((decide (flExp x ≥ 2045) || hg') && !isWrongType e) = true then (Reply.err e, (checkTTL db env.now k).1)
               else (rejectObs env.obs "INCRBYFLOAT must succeed", (checkTTL db env.now k).1)
             | _ => (rejectObs env.obs "INCRBYFLOAT answers a bulk string", (checkTTL db env.now k).1))
          (if (!c) = true then (errFloat, ks)
           else if (flExp x == 2047) = true then (Reply.err (ofStr "ERR increment would produce NaN or Infinity"), ks)
           else match env.obs with
             | some (.bulk (some r)) =>
               if looksDecimal r = true then (bulk r, ks.setVal env.now k (.str r))
               else (rejectObs env.obs "INCRBYFLOAT result is not a finite decimal", ks)
             | some (.err e) =>
               if ((decide (flExp x ≥ 2045) || hg') && !isWrongType e) = true then (Reply.err e, ks)
               else (rejectObs env.obs "INCRBYFLOAT must succeed", ks)
             | _ => (rejectObs env.obs "INCRBYFLOAT answers a bulk string", ks)) := by
        intro c hg'
        by_cases h1 : (!c) = true
        · simp only [h1, if_true]; exact ⟨rfl, hc⟩
        · simp only [h1, if_false]
          by_cases h2 : (flExp x == 2047) = true
          · simp only [h2, if_true]; exact ⟨rfl, hc⟩
          · simp only [h2, if_false]
            cases env.obs with
            | none => exact ⟨rfl, hc⟩
            | some r =>
              cases r with
              | bulk o =>
                cases o with
                | none => exact ⟨rfl, hc⟩
                | some r =>
                  by_cases h3 : looksDecimal r = true
                  · simp only [h3, if_true]; exact ⟨rfl, rel_setVal hc hg _⟩
                  · simp only [h3, if_false]; exact ⟨rfl, hc⟩
              | err e =>
                by_cases h4 : ((decide (flExp x ≥ 2045) || hg') && !isWrongType e) = true
                · simp only [h4, if_true]; exact ⟨rfl, hc⟩
                · simp only [h4, if_false]; exact ⟨rfl, hc⟩
              | simple _ => exact ⟨rfl, hc⟩
              | int _ => exact ⟨rfl, hc⟩
              | arr _ => exact ⟨rfl, hc⟩
      cases ks.str env.now k with
      | none => exact fin true false
      | some o =>
        cases o with
        | none => exact ⟨rfl, hc⟩
        | some b => exact fin (looksDecimal b) (hugeDecimal b)
  | [] | [_] | [_, _] | _ :: _ :: _ :: _ :: _ => exact ⟨rfl, h⟩

theorem sim_setnx (env : Env) (db : Db) (ks : KS) (args : List Bytes) (h : Rel db env.now ks) :
    Sim env.now (cmdSetNx env db args) (specSetNx env ks args) := by
  match args with
  | [n, k, v] =>
    have hc := rel_check h k
    simp only [cmdSetNx, specSetNx, Db.has, rel_get h, Db.setFresh]
    split
    · exact ⟨rfl, hc⟩
    · exact ⟨rfl, rel_put hc _ _⟩
  | [] | [_] | [_, _] | _ :: _ :: _ :: _ :: _ => exact ⟨rfl, h⟩

theorem sim_setex (env : Env) (db : Db) (ks : KS) (args : List Bytes) (h : Rel db env.now ks) :
    Sim env.now (cmdSetEx env db args) (specSetEx env ks args) := by
  match args with
  | [n, k, secs, v] =>
    simp only [cmdSetEx, specSetEx]
    cases parseI64 secs with
    | none => exact ⟨rfl, h⟩
    | some s =>
      dsimp only
      split
      · exact ⟨rfl, h⟩
      · exact ⟨rfl, rel_put h _ _⟩
  | [] | [_] | [_, _] | [_, _, _] | _ :: _ :: _ :: _ :: _ :: _ => exact ⟨rfl, h⟩

theorem sim_type (env : Env) (db : Db) (ks : KS) (args : List Bytes) (h : Rel db env.now ks) :
    Sim env.now (cmdType env db args) (specType env ks args) := by
  match args with
  | [n, k] =>
    have hc := rel_check h k
    simp only [cmdType, specType, rel_get h]
    cases ks.at env.now k <;> exact ⟨rfl, hc⟩
  | [] | [_] | _ :: _ :: _ :: _ => exact ⟨rfl, h⟩

theorem sim_ttl (env : Env) (db : Db) (ks : KS) (args : List Bytes) (h : Rel db env.now ks) :
    Sim env.now (cmdTTL env db args) (specTTL env ks args) := by
  match args with
  | [n, k] =>
    have hc := rel_check h k
    simp only [cmdTTL, specTTL, rel_get h]
    cases ks.at env.now k with
    | none => exact ⟨rfl, hc⟩
    | some e => obtain ⟨v, x⟩ := e; cases x <;> exact ⟨rfl, hc⟩
  | [] | [_] | _ :: _ :: _ :: _ => exact ⟨rfl, h⟩

theorem sim_persist (env : Env) (db : Db) (ks : KS) (args : List Bytes) (h : Rel db env.now ks) :
    Sim env.now (cmdPersist env db args) (specPersist env ks args) := by
  match args with
  | [n, k] =>
    have hc := rel_check h k
    simp only [cmdPersist, specPersist, rel_get h]
    cases ks.at env.now k with
    | none => exact ⟨rfl, hc⟩
    | some e =>
      dsimp only
      split
      · exact ⟨rfl, rel_put hc _ _⟩
      · exact ⟨rfl, hc⟩
  | [] | [_] | _ :: _ :: _ :: _ => exact ⟨rfl, h⟩

theorem sim_rename (env : Env) (db : Db) (ks : KS) (args : List Bytes) (h : Rel db env.now ks) :
    Sim env.now (cmdRename env db args) (specRename env ks args) := by
  match args with
  | [n, old, new] =>
    have hc := rel_check h old
    simp only [cmdRename, specRename, rel_get h]
    cases ks.at env.now old with
    | none => exact ⟨rfl, hc⟩
    | some e =>
      dsimp only
      by_cases hq : old = new
      · have : (old == new) = true := by simp [hq]
        simp only [this, if_true, if_pos hq]; exact ⟨rfl, hc⟩
      · have : (old == new) = false := by simp [hq]
        simp only [this, Bool.false_eq_true, if_false, if_neg hq]
        refine ⟨rfl, ?_⟩
        have h1 := rel_del hc old
        have h2 := rel_put h1 new e
        refine ⟨Db.wf_put (Db.wf_del h1.1 new) new e, fun k' => ?_⟩
        have := h2.2 k'
        by_cases hk : k' = new
        · subst hk; rw [Db.get_put_same]; rw [Db.get_put_same] at this; exact this
        · rw [Db.get_put_other _ _ hk, Db.get_del_other _ hk]; rw [Db.get_put_other _ _ hk] at this; exact this
  | [] | [_] | [_, _] | _ :: _ :: _ :: _ :: _ => exact ⟨rfl, h⟩

theorem sim_ping (env : Env) (db : Db) (ks : KS) (args : List Bytes) (h : Rel db env.now ks) :
    Sim env.now (cmdPing env db args) (specPing env ks args) := by
  match args with
  | [] | [_] | [_, _] | _ :: _ :: _ :: _ => exact ⟨rfl, h⟩

theorem sim_set (env : Env) (db : Db) (ks : KS) (args : List Bytes) (h : Rel db env.now ks) :
    Sim env.now (cmdSet env db args) (specSet env ks args) := by
  match args with
  | n :: k :: v :: opts =>
    have hc := rel_check h k
    have hg := rel_get h k
    cases hp : parseSetOpts opts {} with
    | none =>
      rw [(c01_set_rejected env db n k v opts).1 hp]; simp only [specSet, hp]; exact ⟨rfl, h⟩
    | some o =>
      cases hv : c01_setOptsOk o with
      | false =>
        rw [(c01_set_rejected env db n k v opts).2.1 o hp hv]
        simp only [specSet, hp, hv, Bool.not_false, if_true]; exact ⟨rfl, h⟩
      | true =>
        cases hd : setDeadline o env.now with
        | none =>
          have hv' : ((o.nx && o.xx) || decide (o.nexp > 1) || (o.keepttl && decide (o.nexp > 0))) = false := by
            have := hv; unfold c01_setOptsOk at this; exact (Bool.not_eq_true' _).mp this
          simp only [cmdSet, specSet, hp, hv, hv', hd, Bool.not_true, Bool.false_eq_true, if_false]; exact ⟨rfl, h⟩
        | some dl =>
          rw [c01_set_spec env db n k v opts o dl hp hv hd]
          simp only [specSet, hp, hv, hd, rel_str h, hg, Bool.not_true, Bool.false_eq_true, if_false]
          have fin : ∀ (c : Bool) (r : Reply) (e : Entry), Sim env.now
              (r, if c = true then (checkTTL db env.now k).1 else (checkTTL db env.now k).1.put k e)
              (r, if c = true then ks else ks.set k (some e)) := by
            intro c r e
            cases c
            · exact ⟨rfl, rel_put hc k e⟩
            · exact ⟨rfl, hc⟩
          cases ks.str env.now k with
          | none => exact fin _ _ _
          | some ob =>
            cases ob with
            | none => exact ⟨rfl, hc⟩
            | some b => exact fin _ _ _
  | [] | [_] | [_, _] => exact ⟨rfl, h⟩

theorem wf_of_op (op : Op) (env : Env) (db : Db) (args : List Bytes) (h : db.WF) : (op.model env db args).2.WF :=
  c01_commands_preserve_wf (op.name, op.model) (by cases op <;> simp [stringKeyTable, Op.name, Op.model]) env db args h

theorem live_eq {db : Db} {now : Int} {ks : KS} (h : Rel db now ks) :
    c01_isLive now db = fun k => (ks.at now k).isSome := by
  funext k; unfold c01_isLive KS.at; rw [h.2 k]

theorem sim_mget (env : Env) (db : Db) (ks : KS) (args : List Bytes) (h : Rel db env.now ks) :
    Sim env.now (cmdMGet env db args) (specMGet env ks args) := by
  match args with
  | n :: k :: rest =>
    obtain ⟨h1, h2⟩ := c01_mget_spec env db n k rest
    refine ⟨?_, wf_of_op .mget env db _ h.1, fun g => by rw [h2 g]; exact h.2 g⟩
    rw [h1]; simp only [specMGet, KS.at, h.2]
  | [] | [_] => exact ⟨rfl, h⟩

theorem sim_mset (env : Env) (db : Db) (ks : KS) (args : List Bytes) (h : Rel db env.now ks) :
    Sim env.now (cmdMSet env db args) (specMSet env ks args) := by
  match args with
  | n :: rest =>
    by_cases hc : (decide (rest.length < 2) || rest.length % 2 != 0) = true
    · simp only [cmdMSet, specMSet, hc, if_true]; exact ⟨rfl, h⟩
    · have hc' := Bool.eq_false_iff.mpr hc
      have hw := wf_of_op .mset env db (n :: rest) h.1
      simp only [Op.model, cmdMSet, hc', Bool.false_eq_true, if_false] at hw
      simp only [cmdMSet, specMSet, hc', Bool.false_eq_true, if_false]
      refine ⟨rfl, hw, fun g => ?_⟩
      rw [c01_msetLoop]
      dsimp only
      cases c01_lastVal rest g with
      | none => exact h.2 g
      | some w => rfl
  | [] => exact ⟨rfl, h⟩

theorem sim_del (env : Env) (db : Db) (ks : KS) (args : List Bytes) (h : Rel db env.now ks) :
    Sim env.now (cmdDel env db args) (specDel env ks args) := by
  match args with
  | n :: k :: rest =>
    obtain ⟨h1, h2⟩ := c01_del_spec env db n k rest
    refine ⟨?_, wf_of_op .del env db _ h.1, fun g => ?_⟩
    · rw [h1, live_eq h]; rfl
    · rw [h2 g]
      show _ = c01_vis env.now (if g ∈ k :: rest then none else ks g)
      by_cases hm : g ∈ k :: rest
      · simp only [if_pos hm]; rfl
      · simp only [if_neg hm]; exact h.2 g
  | [] | [_] => exact ⟨rfl, h⟩

theorem sim_exists (env : Env) (db : Db) (ks : KS) (args : List Bytes) (h : Rel db env.now ks) :
    Sim env.now (cmdExists env db args) (specExists env ks args) := by
  match args with
  | n :: k :: rest =>
    obtain ⟨h1, h2⟩ := c01_exists_spec env db n k rest
    refine ⟨?_, wf_of_op .exists env db _ h.1, fun g => by rw [h2 g]; exact h.2 g⟩
    rw [h1, live_eq h]; rfl
  | [] | [_] => exact ⟨rfl, h⟩

theorem sim_keys (env : Env) (db : Db) (ks : KS) (args : List Bytes) (h : Rel db env.now ks) :
    SpecKeys env ks args (cmdKeys env db args).1 ks ∧ Rel (cmdKeys env db args).2 env.now ks := by
  match args with
  | [n, pat] =>
    have hl : Rel (live db env.now) env.now ks :=
      ⟨c01_live_wf h.1 _, fun k => by rw [c01_live_get db h.1, c01_vis_idem]; exact h.2 k⟩
    refine ⟨⟨rfl, (live db env.now).keys.filter (fun k => GlobEq.m pat k), rfl, ?_, ?_⟩, hl⟩
    · have := c01_live_wf h.1 env.now
      unfold Db.WF at this
      exact List.Nodup.sublist List.filter_sublist this
    · intro k
      rw [List.mem_filter, c01_mem_keys, c01_live_get db h.1, h.2 k]
      rfl
  | [] | [_] | _ :: _ :: _ :: _ => exact ⟨⟨rfl, rfl⟩, h⟩

theorem sim_expire (env : Env) (db : Db) (ks : KS) (args : List Bytes) (h : Rel db env.now ks) :
    Sim env.now (cmdExpire env db args) (specExpire env ks args) := by
  match args with
  | n :: k :: secs :: optl =>
    have hc := rel_check h k
    by_cases h1 : optl.length > 1
    · simp only [cmdExpire, specExpire, h1, if_true]; exact ⟨rfl, h⟩
    · cases hs : parseI64 secs with
      | none => simp only [cmdExpire, specExpire, h1, if_false, hs]; exact ⟨rfl, h⟩
      | some s =>
        simp only [cmdExpire, specExpire, h1, if_false, hs, rel_get h, expireActs]
        split
        · exact ⟨rfl, h⟩
        · split
          · exact ⟨rfl, h⟩
          · cases ks.at env.now k with
            | none => exact ⟨rfl, hc⟩
            | some e =>
              have fin : ∀ (c : Bool) (e' : Entry), Sim env.now
                  (if c = true then (Reply.int 1, (checkTTL db env.now k).1.put k e') else (Reply.int 0, (checkTTL db env.now k).1))
                  (if c = true then (Reply.int 1, ks.set k (some e')) else (Reply.int 0, ks)) := by
                intro c e'
                cases c
                · exact ⟨rfl, hc⟩
                · exact ⟨rfl, rel_put hc _ _⟩
              exact fin _ _
  | [] | [_] | [_, _] => exact ⟨rfl, h⟩

theorem of_sim {now : Int} {m : Reply × Db} {s : Reply × KS} (hs : Sim now m s) : ∃ ks', (m.1, ks') = s ∧ Rel m.2 now ks' :=
  ⟨s.2, by rw [hs.1], hs.2⟩

/-- **one step**: whatever the operation, arguments, clock reading, observed reply: from related states the model's reply is one the
    reference semantics prescribes and the resulting states are related again -/
theorem step_refines (op : Op) (env : Env) (db : Db) (ks : KS) (args : List Bytes) (h : Rel db env.now ks) :
    ∃ ks', SpecStep op env ks args (op.model env db args).1 ks' ∧ Rel (op.model env db args).2 env.now ks' := by
  cases op
  · exact of_sim (sim_set env db ks args h)
  · exact of_sim (sim_get env db ks args h)
  · exact of_sim (sim_getrange env db ks args h)
  · exact of_sim (sim_setrange env db ks args h)
  · exact of_sim (sim_mget env db ks args h)
  · exact of_sim (sim_mset env db ks args h)
  · exact of_sim (sim_setex env db ks args h)
  · exact of_sim (sim_setnx env db ks args h)
  · exact of_sim (sim_strlen env db ks args h)
  · exact of_sim (sim_incr env db ks args h)
  · exact of_sim (sim_incrby env db ks args h)
  · exact of_sim (sim_decr env db ks args h)
  · exact of_sim (sim_decrby env db ks args h)
  · exact of_sim (sim_incrbyfloat env db ks args h)
  · exact of_sim (sim_append env db ks args h)
  · exact of_sim (sim_ping env db ks args h)
  · exact of_sim (sim_del env db ks args h)
  · exact of_sim (sim_exists env db ks args h)
  · exact ⟨ks, sim_keys env db ks args h⟩
  · exact of_sim (sim_expire env db ks args h)
  · exact of_sim (sim_persist env db ks args h)
  · exact of_sim (sim_ttl env db ks args h)
  · exact of_sim (sim_type env db ks args h)
  · exact of_sim (sim_rename env db ks args h)

/-- **C01, whole programs.**  Every program over the 24 string/key operations — any arguments, arities and bytes, any observed
    replies and float bits, clock readings that never go backwards — run on the model from a database related to a reference
    keyspace: the reply list is one the reference semantics produces step by step, and the final states are related. -/
theorem c01_refines (prog : List Step) : ∀ (t : Int) (db : Db) (ks : KS), Rel db t ks → clockOk t prog →
    ∃ ks', SpecRun ks prog (run db prog).1 ks' ∧ Rel (run db prog).2 (lastNow t prog) ks' := by
  induction prog with
  | nil => intro t db ks h _; exact ⟨ks, SpecRun.nil ks, h⟩
  | cons s rest ih =>
    intro t db ks h hck
    obtain ⟨hle, hrest⟩ := hck
    obtain ⟨ks1, hs, hr⟩ := step_refines s.op s.env db ks s.argv (rel_mono h hle)
    obtain ⟨ks2, hrun, hrel⟩ := ih s.env.now _ ks1 hr hrest
    exact ⟨ks2, SpecRun.cons hs hrun, hrel⟩

theorem rel_empty (t : Int) : Rel [] t (fun _ => none) := ⟨Db.wf_nil, fun _ => rfl⟩

/-- the command table is exactly the 24 operations of the reference semantics, under their names -/
theorem table_is_ops : stringKeyTable = Op.all.map (fun o => (o.name, o.model)) := rfl

end C01

namespace Exec
theorem C01_holds : C01_statement := ⟨C01.table_is_ops, C01.rel_empty, C01.c01_refines⟩
end Exec

/-! ### the hypotheses are satisfiable -/
namespace Exec
open C01
open Resp (Reply Bytes)

/-- a key and a value made of bytes that mean something to RESP, C strings and UTF-8 decoders: NUL, CR, LF, 0xFF, and the empty value -/
def c01_exK : Bytes := [0, 13, 10, 255, 65]
def c01_exV : Bytes := [255, 0, 10]

/-- `c01_bytes_unchanged` applies on the empty keyspace (the key is missing), and on a keyspace where the key holds a string -/
example : getStr (checkTTL [] 7 c01_exK).1 c01_exK ≠ some none ∧
    getStr (checkTTL [(c01_exK, { val := .str [1] })] 7 c01_exK).1 c01_exK ≠ some none := by decide

example : (cmdGet { now := 99 } (cmdSet { now := 7 } [] [[], c01_exK, c01_exV]).2 [[], c01_exK]).1 = bulk c01_exV :=
  (c01_bytes_unchanged { now := 7 } { now := 99 } [] [] [] c01_exK c01_exV (by decide)).2.2.1

/-- the empty value is stored and returned as the empty bulk string, not nil -/
example : (cmdGet { now := 7 } (cmdSet { now := 7 } [] [[], c01_exK, []]).2 [[], c01_exK]).1 = .bulk (some []) :=
  (c01_bytes_unchanged { now := 7 } { now := 7 } [] [] [] c01_exK [] (by decide)).2.2.1

/-- keys are case-sensitive: after `SET a v`, `GET A` still answers nil (`a` = 97, `A` = 65) -/
example : (cmdGet { now := 7 } (cmdSet { now := 7 } [] [[], [97], c01_exV]).2 [[], [65]]).1 = nil :=
  (c01_bytes_unchanged { now := 7 } { now := 7 } [] [] [] [97] c01_exV (by decide)).2.2.2 [65] (by decide)

/-- a live list under the key: the hypotheses of `c01_wrongtype_nochange` hold -/
example : let e : Entry := { val := .list [[1]], exp := some 100 }
    Db.get [(c01_exK, e)] c01_exK = some e ∧ e.liveAt 7 = true ∧ ∀ b, e.val ≠ .str b := by
  refine ⟨by decide, by decide, fun b => by simp⟩

/-- option words are matched in any letter case: `NX`, `nx`, `Nx` -/
example : lower [78, 88] = ofStr "nx" ∧ lower [110, 120] = ofStr "nx" ∧ lower [78, 120] = ofStr "nx" := by decide +kernel

/-- INCR of a missing key answers 1 -/
example : (cmdIncr { now := 0 } [] [[], c01_exK]).1 = .int 1 := by
  rw [(c01_counter_cmds { now := 0 } [] [] c01_exK).1, c01_incrBy_spec _ _ _ _ (by decide)]
  rfl

/-- a two-step program with a non-decreasing clock, started from the empty keyspace: `c01_refines` applies -/
example : clockOk 0 [⟨.set, { now := 1 }, [[], c01_exK, c01_exV]⟩, ⟨.get, { now := 5 }, [[], c01_exK]⟩] ∧
    Rel [] 0 (fun _ => none) := ⟨⟨by decide, by decide, trivial⟩, rel_empty 0⟩

/-- DEL counts a key named twice once, EXISTS counts it twice -/
example : c01_delCount (fun k => k == [1]) [[1], [1], [2]] = 1 ∧ ([[1], [1], [2]].filter (fun k => k == [1])).length = 2 := by decide

#print axioms C01_holds
#print axioms c01_bytes_unchanged
#print axioms c01_wrongtype_nochange
#print axioms c01_set_spec
#print axioms c01_set_rejected
#print axioms c01_set_deadline
#print axioms c01_parse_word
#print axioms c01_set_nx
#print axioms c01_set_xx
#print axioms c01_set_get
#print axioms c01_set_keepttl
#print axioms c01_set_expiry
#print axioms c01_incrBy_spec
#print axioms c01_counter_cmds
#print axioms c01_incrby_exact
#print axioms c01_strlen_spec
#print axioms c01_append_spec
#print axioms c01_getrange_spec
#print axioms c01_setrange_spec
#print axioms c01_del_spec
#print axioms c01_delCount_distinct
#print axioms c01_exists_spec
#print axioms c01_mget_spec
#print axioms c01_mset_spec
#print axioms c01_setnx_spec
#print axioms c01_setex_spec
#print axioms c01_rename_spec
#print axioms c01_type_spec
#print axioms c01_keys_spec
#print axioms c01_commands_preserve_wf
#print axioms C01.step_refines
#print axioms C01.c01_refines
end Exec
