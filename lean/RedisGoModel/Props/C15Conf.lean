import Mathlib.Tactic.Tauto
import RedisGoModel.Raft.RQJoint
/-! C15, Stage D (first step): the quorum layer — theorems about the definitions of `Raft/RQJoint.lean` that `RaftDriver.lean`
    runs against etcd's `quorum.MajorityConfig` / `quorum.JointConfig`.

    Vocabulary.  A *quorum* of a majority config `c` is any set of nodes whose members in `c` are a strict majority of `c`.
    Sets of nodes are given by predicates (`Maj c p`: `|c| < 2·|{id ∈ c | p id}|`), so the same notion covers vote sets
    (`p id := votes id = some true`), ack sets (`p id := k ≤ acked id`) and explicit finite sets (`IsQuorum c q`).
    quorum.go's convention "the empty config is satisfied by everything" is `MajOrEmpty`; a *joint quorum* satisfies both halves
    (`JointMaj`).  The Changer theorems are in `Props/C15ConfChanger.lean`. -/
namespace RQJ

/-- the members of `c` that satisfy `p` are a strict majority of `c` (so `c` is non-empty) -/
def Maj (c : Finset Nat) (p : Nat → Prop) [DecidablePred p] : Prop := c.card < 2 * (c.filter p).card

/-- the same for an explicit set of nodes `q` (which may contain nodes outside `c`) -/
def IsQuorum (c q : Finset Nat) : Prop := Maj c (· ∈ q)

/-- quorum.go: an empty `MajorityConfig` is satisfied by any set -/
def MajOrEmpty (c : Finset Nat) (p : Nat → Prop) [DecidablePred p] : Prop := c = ∅ ∨ Maj c p

/-- a joint quorum: a quorum of the incoming AND of the outgoing config (an empty half imposes nothing) -/
def JointMaj (j : JointConfig) (p : Nat → Prop) [DecidablePred p] : Prop := MajOrEmpty j.incoming p ∧ MajOrEmpty j.outgoing p

def IsJointQuorum (j : JointConfig) (q : Finset Nat) : Prop := JointMaj j (· ∈ q)

instance (c : Finset Nat) (p : Nat → Prop) [DecidablePred p] : Decidable (Maj c p) := by unfold Maj; infer_instance
instance (c q : Finset Nat) : Decidable (IsQuorum c q) := by unfold IsQuorum; infer_instance

theorem Maj.nonempty {c : Finset Nat} {p : Nat → Prop} [DecidablePred p] (h : Maj c p) : c ≠ ∅ := by
  rintro rfl; simp [Maj] at h

theorem maj_mono {c : Finset Nat} {p p' : Nat → Prop} [DecidablePred p] [DecidablePred p'] (h : Maj c p)
    (hpp : ∀ id ∈ c, p id → p' id) : Maj c p' := by
  unfold Maj at *
  have : (c.filter p).card ≤ (c.filter p').card := by
    apply Finset.card_le_card
    intro x hx
    simp only [Finset.mem_filter] at hx ⊢
    exact ⟨hx.1, hpp x hx.1 hx.2⟩
  omega

/-! ### intersection -/

/-- **any two quorums of the same majority config intersect (inside the config)** -/
theorem majority_overlap (c : Finset Nat) (p p' : Nat → Prop) [DecidablePred p] [DecidablePred p']
    (h : Maj c p) (h' : Maj c p') : ∃ id ∈ c, p id ∧ p' id := by
  by_contra hne
  have hd : Disjoint (c.filter p) (c.filter p') := by
    rw [Finset.disjoint_left]
    intro a ha hb
    simp only [Finset.mem_filter] at ha hb
    exact hne ⟨a, ha.1, ha.2, hb.2⟩
  have hu := Finset.card_union_of_disjoint hd
  have hle : (c.filter p ∪ c.filter p').card ≤ c.card :=
    Finset.card_le_card (Finset.union_subset (Finset.filter_subset _ _) (Finset.filter_subset _ _))
  unfold Maj at h h'
  omega

/-- the set form -/
theorem majority_overlap_sets (c q q' : Finset Nat) (h : IsQuorum c q) (h' : IsQuorum c q') :
    ∃ id, id ∈ q ∧ id ∈ q' ∧ id ∈ c := by
  obtain ⟨id, hc, h1, h2⟩ := majority_overlap c _ _ h h'
  exact ⟨id, h1, h2, hc⟩

theorem symdiff_eq (l r : Finset Nat) : symdiff l r = (l \ r).card + (r \ l).card := by
  unfold symdiff
  congr 2 <;> (ext x; simp [Finset.mem_sdiff])

theorem card_union_sdiff (a b : Finset Nat) : (a ∪ b).card = a.card + (b \ a).card := by
  rw [← Finset.union_sdiff_self_eq_union, Finset.card_union_of_disjoint Finset.disjoint_sdiff]

/-- **the safety argument of `Simple`**: if `c'` differs from `c` in at most one voter (`symdiff ≤ 1`, the test `Simple` makes),
    every quorum of `c` intersects every quorum of `c'`, in a node that is a voter of both -/
theorem single_change_overlap (c c' : Finset Nat) (p p' : Nat → Prop) [DecidablePred p] [DecidablePred p']
    (hd : symdiff c c' ≤ 1) (h : Maj c p) (h' : Maj c' p') : ∃ id, id ∈ c ∧ id ∈ c' ∧ p id ∧ p' id := by
  by_contra hne
  have hdis : Disjoint (c.filter p) (c'.filter p') := by
    rw [Finset.disjoint_left]
    intro a ha hb
    simp only [Finset.mem_filter] at ha hb
    exact hne ⟨a, ha.1, hb.1, ha.2, hb.2⟩
  have hu := Finset.card_union_of_disjoint hdis
  have hle : (c.filter p ∪ c'.filter p').card ≤ (c ∪ c').card := by
    apply Finset.card_le_card
    intro x hx
    simp only [Finset.mem_union, Finset.mem_filter] at hx ⊢
    tauto
  have h1 := card_union_sdiff c c'
  have h2 := card_union_sdiff c' c
  rw [Finset.union_comm] at h2
  rw [symdiff_eq] at hd
  unfold Maj at h h'
  omega

theorem symdiff_insert (c : Finset Nat) (x : Nat) : symdiff c (insert x c) ≤ 1 := by
  rw [symdiff_eq]
  have h1 : c \ insert x c = ∅ := by ext y; simp [Finset.mem_sdiff]; tauto
  have h2 : (insert x c \ c).card ≤ 1 := by
    apply le_trans (Finset.card_le_card (t := {x}) _) (by simp)
    intro y; simp [Finset.mem_sdiff]; tauto
  rw [h1]; simpa using h2

theorem symdiff_comm (a b : Finset Nat) : symdiff a b = symdiff b a := by
  unfold symdiff; omega

theorem symdiff_erase (c : Finset Nat) (x : Nat) : symdiff c (c.erase x) ≤ 1 := by
  rw [symdiff_eq]
  have h1 : c.erase x \ c = ∅ := by ext y; simp [Finset.mem_sdiff]
  have h2 : (c \ c.erase x).card ≤ 1 := by
    apply le_trans (Finset.card_le_card (t := {x}) _) (by simp)
    intro y; simp [Finset.mem_sdiff]; tauto
  rw [h1]; simpa using h2

/-- adding ONE voter -/
theorem single_add_overlap (c : Finset Nat) (x : Nat) (p p' : Nat → Prop) [DecidablePred p] [DecidablePred p']
    (h : Maj c p) (h' : Maj (insert x c) p') : ∃ id ∈ c, p id ∧ p' id := by
  obtain ⟨id, h1, _, h3⟩ := single_change_overlap c (insert x c) p p' (symdiff_insert c x) h h'
  exact ⟨id, h1, h3⟩

/-- removing ONE voter -/
theorem single_remove_overlap (c : Finset Nat) (x : Nat) (p p' : Nat → Prop) [DecidablePred p] [DecidablePred p']
    (h : Maj c p) (h' : Maj (c.erase x) p') : ∃ id ∈ c.erase x, p id ∧ p' id := by
  obtain ⟨id, _, h2, h3⟩ := single_change_overlap c (c.erase x) p p' (symdiff_erase c x) h h'
  exact ⟨id, h2, h3⟩

/-- without the bound the statement fails (two disjoint majorities of `(1 2 3)` and `(3 4 5)`), so `Simple`'s `symdiff ≤ 1` test
    is what the argument rests on -/
example : ∃ (c c' q q' : Finset Nat), symdiff c c' = 4 ∧ IsQuorum c q ∧ IsQuorum c' q' ∧ q ∩ q' = ∅ :=
  ⟨{1, 2, 3}, {3, 4, 5}, {1, 2}, {4, 5}, by decide, by decide, by decide, by decide⟩

/-- **the safety argument of `EnterJoint`/`LeaveJoint`, old side**: a joint quorum of `(cnew, cold)` intersects every quorum of `cold`
    — for arbitrary `cnew`, `cold` (no relation between them is needed) -/
theorem joint_overlap_old (cnew cold : Finset Nat) (p p' : Nat → Prop) [DecidablePred p] [DecidablePred p']
    (h : JointMaj ⟨cnew, cold⟩ p) (h' : Maj cold p') : ∃ id ∈ cold, p id ∧ p' id := by
  rcases h.2 with he | hm
  · exact absurd he h'.nonempty
  · exact majority_overlap cold p p' hm h'

/-- … and every quorum of `cnew` -/
theorem joint_overlap_new (cnew cold : Finset Nat) (p p' : Nat → Prop) [DecidablePred p] [DecidablePred p']
    (h : JointMaj ⟨cnew, cold⟩ p) (h' : Maj cnew p') : ∃ id ∈ cnew, p id ∧ p' id := by
  rcases h.1 with he | hm
  · exact absurd he h'.nonempty
  · exact majority_overlap cnew p p' hm h'

/-- two joint quorums of the same joint config intersect as soon as one half is non-empty -/
theorem joint_overlap_joint (j : JointConfig) (p p' : Nat → Prop) [DecidablePred p] [DecidablePred p']
    (hne : j.incoming ≠ ∅ ∨ j.outgoing ≠ ∅) (h : JointMaj j p) (h' : JointMaj j p') : ∃ id ∈ j.ids, p id ∧ p' id := by
  rcases hne with hne | hne
  · rcases h.1 with he | hm
    · exact absurd he hne
    · rcases h'.1 with he' | hm'
      · exact absurd he' hne
      · obtain ⟨id, hc, hp⟩ := majority_overlap _ p p' hm hm'
        exact ⟨id, by simp [JointConfig.ids, hc], hp⟩
  · rcases h.2 with he | hm
    · exact absurd he hne
    · rcases h'.2 with he' | hm'
      · exact absurd he' hne
      · obtain ⟨id, hc, hp⟩ := majority_overlap _ p p' hm hm'
        exact ⟨id, by simp [JointConfig.ids, hc], hp⟩

/-! ### VoteResult -/

theorem filter_notNo_card (c : Finset Nat) (v : Votes) :
    (c.filter fun id => v id ≠ some false).card =
      (c.filter fun id => v id = some true).card + (c.filter fun id => v id = none).card := by
  rw [← Finset.card_union_of_disjoint]
  · congr 1
    ext x
    simp only [Finset.mem_filter, Finset.mem_union]
    rcases hv : v x with _ | b
    · simp
    · cases b <;> simp
  · rw [Finset.disjoint_left]
    intro a ha hb
    simp only [Finset.mem_filter] at ha hb
    rw [ha.2] at hb
    exact absurd hb.2 (by simp)

theorem ge_half_iff (n k : Nat) : k ≥ n / 2 + 1 ↔ n < 2 * k := by omega

/-- **`VoteWon` ⇔ the yes-votes are a quorum** (or the config is empty) -/
theorem voteResult_won_iff (c : MajorityConfig) (v : Votes) :
    MajorityConfig.voteResult c v = .won ↔ MajOrEmpty c (fun id => v id = some true) := by
  unfold MajorityConfig.voteResult MajOrEmpty Maj
  by_cases hc : c.card = 0
  · simp [Finset.card_eq_zero.mp hc]
  · have hne : c ≠ ∅ := fun h => hc (by simp [h])
    simp only [hc, if_false, hne, false_or]
    rw [← ge_half_iff]
    split
    · simp_all
    · split <;> simp_all

/-- **`VoteLost` ⇔ the yes-votes together with the missing votes can no longer form a quorum** -/
theorem voteResult_lost_iff (c : MajorityConfig) (v : Votes) :
    MajorityConfig.voteResult c v = .lost ↔ ¬ MajOrEmpty c (fun id => v id ≠ some false) := by
  unfold MajorityConfig.voteResult MajOrEmpty Maj
  by_cases hc : c.card = 0
  · simp [Finset.card_eq_zero.mp hc]
  · have hne : c ≠ ∅ := fun h => hc (by simp [h])
    simp only [hc, if_false, hne, false_or]
    rw [filter_notNo_card, ← ge_half_iff]
    split
    · simp only [reduceCtorEq, false_iff, not_not]; omega
    · split <;> simp_all

/-- `VotePending` is the rest: not won, still winnable -/
theorem voteResult_pending_iff (c : MajorityConfig) (v : Votes) :
    MajorityConfig.voteResult c v = .pending ↔
      ¬ MajOrEmpty c (fun id => v id = some true) ∧ MajOrEmpty c (fun id => v id ≠ some false) := by
  have hw := voteResult_won_iff c v
  have hl := voteResult_lost_iff c v
  cases h : MajorityConfig.voteResult c v <;> simp [h] at hw hl ⊢ <;> tauto

/-- joint `VoteWon` ⇔ the yes-votes are a joint quorum -/
theorem joint_voteResult_won_iff (j : JointConfig) (v : Votes) :
    j.voteResult v = .won ↔ JointMaj j (fun id => v id = some true) := by
  unfold JointMaj
  rw [← voteResult_won_iff, ← voteResult_won_iff]
  unfold JointConfig.voteResult
  cases MajorityConfig.voteResult j.incoming v <;> cases MajorityConfig.voteResult j.outgoing v <;> simp

/-- joint `VoteLost` ⇔ yes + missing votes can no longer form a joint quorum (one of the halves is lost) -/
theorem joint_voteResult_lost_iff (j : JointConfig) (v : Votes) :
    j.voteResult v = .lost ↔ ¬ JointMaj j (fun id => v id ≠ some false) := by
  unfold JointMaj
  rw [not_and_or, ← voteResult_lost_iff, ← voteResult_lost_iff]
  unfold JointConfig.voteResult
  cases MajorityConfig.voteResult j.incoming v <;> cases MajorityConfig.voteResult j.outgoing v <;> simp

/-- two candidates cannot both win an election in the same (non-empty) joint config when every node casts one vote:
    `v₁`, `v₂` are the vote maps the two candidates see, no node says yes in both -/
theorem joint_one_winner (j : JointConfig) (v₁ v₂ : Votes) (hne : j.incoming ≠ ∅ ∨ j.outgoing ≠ ∅)
    (hex : ∀ id, ¬ (v₁ id = some true ∧ v₂ id = some true)) :
    ¬ (j.voteResult v₁ = .won ∧ j.voteResult v₂ = .won) := by
  rintro ⟨h1, h2⟩
  rw [joint_voteResult_won_iff] at h1 h2
  obtain ⟨id, _, hp⟩ := joint_overlap_joint j _ _ hne h1 h2
  exact hex id hp

/-! ### CommittedIndex -/

theorem countP_map_eq_card_filter (ids : List Nat) (hnd : ids.Nodup) (f : Nat → Nat) (k : Nat) :
    (ids.map f).countP (fun a => decide (k ≤ a)) = (ids.toFinset.filter fun id => k ≤ f id).card := by
  rw [List.countP_map, List.countP_eq_length_filter, ← List.toFinset_card_of_nodup (hnd.filter _), List.toFinset_filter]
  congr 1
  ext x
  simp

/-- `CommittedIndex` for ANY enumeration of a non-empty config: the value is acked by some voter (or is the 0 of a voter that
    did not report), **a quorum has acked it, and no larger index is acked by a quorum** -/
theorem committedIndexOf_spec (c : MajorityConfig) (ids : List Nat) (hnd : ids.Nodup) (hc : ids.toFinset = c) (l : Acks)
    (hne : c ≠ ∅) :
    ∃ v, MajorityConfig.committedIndexOf ids l = some v ∧ (∃ id ∈ c, ackVal l id = v) ∧
      Maj c (fun id => v ≤ ackVal l id) ∧ ∀ k, Maj c (fun id => k ≤ ackVal l id) → k ≤ v := by
  have hlen : ids.length = c.card := by rw [← hc, List.toFinset_card_of_nodup hnd]
  have hpos : 0 < (ids.map (ackVal l)).length := by
    rw [List.length_map, hlen]; exact Finset.card_pos.mpr (Finset.nonempty_iff_ne_empty.mpr hne)
  have hnil : ids.isEmpty = false := by
    cases ids with
    | nil => simp at hpos
    | cons a r => rfl
  obtain ⟨hmem, hmaj, hmax⟩ := RS.committedIndex_spec (ids.map (ackVal l)) hpos
  refine ⟨RS.committedIndex (ids.map (ackVal l)), by simp [MajorityConfig.committedIndexOf, hnil], ?_, ?_, ?_⟩
  · obtain ⟨id, hid, he⟩ := List.mem_map.mp hmem
    exact ⟨id, by rw [← hc]; exact List.mem_toFinset.mpr hid, he⟩
  · unfold Maj
    rw [countP_map_eq_card_filter ids hnd, hc, List.length_map, hlen] at hmaj
    exact hmaj
  · intro k hk
    apply hmax
    rw [countP_map_eq_card_filter ids hnd, hc, List.length_map, hlen]
    exact hk

theorem sort_nodup_toFinset (c : Finset Nat) : (c.sort (· ≤ ·)).Nodup ∧ (c.sort (· ≤ ·)).toFinset = c :=
  ⟨Finset.sort_nodup _ _, Finset.sort_toFinset _ _⟩

/-- **`MajorityConfig.CommittedIndex` is the largest index acknowledged by a quorum** -/
theorem committedIndex_spec (c : MajorityConfig) (l : Acks) (hne : c ≠ ∅) :
    ∃ v, MajorityConfig.committedIndex c l = some v ∧ (∃ id ∈ c, ackVal l id = v) ∧
      Maj c (fun id => v ≤ ackVal l id) ∧ ∀ k, Maj c (fun id => k ≤ ackVal l id) → k ≤ v :=
  committedIndexOf_spec c _ (sort_nodup_toFinset c).1 (sort_nodup_toFinset c).2 l hne

/-- the empty config: `math.MaxUint64` -/
theorem committedIndex_empty (l : Acks) : MajorityConfig.committedIndex ∅ l = none := by
  simp [MajorityConfig.committedIndex, MajorityConfig.committedIndexOf]

/-- Go ranges over the map in an unspecified order: **every enumeration gives the same index** -/
theorem committedIndexOf_order_irrelevant (c : MajorityConfig) (ids : List Nat) (hnd : ids.Nodup) (hc : ids.toFinset = c) (l : Acks) :
    MajorityConfig.committedIndexOf ids l = MajorityConfig.committedIndex c l := by
  by_cases hne : c = ∅
  · subst hne
    have : ids = [] := by
      cases ids with
      | nil => rfl
      | cons a r => simp at hc
    subst this
    simp [MajorityConfig.committedIndex, MajorityConfig.committedIndexOf]
  · obtain ⟨v, hv, _, hq, hmax⟩ := committedIndexOf_spec c ids hnd hc l hne
    obtain ⟨v', hv', _, hq', hmax'⟩ := committedIndex_spec c l hne
    rw [hv, hv']
    exact congrArg some (Nat.le_antisymm (hmax' v hq) (hmax v' hq'))

/-- the characterisation in one line: `k ≤ CommittedIndex` ⇔ a quorum has acked `k` (every `k` for the empty config) -/
theorem committedIndex_ge_iff (c : MajorityConfig) (l : Acks) (k : Nat) :
    (MajorityConfig.committedIndex c l).ge k ↔ MajOrEmpty c (fun id => k ≤ ackVal l id) := by
  by_cases hne : c = ∅
  · subst hne; simp [committedIndex_empty, Idx.ge, MajOrEmpty]
  · obtain ⟨v, hv, _, hq, hmax⟩ := committedIndex_spec c l hne
    rw [hv]
    simp only [Idx.ge, MajOrEmpty, hne, false_or]
    constructor
    · intro hk
      exact maj_mono hq (fun id _ h => Nat.le_trans hk h)
    · exact hmax k

theorem minIdx_ge (a b : Idx) (k : Nat) : (minIdx a b).ge k ↔ a.ge k ∧ b.ge k := by
  cases a <;> cases b <;> simp only [minIdx, Idx.ge, true_and, and_true]
  split <;> omega

/-- **`JointConfig.CommittedIndex`: `k` is below it ⇔ `k` is acknowledged by a quorum of BOTH halves** -/
theorem joint_committed_ge_iff (j : JointConfig) (l : Acks) (k : Nat) :
    (j.committedIndex l).ge k ↔ JointMaj j (fun id => k ≤ ackVal l id) := by
  unfold JointConfig.committedIndex JointMaj
  rw [minIdx_ge, committedIndex_ge_iff, committedIndex_ge_iff]

/-- … hence it is **the largest index acknowledged by a joint quorum**: when finite, a joint quorum has acked it and no larger
    index has one; it is ∞ exactly when both halves are empty -/
theorem joint_committed_spec (j : JointConfig) (l : Acks) :
    (∀ v, j.committedIndex l = some v →
        JointMaj j (fun id => v ≤ ackVal l id) ∧ ∀ k, JointMaj j (fun id => k ≤ ackVal l id) → k ≤ v) ∧
    (j.committedIndex l = none ↔ j.incoming = ∅ ∧ j.outgoing = ∅) := by
  constructor
  · intro v hv
    constructor
    · rw [← joint_committed_ge_iff, hv]; exact Nat.le_refl v
    · intro k hk
      rw [← joint_committed_ge_iff, hv] at hk
      exact hk
  · unfold JointConfig.committedIndex
    by_cases h0 : j.incoming = ∅ <;> by_cases h1 : j.outgoing = ∅
    · simp [h0, h1, committedIndex_empty, minIdx]
    · obtain ⟨v, hv, _⟩ := committedIndex_spec j.outgoing l h1
      simp [h0, h1, committedIndex_empty, hv, minIdx]
    · obtain ⟨v, hv, _⟩ := committedIndex_spec j.incoming l h0
      simp [h0, h1, committedIndex_empty, hv, minIdx]
    · obtain ⟨v, hv, _⟩ := committedIndex_spec j.incoming l h0
      obtain ⟨v', hv', _⟩ := committedIndex_spec j.outgoing l h1
      simp [h0, h1, hv, hv', minIdx]

/-- a half-populated joint config behaves like its other half (the comment in majority.go) -/
theorem joint_committed_half (c : MajorityConfig) (l : Acks) :
    (JointConfig.mk c ∅).committedIndex l = MajorityConfig.committedIndex c l ∧
    (JointConfig.mk ∅ c).committedIndex l = MajorityConfig.committedIndex c l := by
  unfold JointConfig.committedIndex
  rw [committedIndex_empty]
  cases MajorityConfig.committedIndex c l <;> simp [minIdx]

/-- the hypotheses are satisfiable and the functions compute: `(1 2 3)&&(3 4 5)`, acks 1↦5 2↦7 3↦6 4↦9, 5 silent -/
example : (JointConfig.mk {1, 2, 3} {3, 4, 5}).committedIndex
    (fun id => if id = 1 then some 5 else if id = 2 then some 7 else if id = 3 then some 6 else if id = 4 then some 9 else none) = some 6 := by
  unfold JointConfig.committedIndex
  rw [← committedIndexOf_order_irrelevant {1, 2, 3} [1, 2, 3] (by decide) (by decide),
      ← committedIndexOf_order_irrelevant {3, 4, 5} [3, 4, 5] (by decide) (by decide)]
  decide

example : (JointConfig.mk {1, 2, 3} {3, 4, 5}).voteResult (fun id => if id = 1 ∨ id = 3 then some true else if id = 4 then some false else none)
    = .pending := by decide

#print axioms majority_overlap
#print axioms single_change_overlap
#print axioms joint_overlap_old
#print axioms joint_overlap_new
#print axioms committedIndex_spec
#print axioms joint_committed_spec
#print axioms voteResult_won_iff
#print axioms voteResult_lost_iff
#print axioms joint_voteResult_won_iff
#print axioms joint_voteResult_lost_iff
end RQJ
