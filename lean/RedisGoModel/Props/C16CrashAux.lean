import RedisGoModel.Props.C16ReadAll
import RedisGoModel.Props.C16TornG
/-! C16: helper lemmas for C16Crash.lean — calls that do not cut (their items, explicitly), item prefixes of a history
    as histories (`CallPrefix`), the contract under such prefixes, and the record stream over a chain of intact files
    followed by an arbitrary last file. -/
namespace WalFile
open WalCodec

/-! ### the items of a call that does not cut -/

def callItems : Call → List GItem
| .save st ents => gEntItems ents ++ gStateItems st
| .snap s => snapItems s
| .cut => []

def callsItems : List Call → List GItem
| [] => []
| c :: rest => callItems c ++ callsItems rest

theorem Writer.saveState_closed (w : Writer) (s : HardState) : (w.saveState s).closed = w.closed := by
  unfold Writer.saveState
  split
  · rfl
  · rw [Writer.encode_closed]

theorem Writer.foldEnts_closed (ents : List Entry) : ∀ w : Writer, (w.foldEnts ents).closed = w.closed := by
  induction ents with
  | nil => intro w; rfl
  | cons e rest ih => intro w; show (Writer.foldEnts _ rest).closed = _; rw [ih]; rfl

theorem Writer.cut_closed_length (w : Writer) : w.cut.closed.length = w.closed.length + 1 := by
  rw [Writer.cut_eq, Writer.flush_closed, Writer.saveState_closed, Writer.encode_closed, Writer.encode_closed]
  show (w.flush.closed ++ [_]).length = _
  rw [List.length_append, Writer.flush_closed]; rfl

/-- `Save` without a cut appends exactly the entry records and the state record to the current segment -/
theorem GInv.save_nocut {w : Writer} {g : GGhost} (h : GInv w g) (st : HardState) (ents : List Entry)
    (hents : ∀ e ∈ ents, (marshalEntry e).length < 2 ^ 55) (hst : (marshalHS st).length < 2 ^ 55)
    (hnc : (w.save st ents).1.closed.length = w.closed.length) :
    GInv (w.save st ents).1 (g.add (gEntItems ents ++ gStateItems st)) := by
  rw [Writer.save_eq] at hnc ⊢
  by_cases h0 : (isEmptyHS st && ents.isEmpty) = true
  · rw [if_pos h0]
    simp only [Bool.and_eq_true, List.isEmpty_iff] at h0
    rw [h0.2, gStateItems, if_pos h0.1]
    simp only [gEntItems, List.map_nil, List.append_nil, GGhost.add_nil]
    exact h
  · rw [if_neg h0] at hnc ⊢
    have h2 := (GInv.foldEnts ents w g h hents).saveState st hst
    rw [GGhost.add_add] at h2
    split
    · split
      · exact h2.flush
      · exact h2
    · rename_i hlt
      rw [if_neg hlt, Writer.cut_closed_length, Writer.saveState_closed, Writer.foldEnts_closed] at hnc
      omega

def noCut : Writer → List Call → Bool
| _, [] => true
| w, c :: rest => (w.call c).closed.length == w.closed.length && noCut (w.call c) rest

theorem call_nocut {w : Writer} {g : GGhost} (hI : GInv w g) (c : Call) (hc : c.Fits)
    (hnc : (w.call c).closed.length = w.closed.length) : GInv (w.call c) (g.add (callItems c)) := by
  cases c with
  | save st ents => exact hI.save_nocut st ents (fun e h => (hc.2 e h).2) (marshalHS_len st hc.1) hnc
  | snap s =>
    obtain ⟨hs, hl⟩ := hc
    show GInv (w.saveSnapshot s) (g.add (snapItems s))
    rw [Writer.saveSnapshot_eq]
    unfold snapItems
    split
    · rw [GGhost.add_nil]; exact hI
    · have h1 := hI.encode snapshotType (some (marshalWSnap s))
        ⟨show snapshotType < 2 ^ 64 by decide, hl, show snapshotType ≠ crcType by decide⟩
      split
      · exact (h1.setEnti s.index).flush
      · exact h1.flush
  | cut =>
    have : (w.call .cut).closed.length = w.closed.length + 1 := Writer.cut_closed_length w
    omega

theorem calls_nocut (h : List Call) : ∀ {w : Writer} {g : GGhost}, GInv w g → (∀ c ∈ h, c.Fits) → noCut w h = true →
    GInv (w.calls h) (g.add (callsItems h)) ∧ (w.calls h).closed.length = w.closed.length := by
  induction h with
  | nil => intro w g hI _ _; exact ⟨by rw [callsItems, GGhost.add_nil]; exact hI, rfl⟩
  | cons c rest ih =>
    intro w g hI hfit hnc
    simp only [noCut, Bool.and_eq_true, beq_iff_eq] at hnc
    have h1 := call_nocut hI c (hfit c (by simp)) hnc.1
    obtain ⟨h2, h3⟩ := ih h1 (fun x hx => hfit x (by simp [hx])) hnc.2
    rw [GGhost.add_add] at h2
    exact ⟨h2, by rw [Writer.calls_cons, h3, hnc.1]⟩

/-! ### what `ReadAll`'s dispatch makes of them -/

theorem applyItems_callItems (start : Nat × Nat) (ra : RA) (c : Call) (hc : c.Fits) :
    applyItems start ra (callItems c) = specCall start ra c := by
  cases c with
  | save st ents =>
    obtain ⟨hs, he⟩ := hc
    simp only [callItems]
    rw [applyItems_append, applyItems_ents start ents ra (fun e h => (he e h).1)]
    simp only [specCall]
    cases placeAll start.1 ra.ents ents with
    | none => rfl
    | some R => simp only; rw [applyItems_state start _ st hs]
  | snap s =>
    obtain ⟨hs, _⟩ := hc
    simp only [callItems, snapItems, specCall]
    split
    · rfl
    · simp only [applyItems, List.map_cons, List.map_nil, applyRecs, gRec]
      rw [applyRec_snap start ra s hs]
      cases snapArm start ra s <;> rfl
  | cut => rfl

theorem applyItems_callsItems (start : Nat × Nat) (h : List Call) : ∀ (ra : RA), (∀ c ∈ h, c.Fits) →
    applyItems start ra (callsItems h) = specCalls start ra h := by
  induction h with
  | nil => intro ra _; rfl
  | cons c rest ih =>
    intro ra hfit
    simp only [callsItems, specCalls]
    rw [applyItems_append, applyItems_callItems start ra c (hfit c (by simp))]
    cases specCall start ra c with
    | error e => rfl
    | ok ra' => exact ih ra' (fun x hx => hfit x (by simp [hx]))

theorem specCalls_append (start : Nat × Nat) (a b : List Call) : ∀ ra : RA,
    specCalls start ra (a ++ b) =
      (match specCalls start ra a with
       | .ok ra' => specCalls start ra' b
       | .error e => .error e) := by
  induction a with
  | nil => intro ra; rfl
  | cons c rest ih =>
    intro ra
    simp only [List.cons_append, specCalls]
    cases specCall start ra c with
    | error e => rfl
    | ok ra' => exact ih ra'

/-- the records of `Create` and a history, through `ReadAll`'s dispatch (the semantic half of `readAll_written`) -/
theorem created_sem (start : Nat × Nat) (segSize : Nat) (md : Option Bytes) (hmd : (md.getD []).length < 2 ^ 55)
    (h : List Call) (hfit : ∀ c ∈ h, c.Fits) :
    ∃ g, GInv ((Writer.create segSize md).calls h) g ∧
      applyItems start {} g.all = specCalls start { metadata := md } (.snap ⟨0, 0, none⟩ :: h) := by
  obtain ⟨hI0, _, _, hmd0, hst0⟩ := GInv.create segSize md hmd
  have hso0 : HSOk (Writer.create segSize md).state := by rw [hst0]; exact ⟨by decide, by decide, by decide⟩
  obtain ⟨g', extra, hI', hall, hsem⟩ := calls_sem start h hI0 hfit hso0
  refine ⟨g', hI', ?_⟩
  have hcreate : applyItems start {} (gcreateGhost md).all = specCall start { metadata := md } (.snap ⟨0, 0, none⟩) := by
    simp only [gcreateGhost, GGhost.all, List.nil_append, List.flatten_cons, List.flatten_nil, List.append_nil,
      applyItems, List.map_cons, List.map_nil, applyRecs, gRec]
    rw [applyRec_meta start {} md (Or.inl rfl)]
    simp only
    rw [applyRec_snap start _ ⟨0, 0, none⟩ ⟨by decide, by decide, fun d hd => by cases hd⟩]
    cases hsa : snapArm start { metadata := md } ⟨0, 0, none⟩ <;> simp [specCall, hsa]
  rw [hall, applyItems_append, hcreate]
  simp only [specCalls]
  cases hsp : specCall start { metadata := md } (.snap ⟨0, 0, none⟩) with
  | error e => rfl
  | ok ra1 =>
    simp only
    apply hsem ra1
    have hm : ra1.metadata = md ∧ ra1.state = emptyHS := by
      simp only [specCall, Option.isNone_none, Nat.lt_irrefl, decide_false, Bool.and_false, Bool.false_eq_true,
        if_false, gt_iff_lt] at hsp
      unfold snapArm at hsp
      split at hsp
      · split at hsp
        · cases hsp
        · cases hsp; exact ⟨rfl, rfl⟩
      · cases hsp; exact ⟨rfl, rfl⟩
    exact ⟨by rw [hm.1, hmd0], by rw [hm.2, hst0], hso0⟩

/-! ### item prefixes of a history are histories -/

/-- `h'` is `h` cut short at a record boundary: some whole calls, then possibly some of the entries of the next `Save`
    (without its hard state) -/
def CallPrefix (h' h : List Call) : Prop :=
  ∃ h1 rest, h = h1 ++ rest ∧
    (h' = h1 ∨ ∃ st ents j rest', rest = .save st ents :: rest' ∧ h' = h1 ++ [.save emptyHS (ents.take j)])

theorem gStateItems_empty : gStateItems emptyHS = [] := rfl

theorem gEntItems_take (ents : List Entry) (j : Nat) : gEntItems (ents.take j) = (gEntItems ents).take j := by
  simp [gEntItems, List.map_take]

theorem gStateItems_length_le (st : HardState) : (gStateItems st).length ≤ 1 := by
  unfold gStateItems; split <;> simp

theorem snapItems_length_le (s : WSnap) : (snapItems s).length ≤ 1 := by
  unfold snapItems; split <;> simp

theorem callsItems_append (a b : List Call) : callsItems (a ++ b) = callsItems a ++ callsItems b := by
  induction a with
  | nil => rfl
  | cons c rest ih => simp only [List.cons_append, callsItems, ih, List.append_assoc]

/-- a prefix of the items of one call -/
theorem callItems_prefix (c : Call) (p q : List GItem) (hpq : callItems c = p ++ q) :
    p = [] ∨ p = callItems c ∨ ∃ st ents j, c = .save st ents ∧ p = callItems (.save emptyHS (ents.take j)) := by
  by_cases hq : q = []
  · subst hq; rw [List.append_nil] at hpq; exact Or.inr (Or.inl hpq.symm)
  by_cases hp : p = []
  · exact Or.inl hp
  have hlen := congrArg List.length hpq
  rw [List.length_append] at hlen
  have hp' : 0 < p.length := List.length_pos_iff.mpr hp
  have hq' : 0 < q.length := List.length_pos_iff.mpr hq
  cases c with
  | save st ents =>
    refine Or.inr (Or.inr ⟨st, ents, p.length, rfl, ?_⟩)
    simp only [callItems, gStateItems_empty, List.append_nil, gEntItems_take]
    simp only [callItems] at hpq hlen
    have hsl := gStateItems_length_le st
    rw [List.length_append] at hlen
    have hple : p.length ≤ (gEntItems ents).length := by omega
    have : p = (gEntItems ents ++ gStateItems st).take p.length := by rw [hpq]; simp
    rw [this, List.take_append_of_le_length hple]
    simp
  | snap s =>
    simp only [callItems] at hlen
    have := snapItems_length_le s
    omega
  | cut => simp [callItems] at hlen; omega

theorem callsItems_prefix (h : List Call) : ∀ (p q : List GItem), callsItems h = p ++ q →
    ∃ h', CallPrefix h' h ∧ p = callsItems h' := by
  induction h with
  | nil =>
    intro p q hpq
    simp only [callsItems] at hpq
    have : p = [] := by
      cases p with
      | nil => rfl
      | cons a b => simp at hpq
    exact ⟨[], ⟨[], [], rfl, Or.inl rfl⟩, by rw [this]; rfl⟩
  | cons c rest ih =>
    intro p q hpq
    simp only [callsItems] at hpq
    rcases List.append_eq_append_iff.mp hpq with ⟨a', h1, h2⟩ | ⟨c', h1, h2⟩
    · -- p = callItems c ++ a'
      obtain ⟨h', ⟨k1, krest, e1, e2⟩, hp'⟩ := ih a' q h2
      refine ⟨c :: h', ⟨c :: k1, krest, by rw [e1]; rfl, ?_⟩, by rw [h1, hp']; rfl⟩
      rcases e2 with e2 | ⟨st, ents, j, rest', e3, e4⟩
      · exact Or.inl (by rw [e2])
      · exact Or.inr ⟨st, ents, j, rest', e3, by rw [e4]; rfl⟩
    · -- callItems c = p ++ c'
      rcases callItems_prefix c p c' h1 with hp | hp | ⟨st, ents, j, hc, hp⟩
      · exact ⟨[], ⟨[], c :: rest, rfl, Or.inl rfl⟩, by rw [hp]; rfl⟩
      · exact ⟨[c], ⟨[c], rest, rfl, Or.inl rfl⟩, by rw [hp]; simp [callsItems]⟩
      · refine ⟨[.save emptyHS (ents.take j)], ⟨[], c :: rest, rfl, Or.inr ⟨st, ents, j, rest, by rw [hc], rfl⟩⟩, ?_⟩
        rw [hp]; simp [callsItems]

/-! ### the contract, the size bounds and the snapshots under such prefixes -/

theorem saveOk_take (L ents : List Entry) (j : Nat) (h : saveOk L ents = true) : saveOk L (ents.take j) = true := by
  cases ents with
  | nil => simp [saveOk]
  | cons e rest =>
    cases j with
    | zero => simp [saveOk]
    | succ k =>
      simp only [saveOk, Bool.and_eq_true, decide_eq_true_eq] at h
      simp only [List.take_succ_cons, saveOk, Bool.and_eq_true, decide_eq_true_eq]
      refine ⟨⟨?_, h.1.2⟩, h.2⟩
      have := contig_take (e.index - 1) (k + 1) (e :: rest) h.1.1
      simpa using this

theorem histOk_prefix (h : List Call) : ∀ (L : List Entry) (h' : List Call), CallPrefix h' h →
    histOkFrom L h = true → histOkFrom L h' = true := by
  induction h with
  | nil =>
    intro L h' hp _
    obtain ⟨h1, rest, e1, e2⟩ := hp
    have hh : h1 = [] ∧ rest = [] := by simpa using e1.symm
    rcases e2 with e2 | ⟨st, ents, j, rest', e3, _⟩
    · rw [e2, hh.1]; rfl
    · rw [hh.2] at e3; cases e3
  | cons c rest ih =>
    intro L h' hp hok
    obtain ⟨h1, r, e1, e2⟩ := hp
    cases h1 with
    | nil =>
      simp only [List.nil_append] at e1
      rcases e2 with e2 | ⟨st, ents, j, rest', e3, e4⟩
      · rw [e2]; rfl
      · rw [← e1] at e3
        cases e3
        rw [e4]
        simp only [List.nil_append, histOkFrom, Bool.and_true]
        simp only [histOkFrom, Bool.and_eq_true] at hok
        exact saveOk_take L ents j hok.1
    | cons c1 k1 =>
      simp only [List.cons_append, List.cons.injEq] at e1
      obtain ⟨rfl, e1⟩ := e1
      have hp' : CallPrefix (h'.tail) rest := by
        refine ⟨k1, r, e1, ?_⟩
        rcases e2 with e2 | ⟨st, ents, j, rest', e3, e4⟩
        · exact Or.inl (by rw [e2]; rfl)
        · exact Or.inr ⟨st, ents, j, rest', e3, by rw [e4]; rfl⟩
      have hh' : h' = c :: h'.tail := by
        rcases e2 with e2 | ⟨st, ents, j, rest', e3, e4⟩
        · rw [e2]; rfl
        · rw [e4]; rfl
      rw [hh']
      cases c with
      | save st ents =>
        simp only [histOkFrom, Bool.and_eq_true] at hok ⊢
        exact ⟨hok.1, ih _ _ hp' hok.2⟩
      | snap s => exact ih L h'.tail hp' hok
      | cut => exact ih L h'.tail hp' hok

theorem histOk_append_prefix (hs : List Call) : ∀ (L : List Entry) (hu hu' : List Call), CallPrefix hu' hu →
    histOkFrom L (hs ++ hu) = true → histOkFrom L (hs ++ hu') = true := by
  induction hs with
  | nil => intro L hu hu' hp hok; exact histOk_prefix hu L hu' hp hok
  | cons c rest ih =>
    intro L hu hu' hp hok
    cases c with
    | save st ents =>
      simp only [List.cons_append, histOkFrom, Bool.and_eq_true] at hok ⊢
      exact ⟨hok.1, ih _ _ _ hp hok.2⟩
    | snap s => exact ih _ _ _ hp hok
    | cut => exact ih _ _ _ hp hok

theorem fits_prefix (h h' : List Call) (hp : CallPrefix h' h) (hfit : ∀ c ∈ h, c.Fits) : ∀ c ∈ h', c.Fits := by
  obtain ⟨h1, rest, e1, e2⟩ := hp
  intro c hc
  rcases e2 with e2 | ⟨st, ents, j, rest', e3, e4⟩
  · rw [e2] at hc; exact hfit c (by rw [e1]; simp [hc])
  · rw [e4] at hc
    rcases List.mem_append.mp hc with hc | hc
    · exact hfit c (by rw [e1]; simp [hc])
    · simp only [List.mem_singleton] at hc
      subst hc
      have hsave := hfit (.save st ents) (by rw [e1, e3]; simp)
      exact ⟨⟨by decide, by decide, by decide⟩, fun e he => hsave.2 e (List.mem_of_mem_take he)⟩

theorem snapsOf_append (a b : List Call) : snapsOf (a ++ b) = snapsOf a ++ snapsOf b := by
  induction a with
  | nil => rfl
  | cons c rest ih =>
    cases c with
    | save st ents => simpa [snapsOf] using ih
    | snap s => simp [snapsOf, ih]
    | cut => simpa [snapsOf] using ih

theorem snapsOf_prefix (h h' : List Call) (hp : CallPrefix h' h) : ∃ t, snapsOf h = snapsOf h' ++ t := by
  obtain ⟨h1, rest, e1, e2⟩ := hp
  rcases e2 with e2 | ⟨st, ents, j, rest', e3, e4⟩
  · exact ⟨snapsOf rest, by rw [e1, e2, snapsOf_append]⟩
  · refine ⟨snapsOf rest, ?_⟩
    rw [e1, e4, snapsOf_append, snapsOf_append]
    simp [snapsOf]

/-! ### the record stream over intact closed files followed by an arbitrary last file -/

def closedFuel : List (List GItem × Bytes) → Nat
| [] => 0
| (items, _) :: rest => items.length + 1 + closedFuel rest

theorem recLoop_gchain_then (f : Bytes) (segs : List (List GItem × Bytes)) : ∀ (c : Nat) (d : Dec), c < 2 ^ 32 →
    d.done = false → EndOfWritten d.cur → d.rest = gchainFiles c segs ++ [f] → (d.crc = 0 ∨ d.crc = c) →
    (∀ s ∈ segs, (∀ it ∈ s.1, GItemOk it) ∧ EndOfWritten s.2) → ∀ n : Nat,
    recLoop (closedFuel segs + (n + 1)) d =
      (gchainRecords c segs ++ (recLoop (n + 1) (WalTornC.decAt f 0 (if segs = [] then d.crc else gchainCrc c segs))).1,
        (recLoop (n + 1) (WalTornC.decAt f 0 (if segs = [] then d.crc else gchainCrc c segs))).2) := by
  induction segs with
  | nil =>
    intro c d _ hdone hend hrest _ _ n
    simp only [gchainFiles, List.nil_append] at hrest
    simp only [closedFuel, Nat.zero_add, gchainRecords, List.nil_append, if_true]
    rw [recLoop_switch _ d hdone hend f [] hrest]
    have : ({ d with cur := f, size := f.length, off := 0, rest := [] } : Dec) = WalTornC.decAt f 0 d.crc := by
      simp only [WalTornC.decAt, List.drop_zero, hdone]
    rw [this]
  | cons s rest ih =>
    intro c d hc hdone hend hrest hdc hok n
    obtain ⟨items, tail⟩ := s
    obtain ⟨hitems, htail⟩ := hok (items, tail) (by simp)
    simp only [gchainFiles, List.cons_append] at hrest
    have hc' := gCrcAfter_lt items hc
    rw [show closedFuel ((items, tail) :: rest) + (n + 1) = (items.length + (closedFuel rest + (n + 1))) + 1 by
      simp [closedFuel]; omega]
    rw [recLoop_switch _ d hdone hend _ _ hrest]
    have hd1 : ({ d with cur := gfileOf c items tail, size := (gfileOf c items tail).length, off := 0,
                         rest := gchainFiles (gCrcAfter c items) rest ++ [f] } : Dec).done = false := hdone
    rw [recLoop_gsegment c items _ hd1 tail rfl hc hdc hitems (by simp [gfileOf]) _]
    obtain ⟨D2, hD2⟩ : ∃ D2 : Dec, D2 =
        { d with cur := tail, size := (gfileOf c items tail).length,
                 off := 0 + (encodeFrame (crcRec c) ++ gEncodeAll c items).length,
                 rest := gchainFiles (gCrcAfter c items) rest ++ [f], crc := gCrcAfter c items } := ⟨_, rfl⟩
    have e1 : D2.done = false := by rw [hD2]; exact hdone
    have e2 : D2.cur = tail := by rw [hD2]
    have e3 : D2.rest = gchainFiles (gCrcAfter c items) rest ++ [f] := by rw [hD2]
    have e4 : D2.crc = gCrcAfter c items := by rw [hD2]
    have h1 := ih (gCrcAfter c items) D2 hc' e1 (by rw [e2]; exact htail) e3 (Or.inr e4)
      (fun x hx => hok x (by simp [hx])) n
    rw [← hD2, h1]
    have hcrc : (if rest = [] then D2.crc else gchainCrc (gCrcAfter c items) rest) =
        (if ((items, tail) :: rest) = [] then d.crc else gchainCrc c ((items, tail) :: rest)) := by
      rw [if_neg (List.cons_ne_nil _ _)]
      cases rest with
      | nil => rw [if_pos rfl, e4]; rfl
      | cons s2 r2 => rw [if_neg (List.cons_ne_nil _ _)]; rfl
    rw [hcrc]
    simp [gchainRecords]

/-- … from the start of the directory -/
theorem recLoop_closed_then (f : Bytes) (segs : List (List GItem × Bytes))
    (hok : ∀ s ∈ segs, (∀ it ∈ s.1, GItemOk it) ∧ EndOfWritten s.2) (n : Nat) :
    recLoop (closedFuel segs + (n + 1)) (Dec.open (gchainFiles 0 segs ++ [f])) =
      (gchainRecords 0 segs ++ (recLoop (n + 1) (WalTornC.decAt f 0 (gchainCrc 0 segs))).1,
        (recLoop (n + 1) (WalTornC.decAt f 0 (gchainCrc 0 segs))).2) := by
  let d0 : Dec := { cur := [], size := 0, off := 0, rest := gchainFiles 0 segs ++ [f], crc := 0 }
  have h1 := recLoop_gchain_then f segs 0 d0 (by decide) rfl (Or.inl rfl) rfl (Or.inl rfl) hok n
  have hcrc : (if segs = [] then d0.crc else gchainCrc 0 segs) = gchainCrc 0 segs := by
    cases segs with
    | nil => rfl
    | cons a b => rw [if_neg (List.cons_ne_nil _ _)]
  rw [hcrc] at h1
  rw [← h1]
  obtain ⟨file1, files, hfl⟩ : ∃ file1 files, gchainFiles 0 segs ++ [f] = file1 :: files := by
    cases hcf : gchainFiles 0 segs with
    | nil => exact ⟨f, [], rfl⟩
    | cons a b => exact ⟨a, b ++ [f], rfl⟩
  rw [show closedFuel segs + (n + 1) = (closedFuel segs + n) + 1 by omega]
  rw [recLoop_switch _ d0 rfl (Or.inl rfl) file1 files hfl, hfl]
  rfl

#print axioms calls_nocut
#print axioms callsItems_prefix
#print axioms recLoop_closed_then
end WalFile
