import RedisGoModel.Props.C16Torn
/-! C16: transfer of the torn-tail theorem from WalTorn's `decode` (over the concrete codec `walCodec`) to the
    executable file-level reader of File.lean: on one file, `recLoop` and `decode walCodec` return the same records,
    and where `decode` ends with EOF / a torn verdict, `recLoop` ends with `decEof` / `decErr ueof` at the same offset. -/
namespace WalTorn
variable {ρ σ : Type}

/-! ### one step of the abstract decoder, case by case -/

theorem decode_eof_size (C : Codec ρ σ) (f : File) (size k o : Nat) (st : σ) (h : size ≤ o) :
    decode C f size (k + 1) o st = ([], .eof, o) := by
  rw [decode, if_pos h]

theorem decode_short_hdr (C : Codec ρ σ) (f : File) (size k o : Nat) (st : σ) (h1 : o < size) (h2 : size < o + 8) :
    decode C f size (k + 1) o st = ([], .torn, o) := by
  rw [decode, if_neg (by omega), if_pos h2]

theorem decode_zero (C : Codec ρ σ) (f : File) (size k o : Nat) (st : σ) (h1 : o + 8 ≤ size)
    (hu : C.unhdr (readAt f o 8) = none) : decode C f size (k + 1) o st = ([], .eof, o) := by
  rw [decode, if_neg (by omega), if_neg (by omega)]
  simp only [hu]

theorem decode_max (C : Codec ρ σ) (f : File) (size k o : Nat) (st : σ) (h1 : o + 8 ≤ size) (n : Nat)
    (hu : C.unhdr (readAt f o 8) = some n) (h2 : size < n + o) : decode C f size (k + 1) o st = ([], .corrupt, o) := by
  rw [decode, if_neg (by omega), if_neg (by omega)]
  simp only [hu]
  rw [if_pos h2]

theorem decode_short_body (C : Codec ρ σ) (f : File) (size k o : Nat) (st : σ) (h1 : o + 8 ≤ size) (n : Nat)
    (hu : C.unhdr (readAt f o 8) = some n) (h2 : n + o ≤ size) (h3 : size < o + 8 + n) :
    decode C f size (k + 1) o st = ([], .torn, o) := by
  rw [decode, if_neg (by omega), if_neg (by omega)]
  simp only [hu]
  rw [if_neg (by omega), if_pos h3]

theorem decode_ok (C : Codec ρ σ) (f : File) (size k o : Nat) (st : σ) (n : Nat)
    (hu : C.unhdr (readAt f o 8) = some n) (h3 : o + 8 + n ≤ size) (r : ρ) (st' : σ)
    (hv : C.valid st (readAt f o 8) (readAt f (o + 8) n) = .ok r st') :
    decode C f size (k + 1) o st =
      (r :: (decode C f size k (o + 8 + n) st').1, (decode C f size k (o + 8 + n) st').2.1,
        (decode C f size k (o + 8 + n) st').2.2) := by
  rw [decode, if_neg (by omega), if_neg (by omega)]
  simp only [hu]
  rw [if_neg (by omega), if_neg (by omega)]
  simp only [hv]

theorem decode_fatal (C : Codec ρ σ) (f : File) (size k o : Nat) (st : σ) (n : Nat)
    (hu : C.unhdr (readAt f o 8) = some n) (h3 : o + 8 + n ≤ size)
    (hv : C.valid st (readAt f o 8) (readAt f (o + 8) n) = .fatal) :
    decode C f size (k + 1) o st = ([], .fatal, o) := by
  rw [decode, if_neg (by omega), if_neg (by omega)]
  simp only [hu]
  rw [if_neg (by omega), if_neg (by omega)]
  simp only [hv]

theorem decode_bad (C : Codec ρ σ) (f : File) (size k o : Nat) (st : σ) (n : Nat)
    (hu : C.unhdr (readAt f o 8) = some n) (h3 : o + 8 + n ≤ size)
    (hv : C.valid st (readAt f o 8) (readAt f (o + 8) n) = .bad) :
    (isTorn (o + 8) (readAt f (o + 8) n) → decode C f size (k + 1) o st = ([], .torn, o)) ∧
    (¬ isTorn (o + 8) (readAt f (o + 8) n) → decode C f size (k + 1) o st = ([], .corrupt, o)) := by
  rw [decode, if_neg (by omega), if_neg (by omega)]
  simp only [hu]
  rw [if_neg (by omega), if_neg (by omega)]
  simp only [hv]
  constructor
  · intro h; rw [if_pos h]
  · intro h; rw [if_neg h]

end WalTorn

namespace WalFile
open WalCodec

/-! ### one step of the file-level decoder on the last file, case by case -/

theorem readLE64_some_len {b : Bytes} {l : Nat} {r : Bytes} (h : readLE64 b = some (l, r)) : b.length = r.length + 8 := by
  unfold readLE64 at h
  split at h
  · simp only [Option.some.injEq, Prod.mk.injEq] at h
    rw [← h.2]; simp
  · cases h

theorem readLE64_short {b : Bytes} (h : b.length < 8) : readLE64 b = none := by
  cases hr : readLE64 b with
  | none => rfl
  | some p => have := readLE64_some_len (l := p.1) (r := p.2) hr; omega

theorem decodeRecord_eof (k : Nat) (d : Dec) (hdone : d.done = false) (hrest : d.rest = []) (hcur : d.cur = []) :
    decodeRecord (k + 1) d = .eof { d with done := true, cur := [] } :=
  decodeRecord_end k d hdone (Or.inl hcur) hrest

theorem decodeRecord_short_hdr (k : Nat) (d : Dec) (hdone : d.done = false) (h1 : d.cur ≠ []) (h2 : d.cur.length < 8) :
    decodeRecord (k + 1) d = .err .ueof d := by
  rw [decodeRecord]
  simp only [hdone, Bool.false_eq_true, if_false, readLE64_short h2, h1]

theorem decodeRecord_zero (k : Nat) (d : Dec) (hdone : d.done = false) (hrest : d.rest = []) (body : Bytes)
    (hl : readLE64 d.cur = some (0, body)) : decodeRecord (k + 1) d = .eof { d with done := true, cur := [] } := by
  rw [decodeRecord]
  simp only [hdone, Bool.false_eq_true, if_false, hl, if_true, hrest]

theorem decodeRecord_max (k : Nat) (d : Dec) (hdone : d.done = false) (l : Nat) (body : Bytes)
    (hl : readLE64 d.cur = some (l, body)) (h0 : l ≠ 0)
    (hbig : (decodeFrameSize l).1 + (decodeFrameSize l).2 + d.off > d.size) :
    decodeRecord (k + 1) d = .err .maxEntry d := by
  rw [decodeRecord]
  simp only [hdone, Bool.false_eq_true, if_false, hl, h0]
  rw [if_pos hbig]

theorem decodeRecord_short_body (k : Nat) (d : Dec) (hdone : d.done = false) (l : Nat) (body : Bytes)
    (hl : readLE64 d.cur = some (l, body)) (h0 : l ≠ 0)
    (hfit : (decodeFrameSize l).1 + (decodeFrameSize l).2 + d.off ≤ d.size)
    (hshort : body.length < (decodeFrameSize l).1 + (decodeFrameSize l).2) :
    decodeRecord (k + 1) d = .err .ueof d := by
  rw [decodeRecord]
  simp only [hdone, Bool.false_eq_true, if_false, hl, h0]
  rw [if_neg (by omega), if_pos hshort]

theorem decodeRecord_pb (k : Nat) (d : Dec) (hdone : d.done = false) (l : Nat) (body : Bytes)
    (hl : readLE64 d.cur = some (l, body)) (h0 : l ≠ 0)
    (hfit : (decodeFrameSize l).1 + (decodeFrameSize l).2 + d.off ≤ d.size)
    (hlen : (decodeFrameSize l).1 + (decodeFrameSize l).2 ≤ body.length) (e : PErr)
    (hu : unmarshal (body.take (decodeFrameSize l).1) = .error e) :
    decodeRecord (k + 1) d =
      .err (if isTornB d.rest.isEmpty d.off (body.take ((decodeFrameSize l).1 + (decodeFrameSize l).2)) then .ueof else pErr e) d := by
  rw [decodeRecord]
  simp only [hdone, Bool.false_eq_true, if_false, hl, h0]
  rw [if_neg (by omega), if_neg (by omega)]
  have ht : ((body.take ((decodeFrameSize l).1 + (decodeFrameSize l).2)).take (decodeFrameSize l).1) =
      body.take (decodeFrameSize l).1 := by
    rw [List.take_take]; congr 1; omega
  rw [ht, hu]

end WalFile

namespace WalTornC
open WalCodec WalFile WalTorn

/-- a finite file as a byte function (zero beyond its end) -/
def fileFn (f : Bytes) : WalTorn.File := fun x => (toNats f).getD x 0

/-- the decoder of File.lean positioned at offset `o` of the single (= last) file `f`, rolling CRC `st` -/
def decAt (f : Bytes) (o st : Nat) : Dec :=
  { cur := f.drop o, size := f.length, off := o, rest := [], crc := st, done := false }

theorem decAt_zero (f : Bytes) : decAt f 0 0 = Dec.open [f] := rfl

theorem readAt_fileFn (f : Bytes) (o n : Nat) (h : o + n ≤ f.length) :
    readAt (fileFn f) o n = toNats ((f.drop o).take n) := by
  apply List.ext_getElem
  · simp only [readAt, toNats, List.length_map, List.length_range, List.length_take, List.length_drop]; omega
  · intro i h1 h2
    simp only [readAt, List.length_map, List.length_range] at h1
    have hi : o + i < f.length := by omega
    simp [readAt, fileFn, toNats, List.getD_eq_getElem?_getD, hi]

theorem hdr_fileFn (f : Bytes) (o : Nat) (h : o + 8 ≤ f.length) :
    ∃ l, hdrField (readAt (fileFn f) o 8) = l ∧ readLE64 (f.drop o) = some (l, f.drop (o + 8)) := by
  have hlen : ((f.drop o).take 8).length = 8 := by simp only [List.length_take, List.length_drop]; omega
  obtain ⟨l, e1, e2⟩ := readLE64_append ((f.drop o).take 8) hlen ((f.drop o).drop 8)
  rw [List.take_append_drop, List.drop_drop] at e2
  refine ⟨l, ?_, e2⟩
  rw [readAt_fileFn f o 8 h, hdrField, toBytes_toNats, e1]

theorem cValid_file (f : Bytes) (o l n st : Nat) (hl : hdrField (readAt (fileFn f) o 8) = l)
    (hn : n = (decodeFrameSize l).1 + (decodeFrameSize l).2) (h : o + 8 + n ≤ f.length) :
    cValid st (readAt (fileFn f) o 8) (readAt (fileFn f) (o + 8) n) =
      (match unmarshal ((f.drop (o + 8)).take (decodeFrameSize l).1) with
       | .error _ => .bad
       | .ok r =>
         if r.type = crcType then (if st ≠ 0 ∧ r.crc ≠ st then .fatal else .ok r r.crc)
         else if r.crc ≠ crcUpdate st (r.data.getD []) then .bad
         else .ok r (crcUpdate st (r.data.getD []))) := by
  unfold cValid
  rw [hdrLen, hl, readAt_fileFn f (o + 8) n h, toBytes_toNats, List.take_take]
  have : min (decodeFrameSize l).1 n = (decodeFrameSize l).1 := by omega
  rw [this]
  cases unmarshal ((f.drop (o + 8)).take (decodeFrameSize l).1) <;> rfl

theorem decAt_next (f : Bytes) (o st a b c' : Nat) :
    ({ decAt f o st with cur := (f.drop (o + 8)).drop (a + b), off := (decAt f o st).off + 8 + a + b, crc := c' } : Dec) =
      decAt f (o + 8 + (a + b)) c' := by
  simp only [decAt, List.drop_drop, Nat.add_assoc]

/-- **simulation**: on one file, the executable record loop of File.lean and WalTorn's decoder over the concrete codec
    return the same records; where the latter ends with EOF (resp. a torn verdict), the former ends with `decEof`
    (resp. `decErr ueof` = io.ErrUnexpectedEOF, which `Repair` acts on), at the same `lastValidOff`. -/
theorem recLoop_sim (f : Bytes) : ∀ (fuel o st : Nat),
    (recLoop fuel (decAt f o st)).1 = (decode walCodec (fileFn f) f.length fuel o st).1 ∧
    ((decode walCodec (fileFn f) f.length fuel o st).2.1 = .eof →
      (recLoop fuel (decAt f o st)).2.1 = .decEof ∧
      (recLoop fuel (decAt f o st)).2.2.off = (decode walCodec (fileFn f) f.length fuel o st).2.2) ∧
    ((decode walCodec (fileFn f) f.length fuel o st).2.1 = .torn →
      (recLoop fuel (decAt f o st)).2.1 = .decErr .ueof ∧
      (recLoop fuel (decAt f o st)).2.2.off = (decode walCodec (fileFn f) f.length fuel o st).2.2) := by
  intro fuel
  induction fuel with
  | zero => intro o st; simp [recLoop, decode, decAt]
  | succ k ih =>
    intro o st
    have hdone : (decAt f o st).done = false := rfl
    have hrest : (decAt f o st).rest = [] := rfl
    have hcurlen : (decAt f o st).cur.length = f.length - o := by simp [decAt]
    have hoff : (decAt f o st).off = o := rfl
    have hsize : (decAt f o st).size = f.length := rfl
    rw [recLoop]
    by_cases h1 : f.length ≤ o
    · rw [decode_eof_size _ _ _ _ _ _ h1,
        decodeRecord_eof _ _ hdone hrest (List.length_eq_zero_iff.mp (by rw [hcurlen]; omega))]
      simp [decAt]
    · by_cases h2 : f.length < o + 8
      · rw [decode_short_hdr _ _ _ _ _ _ (by omega) h2,
          decodeRecord_short_hdr _ _ hdone (by intro h; have := congrArg List.length h; rw [hcurlen] at this; simp at this; omega)
            (by rw [hcurlen]; omega)]
        simp [decAt]
      · obtain ⟨l, hl1, hl2⟩ := hdr_fileFn f o (by omega)
        have hl2' : readLE64 (decAt f o st).cur = some (l, f.drop (o + 8)) := hl2
        by_cases h0 : l = 0
        · have hu : walCodec.unhdr (readAt (fileFn f) o 8) = none := by
            rw [walCodec_unhdr, cUnhdr, hl1, if_pos h0]
          rw [decode_zero _ _ _ _ _ _ (by omega) hu, decodeRecord_zero _ _ hdone hrest _ (h0 ▸ hl2')]
          simp [decAt]
        · have hu : walCodec.unhdr (readAt (fileFn f) o 8) = some ((decodeFrameSize l).1 + (decodeFrameSize l).2) := by
            rw [walCodec_unhdr, cUnhdr, hl1, if_neg h0, hdrLen, hl1]
          have hblen : (f.drop (o + 8)).length = f.length - (o + 8) := by simp
          by_cases h3 : f.length < (decodeFrameSize l).1 + (decodeFrameSize l).2 + o
          · rw [decode_max _ _ _ _ _ _ (by omega) _ hu h3, decodeRecord_max _ _ hdone l _ hl2' h0 (by rw [hoff, hsize]; omega)]
            simp
          · by_cases h4 : f.length < o + 8 + ((decodeFrameSize l).1 + (decodeFrameSize l).2)
            · rw [decode_short_body _ _ _ _ _ _ (by omega) _ hu (by omega) h4,
                decodeRecord_short_body _ _ hdone l _ hl2' h0 (by rw [hoff, hsize]; omega) (by rw [hblen]; omega)]
              simp [decAt]
            · have hfit : (decodeFrameSize l).1 + (decodeFrameSize l).2 + (decAt f o st).off ≤ (decAt f o st).size := by
                rw [hoff, hsize]; omega
              have hlen : (decodeFrameSize l).1 + (decodeFrameSize l).2 ≤ (f.drop (o + 8)).length := by rw [hblen]; omega
              have hcv := cValid_file f o l _ st hl1 rfl (Nat.le_of_not_lt h4)
              have hbody := readAt_fileFn f (o + 8) ((decodeFrameSize l).1 + (decodeFrameSize l).2) (Nat.le_of_not_lt h4)
              have htorn : isTorn (o + 8) (readAt (fileFn f) (o + 8) ((decodeFrameSize l).1 + (decodeFrameSize l).2)) ↔
                  isTornB (decAt f o st).rest.isEmpty (decAt f o st).off
                    ((f.drop (o + 8)).take ((decodeFrameSize l).1 + (decodeFrameSize l).2)) = true := by
                rw [hbody]; exact (isTornB_iff o _).symm
              cases hum : unmarshal ((f.drop (o + 8)).take (decodeFrameSize l).1) with
              | error e =>
                rw [hum] at hcv
                simp only at hcv
                rw [decodeRecord_pb _ _ hdone l _ hl2' h0 hfit hlen e hum]
                by_cases ht : isTorn (o + 8) (readAt (fileFn f) (o + 8) ((decodeFrameSize l).1 + (decodeFrameSize l).2))
                · rw [(decode_bad walCodec _ _ _ _ _ _ hu (Nat.le_of_not_lt h4) hcv).1 ht, if_pos (htorn.mp ht)]
                  simp [decAt]
                · rw [(decode_bad walCodec _ _ _ _ _ _ hu (Nat.le_of_not_lt h4) hcv).2 ht]
                  simp
              | ok r =>
                rw [hum] at hcv
                simp only at hcv
                by_cases hty : r.type = crcType
                · rw [if_pos hty] at hcv
                  rw [decodeRecord_step _ _ hdone l _ hl2' h0 hfit hlen r hum (Or.inl hty)]
                  simp only [hty, if_true]
                  by_cases hcc : st ≠ 0 ∧ r.crc ≠ st
                  · rw [if_pos hcc] at hcv
                    rw [decode_fatal walCodec _ _ _ _ _ _ hu (Nat.le_of_not_lt h4) hcv]
                    have : (decAt f o st).crc = st := rfl
                    simp [this, hcc]
                  · rw [if_neg hcc] at hcv
                    rw [decode_ok walCodec _ _ _ _ _ _ hu (Nat.le_of_not_lt h4) r r.crc hcv]
                    have : (decAt f o st).crc = st := rfl
                    rw [this, if_neg hcc]
                    have hd := decAt_next f o st (decodeFrameSize l).1 (decodeFrameSize l).2 r.crc
                    simp only
                    rw [hd]
                    obtain ⟨i1, i2, i3⟩ := ih (o + 8 + ((decodeFrameSize l).1 + (decodeFrameSize l).2)) r.crc
                    exact ⟨by simp [i1], i2, i3⟩
                · rw [if_neg hty] at hcv
                  by_cases hcr : r.crc ≠ crcUpdate st (r.data.getD [])
                  · rw [if_pos hcr] at hcv
                    rw [decodeRecord_step_bad _ _ hdone l _ hl2' h0 hfit hlen r hum hty hcr]
                    by_cases ht : isTorn (o + 8) (readAt (fileFn f) (o + 8) ((decodeFrameSize l).1 + (decodeFrameSize l).2))
                    · rw [(decode_bad walCodec _ _ _ _ _ _ hu (Nat.le_of_not_lt h4) hcv).1 ht, if_pos (htorn.mp ht)]
                      simp [decAt]
                    · rw [(decode_bad walCodec _ _ _ _ _ _ hu (Nat.le_of_not_lt h4) hcv).2 ht]
                      simp
                  · rw [if_neg hcr] at hcv
                    rw [decode_ok walCodec _ _ _ _ _ _ hu (Nat.le_of_not_lt h4) r _ hcv]
                    rw [decodeRecord_step _ _ hdone l _ hl2' h0 hfit hlen r hum (Or.inr (Classical.not_not.mp hcr))]
                    simp only [hty, if_false]
                    have hd := decAt_next f o st (decodeFrameSize l).1 (decodeFrameSize l).2 (crcUpdate st (r.data.getD []))
                    have : (decAt f o st).crc = st := rfl
                    simp only [this]
                    rw [hd]
                    obtain ⟨i1, i2, i3⟩ := ih (o + 8 + ((decodeFrameSize l).1 + (decodeFrameSize l).2)) (crcUpdate st (r.data.getD []))
                    exact ⟨by simp [i1], i2, i3⟩

/-- **torn tail, executable file-level reader** (partial). `f` is the last segment file as found after the crash:
    below `P` (the end of the synced frames) it is the written image, above `P` every 512-byte sector is either as
    written or reverted to zeros. Then `recLoop` of File.lean (the record stream under `ReadAll`, `Verify`, `Repair`)
    returns the CRC record, every synced record and a whole-record prefix of the unsynced ones, unmodified, and ends
    with a clean EOF or with `io.ErrUnexpectedEOF` — the torn verdict `Repair` acts on — with `lastValidOff` at the end
    of the last accepted frame.

    What is missing from the unconditional statement: the `NoCollision` hypothesis (for a 32-bit CRC a multi-sector
    record may still validate — or parse as a CRC record — after some of its sectors are zeroed; see `cValid_bad_iff`
    for what it says per frame), sectors reverting to older non-zero content, and a chain of several files (the tail is
    in the last file; earlier files are synced by `cut`). -/
theorem torn_tail_file_partial (c0 : Nat) (hc0 : c0 < 2 ^ 32) (synced unsynced : List Item)
    (hs : ItemsOk synced) (hu : ItemsOk unsynced) (f : Bytes)
    (hcr : Crash (image c0 (synced ++ unsynced)) (fileFn f) (endOff (fileFrames c0 synced) 0))
    (hnc : NoCollision (endOff (fileFrames c0 synced) 0) (crcAfter crcUpdate c0 synced) unsynced)
    (hsize : endOff (fileFrames c0 (synced ++ unsynced)) 0 + 8 ≤ f.length)
    (fuel : Nat) (hf : synced.length + unsynced.length + 1 < fuel) :
    ∃ p rest, unsynced = p ++ rest ∧
      (recLoop fuel (Dec.open [f])).1 = crcRec c0 :: records crcUpdate c0 (synced ++ p) ∧
      ((recLoop fuel (Dec.open [f])).2.1 = .decEof ∨ (recLoop fuel (Dec.open [f])).2.1 = .decErr .ueof) ∧
      (recLoop fuel (Dec.open [f])).2.2.off = endOff (fileFrames c0 (synced ++ p)) 0 := by
  obtain ⟨p, rest, h1, h2, h3, h4⟩ :=
    torn_tail_concrete_partial c0 hc0 synced unsynced hs hu (fileFn f) hcr hnc f.length hsize fuel hf
  obtain ⟨s1, s2, s3⟩ := recLoop_sim f fuel 0 0
  rw [decAt_zero] at s1 s2 s3
  refine ⟨p, rest, h1, by rw [s1, h2], ?_, ?_⟩
  · rcases h3 with h | h
    · exact Or.inl (s2 h).1
    · exact Or.inr (s3 h).1
  · rcases h3 with h | h
    · rw [(s2 h).2, h4]
    · rw [(s3 h).2, h4]

#print axioms torn_tail_file_partial
#print axioms recLoop_sim
end WalTornC
