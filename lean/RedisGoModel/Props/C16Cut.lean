import RedisGoModel.Props.C16Seq
import RedisGoModel.Wal.File
/-! C16: the record stream of the file-level reader (`decodeRecord` / `recLoop` of File.lean) over a chain of segment
    files written through the rolling CRC, across a segment cut. -/
namespace WalFile
open WalCodec

/-- the records `encodeAll` writes: the items with their rolling CRC fields -/
def records (upd : Nat → Bytes → Nat) : Nat → List Item → List Record
| _, [] => []
| crc, it :: rest => ⟨it.type, upd crc it.data, some it.data⟩ :: records upd (upd crc it.data) rest

/-- a file position at which nothing more is written: end of file, or a zero length field -/
def EndOfWritten (b : Bytes) : Prop := b = [] ∨ ∃ t, b = List.replicate 8 0 ++ t

theorem readLE64_end {b : Bytes} (h : EndOfWritten b) :
    (readLE64 b = none ∧ b = []) ∨ (∃ body, readLE64 b = some (0, body)) := by
  rcases h with rfl | ⟨t, rfl⟩
  · exact Or.inl ⟨rfl, rfl⟩
  · exact Or.inr ⟨t, by simp [List.replicate, readLE64]⟩

/-- `decodeRecord` on a frame that `decodeFrame` accepts -/
theorem decodeRecord_step (k : Nat) (d : Dec) (hdone : d.done = false) (l : Nat) (body : Bytes)
    (hl : readLE64 d.cur = some (l, body)) (h0 : l ≠ 0)
    (hfit : (decodeFrameSize l).1 + (decodeFrameSize l).2 + d.off ≤ d.size)
    (hlen : (decodeFrameSize l).1 + (decodeFrameSize l).2 ≤ body.length) (r : Record)
    (hu : unmarshal (body.take (decodeFrameSize l).1) = .ok r)
    (hcrc : r.type = crcType ∨ r.crc = crcUpdate d.crc (r.data.getD [])) :
    decodeRecord (k + 1) d = .got r { d with
      cur := body.drop ((decodeFrameSize l).1 + (decodeFrameSize l).2),
      off := d.off + 8 + (decodeFrameSize l).1 + (decodeFrameSize l).2,
      crc := if r.type = crcType then d.crc else crcUpdate d.crc (r.data.getD []) } := by
  rw [decodeRecord]
  simp only [hdone, Bool.false_eq_true, if_false, hl, h0]
  rw [if_neg (by omega), if_neg (by omega)]
  have ht : ((body.take ((decodeFrameSize l).1 + (decodeFrameSize l).2)).take (decodeFrameSize l).1) =
      body.take (decodeFrameSize l).1 := by
    rw [List.take_take]; congr 1; omega
  rw [ht, hu]
  simp only
  have hno : ¬ (r.type ≠ crcType ∧ r.crc ≠ (if r.type = crcType then d.crc else crcUpdate d.crc (r.data.getD []))) := by
    rcases hcrc with h | h
    · simp [h]
    · by_cases ht : r.type = crcType
      · simp [ht]
      · simp [ht, h]
  rw [if_neg hno]

theorem frameSize_ne_zero (r : Record) (hsz : (marshal r).length < 2 ^ 56) : (encodeFrameSize (marshal r).length).1 ≠ 0 := by
  have h4 : 0 < (marshal r).length := by
    simp only [marshal, List.length_append, List.length_cons]; omega
  intro h0
  have := frameSize_roundtrip _ hsz
  rw [h0] at this
  have h1 := congrArg Prod.fst this
  simp [decodeFrameSize] at h1
  omega

theorem encodeFrame_length (r : Record) :
    (encodeFrame r).length = 8 + (marshal r).length + (encodeFrameSize (marshal r).length).2 := by
  simp [encodeFrame, le64]; omega

/-- `decodeRecord` on a written frame -/
theorem decodeRecord_frame (k : Nat) (d : Dec) (hdone : d.done = false) (r : Record) (rest : Bytes)
    (hcur : d.cur = encodeFrame r ++ rest)
    (ht : r.type < 2 ^ 64) (hc : r.crc < 2 ^ 32) (hd : ∀ x, r.data = some x → x.length < 2 ^ 63)
    (hsz : (marshal r).length < 2 ^ 56) (hfit : d.off + d.cur.length ≤ d.size)
    (hcrc : r.type = crcType ∨ r.crc = crcUpdate d.crc (r.data.getD [])) :
    decodeRecord (k + 1) d = .got r { d with
      cur := rest, off := d.off + (encodeFrame r).length,
      crc := if r.type = crcType then d.crc else crcUpdate d.crc (r.data.getD []) } := by
  have hl : readLE64 d.cur = some ((encodeFrameSize (marshal r).length).1,
      marshal r ++ (List.replicate (encodeFrameSize (marshal r).length).2 0 ++ rest)) := by
    rw [hcur, encodeFrame]; simp only [List.append_assoc]
    exact le64_roundtrip _ (frameSize_lt _ hsz) _
  have hfs := frameSize_roundtrip _ hsz
  have hlen := encodeFrame_length r
  rw [hcur, List.length_append, hlen] at hfit
  rw [decodeRecord_step k d hdone _ _ hl (frameSize_ne_zero r hsz) (by rw [hfs]; simp only; omega)
    (by rw [hfs]; simp only [List.length_append, List.length_replicate]; omega) r
    (by rw [hfs]; simp only; rw [List.take_left' rfl]; exact unmarshal_marshal r ht hc hd) hcrc]
  rw [hfs]
  simp only
  have hdrop : (marshal r ++ (List.replicate (encodeFrameSize (marshal r).length).2 0 ++ rest)).drop
      ((marshal r).length + (encodeFrameSize (marshal r).length).2) = rest := by
    rw [← List.append_assoc]; exact List.drop_left' (by simp)
  rw [hdrop, hlen]
  have : d.off + 8 + (marshal r).length + (encodeFrameSize (marshal r).length).2 =
      d.off + (8 + (marshal r).length + (encodeFrameSize (marshal r).length).2) := by omega
  rw [this]

/-- at the end of the written part of a file that is not the last one, `decodeRecord` moves on to the next file -/
theorem decodeRecord_switch (k : Nat) (d : Dec) (hdone : d.done = false) (hend : EndOfWritten d.cur) (f : Bytes)
    (fs : List Bytes) (hrest : d.rest = f :: fs) :
    decodeRecord (k + 1) d = decodeRecord k { d with cur := f, size := f.length, off := 0, rest := fs } := by
  rw [decodeRecord]
  simp only [hdone, Bool.false_eq_true, if_false]
  rcases readLE64_end hend with ⟨h1, h2⟩ | ⟨body, h1⟩
  · rw [h1]; simp only [h2, if_true, hrest]
  · rw [h1]; simp only [if_true, hrest]

/-- at the end of the written part of the last file, `decodeRecord` reports EOF -/
theorem decodeRecord_end (k : Nat) (d : Dec) (hdone : d.done = false) (hend : EndOfWritten d.cur) (hrest : d.rest = []) :
    decodeRecord (k + 1) d = .eof { d with done := true, cur := [] } := by
  rw [decodeRecord]
  simp only [hdone, Bool.false_eq_true, if_false]
  rcases readLE64_end hend with ⟨h1, h2⟩ | ⟨body, h1⟩
  · rw [h1]; simp only [h2, if_true, hrest]
  · rw [h1]; simp only [if_true, hrest]

/-! ### the record loop -/

theorem recLoop_switch (n : Nat) (d : Dec) (hdone : d.done = false) (hend : EndOfWritten d.cur) (f : Bytes)
    (fs : List Bytes) (hrest : d.rest = f :: fs) :
    recLoop (n + 1) d = recLoop (n + 1) { d with cur := f, size := f.length, off := 0, rest := fs } := by
  rw [recLoop, recLoop]
  have : d.rest.length + 1 = (fs.length + 1) + 1 := by rw [hrest]; simp
  rw [this, decodeRecord_switch _ d hdone hend f fs hrest]

theorem recLoop_end (n : Nat) (d : Dec) (hdone : d.done = false) (hend : EndOfWritten d.cur) (hrest : d.rest = []) :
    recLoop (n + 1) d = ([], .decEof, { d with done := true, cur := [] }) := by
  rw [recLoop, decodeRecord_end _ d hdone hend hrest]

/-- the data records of one segment -/
theorem recLoop_items (items : List Item) (d : Dec) (hdone : d.done = false) (rest : Bytes)
    (hcur : d.cur = encodeAll crcUpdate d.crc items ++ rest) (hc : d.crc < 2 ^ 32)
    (hok : ∀ it ∈ items, ItemOk it ∧ it.type ≠ crcType) (hfit : d.off + d.cur.length ≤ d.size) (fuel : Nat) :
    recLoop (items.length + fuel) d =
      (records crcUpdate d.crc items ++
          (recLoop fuel { d with cur := rest, off := d.off + (encodeAll crcUpdate d.crc items).length,
                                 crc := crcAfter crcUpdate d.crc items }).1,
        (recLoop fuel { d with cur := rest, off := d.off + (encodeAll crcUpdate d.crc items).length,
                               crc := crcAfter crcUpdate d.crc items }).2) := by
  induction items generalizing d with
  | nil =>
    simp only [encodeAll, List.nil_append] at hcur
    simp only [List.length_nil, Nat.zero_add, records, List.nil_append, encodeAll, Nat.add_zero, crcAfter]
    have : ({ d with cur := rest, off := d.off, crc := d.crc } : Dec) = d := by rw [← hcur]
    rw [this]
  | cons it r ih =>
    obtain ⟨h1, h2⟩ := hok it (by simp)
    simp only [encodeAll, List.append_assoc] at hcur
    have hcl := crcUpdate_lt hc it.data
    rw [show (it :: r).length + fuel = (r.length + fuel) + 1 by simp; omega, recLoop,
      decodeRecord_frame _ d hdone ⟨it.type, crcUpdate d.crc it.data, some it.data⟩ _ hcur h1.1 hcl
        (fun x hx => by simp at hx; subst hx; exact Nat.lt_trans h1.2 (by decide))
        (marshal_length_lt _ _ _ h1.1 hcl (fun x hx => by simp at hx; subst hx; exact h1.2)) hfit
        (Or.inr (by simp))]
    simp only [h2, if_false, Option.getD_some]
    have hfit' : d.off + (encodeFrame ⟨it.type, crcUpdate d.crc it.data, some it.data⟩).length +
        (encodeAll crcUpdate (crcUpdate d.crc it.data) r ++ rest).length ≤ d.size := by
      rw [hcur] at hfit; simp only [List.length_append] at hfit ⊢; omega
    rw [ih { d with cur := encodeAll crcUpdate (crcUpdate d.crc it.data) r ++ rest,
                    off := d.off + (encodeFrame ⟨it.type, crcUpdate d.crc it.data, some it.data⟩).length,
                    crc := crcUpdate d.crc it.data } hdone rfl hcl (fun x hx => hok x (by simp [hx])) hfit']
    simp only [records, encodeAll, crcAfter, List.cons_append, List.length_append, Nat.add_assoc]

/-- the CRC record written at the head of every segment -/
def crcRec (c : Nat) : Record := ⟨crcType, c, none⟩

/-- one whole segment: the CRC record (accepted when the decoder is fresh or its rolling CRC equals the stored one),
    then the data records -/
theorem recLoop_segment (c : Nat) (items : List Item) (d : Dec) (hdone : d.done = false) (rest : Bytes)
    (hcur : d.cur = encodeFrame (crcRec c) ++ (encodeAll crcUpdate c items ++ rest)) (hc : c < 2 ^ 32)
    (hdc : d.crc = 0 ∨ d.crc = c)
    (hok : ∀ it ∈ items, ItemOk it ∧ it.type ≠ crcType) (hfit : d.off + d.cur.length ≤ d.size) (fuel : Nat) :
    recLoop (items.length + fuel + 1) d =
      (crcRec c :: records crcUpdate c items ++
          (recLoop fuel { d with cur := rest,
                                 off := d.off + (encodeFrame (crcRec c) ++ encodeAll crcUpdate c items).length,
                                 crc := crcAfter crcUpdate c items }).1,
        (recLoop fuel { d with cur := rest,
                               off := d.off + (encodeFrame (crcRec c) ++ encodeAll crcUpdate c items).length,
                               crc := crcAfter crcUpdate c items }).2) := by
  rw [recLoop, decodeRecord_frame _ d hdone (crcRec c) _ hcur (show crcType < 2 ^ 64 by decide) hc (fun x hx => by simp [crcRec] at hx)
    (marshal_length_lt _ _ _ (show crcType < 2 ^ 64 by decide) hc (fun x hx => by cases hx)) hfit (Or.inl rfl)]
  have hty : (crcRec c).type = crcType := rfl
  have hcc : (crcRec c).crc = c := rfl
  simp only [hty, if_true, hcc]
  have hno : ¬ (d.crc ≠ 0 ∧ c ≠ d.crc) := by
    rcases hdc with h | h
    · simp [h]
    · simp [h]
  rw [if_neg hno]
  have hfit' : d.off + (encodeFrame (crcRec c)).length + (encodeAll crcUpdate c items ++ rest).length ≤ d.size := by
    rw [hcur] at hfit; simp only [List.length_append] at hfit ⊢; omega
  rw [recLoop_items items
    { d with cur := encodeAll crcUpdate c items ++ rest, off := d.off + (encodeFrame (crcRec c)).length, crc := c }
    hdone rest rfl hc hok hfit' fuel]
  simp only [List.cons_append, List.length_append, Nat.add_assoc]

/-- **the record stream across a segment cut** (item 4): two segment files as `Create`/`cut` lay them out — each
    starting with a CRC record that carries the rolling CRC at the cut, followed by the data frames chained onto it,
    followed by nothing or by the zeros of the preallocation — read back, through the file-level decoder, as exactly the
    records written, ending in a clean EOF; the decoder is left at the end of the last frame with the final rolling CRC
    (where the encoder of `wal.Open` continues). -/
theorem readAll_roundtrip_cut (c0 : Nat) (hc0 : c0 < 2 ^ 32) (items1 items2 : List Item) (tail1 tail2 : Bytes)
    (hok1 : ∀ it ∈ items1, ItemOk it ∧ it.type ≠ crcType) (hok2 : ∀ it ∈ items2, ItemOk it ∧ it.type ≠ crcType)
    (ht1 : EndOfWritten tail1) (ht2 : EndOfWritten tail2) (fuel : Nat) :
    let c1 := crcAfter crcUpdate c0 items1
    let file1 := encodeFrame (crcRec c0) ++ (encodeAll crcUpdate c0 items1 ++ tail1)
    let file2 := encodeFrame (crcRec c1) ++ (encodeAll crcUpdate c1 items2 ++ tail2)
    ∃ d', recLoop (items1.length + (items2.length + (fuel + 1) + 1) + 1) (Dec.open [file1, file2]) =
        (crcRec c0 :: records crcUpdate c0 items1 ++ (crcRec c1 :: records crcUpdate c1 items2), .decEof, d') ∧
      d'.crc = crcAfter crcUpdate c1 items2 ∧
      d'.off = (encodeFrame (crcRec c1) ++ encodeAll crcUpdate c1 items2).length ∧ d'.done = true := by
  intro c1 file1 file2
  have hc1 : c1 < 2 ^ 32 := crcAfter_lt upd32_crcUpdate items1 hc0
  rw [recLoop_segment c0 items1 (Dec.open [file1, file2]) rfl tail1 rfl hc0 (Or.inl rfl) hok1
    (by simp [Dec.open]) _]
  rw [recLoop_switch _ _ rfl ht1 file2 [] rfl]
  rw [recLoop_segment c1 items2 _ rfl tail2 rfl hc1 (Or.inr rfl) hok2 (by simp) _]
  rw [recLoop_end _ _ rfl ht2 rfl]
  refine ⟨_, Prod.ext ?_ (Prod.ext rfl rfl), ?_, ?_, ?_⟩
  · simp
  · rfl
  · simp
  · rfl

/-! ### one changed payload byte, seen by the file-level decoder -/

/-- `decodeRecord` on a frame that unmarshals but whose stored CRC is not the rolling one -/
theorem decodeRecord_step_bad (k : Nat) (d : Dec) (hdone : d.done = false) (l : Nat) (body : Bytes)
    (hl : readLE64 d.cur = some (l, body)) (h0 : l ≠ 0)
    (hfit : (decodeFrameSize l).1 + (decodeFrameSize l).2 + d.off ≤ d.size)
    (hlen : (decodeFrameSize l).1 + (decodeFrameSize l).2 ≤ body.length) (r : Record)
    (hu : unmarshal (body.take (decodeFrameSize l).1) = .ok r)
    (hty : r.type ≠ crcType) (hcrc : r.crc ≠ crcUpdate d.crc (r.data.getD [])) :
    decodeRecord (k + 1) d =
      .err (if isTornB d.rest.isEmpty d.off (body.take ((decodeFrameSize l).1 + (decodeFrameSize l).2)) then .ueof else .crc)
        { d with crc := crcUpdate d.crc (r.data.getD []) } := by
  rw [decodeRecord]
  simp only [hdone, Bool.false_eq_true, if_false, hl, h0]
  rw [if_neg (by omega), if_neg (by omega)]
  have ht : ((body.take ((decodeFrameSize l).1 + (decodeFrameSize l).2)).take (decodeFrameSize l).1) =
      body.take (decodeFrameSize l).1 := by
    rw [List.take_take]; congr 1; omega
  rw [ht, hu]
  simp only
  have hyes : (r.type ≠ crcType ∧ r.crc ≠ (if r.type = crcType then d.crc else crcUpdate d.crc (r.data.getD []))) :=
    ⟨hty, by rw [if_neg hty]; exact hcrc⟩
  rw [if_pos hyes, if_neg hty]

/-- `decodeRecord` on a written frame whose stored CRC is not the rolling one -/
theorem decodeRecord_frame_bad (k : Nat) (d : Dec) (hdone : d.done = false) (r : Record) (rest : Bytes)
    (hcur : d.cur = encodeFrame r ++ rest)
    (ht : r.type < 2 ^ 64) (hc : r.crc < 2 ^ 32) (hd : ∀ x, r.data = some x → x.length < 2 ^ 63)
    (hsz : (marshal r).length < 2 ^ 56) (hfit : d.off + d.cur.length ≤ d.size)
    (hty : r.type ≠ crcType) (hcrc : r.crc ≠ crcUpdate d.crc (r.data.getD [])) :
    ∃ e, decodeRecord (k + 1) d = .err e { d with crc := crcUpdate d.crc (r.data.getD []) } ∧ (e = .crc ∨ e = .ueof) := by
  have hl : readLE64 d.cur = some ((encodeFrameSize (marshal r).length).1,
      marshal r ++ (List.replicate (encodeFrameSize (marshal r).length).2 0 ++ rest)) := by
    rw [hcur, encodeFrame]; simp only [List.append_assoc]
    exact le64_roundtrip _ (frameSize_lt _ hsz) _
  have hfs := frameSize_roundtrip _ hsz
  have hlen := encodeFrame_length r
  rw [hcur, List.length_append, hlen] at hfit
  refine ⟨_, decodeRecord_step_bad k d hdone _ _ hl (frameSize_ne_zero r hsz) (by rw [hfs]; simp only; omega)
    (by rw [hfs]; simp only [List.length_append, List.length_replicate]; omega) r
    (by rw [hfs]; simp only; rw [List.take_left' rfl]; exact unmarshal_marshal r ht hc hd) hty hcrc, ?_⟩
  split
  · exact Or.inr rfl
  · exact Or.inl rfl

/-- **one changed payload byte, file level** (companion of `WalCodec.single_byte_payload` for the decoder the driver
    runs): `recLoop` returns exactly the records before the damaged one and stops with a decoder error at the damaged
    frame (`lastValidOff` = its start, where `Repair` would truncate). The error is `ErrCRCMismatch`, or
    `io.ErrUnexpectedEOF` when the damaged frame is in the last file and contains an all-zero sector chunk
    (`isTornEntry`) — in both cases nothing of the damaged record or after it is returned. -/
theorem single_byte_payload_file (d : Dec) (hdone : d.done = false) (hc : d.crc < 2 ^ 32) (pre : List Item) (ty : Nat)
    (dpre : Bytes) (x y : UInt8) (dsuf : Bytes) (post : List Item) (tail : Bytes) (hxy : x ≠ y)
    (hcur : d.cur = corruptImage d.crc pre ty dpre x y dsuf post tail)
    (hpre : ∀ it ∈ pre, ItemOk it ∧ it.type ≠ crcType) (hit : ItemOk ⟨ty, dpre ++ x :: dsuf⟩) (hty : ty ≠ crcType)
    (hfit : d.off + d.cur.length ≤ d.size) (fuel : Nat) :
    ∃ e d', recLoop (pre.length + (fuel + 1)) d = (records crcUpdate d.crc pre, .decErr e, d') ∧
      (e = .crc ∨ e = .ueof) ∧ d'.off = d.off + (encodeAll crcUpdate d.crc pre).length := by
  unfold corruptImage at hcur
  simp only at hcur
  rw [recLoop_items pre d hdone _ hcur hc hpre hfit (fuel + 1)]
  have hc0 := crcAfter_lt upd32_crcUpdate pre hc
  have hlen : (dpre ++ y :: dsuf).length < 2 ^ 55 := by
    have := hit.2; simp only [List.length_append, List.length_cons] at this ⊢; exact this
  have hcl := crcUpdate_lt hc0 (dpre ++ x :: dsuf)
  have hsz := marshal_length_lt ty (crcUpdate (crcAfter crcUpdate d.crc pre) (dpre ++ x :: dsuf)) (some (dpre ++ y :: dsuf))
    hit.1 hcl (fun z hz => by simp at hz; subst hz; exact hlen)
  have hfit' : d.off + (encodeAll crcUpdate d.crc pre).length +
      (encodeFrame ⟨ty, crcUpdate (crcAfter crcUpdate d.crc pre) (dpre ++ x :: dsuf), some (dpre ++ y :: dsuf)⟩ ++
        (encodeAll crcUpdate (crcUpdate (crcAfter crcUpdate d.crc pre) (dpre ++ x :: dsuf)) post ++ tail)).length ≤ d.size := by
    rw [hcur] at hfit; simp only [List.length_append] at hfit ⊢; omega
  obtain ⟨e, he, hcases⟩ := decodeRecord_frame_bad d.rest.length
    { d with cur := encodeFrame ⟨ty, crcUpdate (crcAfter crcUpdate d.crc pre) (dpre ++ x :: dsuf), some (dpre ++ y :: dsuf)⟩ ++
                      (encodeAll crcUpdate (crcUpdate (crcAfter crcUpdate d.crc pre) (dpre ++ x :: dsuf)) post ++ tail),
             off := d.off + (encodeAll crcUpdate d.crc pre).length, crc := crcAfter crcUpdate d.crc pre }
    hdone _ _ rfl hit.1 hcl (fun z hz => by simp at hz; subst hz; exact Nat.lt_trans hlen (by decide)) hsz hfit' hty
    (by simp only [Option.getD_some]; exact (crc_payload_ne _ hc0 dpre dsuf x y hxy).symm)
  rw [recLoop, he]
  exact ⟨e, _, Prod.ext (by simp) (Prod.ext rfl rfl), hcases, rfl⟩

/-- the CRC record at the head of a segment, alone -/
theorem recLoop_crcRec (c : Nat) (d : Dec) (hdone : d.done = false) (rest : Bytes)
    (hcur : d.cur = encodeFrame (crcRec c) ++ rest) (hc : c < 2 ^ 32) (hdc : d.crc = 0 ∨ d.crc = c)
    (hfit : d.off + d.cur.length ≤ d.size) (fuel : Nat) :
    recLoop (fuel + 1) d =
      (crcRec c :: (recLoop fuel { d with cur := rest, off := d.off + (encodeFrame (crcRec c)).length, crc := c }).1,
        (recLoop fuel { d with cur := rest, off := d.off + (encodeFrame (crcRec c)).length, crc := c }).2) := by
  rw [recLoop, decodeRecord_frame _ d hdone (crcRec c) _ hcur (show crcType < 2 ^ 64 by decide) hc
    (fun x hx => by simp [crcRec] at hx)
    (marshal_length_lt _ _ _ (show crcType < 2 ^ 64 by decide) hc (fun x hx => by cases hx)) hfit (Or.inl rfl)]
  have hty : (crcRec c).type = crcType := rfl
  have hcc : (crcRec c).crc = c := rfl
  simp only [hty, if_true, hcc]
  have hno : ¬ (d.crc ≠ 0 ∧ c ≠ d.crc) := by
    rcases hdc with h | h
    · simp [h]
    · simp [h]
  rw [if_neg hno]

/-- **one changed payload byte, whole file**: a segment file (CRC record, data frames, anything after) in which one
    payload byte was replaced, read from the start by `recLoop`: the CRC record and the records before the damaged one
    are returned, then a decoder error (CRC mismatch, or unexpected EOF under the torn-entry rule). -/
theorem single_byte_payload_whole_file (c0 : Nat) (hc0 : c0 < 2 ^ 32) (pre : List Item) (ty : Nat)
    (dpre : Bytes) (x y : UInt8) (dsuf : Bytes) (post : List Item) (tail : Bytes) (hxy : x ≠ y)
    (hpre : ∀ it ∈ pre, ItemOk it ∧ it.type ≠ crcType) (hit : ItemOk ⟨ty, dpre ++ x :: dsuf⟩) (hty : ty ≠ crcType)
    (fuel : Nat) :
    ∃ e d', recLoop (pre.length + (fuel + 1) + 1)
        (Dec.open [encodeFrame (crcRec c0) ++ corruptImage c0 pre ty dpre x y dsuf post tail]) =
          (crcRec c0 :: records crcUpdate c0 pre, .decErr e, d') ∧ (e = .crc ∨ e = .ueof) ∧
      d'.off = (encodeFrame (crcRec c0) ++ encodeAll crcUpdate c0 pre).length := by
  rw [recLoop_crcRec c0 (Dec.open [_]) rfl _ rfl hc0 (Or.inl rfl) (by simp [Dec.open]) _]
  obtain ⟨e, d', h1, h2, h3⟩ := single_byte_payload_file
    { Dec.open [encodeFrame (crcRec c0) ++ corruptImage c0 pre ty dpre x y dsuf post tail] with
        cur := corruptImage c0 pre ty dpre x y dsuf post tail,
        off := (Dec.open [encodeFrame (crcRec c0) ++ corruptImage c0 pre ty dpre x y dsuf post tail]).off +
          (encodeFrame (crcRec c0)).length,
        crc := c0 }
    rfl hc0 pre ty dpre x y dsuf post tail hxy rfl hpre hit hty (by simp [Dec.open]) fuel
  rw [h1]
  refine ⟨e, d', rfl, h2, ?_⟩
  rw [h3]; simp [Dec.open]

#print axioms single_byte_payload_whole_file
#print axioms single_byte_payload_file
#print axioms readAll_roundtrip_cut
end WalFile
