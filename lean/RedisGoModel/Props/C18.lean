import RedisGoModel.Exec.Dispatch
/-! C18 — theorems about the stream model the driver runs (`Exec/Stream.lean`). Core Lean only. -/
namespace Exec
open Resp (Reply Bytes)

/-! ### the ID order -/
namespace StreamId
theorem lt_trans {a b c : StreamId} (h1 : a.lt b) (h2 : b.lt c) : a.lt c := by unfold StreamId.lt at *; omega
theorem le_of_lt {a b : StreamId} (h : a.lt b) : a.le b := by unfold StreamId.lt StreamId.le at *; omega
theorem le_trans {a b c : StreamId} (h1 : a.le b) (h2 : b.le c) : a.le c := by unfold StreamId.le at *; omega
theorem lt_of_lt_of_le {a b c : StreamId} (h1 : a.lt b) (h2 : b.le c) : a.lt c := by unfold StreamId.lt StreamId.le at *; omega
theorem lt_of_le_of_lt {a b c : StreamId} (h1 : a.le b) (h2 : b.lt c) : a.lt c := by unfold StreamId.lt StreamId.le at *; omega
theorem not_le {a b : StreamId} : ¬ a.le b ↔ b.lt a := by unfold StreamId.lt StreamId.le; omega
theorem not_lt {a b : StreamId} : ¬ a.lt b ↔ b.le a := by unfold StreamId.lt StreamId.le; omega
theorem lt_irrefl (a : StreamId) : ¬ a.lt a := by unfold StreamId.lt; omega
theorem le_refl (a : StreamId) : a.le a := by unfold StreamId.le; omega
theorem zero_le (a : StreamId) : idZero.le a := by unfold StreamId.le idZero; simp; omega
end StreamId

/-- entries strictly increasing, none above the recorded last ID -/
def Sorted (s : List StreamEntry) : Prop := s.Pairwise fun a b => a.id.lt b.id
def StreamOk (s : List StreamEntry) (last : StreamId) : Prop := Sorted s ∧ ∀ e ∈ s, e.id.le last

/-! ### (5) ID assignment: every ID the model hands out is strictly greater than the last one -/

theorem incrId_gt {a b : StreamId} (h : incrId a = some b) : a.lt b := by
  unfold incrId at h
  split at h
  · cases h; unfold StreamId.lt; simp
  · split at h
    · cases h; unfold StreamId.lt; simp
    · cases h

/-- **soundness of the auto-ID checker**: an accepted auto-generated ID is strictly greater than the previous last ID -/
theorem autoOk_gt {now : Int} {last id : StreamId} (h : autoOk now last id = true) : last.lt id := by
  unfold autoOk at h
  simp only [Bool.or_eq_true, Bool.and_eq_true, decide_eq_true_eq, beq_iff_eq] at h
  rcases h with h | h
  · unfold StreamId.lt; omega
  · exact incrId_gt h.2

theorem nextId_gt {env : Env} {last id : StreamId} {req : IdReq} (h : nextId env last req = some id) : last.lt id := by
  cases req with
  | explicit i =>
    simp only [nextId] at h
    split at h
    · cases h; assumption
    · cases h
  | autoSeq ms =>
    simp only [nextId] at h
    split at h
    · cases h
    · split at h
      · split at h
        · cases h; unfold StreamId.lt; simp; omega
        · cases h
      · cases h; unfold StreamId.lt; simp; omega
  | auto =>
    simp only [nextId] at h
    split at h
    · split at h
      · split at h
        · rename_i hc
          cases h
          simp only [Bool.and_eq_true] at hc
          exact autoOk_gt hc.2
        · cases h
      · cases h
    · cases h

/-- the auto-ID checker accepts exactly what the rule of the reference produces for a clock reading `t` in the bracket -/
theorem autoOk_complete (now : Int) (last : StreamId) (t : Nat) (hlo : now * 1000 - 1000 ≤ (t : Int)) (hhi : (t : Int) < (now + 2) * 1000)
    (ht : t ≤ maxU64) :
    (last.ms < t → autoOk now last ⟨t, 0⟩ = true) ∧ (t ≤ last.ms → ∀ id, incrId last = some id → autoOk now last id = true) := by
  refine ⟨fun h => ?_, fun h id hid => ?_⟩
  · unfold autoOk; simp; left; omega
  · unfold autoOk; simp; right; exact ⟨by omega, hid⟩

/-! ### (4) trimming removes only the oldest entries, down to the bound -/

theorem applyTrim_suffix (o : XaddOpts) (s : List StreamEntry) : ∃ n, applyTrim o s = s.drop n ∧ s = s.take n ++ applyTrim o s := by
  unfold applyTrim
  split
  · exact ⟨0, by simp⟩
  · exact ⟨_, rfl, (List.take_append_drop _ _).symm⟩

theorem sorted_drop {s : List StreamEntry} (h : Sorted s) (n : Nat) : Sorted (s.drop n) :=
  List.Pairwise.sublist (List.drop_sublist _ _) h

/-- MAXLEN n without an eviction cap keeps exactly the newest `min len n` entries, untouched; what goes is a prefix of older entries -/
theorem trim_maxlen_exact (o : XaddOpts) (s : List StreamEntry) (n : Nat) (ht : o.trim = some (.maxlen n)) (hc : evictCap o = none)
    (h : Sorted s) :
    applyTrim o s = s.drop (s.length - n) ∧ (applyTrim o s).length = min s.length n ∧
    ∀ d ∈ s.take (s.length - n), ∀ e ∈ applyTrim o s, d.id.lt e.id := by
  have e : applyTrim o s = s.drop (s.length - n) := by simp [applyTrim, ht, hc, trimNeed]
  rw [e]
  refine ⟨rfl, by simp; omega, ?_⟩
  intro d hd x hx
  have := h
  rw [Sorted, ← List.take_append_drop (s.length - n) s, List.pairwise_append] at this
  exact this.2.2 d hd x hx

theorem dropWhile_lt_eq_filter (t : StreamId) : ∀ (s : List StreamEntry), Sorted s →
    s.dropWhile (fun e => decide (e.id.lt t)) = s.filter (fun e => decide (t.le e.id)) := by
  intro s
  induction s with
  | nil => intro _; rfl
  | cons e r ih =>
    intro h
    simp only [Sorted, List.pairwise_cons] at h
    simp only [List.dropWhile_cons]
    by_cases hlt : e.id.lt t
    · have : ¬ t.le e.id := by rw [StreamId.not_le]; exact hlt
      simp [hlt, List.filter_cons, this, ih h.2]
    · have hle : t.le e.id := StreamId.not_lt.mp hlt
      simp only [hlt, decide_false, Bool.false_eq_true, if_false]
      symm
      rw [List.filter_eq_self]
      intro x hx
      rcases List.mem_cons.mp hx with rfl | hx
      · simpa using hle
      · simpa using StreamId.le_trans hle (StreamId.le_of_lt (h.1 x hx))

theorem drop_takeWhile_length (p : StreamEntry → Bool) : ∀ s : List StreamEntry, s.drop (s.takeWhile p).length = s.dropWhile p := by
  intro s
  induction s with
  | nil => rfl
  | cons e r ih => by_cases hp : p e <;> simp [List.takeWhile_cons, List.dropWhile_cons, hp, ih]

/-- MINID t without an eviction cap keeps exactly the entries with `t ≤ id` -/
theorem trim_minid_exact (o : XaddOpts) (s : List StreamEntry) (t : StreamId) (ht : o.trim = some (.minid t)) (hc : evictCap o = none)
    (h : Sorted s) : applyTrim o s = s.filter (fun e => decide (t.le e.id)) := by
  have e : applyTrim o s = s.drop (s.takeWhile fun e => decide (e.id.lt t)).length := by simp [applyTrim, ht, hc, trimNeed]
  rw [e, drop_takeWhile_length, dropWhile_lt_eq_filter t s h]

/-- with `~ … LIMIT c` (c > 0) at most `c` entries go, and never more than the exact bound asks for -/
theorem trim_capped (o : XaddOpts) (s : List StreamEntry) (t : Trim) (c : Nat) (ht : o.trim = some t) (hc : evictCap o = some c) :
    applyTrim o s = s.drop (min (trimNeed s t) c) := by simp [applyTrim, ht, hc]

/-- **trim_oldest_only**: whatever the options, trimming drops a prefix (the oldest entries) and leaves the rest untouched and in order -/
theorem trim_oldest_only (o : XaddOpts) (s : List StreamEntry) (h : Sorted s) :
    Sorted (applyTrim o s) ∧ ∃ dropped, s = dropped ++ applyTrim o s ∧ ∀ d ∈ dropped, ∀ e ∈ applyTrim o s, d.id.lt e.id := by
  obtain ⟨n, hn, hs⟩ := applyTrim_suffix o s
  refine ⟨hn ▸ sorted_drop h n, s.take n, hs, ?_⟩
  intro d hd e he
  have := h
  rw [Sorted, hs, List.pairwise_append] at this
  exact this.2.2 d hd e he

/-! ### (3) XRANGE: the one-pass scan returns exactly the entries in the interval -/

theorem takeWhile_belowHi_eq_filter (r : Range) : ∀ (s : List StreamEntry), Sorted s →
    s.takeWhile (fun e => r.belowHi e.id) = s.filter (fun e => r.belowHi e.id) := by
  intro s
  induction s with
  | nil => intro _; rfl
  | cons e t ih =>
    intro h
    simp only [Sorted, List.pairwise_cons] at h
    by_cases hb : r.belowHi e.id = true
    · simp [List.takeWhile_cons, List.filter_cons, hb, ih h.2]
    · simp only [List.takeWhile_cons, hb, List.filter_cons]
      symm
      simp only [Bool.false_eq_true, if_false]
      rw [List.filter_eq_nil_iff]
      intro x hx hbx
      apply hb
      have hlt := h.1 x hx
      unfold Range.belowHi at *
      split at hbx
      · simp only [decide_eq_true_eq] at hbx ⊢; rename_i hex; simp [hex]; exact StreamId.lt_trans hlt hbx
      · simp only [decide_eq_true_eq] at hbx ⊢; rename_i hex; simp [hex]; exact StreamId.le_of_lt (StreamId.lt_of_lt_of_le hlt hbx)

theorem dropWhile_notAbove_eq_filter (r : Range) : ∀ (s : List StreamEntry), Sorted s →
    s.dropWhile (fun e => !r.aboveLo e.id) = s.filter (fun e => r.aboveLo e.id) := by
  intro s
  induction s with
  | nil => intro _; rfl
  | cons e t ih =>
    intro h
    simp only [Sorted, List.pairwise_cons] at h
    by_cases ha : r.aboveLo e.id = true
    · simp only [List.dropWhile_cons, ha, Bool.not_true, Bool.false_eq_true, if_false]
      symm
      rw [List.filter_eq_self]
      intro x hx
      rcases List.mem_cons.mp hx with rfl | hx
      · exact ha
      · have hlt := h.1 x hx
        unfold Range.aboveLo at *
        split at ha
        · rename_i hex; simp only [decide_eq_true_eq] at ha; simp [hex]; exact StreamId.lt_trans ha hlt
        · rename_i hex; simp only [decide_eq_true_eq] at ha; simp [hex]; exact StreamId.le_of_lt (StreamId.lt_of_le_of_lt ha hlt)
    · simp [List.dropWhile_cons, List.filter_cons, ha, ih h.2]

/-- **xrange_exact (scan)**: on an ordered stream the scan is the filter by interval membership -/
theorem rangeScan_exact (r : Range) (s : List StreamEntry) (h : Sorted s) :
    rangeScan r s = s.filter (fun e => r.mem e.id) := by
  unfold rangeScan
  rw [dropWhile_notAbove_eq_filter r s h,
      takeWhile_belowHi_eq_filter r _ (List.Pairwise.sublist List.filter_sublist h), List.filter_filter]
  congr 1
  funext e
  simp [Range.mem, Bool.and_comm]

/-- the result is in ID order -/
theorem rangeScan_sorted (r : Range) (s : List StreamEntry) (h : Sorted s) : Sorted (rangeScan r s) := by
  rw [rangeScan_exact r s h]; exact List.Pairwise.sublist List.filter_sublist h

/-- membership for inclusive bounds is `lo ≤ id ≤ hi` -/
theorem mem_inclusive (lo hi i : StreamId) : (Range.mem ⟨false, lo, false, hi⟩ i = true) ↔ (lo.le i ∧ i.le hi) := by
  simp [Range.mem, Range.aboveLo, Range.belowHi]

/-! ### keyspace lemmas -/

theorem get_cons (p : Bytes × Entry) (r : Db) (k : Bytes) : Db.get (p :: r) k = if p.1 = k then some p.2 else Db.get r k := by
  by_cases h : p.1 = k <;> simp [Db.get, List.find?_cons, h]

theorem del_cons (p : Bytes × Entry) (r : Db) (k : Bytes) : Db.del (p :: r) k = if p.1 = k then Db.del r k else p :: Db.del r k := by
  by_cases h : p.1 = k <;> simp [Db.del, List.filter_cons, h]

theorem get_del (db : Db) (k k' : Bytes) : (db.del k).get k' = if k' = k then none else db.get k' := by
  induction db with
  | nil => simp [Db.del, Db.get]
  | cons p r ih =>
    rw [del_cons, get_cons]
    by_cases hp : p.1 = k
    · simp only [hp, if_true, ih]
      by_cases hk : k' = k
      · simp [hk]
      · have : ¬ k = k' := fun h => hk h.symm
        simp [hk, this]
    · simp only [hp, if_false, get_cons, ih]
      by_cases hk : k' = k
      · subst hk; simp [hp]
      · simp [hk]

theorem get_put (db : Db) (k k' : Bytes) (e : Entry) : (db.put k e).get k' = if k' = k then some e else db.get k' := by
  unfold Db.put
  rw [get_cons, get_del]
  by_cases hk : k' = k
  · subst hk; simp
  · have : ¬ k = k' := fun h => hk h.symm
    simp [hk, this]

theorem checkTTL_cases_s (db : Db) (now : Int) (k : Bytes) : (checkTTL db now k).1 = db ∨ (checkTTL db now k).1 = db.del k := by
  unfold checkTTL
  split
  · split
    · split <;> simp
    · simp
  · simp

/-- what `checkTTL` leaves under any key was there before -/
theorem checkTTL_get_s {db : Db} {now : Int} {k k' : Bytes} {e : Entry} (h : (checkTTL db now k).1.get k' = some e) : db.get k' = some e := by
  rcases checkTTL_cases_s db now k with hc | hc
  · rwa [hc] at h
  · rw [hc, get_del] at h
    split at h
    · cases h
    · exact h

/-- if the key is still there after `checkTTL`, nothing was deleted -/
theorem checkTTL_present {db : Db} {now : Int} {k : Bytes} {e : Entry} (h : (checkTTL db now k).1.get k = some e) : (checkTTL db now k).1 = db := by
  rcases checkTTL_cases_s db now k with hc | hc
  · exact hc
  · rw [hc, get_del] at h; simp at h
/-! ### (1) the invariant over programs -/

def DbOk (db : Db) : Prop := ∀ k e s last, db.get k = some e → e.val = .stream s last → StreamOk s last

theorem DbOk_nil : DbOk [] := by intro k e s last h; simp [Db.get] at h

theorem DbOk_checkTTL {db : Db} (h : DbOk db) (now : Int) (k : Bytes) : DbOk (checkTTL db now k).1 :=
  fun k' e s last hg hv => h k' e s last (checkTTL_get_s hg) hv

theorem DbOk_setVal {db : Db} (h : DbOk db) (k : Bytes) (s : List StreamEntry) (last : StreamId) (hs : StreamOk s last) :
    DbOk (db.setVal k (.stream s last)) := by
  intro k' e s' last' hg hv
  unfold Db.setVal at hg
  rw [get_put] at hg
  split at hg
  · cases hg; cases hv; exact hs
  · exact h k' e s' last' hg hv

theorem getStream_ok {db : Db} (h : DbOk db) {k : Bytes} {s : List StreamEntry} {last : StreamId}
    (hg : getStream db k = some (some (s, last))) : StreamOk s last := by
  unfold getStream at hg
  split at hg
  · cases hg
  · rename_i e he
    split at hg
    · rename_i s' last' hv
      cases hg
      exact h k e s last he hv
    · cases hg

/-- appending an ID above `last` and trimming keeps the stream ordered and below its new last ID; every old entry is below the new ID -/
theorem append_ok {s : List StreamEntry} {last id : StreamId} (o : XaddOpts) (fields : List Bytes) (h : StreamOk s last) (hlt : last.lt id) :
    StreamOk (applyTrim o (s ++ [⟨id, fields⟩])) id ∧ ∀ e ∈ s, e.id.lt id := by
  have hall : ∀ e ∈ s, e.id.lt id := fun e he => StreamId.lt_of_le_of_lt (h.2 e he) hlt
  have hs : Sorted (s ++ [⟨id, fields⟩]) := by
    unfold Sorted
    rw [List.pairwise_append]
    refine ⟨h.1, List.pairwise_singleton _ _, ?_⟩
    intro a ha b hb
    rw [List.mem_singleton] at hb; subst hb; exact hall a ha
  refine ⟨⟨(trim_oldest_only o _ hs).1, ?_⟩, hall⟩
  intro e he
  obtain ⟨n, hn, _⟩ := applyTrim_suffix o (s ++ [⟨id, fields⟩])
  rw [hn] at he
  have := List.mem_of_mem_drop he
  rcases List.mem_append.mp this with h1 | h1
  · exact StreamId.le_of_lt (hall e h1)
  · rw [List.mem_singleton] at h1; subst h1; exact StreamId.le_refl _

/-- outcome of the effect step of XADD -/
theorem xaddTo_cases (env : Env) (db : Db) (k : Bytes) (o : XaddOpts) (req : IdReq) (fields : List Bytes) (s : List StreamEntry) (last : StreamId) :
    ((xaddTo env db k o req fields s last).2 = db ∧ ¬ ∃ b, (xaddTo env db k o req fields s last).1 = .bulk b) ∨
    (∃ id, nextId env last req = some id ∧
       xaddTo env db k o req fields s last = (bulk (fmtId id), db.setVal k (.stream (applyTrim o (s ++ [⟨id, fields⟩])) id))) := by
  unfold xaddTo
  split
  · left; simp
  · split
    · left; split <;> simp [errNotGreater]
    · rename_i id hid; right; exact ⟨id, hid, rfl⟩

theorem xaddTo_ok {env : Env} {db : Db} {k : Bytes} {o : XaddOpts} {req : IdReq} {fields : List Bytes} {s : List StreamEntry} {last : StreamId}
    (hdb : DbOk db) (hs : StreamOk s last) : DbOk (xaddTo env db k o req fields s last).2 := by
  rcases xaddTo_cases env db k o req fields s last with h | ⟨id, hid, h⟩
  · rw [h.1]; exact hdb
  · rw [h]; exact DbOk_setVal hdb k _ id (append_ok o fields hs (nextId_gt hid)).1

theorem streamOk_empty : StreamOk [] idZero := ⟨List.Pairwise.nil, fun e he => by cases he⟩

/-- the shape of every XADD outcome: an early reply that leaves the keyspace as it was, a reply after the expiry check that changes
    nothing else (WRONGTYPE, nil for NOMKSTREAM), or the effect step on the stream found (or on a fresh one) -/
theorem cmdXAdd_cases (env : Env) (db : Db) (args : List Bytes) :
    ((cmdXAdd env db args).2 = db ∧ (cmdXAdd env db args).1.isErr = true) ∨
    (∃ k, (cmdXAdd env db args).2 = (checkTTL db env.now k).1 ∧ ((cmdXAdd env db args).1 = wrongType ∨ (cmdXAdd env db args).1 = nil)) ∨
    (∃ c k rest o req fields s last, args = c :: k :: rest ∧ parseXadd rest {} = some (o, req, fields) ∧ req ≠ .explicit idZero ∧
      (getStream (checkTTL db env.now k).1 k = some (some (s, last)) ∨
       (getStream (checkTTL db env.now k).1 k = none ∧ s = [] ∧ last = idZero ∧ o.nomk = false)) ∧
      cmdXAdd env db args = xaddTo env (checkTTL db env.now k).1 k o req fields s last) := by
  unfold cmdXAdd
  split
  · rename_i c k rest
    split
    · left; simp [errArgs, Reply.isErr]
    · split
      · left; simp [errSyntax, Reply.isErr]
      · rename_i o req fields hp
        split
        · left; simp [errSyntax, Reply.isErr]
        · split
          · left; simp [errArgs, Reply.isErr]
          · split
            · left; simp [Reply.isErr]
            · rename_i hz
              simp only []
              split
              · right; left; exact ⟨k, rfl, Or.inl rfl⟩
              · rename_i hg
                split
                · right; left; exact ⟨k, rfl, Or.inr rfl⟩
                · rename_i hn
                  right; right
                  refine ⟨c, k, rest, o, req, fields, [], idZero, rfl, hp, by simpa using hz, Or.inr ⟨hg, rfl, rfl, by simpa using hn⟩, rfl⟩
              · rename_i s last hg
                right; right
                exact ⟨c, k, rest, o, req, fields, s, last, rfl, hp, by simpa using hz, Or.inl hg, rfl⟩
  · left; simp [errArgs, Reply.isErr]
theorem cmdXAdd_ok {env : Env} {db : Db} {args : List Bytes} (h : DbOk db) : DbOk (cmdXAdd env db args).2 := by
  rcases cmdXAdd_cases env db args with h1 | ⟨k, h1, _⟩ | ⟨c, k, rest, o, req, fields, s, last, _, _, _, hs, h1⟩
  · rw [h1.1]; exact h
  · rw [h1]; exact DbOk_checkTTL h _ _
  · rw [h1]
    refine xaddTo_ok (DbOk_checkTTL h _ _) ?_
    rcases hs with hs | ⟨_, rfl, rfl, _⟩
    · exact getStream_ok (DbOk_checkTTL h _ _) hs
    · exact streamOk_empty

/-- XRANGE never writes: the keyspace afterwards is the one before, or the one after the expiry check of its key -/
theorem cmdXRange_db (env : Env) (db : Db) (args : List Bytes) :
    (cmdXRange env db args).2 = db ∨ ∃ k, (cmdXRange env db args).2 = (checkTTL db env.now k).1 := by
  unfold cmdXRange
  split
  · rename_i c k sB eB opts
    split
    · split
      · left; rfl
      · split
        · left; rfl
        · split
          · left; rfl
          · simp only []
            split
            · right; exact ⟨k, rfl⟩
            · right; exact ⟨k, rfl⟩
            · split <;> (right; exact ⟨k, rfl⟩)
    · left; rfl
  · left; rfl

theorem cmdXRange_ok {env : Env} {db : Db} {args : List Bytes} (h : DbOk db) : DbOk (cmdXRange env db args).2 := by
  rcases cmdXRange_db env db args with h1 | ⟨k, h1⟩
  · rw [h1]; exact h
  · rw [h1]; exact DbOk_checkTTL h _ _

/-- a program of stream commands, each with its own environment (clock reading, observed reply) -/
inductive SCmd
| xadd (env : Env) (args : List Bytes)
| xrange (env : Env) (args : List Bytes)

def SCmd.run (db : Db) : SCmd → Reply × Db
| .xadd env args => cmdXAdd env db args
| .xrange env args => cmdXRange env db args

def runStream : Db → List SCmd → Db
| db, [] => db
| db, c :: rest => runStream (c.run db).2 rest

/-- **ids_strictly_increasing (invariant)**: after any program of XADD/XRANGE commands — whatever arguments, clock readings and
    observed auto IDs — every stream in the keyspace is strictly increasing in ID and bounded by its recorded last ID -/
theorem ids_strictly_increasing (prog : List SCmd) (db : Db) (h : DbOk db) : DbOk (runStream db prog) := by
  induction prog generalizing db with
  | nil => exact h
  | cons c rest ih =>
    apply ih
    cases c with
    | xadd env args => exact cmdXAdd_ok h
    | xrange env args => exact cmdXRange_ok h

theorem ids_strictly_increasing_from_empty (prog : List SCmd) : DbOk (runStream [] prog) :=
  ids_strictly_increasing prog [] DbOk_nil

theorem getStream_setVal (db : Db) (k : Bytes) (s : List StreamEntry) (last : StreamId) :
    getStream (db.setVal k (.stream s last)) k = some (some (s, last)) := by
  unfold getStream Db.setVal
  rw [get_put]; simp

/-- **xadd_reply_is_stored_id**: when XADD answers an ID (a non-nil bulk), that ID is the text of an `id` which (a) is strictly
    greater than the last ID and every entry of the stream found (after the expiry check), and (b) is the ID under which the
    entry is appended: the stream stored afterwards is `trim (old ++ [(id, fields)])` with last ID `id` -/
theorem xadd_reply_is_stored_id (env : Env) (db : Db) (args : List Bytes) (b : Bytes) (hdb : DbOk db)
    (hr : (cmdXAdd env db args).1 = .bulk (some b)) :
    ∃ c k rest o req fields s last id, args = c :: k :: rest ∧ parseXadd rest {} = some (o, req, fields) ∧ b = fmtId id ∧
      (getStream (checkTTL db env.now k).1 k = some (some (s, last)) ∨ (getStream (checkTTL db env.now k).1 k = none ∧ s = [] ∧ last = idZero)) ∧
      last.lt id ∧ (∀ e ∈ s, e.id.lt id) ∧
      getStream (cmdXAdd env db args).2 k = some (some (applyTrim o (s ++ [⟨id, fields⟩]), id)) := by
  rcases cmdXAdd_cases env db args with h1 | ⟨k, _, h1⟩ | ⟨c, k, rest, o, req, fields, s, last, ha, hp, _, hs, h1⟩
  · rw [hr] at h1; simp [Reply.isErr] at h1
  · rw [hr] at h1; simp [wrongType, nil] at h1
  · rcases xaddTo_cases env (checkTTL db env.now k).1 k o req fields s last with h2 | ⟨id, hid, h2⟩
    · exfalso; apply h2.2; rw [← h1]; exact ⟨_, hr⟩
    · have hso : StreamOk s last := by
        rcases hs with hs | ⟨_, rfl, rfl, _⟩
        · exact getStream_ok (DbOk_checkTTL hdb _ _) hs
        · exact streamOk_empty
      have hb : b = fmtId id := by
        rw [h1, h2] at hr; simp [bulk] at hr; exact hr.symm
      refine ⟨c, k, rest, o, req, fields, s, last, id, ha, hp, hb, ?_, nextId_gt hid, (append_ok o fields hso (nextId_gt hid)).2, ?_⟩
      · rcases hs with hs | ⟨h0, rfl, rfl, _⟩
        · exact Or.inl hs
        · exact Or.inr ⟨h0, rfl, rfl⟩
      · rw [h1, h2]; exact getStream_setVal _ _ _ _

/-! ### (2) an explicit ID that is not greater is rejected and changes nothing -/

theorem getStream_some_get {db : Db} {k : Bytes} {x : Option (List StreamEntry × StreamId)} (h : getStream db k = some x) : ∃ e, db.get k = some e := by
  unfold getStream at h
  split at h
  · cases h
  · rename_i e he; exact ⟨e, he⟩

/-- **xadd_rejects_not_greater**: an explicit ID that is not strictly greater than the last ID of the stream under the key (which
    includes every ID equal to or below any entry, and any ID at all once the last ID is the maximum) gets an error reply and the
    keyspace is exactly what it was -/
theorem xadd_rejects_not_greater (env : Env) (db : Db) (c k : Bytes) (rest : List Bytes) (o : XaddOpts) (id : StreamId) (fields : List Bytes)
    (s : List StreamEntry) (last : StreamId)
    (hp : parseXadd rest {} = some (o, .explicit id, fields))
    (hs : getStream (checkTTL db env.now k).1 k = some (some (s, last))) (hng : ¬ last.lt id) :
    (cmdXAdd env db (c :: k :: rest)).1.isErr = true ∧ (cmdXAdd env db (c :: k :: rest)).2 = db := by
  have hsame : (checkTTL db env.now k).1 = db := by
    obtain ⟨e, he⟩ := getStream_some_get hs
    exact checkTTL_present he
  have hc : checkTTL db env.now k = (db, (checkTTL db env.now k).2) := by
    apply Prod.ext
    · exact hsame
    · rfl
  rw [hsame] at hs
  unfold cmdXAdd
  simp only [hp]
  split
  · simp [errArgs, Reply.isErr]
  · split
    · simp [errSyntax, Reply.isErr]
    · split
      · simp [errArgs, Reply.isErr]
      · split
        · simp [Reply.isErr]
        · rw [hc]
          simp only [hs]
          unfold xaddTo
          split
          · simp [Reply.isErr]
          · simp [nextId, hng, errNotGreater, Reply.isErr]

/-- `0-0` is never accepted, whatever the key holds, and the keyspace is untouched -/
theorem xadd_rejects_zero (env : Env) (db : Db) (c k : Bytes) (rest : List Bytes) (o : XaddOpts) (fields : List Bytes)
    (hp : parseXadd rest {} = some (o, .explicit idZero, fields)) :
    (cmdXAdd env db (c :: k :: rest)).1.isErr = true ∧ (cmdXAdd env db (c :: k :: rest)).2 = db := by
  unfold cmdXAdd
  simp only [hp]
  split
  · simp [errArgs, Reply.isErr]
  · split
    · simp [errSyntax, Reply.isErr]
    · split
      · simp [errArgs, Reply.isErr]
      · simp [Reply.isErr]

/-- the effect step alone: an explicit ID that is not greater than the last ID is refused and nothing is stored -/
theorem xaddTo_rejects_not_greater (env : Env) (db : Db) (k : Bytes) (o : XaddOpts) (id : StreamId) (fields : List Bytes)
    (s : List StreamEntry) (last : StreamId) (hng : ¬ last.lt id) :
    (xaddTo env db k o (.explicit id) fields s last).1.isErr = true ∧ (xaddTo env db k o (.explicit id) fields s last).2 = db := by
  unfold xaddTo
  split
  · simp [Reply.isErr]
  · simp [nextId, hng, errNotGreater, Reply.isErr]

example : ¬ (StreamId.mk 5 1).lt ⟨5, 1⟩ ∧ ¬ (StreamId.mk 5 1).lt ⟨4, 9⟩ ∧ (StreamId.mk 5 1).lt ⟨5, 2⟩ := by decide

/-! ### (3) XRANGE at command level -/

theorem getStream_none_get {db : Db} {k : Bytes} (h : getStream db k = none) : db.get k = none := by
  unfold getStream at h
  split at h
  · assumption
  · split at h <;> cases h

/-- **xrange_exact**: for every pair of bounds the model parses (`-`, `+`, `ms-seq`, `ms`, each optionally exclusive with `(`), on a key
    holding a stream, the reply is exactly the stored entries whose IDs lie in the interval, in stored (= ID) order, each as
    `[id, [field, value, …]]` with the fields it was added with — cut to the first `n` for COUNT n, the nil array for COUNT 0 — and the
    keyspace is unchanged -/
theorem xrange_exact (env : Env) (db : Db) (c k sB eB : Bytes) (opts : List Bytes) (sx ex : Bool) (lo hi : StreamId) (cnt : Option Nat)
    (s : List StreamEntry) (last : StreamId) (hdb : DbOk db)
    (hs : parseBound sB 0 = some (sx, lo)) (he : parseBound eB maxU64 = some (ex, hi))
    (hv1 : (sx && lo == idMax) = false) (hv2 : (ex && hi == idZero) = false)
    (hc : parseCount opts none = some cnt)
    (hg : getStream (checkTTL db env.now k).1 k = some (some (s, last))) :
    cmdXRange env db (c :: k :: sB :: eB :: opts) =
      ((match cnt with
        | some 0 => .arr none
        | some n => arrOf (((s.filter fun e => Range.mem ⟨sx, lo, ex, hi⟩ e.id).take n).map entryReply)
        | none => arrOf ((s.filter fun e => Range.mem ⟨sx, lo, ex, hi⟩ e.id).map entryReply)), db) := by
  have hsame : (checkTTL db env.now k).1 = db := by
    obtain ⟨e, he⟩ := getStream_some_get hg
    exact checkTTL_present he
  have hcp : checkTTL db env.now k = (db, (checkTTL db env.now k).2) := by
    apply Prod.ext
    · exact hsame
    · rfl
  rw [hsame] at hg
  have hso : Sorted s := (getStream_ok hdb hg).1
  unfold cmdXRange
  simp only [hs, he, hv1, hv2, hc, Bool.false_eq_true, if_false]
  rw [hcp]
  simp only [hg, rangeScan_exact _ s hso]
  cases cnt with
  | none => rfl
  | some n => cases n <;> rfl

/-- **xrange_missing_creates_nothing**: on a missing (or just expired) key the reply is the empty array, the key is still missing
    afterwards and no other key appeared -/
theorem xrange_missing_creates_nothing (env : Env) (db : Db) (c k sB eB : Bytes) (opts : List Bytes) (sx ex : Bool) (lo hi : StreamId) (cnt : Option Nat)
    (hs : parseBound sB 0 = some (sx, lo)) (he : parseBound eB maxU64 = some (ex, hi))
    (hv1 : (sx && lo == idMax) = false) (hv2 : (ex && hi == idZero) = false)
    (hc : parseCount opts none = some cnt)
    (hg : getStream (checkTTL db env.now k).1 k = none) :
    cmdXRange env db (c :: k :: sB :: eB :: opts) = (arrOf [], (checkTTL db env.now k).1) ∧
    (checkTTL db env.now k).1.get k = none ∧ ∀ k' e, (checkTTL db env.now k).1.get k' = some e → db.get k' = some e := by
  refine ⟨?_, getStream_none_get hg, fun k' e h => checkTTL_get_s h⟩
  unfold cmdXRange
  simp only [hs, he, hv1, hv2, hc, Bool.false_eq_true, if_false]
  simp only [hg]

/-- each reply element carries the ID and the field list of its entry -/
theorem entryReply_eq (e : StreamEntry) : entryReply e = .arr (some [.bulk (some (fmtId e.id)), .arr (some (e.fields.map fun b => .bulk (some b)))]) := rfl

/-! ### (6) NOMKSTREAM on a missing key -/

/-- **xadd_nomkstream_missing**: a well-formed XADD with NOMKSTREAM on a missing (or just expired) key answers nil and creates nothing -/
theorem xadd_nomkstream_missing (env : Env) (db : Db) (c k : Bytes) (rest : List Bytes) (o : XaddOpts) (req : IdReq) (fields : List Bytes)
    (hp : parseXadd rest {} = some (o, req, fields)) (hn : o.nomk = true)
    (hlen : ¬ rest.length < 3) (hl : (o.limit.isSome && !o.approx) = false)
    (hf : (decide (fields.length < 2) || fields.length % 2 == 1) = false) (hz : (req == .explicit idZero) = false)
    (hg : getStream (checkTTL db env.now k).1 k = none) :
    cmdXAdd env db (c :: k :: rest) = (nil, (checkTTL db env.now k).1) ∧ (checkTTL db env.now k).1.get k = none ∧
    ∀ k' e, (checkTTL db env.now k).1.get k' = some e → db.get k' = some e := by
  refine ⟨?_, getStream_none_get hg, fun k' e h => checkTTL_get_s h⟩
  unfold cmdXAdd
  simp only [hp, hlen, hl, hf, hz, Bool.false_eq_true, if_false]
  simp only [hg, hn, if_true]

/-- whatever else is wrong with the command, NOMKSTREAM on a missing key never stores anything: the keyspace afterwards is the one
    before, or the one after the expiry check -/
theorem xadd_nomkstream_never_creates (env : Env) (db : Db) (c k : Bytes) (rest : List Bytes) (o : XaddOpts) (req : IdReq) (fields : List Bytes)
    (hp : parseXadd rest {} = some (o, req, fields)) (hn : o.nomk = true)
    (hg : getStream (checkTTL db env.now k).1 k = none) :
    (cmdXAdd env db (c :: k :: rest)).2 = db ∨ (cmdXAdd env db (c :: k :: rest)).2 = (checkTTL db env.now k).1 := by
  unfold cmdXAdd
  simp only [hp]
  split
  · left; rfl
  · split
    · left; rfl
    · split
      · left; rfl
      · split
        · left; rfl
        · right; simp only [hg, hn, if_true]

/-- the hypotheses of the parse-level theorems are satisfiable: `XADD k * f v` scans to an auto-ID request with one pair -/
example : parseXadd [[42], [102], [118]] {} = some ({}, .auto, [[102], [118]]) := by rw [parseXadd]; simp
/-- … and a keyspace where the key holds a stream / is missing -/
example : getStream (checkTTL [([107], { val := .stream [⟨⟨5, 1⟩, [[102], [118]]⟩] ⟨5, 1⟩ })] 0 [107]).1 [107]
    = some (some ([⟨⟨5, 1⟩, [[102], [118]]⟩], ⟨5, 1⟩)) := by decide
example : getStream (checkTTL [] 0 [107]).1 [107] = none := by decide
example : parseBound [45] 0 = some (false, idZero) ∧ parseBound [43] maxU64 = some (false, idMax) := by decide

end Exec
