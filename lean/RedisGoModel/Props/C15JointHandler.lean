import RedisGoModel.Raft.RHJ
import RedisGoModel.Props.C15JointSafe

/-! C15 Stage D, step 7: the two decisions of the executable joint-configuration handler `RHJ.handleJ` that read the configuration,
    relative to the protocol model `RSJ` (whose safety is `C15_joint_holds`):
    * `wonVotesJ_quorum`: a won tally exhibits a set `Q` with `RSJ.IsQuorumJ cfg Q` (a strict majority of the incoming half AND, if
      non-empty, of the outgoing half) all of whose members are recorded as granted — the quorum hypothesis of `CStep.becomeLeader`;
    * `qidxJ_quorum`, `maybeCommitJ_spec`: `maybeCommitJ` either changes nothing or moves the commit index to a `k` above it, inside the
      log, whose entry has the current term, and exhibits such a `Q` with `k ≤ match[j]` on `Q` — the hypothesis of `CStep.advanceCommit`;
    * `gateSeq_cons`: a proposal message with several payloads is the three-reason gate, one payload after the other;
    * `wonVotesJ_iff_etcd`, `commitGuard_iff_etcd`: on every configuration with an incoming voter the two tests are etcd's
      `JointConfig.VoteResult(votes) == VoteWon` and `k ≤ JointConfig.CommittedIndex(match)` (`Raft/RQJoint.lean`'s model of `quorum/joint.go`,
      itself compared with the code on random inputs) read on the handler's own `votes[]` / `match[]`.
    The refinement itself is `Raft/RLJ.lean` (`simJ`) and `Raft/RHJRun.lean` (`handleJ_in_StepJ`, `runJ_safe`). -/
namespace RHJ
open RS RSJ
open RSC (nid nidsOf)

variable {N : Nat}

theorem quorumB_spec {c : RQJ.Config} {p : Fin N → Bool} (h : quorumB c p = true) :
    ∃ Q : Finset (Fin N), IsQuorumJ c Q ∧ ∀ j ∈ Q, p j = true :=
  ⟨Finset.univ.filter fun j => p j = true, of_decide_eq_true h, fun _ hj => (Finset.mem_filter.1 hj).2⟩

/-- a won vote tally is a quorum of granted votes under the configuration it was counted in -/
theorem wonVotesJ_quorum {c : RQJ.Config} {n : Node1 N} (h : wonVotesJ c n = true) :
    ∃ Q : Finset (Fin N), IsQuorumJ c Q ∧ ∀ j ∈ Q, n.votes j = some true := by
  obtain ⟨Q, hq, hQ⟩ := quorumB_spec h
  exact ⟨Q, hq, fun j hj => by simpa using hQ j hj⟩

theorem qidxJ_quorum (c : RQJ.Config) (f : Fin N → Nat) :
    qidxJ c f = 0 ∨ quorumB c (fun j => decide (qidxJ c f ≤ f j)) = true := by
  unfold qidxJ
  generalize (List.finRange N).map f = l
  have : ∀ acc, (acc = 0 ∨ quorumB c (fun j => decide (acc ≤ f j)) = true) →
      (l.foldl (fun acc k => if quorumB c (fun j => decide (k ≤ f j)) then max acc k else acc) acc = 0 ∨
       quorumB c (fun j => decide
         (l.foldl (fun acc k => if quorumB c (fun j => decide (k ≤ f j)) then max acc k else acc) acc ≤ f j)) = true) := by
    induction l with
    | nil => intro acc h; exact h
    | cons k l ih =>
      intro acc h
      simp only [List.foldl_cons]
      apply ih
      split
      · rename_i hk
        rcases Nat.le_total acc k with hle | hle
        · rw [Nat.max_eq_right hle]; exact Or.inr hk
        · rw [Nat.max_eq_left hle]; exact h
      · exact h
  exact this 0 (Or.inl rfl)

/-- `maybeCommitJ` changes at most the commit index, and only on the strength of a quorum of the configuration -/
theorem maybeCommitJ_spec (c : RQJ.Config) (n : Node1 N) :
    maybeCommitJ c n = n ∨
    ∃ k, maybeCommitJ c n = { n with commit := k } ∧ n.commit < k ∧ k ≤ n.log.length ∧ termAt n.log k = n.term ∧
      ∃ Q : Finset (Fin N), IsQuorumJ c Q ∧ ∀ j ∈ Q, k ≤ n.matchI j := by
  unfold maybeCommitJ
  split
  · rename_i h
    right
    obtain ⟨h1, h2, h3⟩ := h
    rcases qidxJ_quorum c n.matchI with h0 | hq
    · omega
    · obtain ⟨Q, hQ, hall⟩ := quorumB_spec hq
      exact ⟨_, rfl, h1, h2, h3, Q, hQ, fun j hj => by simpa using hall j hj⟩
  · exact Or.inl rfl

theorem gateSeq_cons (applied : Nat) (joint : Bool) (pend last v : Nat) (vs : List Nat) :
    gateSeq applied joint pend last (v :: vs) =
      ((gateJ applied pend joint v) :: (gateSeq applied joint (if isConfData (gateJ applied pend joint v) then last + 1 else pend) (last + 1) vs).1,
       (gateSeq applied joint (if isConfData (gateJ applied pend joint v) then last + 1 else pend) (last + 1) vs).2) := rfl

/-! ### the handler's two quorum tests ARE etcd's `JointConfig.VoteResult = VoteWon` and `k ≤ JointConfig.CommittedIndex`
    (on every configuration with an incoming voter — `RSJ.cfg_voters_nonempty`: every configuration folded from a start with a voter) -/

/-- the handler's `votes[]` as etcd's `votes map[uint64]bool` (raft id = node + 1; other ids have not voted) -/
def votesMap (n : Node1 N) : RQJ.Votes := fun id => if h : 1 ≤ id ∧ id ≤ N then n.votes ⟨id - 1, by omega⟩ else none

/-- the handler's `match[]` as etcd's `AckedIndexer` -/
def acksMap (f : Fin N → Nat) : RQJ.Acks := fun id => if h : 1 ≤ id ∧ id ≤ N then some (f ⟨id - 1, by omega⟩) else none

theorem isQuorum_congr (c A B : Finset Nat) (h : ∀ x ∈ c, x ∈ A ↔ x ∈ B) : RQJ.IsQuorum c A ↔ RQJ.IsQuorum c B := by
  unfold RQJ.IsQuorum RQJ.Maj
  rw [Finset.filter_congr h]

theorem quorumB_iff_QJ_filter (c : RQJ.Config) (p : Fin N → Bool) (q : Nat → Prop) [DecidablePred q]
    (hpq : ∀ j : Fin N, p j = true ↔ q (nid j)) (hq : ∀ id, q id → 1 ≤ id ∧ id ≤ N) :
    quorumB c p = true ↔ QJ c (c.jointConfig.ids.filter q) := by
  unfold quorumB
  rw [decide_eq_true_iff]
  unfold IsQuorumJ QJ
  have key : ∀ half : Finset Nat, half ⊆ c.jointConfig.ids → ∀ x ∈ half,
      (x ∈ nidsOf (Finset.univ.filter fun j => p j = true) ↔ x ∈ c.jointConfig.ids.filter q) := by
    intro half hs x hx
    simp only [nidsOf, Finset.mem_image, Finset.mem_filter, Finset.mem_univ, true_and]
    constructor
    · rintro ⟨j, hj, rfl⟩; exact ⟨hs hx, (hpq j).1 hj⟩
    · rintro ⟨_, hqx⟩
      obtain ⟨h1, h2⟩ := hq x hqx
      refine ⟨⟨x - 1, by omega⟩, (hpq _).2 ?_, ?_⟩
      · have : nid (⟨x - 1, by omega⟩ : Fin N) = x := by simp only [nid]; omega
        rw [this]; exact hqx
      · simp only [nid]; omega
  have s1 : c.voters ⊆ c.jointConfig.ids := by
    intro x hx; simp [RQJ.JointConfig.ids, RQJ.Config.jointConfig, hx]
  have s2 : c.outgoing ⊆ c.jointConfig.ids := by
    intro x hx; simp [RQJ.JointConfig.ids, RQJ.Config.jointConfig, hx]
  rw [isQuorum_congr _ _ _ (key _ s1), isQuorum_congr _ _ _ (key _ s2)]

theorem votesMap_nid (n : Node1 N) (j : Fin N) : votesMap n (nid j) = n.votes j := by
  have h : 1 ≤ nid j ∧ nid j ≤ N := by simp only [nid]; omega
  unfold votesMap
  rw [dif_pos h]
  congr 1

theorem acksMap_nid (f : Fin N → Nat) (j : Fin N) : acksMap f (nid j) = some (f j) := by
  have h : 1 ≤ nid j ∧ nid j ≤ N := by simp only [nid]; omega
  unfold acksMap
  rw [dif_pos h]
  congr 2

/-- **`wonVotesJ` is `JointConfig.VoteResult(votes) == VoteWon`** on the handler's own `votes[]` -/
theorem wonVotesJ_iff_etcd (c : RQJ.Config) (n : Node1 N) (h : c.voters ≠ ∅) :
    wonVotesJ c n = true ↔ c.jointConfig.voteResult (votesMap n) = .won := by
  rw [voteWon_iff_QJ c _ h]
  unfold wonVotesJ
  refine quorumB_iff_QJ_filter c _ _ (fun j => ?_) (fun id hid => ?_)
  · rw [votesMap_nid]; simp
  · unfold votesMap at hid
    by_cases hr : 1 ≤ id ∧ id ≤ N
    · exact hr
    · rw [dif_neg hr] at hid; cases hid

/-- **the guard of `commitQ` (hence `qidxJ`, `maybeCommitJ`) is `k ≤ JointConfig.CommittedIndex(match[])`**, for every index `k ≥ 1` -/
theorem commitGuard_iff_etcd (c : RQJ.Config) (f : Fin N → Nat) (k : Nat) (hk : 1 ≤ k) (h : c.voters ≠ ∅) :
    quorumB c (fun j => decide (k ≤ f j)) = true ↔ (c.jointConfig.committedIndex (acksMap f)).ge k := by
  rw [committed_ge_iff_QJ c _ k h]
  refine quorumB_iff_QJ_filter c _ _ (fun j => ?_) (fun id hid => ?_)
  · simp only [decide_eq_true_iff, RQJ.ackVal, acksMap_nid, Option.getD_some]
  · by_cases hr : 1 ≤ id ∧ id ≤ N
    · exact hr
    · exfalso
      simp only [RQJ.ackVal, acksMap, dif_neg hr, Option.getD_none] at hid
      omega

example : wonVotesJ (N := 3) ⟨{1, 2, 3}, {1}, ∅, ∅, true⟩ ⟨1, some 0, .candidate, none, [], 0, fun j => if j = 2 then none else some true, fun _ => 0⟩ = true ∧
    wonVotesJ (N := 3) ⟨{1, 2, 3}, {1}, ∅, ∅, true⟩ ⟨1, some 0, .candidate, none, [], 0, fun j => if j = 0 then none else some true, fun _ => 0⟩ = false := by decide

/-- `lostDuring` is not idle: on `(1 2)` with learner 3, the entry `enter autoLeave [remove 3, remove 3, add 3]` (seen in a generated
    schedule) keeps 3 in the configuration — now as a voter — but its `Progress` was deleted and re-created on the way: `keepsProg` is
    false for node 2 (raft id 3), so `applyOneJ` forgets its `Match`, as etcd's fresh `Progress` does. -/
theorem lost_and_readded :
    lostCC ⟨{1, 2}, ∅, {3}, ∅, false⟩ (.enter true [⟨.removeNode, 3⟩, ⟨.removeNode, 3⟩, ⟨.addNode, 3⟩]) = {3} ∧
    applyCC ⟨{1, 2}, ∅, {3}, ∅, false⟩ (.enter true [⟨.removeNode, 3⟩, ⟨.removeNode, 3⟩, ⟨.addNode, 3⟩]) = ⟨{1, 2, 3}, {1, 2}, ∅, ∅, true⟩ ∧
    lostCC ⟨{1, 2}, ∅, {3}, ∅, false⟩ (.enter true [⟨.addNode, 3⟩]) = ∅ := by decide

#print axioms wonVotesJ_iff_etcd
#print axioms commitGuard_iff_etcd
#print axioms wonVotesJ_quorum
#print axioms maybeCommitJ_spec
end RHJ
