import RedisGoModel.Raft.RHJ
import RedisGoModel.Props.C15JointSafe

/-! C15 Stage D, step 7: the two decisions of the executable joint-configuration handler `RHJ.handleJ` that read the configuration,
    relative to the protocol model `RSJ` (whose safety is `C15_joint_holds`):
    * `wonVotesJ_quorum`: a won tally exhibits a set `Q` with `RSJ.IsQuorumJ cfg Q` (a strict majority of the incoming half AND, if
      non-empty, of the outgoing half) all of whose members are recorded as granted — the quorum hypothesis of `CStep.becomeLeader`;
    * `qidxJ_quorum`, `maybeCommitJ_spec`: `maybeCommitJ` either changes nothing or moves the commit index to a `k` above it, inside the
      log, whose entry has the current term, and exhibits such a `Q` with `k ≤ match[j]` on `Q` — the hypothesis of `CStep.advanceCommit`;
    * `gateSeq_cons`: a proposal message with several payloads is the three-reason gate, one payload after the other.
    The refinement itself is `Raft/RLJ.lean` (`simJ`) and `Raft/RHJRun.lean` (`handleJ_in_StepJ`, `runJ_safe`). -/
namespace RHJ
open RS RSJ
open RSC (nid nidsOf)

variable {N : Nat}

theorem quorumB_spec {c : RQJ.Config} {p : Fin N → Bool} (h : quorumB c p = true) :
    ∃ Q : Finset (Fin N), IsQuorumJ c Q ∧ ∀ j ∈ Q, p j = true :=
  ⟨Finset.univ.filter fun j => p j = true, of_decide_eq_true h, fun _ hj => (Finset.mem_filter.1 hj).2⟩

/-- a won vote tally is a quorum of granted votes under the configuration it was counted in -/
theorem wonVotesJ_quorum {c : RQJ.Config} {n : Node1 N} (h : wonVotesJ c n = true) :
    ∃ Q : Finset (Fin N), IsQuorumJ c Q ∧ ∀ j ∈ Q, n.votes j = some true := by
  obtain ⟨Q, hq, hQ⟩ := quorumB_spec h
  exact ⟨Q, hq, fun j hj => by simpa using hQ j hj⟩

theorem qidxJ_quorum (c : RQJ.Config) (f : Fin N → Nat) :
    qidxJ c f = 0 ∨ quorumB c (fun j => decide (qidxJ c f ≤ f j)) = true := by
  unfold qidxJ
  generalize (List.finRange N).map f = l
  have : ∀ acc, (acc = 0 ∨ quorumB c (fun j => decide (acc ≤ f j)) = true) →
      (l.foldl (fun acc k => if quorumB c (fun j => decide (k ≤ f j)) then max acc k else acc) acc = 0 ∨
       quorumB c (fun j => decide
         (l.foldl (fun acc k => if quorumB c (fun j => decide (k ≤ f j)) then max acc k else acc) acc ≤ f j)) = true) := by
    induction l with
    | nil => intro acc h; exact h
    | cons k l ih =>
      intro acc h
      simp only [List.foldl_cons]
      apply ih
      split
      · rename_i hk
        rcases Nat.le_total acc k with hle | hle
        · rw [Nat.max_eq_right hle]; exact Or.inr hk
        · rw [Nat.max_eq_left hle]; exact h
      · exact h
  exact this 0 (Or.inl rfl)

/-- `maybeCommitJ` changes at most the commit index, and only on the strength of a quorum of the configuration -/
theorem maybeCommitJ_spec (c : RQJ.Config) (n : Node1 N) :
    maybeCommitJ c n = n ∨
    ∃ k, maybeCommitJ c n = { n with commit := k } ∧ n.commit < k ∧ k ≤ n.log.length ∧ termAt n.log k = n.term ∧
      ∃ Q : Finset (Fin N), IsQuorumJ c Q ∧ ∀ j ∈ Q, k ≤ n.matchI j := by
  unfold maybeCommitJ
  split
  · rename_i h
    right
    obtain ⟨h1, h2, h3⟩ := h
    rcases qidxJ_quorum c n.matchI with h0 | hq
    · omega
    · obtain ⟨Q, hQ, hall⟩ := quorumB_spec hq
      exact ⟨_, rfl, h1, h2, h3, Q, hQ, fun j hj => by simpa using hall j hj⟩
  · exact Or.inl rfl

theorem gateSeq_cons (applied : Nat) (joint : Bool) (pend last v : Nat) (vs : List Nat) :
    gateSeq applied joint pend last (v :: vs) =
      ((gateJ applied pend joint v) :: (gateSeq applied joint (if isConfData (gateJ applied pend joint v) then last + 1 else pend) (last + 1) vs).1,
       (gateSeq applied joint (if isConfData (gateJ applied pend joint v) then last + 1 else pend) (last + 1) vs).2) := rfl

/-- `lostDuring` is not idle: on `(1 2)` with learner 3, the entry `enter autoLeave [remove 3, remove 3, add 3]` (seen in a generated
    schedule) keeps 3 in the configuration — now as a voter — but its `Progress` was deleted and re-created on the way: `keepsProg` is
    false for node 2 (raft id 3), so `applyOneJ` forgets its `Match`, as etcd's fresh `Progress` does. -/
theorem lost_and_readded :
    lostCC ⟨{1, 2}, ∅, {3}, ∅, false⟩ (.enter true [⟨.removeNode, 3⟩, ⟨.removeNode, 3⟩, ⟨.addNode, 3⟩]) = {3} ∧
    applyCC ⟨{1, 2}, ∅, {3}, ∅, false⟩ (.enter true [⟨.removeNode, 3⟩, ⟨.removeNode, 3⟩, ⟨.addNode, 3⟩]) = ⟨{1, 2, 3}, {1, 2}, ∅, ∅, true⟩ ∧
    lostCC ⟨{1, 2}, ∅, {3}, ∅, false⟩ (.enter true [⟨.addNode, 3⟩]) = ∅ := by decide

#print axioms wonVotesJ_quorum
#print axioms maybeCommitJ_spec
end RHJ
