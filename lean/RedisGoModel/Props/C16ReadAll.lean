import RedisGoModel.Props.C16Sem
/-! # C16 — `ReadAll` at the level of entries, hard state and snapshots

    The writer API as the application uses it: `wal.Create(metadata)` (any metadata, **nil included** — raftexample
    passes nil), then a history of `Save(hardState, entries)` / `SaveSnapshot` / `cut` calls (`WalFile.Call`), through
    the writer model of File.lean (PageWriter, segment cuts, CRC chain), flushed; then `ReadAll` (File.lean's
    `readAll`, the definition the `wal` driver engine replays against etcd's `wal` package) on the files, opened at a
    snapshot `start`, in read mode (`OpenForRead`) or write mode (`Open`).

    * `C16.readAll_written` — the whole result of `ReadAll`, for every `SaveOk` history;
    * `C16.readAll_entries` — the entries returned are the reference log (fold the `Save`s, each truncating the log at
      its first index and appending — `WalFile.refLog`) restricted to the indexes above the snapshot, in order,
      unmodified; unconditionally on the indexes the log has, and exactly under `NoStale`;
      `C16.readAll_entries_stale` — a contract-honouring history for which **`ReadAll` returns two overwritten
      entries after the snapshot** (the reference log has nothing there): `NoStale` cannot be dropped;
    * `C16.readAll_hardstate` — the hard state returned is the last non-empty one saved;
    * `C16.readAll_snapshot_match` — `ErrSnapshotMismatch` / `ErrSnapshotNotFound` arise exactly when a snapshot with
      the requested index was saved with another term / no snapshot with that index was saved, the latter in read mode
      only (write mode loses it: DESIGN Corrections C16(4));
    * `C16.verify_agrees_written` — on such files `Verify` returns what read-mode `ReadAll` returns.

    Hypotheses, all explicit: `segSize % 8 = 0` (a fact about the configured sizes, `C16.segmentSize_facts`; *not* an
    artefact: `C16.seg_not_mod8_witness`), wire-size bounds (`Call.Fits`, metadata below 2^55 bytes), the usage
    contract `SaveOk`. These theorems read all segment files; `Open`'s file selection (`selectWALFiles`) is C16Select.lean. -/
namespace WalFile
open WalCodec

/-! ### fuel: `readAll`'s own fuel is enough for the chain -/

theorem foldl_len_acc (l : List Bytes) : ∀ a : Nat, l.foldl (fun n f => n + f.length) a = a + l.foldl (fun n f => n + f.length) 0 := by
  induction l with
  | nil => intro a; rfl
  | cons f fs ih =>
    intro a
    simp only [List.foldl_cons, Nat.zero_add]
    rw [ih (a + f.length), ih f.length]; omega

theorem totalLen_cons (f : Bytes) (fs : List Bytes) : totalLen (f :: fs) = f.length + totalLen fs := by
  unfold totalLen
  simp only [List.foldl_cons, Nat.zero_add]
  rw [foldl_len_acc]

theorem gEncodeAll_len_ge (c : Nat) (items : List GItem) : 8 * items.length ≤ (gEncodeAll c items).length := by
  induction items generalizing c with
  | nil => simp
  | cons it rest ih =>
    simp only [gEncodeAll, List.length_append, List.length_cons]
    have := ih (crcUpdate c it.bytes)
    have h2 := encodeFrame_length ⟨it.type, crcUpdate c it.bytes, it.data⟩
    omega

theorem gchain_len (segs : List (List GItem × Bytes)) : ∀ c : Nat,
    8 * (gchainFuel segs - 1) ≤ totalLen (gchainFiles c segs) ∧ (gchainFiles c segs).length = segs.length := by
  induction segs with
  | nil => intro c; simp [gchainFuel, gchainFiles, totalLen]
  | cons s rest ih =>
    intro c
    obtain ⟨items, t⟩ := s
    simp only [gchainFuel, gchainFiles, totalLen_cons, List.length_cons]
    obtain ⟨i1, i2⟩ := ih (gCrcAfter c items)
    obtain ⟨n, hn⟩ := gchainFuel_pos rest
    rw [hn] at i1 ⊢
    have h1 := gEncodeAll_len_ge c items
    have h2 := encodeFrame_length (crcRec c)
    simp only [gfileOf, List.length_append]
    refine ⟨?_, by rw [i2]⟩
    simp only [Nat.add_sub_cancel] at i1 ⊢
    omega

theorem readFuel_enough (c : Nat) (segs : List (List GItem × Bytes)) :
    ∃ extra, readFuel (gchainFiles c segs) = gchainFuel segs + extra := by
  obtain ⟨h1, _⟩ := gchain_len segs c
  obtain ⟨n, hn⟩ := gchainFuel_pos segs
  refine ⟨readFuel (gchainFiles c segs) - gchainFuel segs, ?_⟩
  unfold readFuel
  rw [hn] at h1 ⊢
  simp only [Nat.add_sub_cancel] at h1
  omega

/-! ### the segment size never changes -/

theorem Writer.call_segSize (w : Writer) (c : Call) : (w.call c).segSize = w.segSize := by
  cases c with
  | save st ents => exact Writer.step_segSize w (.save st ents)
  | snap s => exact Writer.step_segSize w (.snap s)
  | cut => exact Writer.cut_segSize w

theorem Writer.calls_segSize (h : List Call) : ∀ w : Writer, (w.calls h).segSize = w.segSize := by
  induction h with
  | nil => intro w; rfl
  | cons c rest ih => intro w; rw [Writer.calls_cons, ih, Writer.call_segSize]

end WalFile

namespace C16
open WalCodec WalFile

/-- the files on disk after `Create(md)` and the history `h`, once the last call has been flushed -/
def filesAfter (segSize : Nat) (md : Option Bytes) (h : List Call) : List Bytes :=
  (((Writer.create segSize md).calls h).flush.files).map (·.2)

/-- a saved snapshot has the index asked for but another term -/
def Mismatch (start : Nat × Nat) (h : List Call) : Prop := (savedSnaps h).any (mism start) = true

instance (start : Nat × Nat) (h : List Call) : Decidable (Mismatch start h) := by unfold Mismatch; exact inferInstance

/-- **everything `ReadAll` returns**, for every history honouring the contract, every metadata, either mode, any
    snapshot asked for -/
theorem readAll_written (segSize : Nat) (hseg : segSize % 8 = 0) (md : Option Bytes) (hmd : (md.getD []).length < 2 ^ 55)
    (h : List Call) (hfit : ∀ c ∈ h, c.Fits) (hok : SaveOk h) (write : Bool) (start : Nat × Nat) :
    ∃ R, placeCalls start.1 [] h = some R ∧
      (Mismatch start h →
        (readAll write start (filesAfter segSize md h)).err = some .snapMismatch ∧
        (readAll write start (filesAfter segSize md h)).ents = [] ∧
        (readAll write start (filesAfter segSize md h)).state = emptyHS ∧
        (readAll write start (filesAfter segSize md h)).metadata = none) ∧
      (¬ Mismatch start h →
        readAll write start (filesAfter segSize md h) =
          ⟨md, refState h, R, if (savedSnaps h).contains start || write then none else some .snapNotFound,
            ((Writer.create segSize md).calls h).flush.tail.length, ((Writer.create segSize md).calls h).flush.crc⟩) := by
  obtain ⟨R, hR, _, _⟩ := placeCalls_refLog start.1 h hok
  refine ⟨R, hR, ?_⟩
  obtain ⟨hI0, _, hsz0, hmd0, hst0⟩ := GInv.create segSize md hmd
  have hso0 : HSOk (Writer.create segSize md).state := by rw [hst0]; exact ⟨by decide, by decide, by decide⟩
  obtain ⟨g', extra, hI', hall, hsem⟩ := calls_sem start h hI0 hfit hso0
  have hIf := hI'.flush
  have hbuf := Writer.flush_buf ((Writer.create segSize md).calls h)
  have hsegsz : ((Writer.create segSize md).calls h).flush.segSize % 8 = 0 := by
    rw [Writer.flush_segSize, Writer.calls_segSize, hsz0]; exact hseg
  obtain ⟨segs, hfiles, hmap, _, hrl⟩ := hIf.readback hbuf hsegsz
  have hflat : (segs.map (·.1)).flatten = g'.all := by rw [hmap]; rfl
  obtain ⟨ex, hex⟩ := readFuel_enough 0 segs
  obtain ⟨d', hd1, hd2, hd3⟩ := hrl ex
  -- the dispatch over the records
  let ra0 : RA := { metadata := md }
  let snap0 : Call := .snap ⟨0, 0, none⟩
  have hcreate : applyItems start {} (gcreateGhost md).all = specCall start ra0 snap0 := by
    simp only [gcreateGhost, GGhost.all, List.nil_append, List.flatten_cons, List.flatten_nil, List.append_nil,
      applyItems, List.map_cons, List.map_nil, applyRecs, gRec]
    rw [applyRec_meta start {} md (Or.inl rfl)]
    simp only
    rw [applyRec_snap start _ ⟨0, 0, none⟩ ⟨by decide, by decide, fun d hd => by cases hd⟩]
    cases hsa : snapArm start { metadata := md } ⟨0, 0, none⟩ <;> simp [specCall, snap0, ra0, hsa]
  have hrecs : applyRecs start {} (gchainRecords 0 segs) = specCalls start ra0 (snap0 :: h) := by
    rw [applyRecs_gchainRecords, hflat, hall, applyItems_append, hcreate]
    simp only [specCalls]
    cases hsp : specCall start ra0 snap0 with
    | error e => rfl
    | ok ra1 =>
      simp only
      apply hsem ra1
      have hm : ra1.metadata = md ∧ ra1.state = emptyHS := by
        simp only [specCall, snap0, Option.isNone_none, Nat.lt_irrefl, decide_false, Bool.and_false, Bool.false_eq_true,
          if_false, gt_iff_lt] at hsp
        unfold snapArm at hsp
        split at hsp
        · split at hsp
          · cases hsp
          · cases hsp; exact ⟨rfl, rfl⟩
        · cases hsp; exact ⟨rfl, rfl⟩
      exact ⟨by rw [hm.1, hmd0], by rw [hm.2, hst0], hso0⟩
  have hR0 : placeCalls start.1 ra0.ents (snap0 :: h) = some R := hR
  have heval := specCalls_eval start (snap0 :: h) ra0 R hR0
  have hsn : snapsOf (snap0 :: h) = savedSnaps h := rfl
  have hrs : refStateFrom ra0.state (snap0 :: h) = refState h := rfl
  rw [hsn, hrs] at heval
  rw [← hrecs] at heval
  have hfa : filesAfter segSize md h = gchainFiles 0 segs := hfiles
  unfold readAll readAllFrom
  rw [hfa, hex]
  have hr1 : (recLoop (gchainFuel segs + ex) (Dec.open (gchainFiles 0 segs))).1 = gchainRecords 0 segs := by rw [hd1]
  refine ⟨fun hmm => ?_, fun hmm => ?_⟩
  · unfold Mismatch at hmm
    rw [if_pos hmm] at heval
    rw [← hr1] at heval
    obtain ⟨ra'', d'', hrl'⟩ := readLoop_of_recLoop_fail start _ _ _ _ _ heval
    rw [hrl']
    exact ⟨rfl, rfl, rfl, rfl⟩
  · unfold Mismatch at hmm
    rw [if_neg hmm] at heval
    rw [← hr1] at heval
    rw [readLoop_of_recLoop start _ _ _ _ heval, hd1]
    simp only [readAllFin, hd2, hd3, Bool.false_or]
    rfl

/-- **`C16.readAll_entries`** (the `e.Index-w.start.Index-1` slicing / `append(ents[:up], e)` dispatch). `ReadAll`, on
    the files written by any history that honours the usage contract, opened at a snapshot index for which no snapshot
    of another term was saved, never fails with `ErrSliceOutOfRange`, and the entries it returns
    (a) agree with the reference log — every `Save` truncating the log at its first index and appending, the overwrite
        of a suffix by a later `Save` with a lower first index included — on all the indexes above the snapshot that the
        log has, in order, unmodified; and
    (b) *are* the reference log restricted to the indexes above the snapshot when no `Save` lying entirely at or below
        the snapshot index truncated a log that reached beyond it (`NoStale`).
    Without `NoStale` (b) is false: `readAll_entries_stale`. -/
theorem readAll_entries (segSize : Nat) (hseg : segSize % 8 = 0) (md : Option Bytes) (hmd : (md.getD []).length < 2 ^ 55)
    (h : List Call) (hfit : ∀ c ∈ h, c.Fits) (hok : SaveOk h) (write : Bool) (start : Nat × Nat)
    (hnm : ¬ Mismatch start h) :
    (readAll write start (filesAfter segSize md h)).err ≠ some .oor ∧
    (readAll write start (filesAfter segSize md h)).ents.take ((refLog h).length - start.1) =
      (refLog h).filter (fun e => e.index > start.1) ∧
    (NoStale start.1 h →
      (readAll write start (filesAfter segSize md h)).ents = (refLog h).filter (fun e => e.index > start.1)) ∧
    (start ∈ savedSnaps h → (readAll write start (filesAfter segSize md h)).err = none) := by
  obtain ⟨R, hR, _, hres⟩ := readAll_written segSize hseg md hmd h hfit hok write start
  obtain ⟨R', hR', hpre, hex⟩ := placeCalls_refLog start.1 h hok
  rw [hR] at hR'
  cases hR'
  rw [hres hnm]
  refine ⟨?_, hpre, hex, fun hin => ?_⟩
  · simp only; split <;> simp
  · have : (savedSnaps h).contains start = true := by simpa using hin
    simp only [this, Bool.true_or, if_true]

/-- **`C16.readAll_hardstate`**: the hard state `ReadAll` returns is the last non-empty one handed to `Save` (`Save`
    skips empty hard states; the copy `cut` writes at the head of a segment is the same one), the empty one if there
    was none -/
theorem readAll_hardstate (segSize : Nat) (hseg : segSize % 8 = 0) (md : Option Bytes) (hmd : (md.getD []).length < 2 ^ 55)
    (h : List Call) (hfit : ∀ c ∈ h, c.Fits) (hok : SaveOk h) (write : Bool) (start : Nat × Nat)
    (hnm : ¬ Mismatch start h) :
    (readAll write start (filesAfter segSize md h)).state = refState h ∧
    (readAll write start (filesAfter segSize md h)).metadata = md := by
  obtain ⟨R, _, _, hres⟩ := readAll_written segSize hseg md hmd h hfit hok write start
  rw [hres hnm]
  exact ⟨rfl, rfl⟩

/-- **`C16.readAll_snapshot_match`**: the error `ReadAll` reports, as a function of the snapshots saved:
    `ErrSnapshotMismatch` iff a snapshot with the requested index was saved with another term (whatever else was
    saved); otherwise no error if a snapshot (index, term) was saved — the (0, 0) of `Create` counts —; otherwise
    `ErrSnapshotNotFound` in read mode and — the quirk of DESIGN Corrections C16(4), mirrored, not endorsed — *no error*
    in write mode, where `w.encoder, err = newFileEncoder(...)` overwrites it. -/
theorem readAll_snapshot_match (segSize : Nat) (hseg : segSize % 8 = 0) (md : Option Bytes)
    (hmd : (md.getD []).length < 2 ^ 55) (h : List Call) (hfit : ∀ c ∈ h, c.Fits) (hok : SaveOk h) (write : Bool)
    (start : Nat × Nat) :
    (readAll write start (filesAfter segSize md h)).err =
      (if Mismatch start h then some .snapMismatch
       else if start ∈ savedSnaps h ∨ write = true then none else some .snapNotFound) := by
  obtain ⟨R, _, hmis, hres⟩ := readAll_written segSize hseg md hmd h hfit hok write start
  by_cases hm : Mismatch start h
  · rw [if_pos hm, (hmis hm).1]
  · rw [if_neg hm, hres hm]
    simp only
    by_cases hc : start ∈ savedSnaps h ∨ write = true
    · rw [if_pos hc]
      have : ((savedSnaps h).contains start || write) = true := by
        rcases hc with hc | hc
        · have : (savedSnaps h).contains start = true := by simpa using hc
          rw [this, Bool.true_or]
        · rw [hc, Bool.or_true]
      rw [if_pos this]
    · rw [if_neg hc]
      have : ¬ (((savedSnaps h).contains start || write) = true) := by
        intro hh
        apply hc
        simp only [Bool.or_eq_true, List.contains_iff_mem] at hh
        exact hh
      rw [if_neg this]

theorem snapshot_mismatch_iff (segSize : Nat) (hseg : segSize % 8 = 0) (md : Option Bytes)
    (hmd : (md.getD []).length < 2 ^ 55) (h : List Call) (hfit : ∀ c ∈ h, c.Fits) (hok : SaveOk h) (write : Bool)
    (start : Nat × Nat) :
    ((readAll write start (filesAfter segSize md h)).err = some .snapMismatch ↔
      ∃ p ∈ savedSnaps h, p.1 = start.1 ∧ p.2 ≠ start.2) ∧
    ((readAll false start (filesAfter segSize md h)).err = some .snapNotFound ↔
      ∀ p ∈ savedSnaps h, p.1 ≠ start.1) := by
  have hmm : Mismatch start h ↔ ∃ p ∈ savedSnaps h, p.1 = start.1 ∧ p.2 ≠ start.2 := by
    unfold Mismatch
    simp [List.any_eq_true, mism]
  constructor
  · rw [readAll_snapshot_match segSize hseg md hmd h hfit hok write start, ← hmm]
    by_cases hm : Mismatch start h
    · simp [hm]
    · rw [if_neg hm]
      constructor
      · intro hh; split at hh <;> cases hh
      · intro hh; exact absurd hh hm
  · rw [readAll_snapshot_match segSize hseg md hmd h hfit hok false start]
    by_cases hm : Mismatch start h
    · rw [if_pos hm]
      constructor
      · intro hh; cases hh
      · intro hh
        obtain ⟨p, hp, h1, _⟩ := hmm.mp hm
        exact absurd h1 (hh p hp)
    · rw [if_neg hm]
      by_cases hin : start ∈ savedSnaps h
      · rw [if_pos (Or.inl hin)]
        constructor
        · intro hh; cases hh
        · intro hh; exact absurd rfl (hh start hin)
      · rw [if_neg (by simp [hin])]
        constructor
        · intro _ p hp h1
          apply hm
          apply hmm.mpr
          refine ⟨p, hp, h1, fun h2 => hin ?_⟩
          have : p = start := Prod.ext h1 h2
          rw [← this]; exact hp
        · intro _; rfl

/-- **`C16.verify_agrees_written`**: on the files of a contract-honouring history `Verify` succeeds iff read-mode
    `ReadAll` does, with the same hard state, and fails with the same error otherwise (instance of
    `WalFile.verify_agrees`, whose entry-arm hypotheses are discharged by the contract) -/
theorem verify_agrees_written (segSize : Nat) (hseg : segSize % 8 = 0) (md : Option Bytes)
    (hmd : (md.getD []).length < 2 ^ 55) (h : List Call) (hfit : ∀ c ∈ h, c.Fits) (hok : SaveOk h) (start : Nat × Nat) :
    verify start (filesAfter segSize md h) = verifyOf (readAll false start (filesAfter segSize md h)) := by
  have herr := readAll_snapshot_match segSize hseg md hmd h hfit hok false start
  apply verify_agrees
  · rw [herr]; split
    · simp
    · split <;> simp
  · rw [herr]; split
    · simp
    · split <;> simp

/-! ### the configured segment sizes -/

/-- etcd's `SegmentSizeBytes` (64 * 1000 * 1000) and every size the check lowers it to are multiples of 8 -/
theorem segmentSize_facts :
    (64 * 1000 * 1000) % 8 = 0 ∧ ∀ s ∈ [4096, 8192, 16384, 32768, 65536, 262144, 1048576], s % 8 = 0 := by decide

/-- `segSize % 8 = 0` is not an artefact of the proof: with a segment size that is not a multiple of 8 (here 60: the
    three records `Create` writes take 56 bytes, 4 bytes of preallocation remain, too few for a length field) the
    freshly created WAL cannot be opened for writing — `ReadAll` fails with `io.ErrUnexpectedEOF` -/
theorem seg_not_mod8_witness :
    (readAll true (0, 0) (filesAfter 60 none [])).err = some .ueof ∧
    (readAll true (0, 0) (filesAfter 64 none [])).err = none := by decide +kernel

/-! ### non-vacuity: an overwrite, and a cut across a segment boundary -/

theorem en_fits (t i : Nat) (ht : t < 2 ^ 64) (hi : i < 2 ^ 64) : EntryOk (en t i) ∧ (marshalEntry (en t i)).length < 2 ^ 55 := by
  refine ⟨⟨show (0 : Nat) < 2 ^ 32 by decide, ht, hi, fun d hd => by cases hd⟩, ?_⟩
  have a := encVarint_length_le t ht
  have b := encVarint_length_le i hi
  have c : (encVarint 0).length = 1 := by rw [encVarint]; rfl
  have : (marshalEntry (en t i)).length ≤ 24 := by
    simp only [marshalEntry, en, optField, List.length_append, List.length_cons, List.length_nil, c]; omega
  exact Nat.lt_of_le_of_lt this (by decide)

theorem exOverwrite_fits : ∀ c ∈ exOverwrite, c.Fits := by
  intro c hc
  simp only [exOverwrite, List.mem_cons, List.not_mem_nil, or_false] at hc
  rcases hc with rfl | rfl | rfl | rfl
  · refine ⟨⟨by decide, by decide, by decide⟩, fun e he => ?_⟩
    simp only [List.mem_cons, List.not_mem_nil, or_false] at he
    rcases he with rfl | rfl <;> exact en_fits _ _ (by decide) (by decide)
  · refine ⟨⟨by decide, by decide, by decide⟩, fun e he => ?_⟩
    simp only [List.mem_cons, List.not_mem_nil, or_false] at he
    rcases he with rfl | rfl <;> exact en_fits _ _ (by decide) (by decide)
  · exact ⟨⟨by decide, by decide, fun d hd => by cases hd; decide⟩, by decide +kernel⟩
  · refine ⟨⟨by decide, by decide, by decide⟩, fun e he => ?_⟩
    simp only [List.mem_cons, List.not_mem_nil, or_false] at he
    rcases he with rfl | rfl | rfl <;> exact en_fits _ _ (by decide) (by decide)

/-- the example history of C16RefLog.lean (entries 1..4, snapshot at 2, then 3', 4', 5' of a new term overwriting 3, 4)
    written with nil metadata into 128-byte segments: the second `Save` finds the segment full and cuts, so the
    overwritten entries 3, 4 lie in the first file and the overwriting 3', 4', 5' in the second -/
example : (filesAfter 128 none exOverwrite).length = 2 := by decide +kernel

/-- all hypotheses of `readAll_entries` hold for it, at the snapshot (2, 1) and at (0, 0) -/
example : (readAll false (2, 1) (filesAfter 128 none exOverwrite)).ents = [en 2 3, en 2 4, en 2 5] ∧
    (readAll false (2, 1) (filesAfter 128 none exOverwrite)).err = none :=
  have h := readAll_entries 128 (show 128 % 8 = 0 by decide) none (show ((none : Option Bytes).getD []).length < 2 ^ 55 by decide)
    exOverwrite exOverwrite_fits (show SaveOk exOverwrite by decide) false (2, 1) (show ¬ Mismatch (2, 1) exOverwrite by decide)
  ⟨(h.2.2.1 (show NoStale 2 exOverwrite by decide)).trans (by decide), h.2.2.2 (show (2, 1) ∈ savedSnaps exOverwrite by decide)⟩

/-- the hypotheses of `readAll_hardstate` / `readAll_snapshot_match` / `verify_agrees_written` hold for it too: the last
    non-empty hard state, no error at the saved snapshot (2, 1), `ErrSnapshotMismatch` at (2, 7), `ErrSnapshotNotFound` at (3, 1)
    in read mode and — the quirk — none in write mode -/
example : (readAll false (2, 1) (filesAfter 128 none exOverwrite)).state = ⟨2, 2, 2⟩ :=
  (readAll_hardstate 128 (show 128 % 8 = 0 by decide) none (show ((none : Option Bytes).getD []).length < 2 ^ 55 by decide)
    exOverwrite exOverwrite_fits (show SaveOk exOverwrite by decide) false (2, 1) (show ¬ Mismatch (2, 1) exOverwrite by decide)).1.trans
    (by decide)

example : (readAll false (2, 1) (filesAfter 128 none exOverwrite)).err = none ∧
    (readAll false (2, 7) (filesAfter 128 none exOverwrite)).err = some .snapMismatch ∧
    (readAll false (3, 1) (filesAfter 128 none exOverwrite)).err = some .snapNotFound ∧
    (readAll true (3, 1) (filesAfter 128 none exOverwrite)).err = none ∧
    verify (2, 1) (filesAfter 128 none exOverwrite) = .ok ⟨2, 2, 2⟩ := by
  have hm := readAll_snapshot_match 128 (show 128 % 8 = 0 by decide) none (show ((none : Option Bytes).getD []).length < 2 ^ 55 by decide)
    exOverwrite exOverwrite_fits (show SaveOk exOverwrite by decide)
  have hv := verify_agrees_written 128 (show 128 % 8 = 0 by decide) none (show ((none : Option Bytes).getD []).length < 2 ^ 55 by decide)
    exOverwrite exOverwrite_fits (show SaveOk exOverwrite by decide) (2, 1)
  refine ⟨(hm false (2, 1)).trans (by decide), (hm false (2, 7)).trans (by decide), (hm false (3, 1)).trans (by decide),
    (hm true (3, 1)).trans (by decide), ?_⟩
  rw [hv]
  decide +kernel

/-- … and the model evaluated directly on those files gives the same (kernel evaluation of writer and reader) -/
example : readAll true (0, 0) (filesAfter 128 none exOverwrite) =
    ⟨none, ⟨2, 2, 2⟩, [en 1 1, en 1 2, en 2 3, en 2 4, en 2 5], none,
      ((Writer.create 128 none).calls exOverwrite).flush.tail.length, ((Writer.create 128 none).calls exOverwrite).flush.crc⟩ := by
  decide +kernel

/-- **`NoStale` cannot be dropped — on the bytes**: the history `exStale` (entries 1..6 of term 1; a new leader
    overwrites from 3 with 3', 4' of term 2; index 4 is snapshotted) honours the contract; its log is 1, 2, 3', 4'; yet
    `ReadAll` opened at the saved snapshot (4, 2) returns, without error, the overwritten entries 5 and 6 of term 1 —
    entries that were never in the log together with that snapshot. (The records of 3', 4' have index ≤ 4 and are
    skipped by `if e.Index > w.start.Index`, so nothing truncates the entries read before them.) -/
theorem readAll_entries_stale :
    SaveOk exStale ∧ (4, 2) ∈ savedSnaps exStale ∧ ¬ Mismatch (4, 2) exStale ∧
    (refLog exStale).filter (fun e => e.index > 4) = [] ∧
    (readAll false (4, 2) (filesAfter 4096 none exStale)).err = none ∧
    (readAll false (4, 2) (filesAfter 4096 none exStale)).ents = [en 1 5, en 1 6] := by
  decide +kernel

#print axioms readAll_written
#print axioms readAll_entries
#print axioms readAll_hardstate
#print axioms readAll_snapshot_match
#print axioms snapshot_mismatch_iff
#print axioms verify_agrees_written
#print axioms seg_not_mod8_witness
#print axioms readAll_entries_stale
end C16
