import RedisGoModel.Props.C19
import RedisGoModel.Props.Global
/-! # C04 — the server keeps serving: the invariant of the WHOLE server survives ANY command on ANY connection

`Exec.Global.exec_inv` / `global_invariant` (Props/Global.lean) are about `Exec.exec` on one keyspace.  The "later commands still
complete" clause of C04 is about the server: all numbered databases, all connections, the subscription table.  `ServerInv s`:
every database satisfies the global invariant `Exec.Global.Inv` (`Db.WF`, no empty container, sets duplicate-free, hash tables
Ok, trees `ZT.Inv`, stream ids increasing), there is at least one database, every connection's selected index is a configured
database (so the model's "selected database out of range" branch is unreachable), and the subscription table is duplicate-free.

`keeps_serving`: after ANY command — any name (known, unknown, empty), any arguments, any connection, any clock — the state of
`Server.execOn` (the function the driver runs against `Manager.Handle`) satisfies `ServerInv` again, so every theorem whose
hypothesis is the invariant (C01, C06, C09–C12, C18, C19, C20, C03's well-framedness) applies to the next command, of this and of
every other connection.  `keeps_serving_connection`: the same for a whole byte stream served on a connection (`handleEvents` over
any event list, e.g. `parseLoop` of arbitrary bytes), `keeps_serving_close` / `keeps_serving_kill` for the two ways a connection
ends; `keeps_serving_history`: any interleaving of these steps from a fresh server.
Not claimed here: panic-freedom of the Go executors (enumeration against this total model, see registry C04 `partial`). -/
namespace Exec.C04
open Resp (Reply Bytes)
open Exec.Global

structure ServerInv (s : Server) : Prop where
  dbs : ∀ db ∈ s.dbs, Inv db
  nonempty : 0 < s.dbs.length
  sel : ∀ p ∈ s.conns, p.2.sel < s.dbs.length
  subs : s.subs.Nodup

theorem conn_sel (s : Server) (h : ServerInv s) (c : Nat) : (s.conn c).sel < s.dbs.length := by
  unfold Server.conn
  cases hf : s.conns.find? (·.1 == c) with
  | none => simpa using h.nonempty
  | some p => simpa using h.sel p (List.mem_of_find?_eq_some hf)

theorem selectReply_some {ndb : Nat} {args : List Bytes} {r : Reply} {n : Nat} (h : selectReply ndb args = (r, some n)) : n < ndb := by
  unfold selectReply at h
  split at h
  · split at h
    · split at h
      · rename_i hlt
        simp only [Prod.mk.injEq, Option.some.injEq] at h
        exact h.2 ▸ hlt
      · simp at h
    · simp at h
    · simp at h
  · simp at h

theorem setConn_inv (s : Server) (h : ServerInv s) (c : Nat) (st : ConnSt) (hst : st.sel < s.dbs.length) : ServerInv (s.setConn c st) := by
  refine ⟨h.dbs, h.nonempty, ?_, h.subs⟩
  intro p hp
  simp only [Server.setConn, List.mem_cons] at hp
  rcases hp with rfl | hp
  · exact hst
  · exact h.sel p (List.mem_filter.1 hp).1

/-- **C04, keeps serving**: the server invariant survives ANY command of ANY connection -/
theorem keeps_serving (s : Server) (env : Env) (c : Nat) (args : List Bytes) (h : ServerInv s) : ServerInv (s.execOn env c args).2 := by
  have hsubs := subs_nodup s env c args h.subs
  refine ⟨?_, ?_, ?_, hsubs⟩
  all_goals
    unfold Server.execOn
    split
    · first | exact h.dbs | exact h.nonempty | exact h.sel
    · simp only
      split
      · split
        · rename_i r n heq
          have := setConn_inv s h c { s.conn c with sel := n } (selectReply_some heq)
          first | exact this.dbs | exact this.nonempty | exact this.sel
        · first | exact h.dbs | exact h.nonempty | exact h.sel
      · split
        · split <;> first | exact h.dbs | exact h.nonempty | exact h.sel
        · split
          · split <;> first | exact h.dbs | exact h.nonempty | exact h.sel
          · split
            · first | exact h.dbs | exact h.nonempty | exact h.sel
            · rename_i db hdb
              simp only
              first
                | (intro x hx
                   rcases List.mem_or_eq_of_mem_set hx with hx | rfl
                   · exact h.dbs x hx
                   · exact exec_inv env db _ (h.dbs db (List.mem_of_getElem? hdb)))
                | (rw [List.length_set]; exact h.nonempty)
                | (intro p hp; rw [List.length_set]; exact h.sel p hp)

/-- the number of databases never changes -/
theorem dbs_length (s : Server) (env : Env) (c : Nat) (args : List Bytes) : (s.execOn env c args).2.dbs.length = s.dbs.length := by
  unfold Server.execOn
  split
  · rfl
  · simp only
    split
    · split <;> rfl
    · split
      · split <;> rfl
      · split
        · split <;> rfl
        · split
          · rfl
          · simp

/-- a whole stream served on a connection (any event list: `Resp.parseLoop` of arbitrary bytes) -/
theorem keeps_serving_connection (env : Env) (c : Nat) (evs : List Resp.Event) : ∀ (s : Server) (acc : List Written),
    ServerInv s → ServerInv (s.handleEvents env c evs acc).1 := by
  induction evs with
  | nil => intro s acc h; exact h
  | cons e evs ih =>
    intro s acc h
    cases e with
    | eof => exact h
    | err => exact h
    | data v =>
      cases v with
      | bulk b => simp only [Server.handleEvents]; exact ih s acc h
      | line b => simp only [Server.handleEvents]; exact ih s acc h
      | arr a =>
        cases a with
        | none => simp only [Server.handleEvents]; exact ih s acc h
        | some vs => simp only [Server.handleEvents]; exact ih _ _ (keeps_serving s env c _ h)

/-- the client disconnects -/
theorem keeps_serving_close (s : Server) (c : Nat) (h : ServerInv s) : ServerInv (s.clientClose c) :=
  ⟨h.dbs, h.nonempty, fun p hp => h.sel p (List.mem_filter.1 hp).1, h.subs.filter _⟩

/-- the server closes the connection after a protocol error -/
theorem keeps_serving_kill (s : Server) (c : Nat) (h : ServerInv s) : ServerInv (s.disconnect c) := by
  have := setConn_inv s h c { s.conn c with closed := true } (conn_sel s h c)
  exact ⟨this.dbs, this.nonempty, this.sel, h.subs.filter _⟩

theorem init_inv (ndb : Nat) (h : 0 < ndb) : ServerInv (Server.init ndb) := by
  refine ⟨?_, by simpa [Server.init] using h, fun p hp => (nomatch hp), List.nodup_nil⟩
  intro db hdb
  have : db = [] := by
    simp only [Server.init, List.mem_replicate] at hdb
    exact hdb.2
  subst this
  exact global_invariant_every_state [] 0

/-- steps of the whole server: a byte stream arrives on a connection, a client leaves, a connection is killed -/
inductive Step
| serve (env : Env) (c : Nat) (inp : Bytes)
| close (c : Nat)
| kill (c : Nat)

def step (s : Server) : Step → Server
| .serve env c inp => (s.handleEvents env c (Resp.parseLoop Resp.St.init inp) []).1
| .close c => s.clientClose c
| .kill c => s.disconnect c

/-- **any interleaving, arbitrary bytes on every connection**: from a fresh server with at least one database the invariant
    holds after every step -/
theorem keeps_serving_history (ndb : Nat) (h : 0 < ndb) (steps : List Step) : ServerInv (steps.foldl step (Server.init ndb)) := by
  suffices ∀ s, ServerInv s → ServerInv (steps.foldl step s) from this _ (init_inv ndb h)
  induction steps with
  | nil => intro s hs; exact hs
  | cons st steps ih =>
    intro s hs
    apply ih
    cases st with
    | serve env c inp => exact keeps_serving_connection env c _ s [] hs
    | close c => exact keeps_serving_close s c hs
    | kill c => exact keeps_serving_kill s c hs

/-- the hypothesis is satisfiable, and preserved by a command with damaged arguments on a non-default database -/
example : ServerInv (((Server.init 16).execOn { now := 0 } 3 [ofStr "SELECT", ofStr "5"]).2.execOn { now := 1 } 3
    [ofStr "ZADD", [107], ofStr "nan", [109]]).2 :=
  keeps_serving _ _ _ _ (keeps_serving _ _ _ _ (init_inv 16 (by decide)))

/-- garbage on one connection, a command on another, a client leaving -/
example : ServerInv ([Step.serve { now := 0 } 1 [10, 42, 255], .serve { now := 1 } 2 (Resp.encodeCmd [ofStr "LPUSH", [107], [118]]), .close 1].foldl
    step (Server.init 16)) :=
  keeps_serving_history 16 (by decide) _

end Exec.C04
