import RedisGoModel.Props.C08Snap
import RedisGoModel.Props.Global
import Lean
/-! # Representation independence of the command table — shared infrastructure

The model stores a set as a duplicate-free LIST, a hash as an association LIST and a sorted set as an AVL TREE; the Go code stores maps
and its own tree.  The order of the list and the shape of the tree are representation detail.  `DbEquiv a b`: every key holds the
same value up to the container's own equality (`Snap.ValEquiv`: sets and hashes as permutations, sorted sets with the same
`ZT.members` sequence, everything else equal) with the same deadline.  `Sim` adds the table-wide invariant on both sides.

Per-command obligation `CmdOk c`: on `Sim` keyspaces the replies are EQUAL and the resulting keyspaces are `DbEquiv`
(`CmdPerm`/`CmdPairs` for the commands whose reply lists the stored order: the replies are permutations of each other).
This file: the relation and how the primitives the executors are built from act on it, "a sort of a permutation is the same list"
for the two sorts `canonReply` applies, and the tactics. -/
namespace Exec.Equiv
open Resp (Reply Bytes)
open Exec
open Exec.Global (Inv GoodValue)
open Snap (ValEquiv EntryEquiv OptEquiv)

/-- same keys; values equal up to `Snap.ValEquiv`; same deadlines -/
def DbEquiv (a b : Db) : Prop := ∀ k, OptEquiv (a.get k) (b.get k)

structure Sim (a b : Db) : Prop where
  inva : Inv a
  invb : Inv b
  eqv : DbEquiv a b

/-- two results agree: same reply, equivalent keyspaces -/
def Res (x y : Reply × Db) : Prop := x.1 = y.1 ∧ DbEquiv x.2 y.2

abbrev CmdOk (c : Cmd) : Prop := ∀ (env : Env) (a b : Db) (args : List Bytes), Sim a b → Res (c env a args) (c env b args)

/-! ### the value relation -/

theorem ValEquiv.refl : ∀ (v : Value), ValEquiv v v
| .str _ => rfl
| .list _ => rfl
| .set _ => List.Perm.refl _
| .hash _ => List.Perm.refl _
| .zset _ => rfl
| .stream _ _ => ⟨rfl, rfl⟩

theorem ValEquiv.symm {v w : Value} (h : ValEquiv v w) : ValEquiv w v := by
  cases v <;> cases w <;> simp only [ValEquiv] at h ⊢
  · exact h.symm
  · exact h.symm
  · exact h.symm
  · exact h.symm
  · exact h.symm
  · exact ⟨h.1.symm, h.2.symm⟩

theorem ValEquiv.trans {u v w : Value} (h : ValEquiv u v) (h' : ValEquiv v w) : ValEquiv u w := by
  cases u <;> cases v <;> simp only [ValEquiv] at h <;> cases w <;> simp only [ValEquiv] at h' ⊢
  · exact h.trans h'
  · exact h.trans h'
  · exact h.trans h'
  · exact h.trans h'
  · exact h.trans h'
  · exact ⟨h.1.trans h'.1, h.2.trans h'.2⟩

theorem ValEquiv.typeName {v w : Value} (h : ValEquiv v w) : v.typeName = w.typeName := by
  cases v <;> cases w <;> simp only [ValEquiv] at h <;> rfl

theorem EntryEquiv.refl (e : Entry) : EntryEquiv e e := ⟨ValEquiv.refl _, rfl⟩
theorem EntryEquiv.symm {e e' : Entry} (h : EntryEquiv e e') : EntryEquiv e' e := ⟨ValEquiv.symm h.1, h.2.symm⟩
theorem EntryEquiv.trans {e e' e'' : Entry} (h : EntryEquiv e e') (h' : EntryEquiv e' e'') : EntryEquiv e e'' :=
  ⟨ValEquiv.trans h.1 h'.1, h.2.trans h'.2⟩

theorem OptEquiv.cases {x y : Option Entry} (h : OptEquiv x y) :
    (x = none ∧ y = none) ∨ ∃ e e', x = some e ∧ y = some e' ∧ EntryEquiv e e' := by
  cases x <;> cases y <;> simp only [OptEquiv] at h
  · exact Or.inl ⟨rfl, rfl⟩
  · exact Or.inr ⟨_, _, rfl, rfl, h⟩

theorem OptEquiv.refl : ∀ (x : Option Entry), OptEquiv x x
| none => trivial
| some e => EntryEquiv.refl e

theorem OptEquiv.symm {x y : Option Entry} (h : OptEquiv x y) : OptEquiv y x := by
  rcases OptEquiv.cases h with ⟨rfl, rfl⟩ | ⟨e, e', rfl, rfl, he⟩
  · trivial
  · exact EntryEquiv.symm he

theorem OptEquiv.trans {x y z : Option Entry} (h : OptEquiv x y) (h' : OptEquiv y z) : OptEquiv x z := by
  rcases OptEquiv.cases h with ⟨rfl, rfl⟩ | ⟨e, e', rfl, rfl, he⟩
  · exact h'
  · rcases OptEquiv.cases h' with ⟨h1, _⟩ | ⟨e1, e2, h1, rfl, he'⟩
    · cases h1
    · cases h1; exact EntryEquiv.trans he he'

theorem DbEquiv.refl (a : Db) : DbEquiv a a := fun _ => OptEquiv.refl _
theorem DbEquiv.symm {a b : Db} (h : DbEquiv a b) : DbEquiv b a := fun k => OptEquiv.symm (h k)
theorem DbEquiv.trans {a b c : Db} (h : DbEquiv a b) (h' : DbEquiv b c) : DbEquiv a c := fun k => OptEquiv.trans (h k) (h' k)

theorem Sim.refl {a : Db} (h : Inv a) : Sim a a := ⟨h, h, DbEquiv.refl a⟩
theorem Sim.symm {a b : Db} (h : Sim a b) : Sim b a := ⟨h.invb, h.inva, h.eqv.symm⟩

/-! ### writes -/

theorem DbEquiv.put {a b : Db} (h : DbEquiv a b) (k : Bytes) {e e' : Entry} (he : EntryEquiv e e') : DbEquiv (a.put k e) (b.put k e') := by
  intro k'
  by_cases hk : k' = k
  · subst hk; rw [Db.get_put_same, Db.get_put_same]; exact he
  · rw [Db.get_put_other _ _ hk, Db.get_put_other _ _ hk]; exact h k'

theorem DbEquiv.put_same {a b : Db} (h : DbEquiv a b) (k : Bytes) (e : Entry) : DbEquiv (a.put k e) (b.put k e) :=
  h.put k (EntryEquiv.refl e)

theorem DbEquiv.del {a b : Db} (h : DbEquiv a b) (k : Bytes) : DbEquiv (a.del k) (b.del k) := by
  intro k'
  by_cases hk : k' = k
  · subst hk; rw [Db.get_del_same, Db.get_del_same]; trivial
  · rw [Db.get_del_other _ hk, Db.get_del_other _ hk]; exact h k'

theorem expOf_eq {a b : Db} (h : DbEquiv a b) (k : Bytes) : (a.get k).bind (·.exp) = (b.get k).bind (·.exp) := by
  rcases OptEquiv.cases (h k) with ⟨ha, hb⟩ | ⟨e, e', ha, hb, he⟩
  · rw [ha, hb]
  · rw [ha, hb]; exact he.2

theorem DbEquiv.setVal {a b : Db} (h : DbEquiv a b) (k : Bytes) {v v' : Value} (hv : ValEquiv v v') :
    DbEquiv (a.setVal k v) (b.setVal k v') := by
  unfold Db.setVal
  exact h.put k ⟨hv, expOf_eq h k⟩

theorem DbEquiv.setVal_same {a b : Db} (h : DbEquiv a b) (k : Bytes) (v : Value) : DbEquiv (a.setVal k v) (b.setVal k v) :=
  h.setVal k (ValEquiv.refl v)

theorem DbEquiv.setFresh {a b : Db} (h : DbEquiv a b) (k : Bytes) {v v' : Value} (hv : ValEquiv v v') :
    DbEquiv (a.setFresh k v) (b.setFresh k v') :=
  h.put k ⟨hv, rfl⟩

theorem DbEquiv.setFresh_same {a b : Db} (h : DbEquiv a b) (k : Bytes) (v : Value) : DbEquiv (a.setFresh k v) (b.setFresh k v) :=
  h.setFresh k (ValEquiv.refl v)

theorem DbEquiv.putList {a b : Db} (h : DbEquiv a b) (k : Bytes) (l : List Bytes) : DbEquiv (putList a k l) (putList b k l) := by
  unfold Exec.putList; split
  · exact h.del k
  · exact h.setVal_same k _

/-! ### the invariant through the lazy check and deletions -/

theorem inv_del {a : Db} (h : Inv a) (k : Bytes) : Inv (a.del k) := by
  refine ⟨Db.wf_del h.1 k, fun k' e he => ?_⟩
  by_cases hk : k' = k
  · subst hk; rw [Db.get_del_same] at he; cases he
  · rw [Db.get_del_other _ hk] at he; exact h.2 k' e he

theorem inv_ttl {a : Db} (h : Inv a) (now : Int) (k : Bytes) : Inv (checkTTL a now k).1 := by
  rcases checkTTL_cases a now k with e | e <;> rw [e]
  · exact h
  · exact inv_del h k

theorem Sim.del {a b : Db} (h : Sim a b) (k : Bytes) : Sim (a.del k) (b.del k) :=
  ⟨inv_del h.inva k, inv_del h.invb k, h.eqv.del k⟩

/-- the lazy check takes the same branch on both sides -/
theorem Sim.ttl {a b : Db} (hs : Sim a b) (now : Int) (k : Bytes) :
    ∃ a' b' x, checkTTL a now k = (a', x) ∧ checkTTL b now k = (b', x) ∧ Sim a' b' := by
  unfold checkTTL
  rcases OptEquiv.cases (hs.eqv k) with ⟨ha, hb⟩ | ⟨e, e', ha, hb, he⟩
  · rw [ha, hb]; exact ⟨a, b, true, rfl, rfl, hs⟩
  · rw [ha, hb]
    dsimp only
    rw [he.2]
    cases e'.exp with
    | none => exact ⟨a, b, true, rfl, rfl, hs⟩
    | some d =>
      dsimp only
      by_cases hd : d ≤ now
      · rw [if_pos hd, if_pos hd]; exact ⟨_, _, false, rfl, rfl, hs.del k⟩
      · rw [if_neg hd, if_neg hd]; exact ⟨a, b, true, rfl, rfl, hs⟩

/-! ### typed lookups -/

theorem getStr_eq {a b : Db} (h : DbEquiv a b) (k : Bytes) : getStr a k = getStr b k := by
  unfold getStr
  rcases OptEquiv.cases (h k) with ⟨ha, hb⟩ | ⟨e, e', ha, hb, he⟩
  · rw [ha, hb]
  · rw [ha, hb]; dsimp only
    have hv := he.1; revert hv
    generalize e.val = v; generalize e'.val = v'
    intro hv
    cases v <;> cases v' <;> simp only [ValEquiv] at hv <;> first | rfl | (rw [hv])

theorem getList_eq {a b : Db} (h : DbEquiv a b) (k : Bytes) : getList a k = getList b k := by
  unfold getList
  rcases OptEquiv.cases (h k) with ⟨ha, hb⟩ | ⟨e, e', ha, hb, he⟩
  · rw [ha, hb]
  · rw [ha, hb]; dsimp only
    have hv := he.1; revert hv
    generalize e.val = v; generalize e'.val = v'
    intro hv
    cases v <;> cases v' <;> simp only [ValEquiv] at hv <;> first | rfl | (rw [hv])

theorem getStream_eq {a b : Db} (h : DbEquiv a b) (k : Bytes) : getStream a k = getStream b k := by
  unfold getStream
  rcases OptEquiv.cases (h k) with ⟨ha, hb⟩ | ⟨e, e', ha, hb, he⟩
  · rw [ha, hb]
  · rw [ha, hb]; dsimp only
    have hv := he.1; revert hv
    generalize e.val = v; generalize e'.val = v'
    intro hv
    cases v <;> cases v' <;> simp only [ValEquiv] at hv <;> first | rfl | (rw [hv.1, hv.2])

theorem has_eq {a b : Db} (h : DbEquiv a b) (k : Bytes) : a.has k = b.has k := by
  unfold Db.has
  rcases OptEquiv.cases (h k) with ⟨ha, hb⟩ | ⟨e, e', ha, hb, _⟩ <;> rw [ha, hb] <;> rfl

/-- the three shapes of a container lookup on equivalent keyspaces -/
inductive LookRel {α : Type} (R : α → α → Prop) : Option (Option α) → Option (Option α) → Prop
| missing : LookRel R none none
| other : LookRel R (some none) (some none)
| found (x y : α) : R x y → LookRel R (some (some x)) (some (some y))

/-- what a set lookup yields on the two sides: permutations, both duplicate-free and non-empty -/
def SetR (s s' : SetOps.MSet) : Prop := s.Perm s' ∧ s.Nodup ∧ s'.Nodup ∧ s ≠ [] ∧ s' ≠ []

theorem getSet_rel {a b : Db} (hs : Sim a b) (k : Bytes) : LookRel SetR (getSet a k) (getSet b k) := by
  unfold getSet
  rcases OptEquiv.cases (hs.eqv k) with ⟨ha, hb⟩ | ⟨e, e', ha, hb, he⟩
  · rw [ha, hb]; exact .missing
  · have ga := hs.inva.2 k e ha
    have gb := hs.invb.2 k e' hb
    rw [ha, hb]; dsimp only
    have hv := he.1; revert hv ga gb
    generalize e.val = v; generalize e'.val = v'
    intro ga gb hv
    cases v <;> cases v' <;> simp only [ValEquiv] at hv <;> first | exact .other | skip
    exact .found _ _ ⟨hv, ga.1, gb.1, ga.2, gb.2⟩

/-- what a hash lookup yields on the two sides: permutations, both with unique fields and non-empty -/
def HashR (h h' : HashT) : Prop := h.Perm h' ∧ HashSel.Ok h ∧ HashSel.Ok h' ∧ h ≠ [] ∧ h' ≠ []

theorem getHash_rel {a b : Db} (hs : Sim a b) (k : Bytes) : LookRel HashR (getHash a k) (getHash b k) := by
  unfold getHash
  rcases OptEquiv.cases (hs.eqv k) with ⟨ha, hb⟩ | ⟨e, e', ha, hb, he⟩
  · rw [ha, hb]; exact .missing
  · have ga := hs.inva.2 k e ha
    have gb := hs.invb.2 k e' hb
    rw [ha, hb]; dsimp only
    have hv := he.1; revert hv ga gb
    generalize e.val = v; generalize e'.val = v'
    intro ga gb hv
    cases v <;> cases v' <;> simp only [ValEquiv] at hv <;> first | exact .other | skip
    exact .found _ _ ⟨hv, ga.1, gb.1, ga.2, gb.2⟩

/-- what a sorted-set lookup yields on the two sides: the same member sequence, both valid trees, non-empty -/
def ZR (t t' : ZT.T) : Prop := ZT.members t = ZT.members t' ∧ ZT.Inv t ∧ ZT.Inv t' ∧ t ≠ .nil ∧ t' ≠ .nil

theorem getZ_rel {a b : Db} (hs : Sim a b) (k : Bytes) : LookRel ZR (getZ a k) (getZ b k) := by
  unfold getZ
  rcases OptEquiv.cases (hs.eqv k) with ⟨ha, hb⟩ | ⟨e, e', ha, hb, he⟩
  · rw [ha, hb]; exact .missing
  · have ga := hs.inva.2 k e ha
    have gb := hs.invb.2 k e' hb
    rw [ha, hb]; dsimp only
    have hv := he.1; revert hv ga gb
    generalize e.val = v; generalize e'.val = v'
    intro ga gb hv
    cases v <;> cases v' <;> simp only [ValEquiv] at hv <;> first | exact .other | skip
    exact .found _ _ ⟨hv, ga.1, gb.1, ga.2, gb.2⟩

/-- disjunctive forms (for `rcases … <;> simp only`) -/
theorem LookRel.cases {α : Type} {R : α → α → Prop} {x y : Option (Option α)} (h : LookRel R x y) :
    (x = none ∧ y = none) ∨ (x = some none ∧ y = some none) ∨ ∃ s s', x = some (some s) ∧ y = some (some s') ∧ R s s' := by
  cases h with
  | missing => exact Or.inl ⟨rfl, rfl⟩
  | other => exact Or.inr (Or.inl ⟨rfl, rfl⟩)
  | found s s' h => exact Or.inr (Or.inr ⟨s, s', rfl, rfl, h⟩)

theorem getSet_cases {a b : Db} (hs : Sim a b) (k : Bytes) :
    (getSet a k = none ∧ getSet b k = none) ∨ (getSet a k = some none ∧ getSet b k = some none) ∨
      ∃ s s', getSet a k = some (some s) ∧ getSet b k = some (some s') ∧ SetR s s' := (getSet_rel hs k).cases

theorem getHash_cases {a b : Db} (hs : Sim a b) (k : Bytes) :
    (getHash a k = none ∧ getHash b k = none) ∨ (getHash a k = some none ∧ getHash b k = some none) ∨
      ∃ s s', getHash a k = some (some s) ∧ getHash b k = some (some s') ∧ HashR s s' := (getHash_rel hs k).cases

theorem getZ_cases {a b : Db} (hs : Sim a b) (k : Bytes) :
    (getZ a k = none ∧ getZ b k = none) ∨ (getZ a k = some none ∧ getZ b k = some none) ∨
      ∃ s s', getZ a k = some (some s) ∧ getZ b k = some (some s') ∧ ZR s s' := (getZ_rel hs k).cases

/-! ### replies that list a container in its stored order -/

/-- equal, or two bulk arrays that are permutations of each other -/
def ReplyPerm (r r' : Reply) : Prop := r = r' ∨ ∃ l l', r = bulks l ∧ r' = bulks l' ∧ l.Perm l'

/-- equal, or two flat field/value arrays of permuted field tables -/
def ReplyPairs (r r' : Reply) : Prop := r = r' ∨ ∃ h h', r = bulks (flatPairs h) ∧ r' = bulks (flatPairs h') ∧ h.Perm h'

def ResPerm (x y : Reply × Db) : Prop := ReplyPerm x.1 y.1 ∧ DbEquiv x.2 y.2
def ResPairs (x y : Reply × Db) : Prop := ReplyPairs x.1 y.1 ∧ DbEquiv x.2 y.2

abbrev CmdPerm (c : Cmd) : Prop := ∀ (env : Env) (a b : Db) (args : List Bytes), Sim a b → ResPerm (c env a args) (c env b args)
abbrev CmdPairs (c : Cmd) : Prop := ∀ (env : Env) (a b : Db) (args : List Bytes), Sim a b → ResPairs (c env a args) (c env b args)

theorem Res.toPerm {x y : Reply × Db} (h : Res x y) : ResPerm x y := ⟨Or.inl h.1, h.2⟩
theorem Res.toPairs {x y : Reply × Db} (h : Res x y) : ResPairs x y := ⟨Or.inl h.1, h.2⟩

/-! ### a sort of a permutation -/

section SortLemmas
variable {α : Type}

theorem insertSorted_perm (lt : α → α → Bool) (x : α) : ∀ (l : List α), (insertSorted lt x l).Perm (x :: l)
| [] => by simp [insertSorted]
| y :: ys => by
  unfold insertSorted
  split
  · exact List.Perm.refl _
  · exact ((insertSorted_perm lt x ys).cons y).trans (List.Perm.swap x y ys)

theorem sortBy_perm (lt : α → α → Bool) : ∀ (l : List α), (sortBy lt l).Perm l
| [] => by simp [sortBy]
| x :: xs => by
  have ih := sortBy_perm lt xs
  unfold sortBy at ih ⊢
  rw [List.foldr_cons]
  exact (insertSorted_perm lt x _).trans (ih.cons x)

/-- the order induced by a byte-string key -/
def keyLe (f : α → Bytes) (a b : α) : Prop := bytesLt (f b) (f a) = false

theorem insertSorted_sorted (f : α → Bytes) (x : α) : ∀ (l : List α), l.Pairwise (keyLe f) →
    (insertSorted (fun a b => bytesLt (f a) (f b)) x l).Pairwise (keyLe f)
| [], _ => by simp [insertSorted]
| y :: ys, h => by
  unfold insertSorted
  rw [List.pairwise_cons] at h
  split
  · rename_i hlt
    rw [List.pairwise_cons]
    refine ⟨?_, List.pairwise_cons.mpr h⟩
    intro z hz
    have hxy : keyLe f x y := C06T.bytesLt_asymm _ _ hlt
    rcases List.mem_cons.mp hz with rfl | hz
    · exact hxy
    · exact C06T.bytesLe_trans _ _ _ hxy (h.1 z hz)
  · rename_i hlt
    rw [List.pairwise_cons]
    refine ⟨?_, insertSorted_sorted f x ys h.2⟩
    intro z hz
    have := (insertSorted_perm _ x ys).subset hz
    rcases List.mem_cons.mp this with rfl | hz
    · simpa [keyLe] using hlt
    · exact h.1 z hz

theorem sortBy_sorted (f : α → Bytes) : ∀ (l : List α), (sortBy (fun a b => bytesLt (f a) (f b)) l).Pairwise (keyLe f)
| [] => by simp [sortBy]
| x :: xs => by
  have ih := sortBy_sorted f xs
  unfold sortBy at ih ⊢
  rw [List.foldr_cons]
  exact insertSorted_sorted f x _ ih

/-- **sorting by an injective key forgets the order of the input** (ties can only be between equal elements) -/
theorem sortBy_of_perm (f : α → Bytes) {l₁ l₂ : List α} (hinj : ∀ a ∈ l₁, ∀ b ∈ l₁, f a = f b → a = b) (h : l₁.Perm l₂) :
    sortBy (fun a b => bytesLt (f a) (f b)) l₁ = sortBy (fun a b => bytesLt (f a) (f b)) l₂ := by
  refine List.Perm.eq_of_pairwise (le := keyLe f) ?_ (sortBy_sorted f l₁) (sortBy_sorted f l₂)
    ((sortBy_perm _ l₁).trans (h.trans (sortBy_perm _ l₂).symm))
  intro x y hx hy hxy hyx
  have hx' : x ∈ l₁ := (sortBy_perm _ l₁).subset hx
  have hy' : y ∈ l₁ := h.symm.subset ((sortBy_perm _ l₂).subset hy)
  exact hinj x hx' y hy' (C06T.bytesLt_tricho _ _ hyx hxy)

end SortLemmas

/-- the RESP encoding determines a well-framed reply -/
theorem encode_inj {r r' : Reply} (h : Resp.WF r) (h' : Resp.WF r') (he : Resp.encode r = Resp.encode r') : r = r' := by
  have h1 := Resp.decode_encode r h (max (Resp.size r) (Resp.size r')) [] (Nat.le_max_left _ _)
  have h2 := Resp.decode_encode r' h' (max (Resp.size r) (Resp.size r')) [] (Nat.le_max_right _ _)
  rw [he, h2] at h1
  exact ((Prod.mk.inj (Option.some.inj h1)).1).symm

theorem encode_pair_inj {r₁ r₂ r₁' r₂' : Reply} (h₁ : Resp.WF r₁) (h₂ : Resp.WF r₂) (h₁' : Resp.WF r₁') (h₂' : Resp.WF r₂')
    (he : Resp.encode r₁ ++ Resp.encode r₂ = Resp.encode r₁' ++ Resp.encode r₂') : r₁ = r₁' ∧ r₂ = r₂' := by
  have h1 := Resp.decode_encode r₁ h₁ (max (Resp.size r₁) (Resp.size r₁')) (Resp.encode r₂) (Nat.le_max_left _ _)
  have h2 := Resp.decode_encode r₁' h₁' (max (Resp.size r₁) (Resp.size r₁')) (Resp.encode r₂') (Nat.le_max_right _ _)
  rw [he, h2] at h1
  have := Prod.mk.inj (Option.some.inj h1)
  exact ⟨this.1.symm, (encode_inj h₂ h₂' this.2.symm)⟩

/-- `canonReply`'s flat sort gives the same list on permuted bulk lists -/
theorem sortReplies_bulks {l l' : List Bytes} (h : l.Perm l') : sortReplies (l.map bulk) = sortReplies (l'.map bulk) := by
  unfold sortReplies
  refine sortBy_of_perm Resp.encode ?_ (h.map _)
  intro x hx y hy he
  obtain ⟨_, _, rfl⟩ := List.mem_map.mp hx
  obtain ⟨_, _, rfl⟩ := List.mem_map.mp hy
  exact encode_inj (Global.wf_bulk _) (Global.wf_bulk _) he

theorem pairUp_flat : ∀ (h : HashT), pairUp ((flatPairs h).map bulk) = some (h.map fun p => (bulk p.1, bulk p.2))
| [] => rfl
| p :: h => by
  have ih := pairUp_flat h
  unfold flatPairs at ih ⊢
  simp only [List.flatMap_cons, List.map_cons, List.cons_append, List.nil_append, pairUp, ih,
    Option.map_some]

/-- `canonReply`'s pair sort gives the same list on permuted field tables -/
theorem sortPairs_flat {h h' : HashT} (hp : h.Perm h') : sortPairs ((flatPairs h).map bulk) = sortPairs ((flatPairs h').map bulk) := by
  unfold sortPairs
  rw [pairUp_flat, pairUp_flat]
  dsimp only
  congr 1
  refine sortBy_of_perm (fun (a : Reply × Reply) => Resp.encode a.1 ++ Resp.encode a.2) ?_ (hp.map _)
  intro x hx y hy he
  obtain ⟨p, _, rfl⟩ := List.mem_map.mp hx
  obtain ⟨q, _, rfl⟩ := List.mem_map.mp hy
  have := encode_pair_inj (Global.wf_bulk _) (Global.wf_bulk _) (Global.wf_bulk _) (Global.wf_bulk _) he
  exact Prod.ext this.1 this.2

/-! ### tactics (the architecture of `C06TBase`) -/

theorem Res.intro {a b : Db} {r r' : Reply} (h : r = r') (hs : DbEquiv a b) : Res (r, a) (r', b) := ⟨h, hs⟩

/-- closes `DbEquiv (X a) (X b)` for `X` built from the write primitives, from hypotheses in the context -/
syntax "eq_sim" : tactic
macro_rules | `(tactic| eq_sim) => `(tactic| first
  | assumption
  | (exact Sim.eqv (by assumption))
  | (apply DbEquiv.put_same; eq_sim)
  | (apply DbEquiv.del; eq_sim)
  | (apply DbEquiv.setFresh_same; eq_sim)
  | (apply DbEquiv.setVal_same; eq_sim)
  | (apply DbEquiv.putList; eq_sim))

macro "eq_pair" : tactic => `(tactic| (apply Res.intro <;> first | rfl | eq_sim))

/-- run the check on `k`, rewrite every read of the `a`-side that is an equality into the `b`-side -/
macro "eq_ttl " hs:ident now:term:max k:term:max : tactic => `(tactic|
  (obtain ⟨a', b', x, hca, hcb, hs'⟩ := Sim.ttl $hs $now $k
   have he' := hs'.eqv
   simp only [hca, hcb, getStr_eq he', getList_eq he', getStream_eq he', has_eq he', expOf_eq he']))

/-- the lazy check, then the entry under `k` itself: both missing, or both present and `EntryEquiv` -/
theorem Sim.ttl_get {a b : Db} (hs : Sim a b) (now : Int) (k : Bytes) :
    (∃ a' b' x, checkTTL a now k = (a', x) ∧ checkTTL b now k = (b', x) ∧ Sim a' b' ∧ DbEquiv a' b' ∧
      a'.get k = none ∧ b'.get k = none) ∨
    (∃ a' b' x e e', checkTTL a now k = (a', x) ∧ checkTTL b now k = (b', x) ∧ Sim a' b' ∧ DbEquiv a' b' ∧
      a'.get k = some e ∧ b'.get k = some e' ∧ ValEquiv e.val e'.val ∧ e.exp = e'.exp ∧ e.val.typeName = e'.val.typeName ∧
      EntryEquiv e e') := by
  obtain ⟨a', b', x, hca, hcb, hs'⟩ := hs.ttl now k
  rcases OptEquiv.cases (hs'.eqv k) with ⟨ha, hb⟩ | ⟨e, e', ha, hb, hee⟩
  · exact Or.inl ⟨a', b', x, hca, hcb, hs', hs'.eqv, ha, hb⟩
  · exact Or.inr ⟨a', b', x, e, e', hca, hcb, hs', hs'.eqv, ha, hb, hee.1, hee.2, ValEquiv.typeName hee.1, hee⟩

/-- run the check on `k` and look at the entry under `k` itself (the deadline and type-name reads of the `a`-side are rewritten into
    the `b`-side) -/
macro "eq_ttl_get " hs:ident now:term:max k:term:max : tactic => `(tactic|
  (rcases Sim.ttl_get $hs $now $k with ⟨a', b', x, hca, hcb, hs', he', ha, hb⟩ |
     ⟨a', b', x, e, e', hca, hcb, hs', he', ha, hb, hval, hexp, htn, hee⟩ <;>
   first | simp only [hca, hcb, ha, hb, hexp, htn] | simp only [hca, hcb, ha, hb]))

open Lean Elab Tactic Meta in
elab "eq_auto_ttl_get " hs:ident : tactic => withMainContext do
  let tgt ← instantiateMVars (← getMainTarget)
  let some e := tgt.find? (fun e => e.isAppOfArity ``Exec.checkTTL 3 && !e.hasLooseBVars) | throwError "no checkTTL"
  let k ← Term.exprToSyntax (e.getArg! 2)
  let now ← Term.exprToSyntax (e.getArg! 1)
  evalTactic (← `(tactic| eq_ttl_get $hs $now $k))

/-- leaves of the commands that rewrite or move the entry itself -/
macro "eq_pair_entry" : tactic => `(tactic| first
  | eq_pair
  | exact ⟨rfl, DbEquiv.put (by assumption) _ ⟨by assumption, rfl⟩⟩
  | exact ⟨rfl, DbEquiv.put (DbEquiv.del (DbEquiv.del (by assumption) _) _) _ (by assumption)⟩)

open Lean Elab Tactic Meta in
/-- find the first `checkTTL db now k` in the goal (closed term) and run `eq_ttl` on its key -/
elab "eq_auto_ttl " hs:ident : tactic => withMainContext do
  let tgt ← instantiateMVars (← getMainTarget)
  let some e := tgt.find? (fun e => e.isAppOfArity ``Exec.checkTTL 3 && !e.hasLooseBVars) | throwError "no checkTTL"
  let k ← Term.exprToSyntax (e.getArg! 2)
  let now ← Term.exprToSyntax (e.getArg! 1)
  evalTactic (← `(tactic| eq_ttl $hs $now $k))

/-- a one-key command whose reads are equalities: split the control flow; at the lazy check switch to the `b`-side reads; close
    the leaves -/
macro "eq_cmd1 " hs:ident : tactic => `(tactic|
  (repeat' (first | eq_pair | eq_auto_ttl $hs | split | (exfalso; apply_assumption; rfl) | (exfalso; simp_all; done))))

end Exec.Equiv
