import RedisGoModel.Props.C19
/-! # C19 over whole histories of the connection layer

`Props/C19.lean` has per-step facts about `Server.execOn`; `Ds/PubSub.lean` has the history-level statement for an *abstract*
table.  This file states and proves the property for whole histories of the function the serve engine runs:

A history is any list of events over any number of connections: `cmd env c args` (connection `c` sends ANY command — SUBSCRIBE,
PUBLISH, SELECT, a keyspace command, an unknown or empty one — read at clock `env`), `close c` (the client disconnects,
`Server.clientClose`), `kill c` (the server closes `c` after a protocol error, `Server.disconnect`).  `runHist` executes it with
`Server.execOn`; every push a command writes — the publisher's own copy in its reply stream and the messages queued for the other
connections — is appended to the log `recv` as (receiver, bytes), i.e. every connection drains its pushes at once.

`history_delivery`: after ANY history from a server without subscriptions, for EVERY connection `t`, the bytes `t` received are
exactly the messages `pushMsg ch m` of the in-order subsequence of the PUBLISH commands whose channel `t` was subscribed to *at that
moment* (`PubSub.expected` / `PubSub.subscribed` over the abstracted history `absHist`: the last SUBSCRIBE / disconnect decides),
each once, payload intact — hence no other connection receives anything.
`history_publish_reply`: every PUBLISH replies `:k` where `k` is the number of connections subscribed at that moment, and exactly
those receive exactly one copy in that step.
Not proved (runtime): goroutine interleavings of Send/Subscribe, TCP back-pressure, lazy pruning of dead peers. -/
namespace Exec.C19
open Resp (Reply Bytes)

/-- one event of a connection-layer history -/
inductive HEv
| cmd (env : Env) (c : Nat) (args : List Bytes)
| close (c : Nat)
| kill (c : Nat)

structure HSt where
  srv : Server
  recv : List (Nat × Bytes) := []      -- every push delivered so far: (receiver, message bytes), in delivery order

/-- the pushes one command delivers: the sender's own copy (written into its reply stream) and what it queued for the others -/
def delivered (s : Server) (env : Env) (c : Nat) (args : List Bytes) : List (Nat × Bytes) :=
  (s.execOn env c args).1.1.map (fun p => (c, Resp.encode p)) ++ (s.execOn env c args).2.outbox

def hstep (h : HSt) : HEv → HSt
| .cmd env c args =>
  { srv := { (h.srv.execOn env c args).2 with outbox := [] }, recv := h.recv ++ delivered h.srv env c args }
| .close c => { h with srv := h.srv.clientClose c }
| .kill c => { h with srv := h.srv.disconnect c }

def runHist (s : Server) (evs : List HEv) : HSt := evs.foldl hstep { srv := s }

/-- what connection `t` has received, in order -/
def received (h : HSt) (t : Nat) : List Bytes := (h.recv.filter (·.1 == t)).map (·.2)

/-- the Pub/Sub content of an event: which abstract operations it performs -/
def absOps : HEv → List PubSub.Op
| .cmd _ c args =>
  match args with
  | [] => []
  | name :: rest =>
    if lower name == nSubscribe then rest.map (PubSub.Op.subscribe c)
    else if lower name == nPublish then (match rest with | [ch, m] => [.publish ch m] | _ => [])
    else []
| .close c => [.disconnect c]
| .kill c => [.disconnect c]

def absHist (evs : List HEv) : List PubSub.Op := evs.flatMap absOps

def enc (p : Bytes × Bytes) : Bytes := pushMsg p.1 p.2

/-! ### the targets of a PUBLISH over a duplicate-free table -/

def targets (subs : List (Bytes × Nat)) (ch : Bytes) : List Nat := (subs.filter (·.1 == ch)).map (·.2)

theorem mem_targets (subs : List (Bytes × Nat)) (ch : Bytes) (t : Nat) : t ∈ targets subs ch ↔ (ch, t) ∈ subs := by
  unfold targets
  rw [List.mem_map]
  constructor
  · rintro ⟨p, hp, rfl⟩
    rw [List.mem_filter] at hp
    have : p.1 = ch := by simpa using hp.2
    rw [← this]; exact hp.1
  · intro h
    exact ⟨(ch, t), List.mem_filter.2 ⟨h, by simp⟩, rfl⟩

theorem targets_nodup (subs : List (Bytes × Nat)) (ch : Bytes) (h : subs.Nodup) : (targets subs ch).Nodup := by
  induction subs with
  | nil => simp [targets]
  | cons x xs ih =>
    rw [List.nodup_cons] at h
    have ih' := ih h.2
    unfold targets at ih' ⊢
    rw [List.filter_cons]
    split
    · rename_i hx
      rw [List.map_cons, List.nodup_cons]
      refine ⟨?_, ih'⟩
      intro hin
      have := (mem_targets xs ch x.2).1 hin
      have hx' : x.1 = ch := by simpa using hx
      apply h.1
      rw [← hx'] at this
      exact this
    · exact ih'

theorem nodup_filter_eq (l : List Nat) (t : Nat) (hn : l.Nodup) : l.filter (· == t) = if t ∈ l then [t] else [] := by
  induction l with
  | nil => simp
  | cons a l ih =>
    rw [List.nodup_cons] at hn
    rw [List.filter_cons]
    by_cases ha : a = t
    · subst ha
      have hf : l.filter (· == a) = [] := by
        rw [List.filter_eq_nil_iff]
        intro b hb hba
        have : b = a := by simpa using hba
        exact hn.1 (this ▸ hb)
      simp [hf]
    · have hne : (a == t) = false := by simpa using ha
      rw [hne]
      simp only [Bool.false_eq_true, if_false]
      rw [ih hn.2]
      by_cases hl : t ∈ l
      · rw [if_pos hl, if_pos (List.mem_cons_of_mem _ hl)]
      · have : t ∉ a :: l := by
          intro h
          rcases List.mem_cons.1 h with h | h
          · exact ha h.symm
          · exact hl h
        rw [if_neg hl, if_neg this]

/-- the copies addressed to `t`: exactly one if `t` is subscribed, none otherwise -/
theorem targets_filter (subs : List (Bytes × Nat)) (ch : Bytes) (t : Nat) (h : subs.Nodup) :
    (targets subs ch).filter (· == t) = if (ch, t) ∈ subs then [t] else [] := by
  rw [nodup_filter_eq _ t (targets_nodup subs ch h)]
  by_cases hmem : (ch, t) ∈ subs
  · rw [if_pos ((mem_targets _ _ _).2 hmem), if_pos hmem]
  · rw [if_neg (fun h' => hmem ((mem_targets _ _ _).1 h')), if_neg hmem]

/-- **one PUBLISH step**: from a duplicate-free table with nothing queued, connection `t` is delivered exactly one copy of the
    message if it is subscribed to the channel, and nothing otherwise -/
theorem publish_step_delivery (s : Server) (env : Env) (c : Nat) (name ch m : Bytes) (hn : lower name = nPublish)
    (hnd : s.subs.Nodup) (hob : s.outbox = []) (t : Nat) :
    ((delivered s env c [name, ch, m]).filter (·.1 == t)).map (·.2) = if (ch, t) ∈ s.subs then [pushMsg ch m] else [] := by
  obtain ⟨_, h2, h3⟩ := publish_delivers s env c name ch m hn
  unfold delivered
  rw [h2, h3, hob]
  simp only [List.nil_append, List.filter_append, List.map_append]
  have hT : (List.map (fun x => x.2) (List.filter (fun x => x.1 == ch) s.subs)) = targets s.subs ch := rfl
  rw [hT]
  have hfm : ∀ l : List Nat, ((l.map fun x => (x, pushMsg ch m)).filter (·.1 == t)).map (·.2) = (l.filter (· == t)).map fun _ => pushMsg ch m := by
    intro l
    induction l with
    | nil => rfl
    | cons a l ih =>
      simp only [List.map_cons, List.filter_cons]
      by_cases ha : (a == t) = true
      · simp only [ha, if_true, List.map_cons, ih]
      · simp only [ha, Bool.false_eq_true, if_false, ih]
  rw [hfm]
  by_cases htc : t = c
  · subst htc
    have hz : ((targets s.subs ch).filter (· != t)).filter (· == t) = [] := by
      rw [List.filter_eq_nil_iff]
      intro b hb hbt
      have h1 := (List.mem_filter.1 hb).2
      have : b = t := by simpa using hbt
      subst this
      simp at h1
    rw [hz]
    by_cases hmem : (ch, t) ∈ s.subs
    · have : (targets s.subs ch).contains t = true := List.contains_iff_mem.2 ((mem_targets _ _ _).2 hmem)
      simp only [this, if_true, hmem, List.map_nil, List.append_nil, List.map_cons, List.filter_cons, beq_self_eq_true, List.filter_nil]
      rfl
    · have hnm : t ∉ targets s.subs ch := fun h' => hmem ((mem_targets _ _ _).1 h')
      simp [hnm, hmem]
  · have hown : ((if (targets s.subs ch).contains c = true then [arrOf [bulk (ofStr "message"), bulk ch, bulk m]] else []).map
        (fun p => (c, Resp.encode p))).filter (·.1 == t) = [] := by
      rw [List.filter_eq_nil_iff]
      intro p hp hpt
      obtain ⟨q, _, rfl⟩ := List.mem_map.1 hp
      have : c = t := by simpa using hpt
      exact htc this.symm
    rw [hown]
    have hff : ((targets s.subs ch).filter (· != c)).filter (· == t) = (targets s.subs ch).filter (· == t) := by
      rw [List.filter_filter]
      apply List.filter_congr
      intro x _
      by_cases hx : x = t
      · subst hx; simp [htc]
      · simp [hx]
    rw [hff, targets_filter s.subs ch t hnd]
    split <;> rfl

/-- … and the PUBLISH reply is the number of those connections -/
theorem publish_step_reply (s : Server) (env : Env) (c : Nat) (name ch m : Bytes) (hn : lower name = nPublish) :
    (s.execOn env c [name, ch, m]).1.2 = .int (targets s.subs ch).length := by
  rw [publish_reply s env c name ch m hn]; simp [targets]

/-- a command that is neither SUBSCRIBE nor PUBLISH touches neither the table nor any queue and pushes nothing -/
theorem execOn_other (s : Server) (env : Env) (c : Nat) (name : Bytes) (rest : List Bytes)
    (h1 : (lower name == nSubscribe) = false) (h2 : (lower name == nPublish) = false) :
    (s.execOn env c (name :: rest)).2.subs = s.subs ∧ (s.execOn env c (name :: rest)).2.outbox = s.outbox ∧
      (s.execOn env c (name :: rest)).1.1 = [] := by
  unfold Server.execOn
  simp only [h1, h2, Bool.false_eq_true, if_false]
  split
  · split <;> exact ⟨rfl, rfl, rfl⟩
  · split <;> exact ⟨rfl, rfl, rfl⟩

theorem execOn_empty (s : Server) (env : Env) (c : Nat) : (s.execOn env c []).2 = s ∧ (s.execOn env c []).1.1 = [] := ⟨rfl, rfl⟩

theorem execOn_subscribe (s : Server) (env : Env) (c : Nat) (name : Bytes) (rest : List Bytes) (hn : (lower name == nSubscribe) = true) :
    (s.execOn env c (name :: rest)).2.subs = rest.foldl (fun subs ch => if (ch, c) ∈ subs then subs else subs ++ [(ch, c)]) s.subs ∧
    (s.execOn env c (name :: rest)).2.outbox = s.outbox ∧ (s.execOn env c (name :: rest)).1.1 = [] := by
  have hn' : lower name = nSubscribe := by simpa using hn
  unfold Server.execOn
  have h1 : (nSubscribe == nSelect) = false := by decide
  simp only [hn', h1, beq_self_eq_true, if_true, Bool.false_eq_true, if_false]
  split
  · rename_i he
    have : rest = [] := by simpa using he
    subst this
    exact ⟨rfl, rfl, rfl⟩
  · refine ⟨?_, rfl, rfl⟩
    simp only
    congr 1
    funext subs ch
    simp only [List.contains_iff_mem]

theorem execOn_publish_badarity (s : Server) (env : Env) (c : Nat) (name : Bytes) (rest : List Bytes) (hn : (lower name == nPublish) = true)
    (hr : ∀ ch m, rest ≠ [ch, m]) : (s.execOn env c (name :: rest)).2 = s ∧ (s.execOn env c (name :: rest)).1.1 = [] := by
  have hn' : lower name = nPublish := by simpa using hn
  unfold Server.execOn
  have h1 : (nPublish == nSelect) = false := by decide
  have h2 : (nPublish == nSubscribe) = false := by decide
  simp only [hn', h1, h2, beq_self_eq_true, if_true, Bool.false_eq_true, if_false]
  exact ⟨trivial, trivial⟩

theorem foldl_subscribe (c : Nat) (chs : List Bytes) : ∀ a : PubSub.St,
    (chs.map (PubSub.Op.subscribe c)).foldl PubSub.step a =
      { a with subs := chs.foldl (fun subs ch => if (ch, c) ∈ subs then subs else subs ++ [(ch, c)]) a.subs } := by
  induction chs with
  | nil => intro a; rfl
  | cons ch chs ih =>
    intro a
    simp only [List.map_cons, List.foldl_cons]
    rw [ih]
    simp only [PubSub.step]
    split <;> rfl

/-! ### the refinement, step by step -/

/-- the executed history agrees with the abstract table run on the abstracted history -/
structure Rel (h : HSt) (a : PubSub.St) : Prop where
  subs : h.srv.subs = a.subs
  drained : h.srv.outbox = []
  recv : ∀ t, received h t = (a.outbox t).map enc

theorem received_append (h : HSt) (srv : Server) (l : List (Nat × Bytes)) (t : Nat) :
    received { srv := srv, recv := h.recv ++ l } t = received h t ++ (l.filter (·.1 == t)).map (·.2) := by
  simp [received, List.filter_append]

theorem rel_step (h : HSt) (a : PubSub.St) (hist : List PubSub.Op) (r : Rel h a) (i : PubSub.Inv a hist) (ev : HEv) :
    Rel (hstep h ev) ((absOps ev).foldl PubSub.step a) := by
  cases ev with
  | close c =>
    refine ⟨?_, ?_, fun t => ?_⟩
    · simp only [hstep, absOps, List.foldl_cons, List.foldl_nil]
      rw [subs_disconnect, r.subs]
      rfl
    · simp [hstep, Server.clientClose, r.drained]
    · simpa [hstep, absOps, PubSub.step, received] using r.recv t
  | kill c =>
    refine ⟨?_, ?_, fun t => ?_⟩
    · simp only [hstep, absOps, List.foldl_cons, List.foldl_nil, Server.disconnect, PubSub.step]
      rw [r.subs]
      congr 1
      funext p
      by_cases hp : p.2 = c <;> simp [hp, bne]
    · simp [hstep, Server.disconnect, r.drained]
    · simpa [hstep, absOps, PubSub.step, received] using r.recv t
  | cmd env c args =>
    cases args with
    | nil =>
      refine ⟨r.subs, rfl, fun t => ?_⟩
      have : delivered h.srv env c [] = [] := by simp [delivered, Server.execOn, r.drained]
      simp only [hstep, this, List.append_nil, absOps, List.foldl_nil]
      exact r.recv t
    | cons name rest =>
      by_cases hs : (lower name == nSubscribe) = true
      · obtain ⟨e1, e2, e3⟩ := execOn_subscribe h.srv env c name rest hs
        have hd : delivered h.srv env c (name :: rest) = [] := by simp [delivered, e2, e3, r.drained]
        simp only [hstep, hd, List.append_nil, absOps, hs, if_true, foldl_subscribe]
        refine ⟨?_, rfl, fun t => r.recv t⟩
        simp only [e1, r.subs]
      · have hs' : (lower name == nSubscribe) = false := by simpa using hs
        by_cases hp : (lower name == nPublish) = true
        · have hp' : lower name = nPublish := by simpa using hp
          by_cases hr : ∃ ch m, rest = [ch, m]
          · obtain ⟨ch, m, rfl⟩ := hr
            obtain ⟨p1, _, _⟩ := publish_delivers h.srv env c name ch m hp'
            simp only [hstep, absOps, hs', hp, Bool.false_eq_true, if_false, if_true, List.foldl_cons, List.foldl_nil, PubSub.step]
            refine ⟨by simp only [p1, r.subs], rfl, fun t => ?_⟩
            rw [received_append, publish_step_delivery h.srv env c name ch m hp' (r.subs ▸ i.nodup) r.drained t, r.recv t]
            simp only [PubSub.deliver, r.subs]
            split
            · simp [enc]
            · simp
          · have hr' : ∀ ch m, rest ≠ [ch, m] := fun ch m e => hr ⟨ch, m, e⟩
            obtain ⟨e1, e2⟩ := execOn_publish_badarity h.srv env c name rest hp hr'
            have hd : delivered h.srv env c (name :: rest) = [] := by simp [delivered, e1, e2, r.drained]
            have ha : absOps (.cmd env c (name :: rest)) = [] := by
              simp only [absOps, hs', hp, Bool.false_eq_true, if_false, if_true]
            simp only [hstep, hd, List.append_nil, ha, List.foldl_nil, e1]
            exact ⟨r.subs, rfl, fun t => r.recv t⟩
        · have hp' : (lower name == nPublish) = false := by simpa using hp
          obtain ⟨e1, e2, e3⟩ := execOn_other h.srv env c name rest hs' hp'
          have hd : delivered h.srv env c (name :: rest) = [] := by simp [delivered, e2, e3, r.drained]
          simp only [hstep, hd, List.append_nil, absOps, hs', hp', Bool.false_eq_true, if_false, List.foldl_nil]
          exact ⟨by simp only [e1, r.subs], rfl, fun t => r.recv t⟩

theorem rel_run (evs : List HEv) : ∀ (h : HSt) (a : PubSub.St) (hist : List PubSub.Op), Rel h a → PubSub.Inv a hist →
    Rel (evs.foldl hstep h) ((absHist evs).foldl PubSub.step a) ∧ PubSub.Inv ((absHist evs).foldl PubSub.step a) ((absHist evs).reverse ++ hist) := by
  induction evs with
  | nil => intro h a hist r i; exact ⟨r, by simpa [absHist] using i⟩
  | cons ev evs ih =>
    intro h a hist r i
    have r' := rel_step h a hist r i ev
    have i' := PubSub.inv_run (absOps ev) a hist i
    obtain ⟨r'', i''⟩ := ih _ _ _ r' i'
    simp only [absHist, List.flatMap_cons, List.foldl_append, List.reverse_append, List.append_assoc] at r'' i'' ⊢
    exact ⟨r'', i''⟩

theorem rel_init (s : Server) (hs : s.subs = []) (ho : s.outbox = []) : Rel { srv := s } PubSub.init :=
  ⟨hs, ho, fun _ => rfl⟩

theorem inv_init : PubSub.Inv PubSub.init [] :=
  ⟨List.nodup_nil, fun _ _ => by simp [PubSub.init, PubSub.subscribed], fun _ => rfl⟩

/-- **C19 over whole histories**: after ANY history of commands and disconnects on ANY number of connections, EVERY connection
    `t` has received exactly the messages of the PUBLISH commands issued while it was subscribed to their channel (at that moment),
    once each, payload intact, in publish order — and nothing else -/
theorem history_delivery (s : Server) (hs : s.subs = []) (ho : s.outbox = []) (evs : List HEv) (t : Nat) :
    received (runHist s evs) t = (PubSub.expected t (absHist evs).reverse).map enc := by
  obtain ⟨r, i⟩ := rel_run evs _ _ [] (rel_init s hs ho) inv_init
  rw [runHist, r.recv t, i.out t]; simp

/-- **every PUBLISH of a history replies the number of receivers**: the connections subscribed to the channel at that moment
    form a duplicate-free list `rs`; the reply is `:rs.length`; in that step each of them is delivered exactly one copy and
    nobody else anything -/
theorem history_publish_reply (s : Server) (hs : s.subs = []) (ho : s.outbox = []) (pre : List HEv) (env : Env) (c : Nat)
    (name ch m : Bytes) (hn : lower name = nPublish) :
    ∃ rs : List Nat, rs.Nodup ∧ (∀ t, t ∈ rs ↔ PubSub.subscribed t ch (absHist pre).reverse = true) ∧
      ((runHist s pre).srv.execOn env c [name, ch, m]).1.2 = .int rs.length ∧
      ∀ t, ((delivered (runHist s pre).srv env c [name, ch, m]).filter (·.1 == t)).map (·.2) =
        if t ∈ rs then [pushMsg ch m] else [] := by
  obtain ⟨r, i⟩ := rel_run pre _ _ [] (rel_init s hs ho) inv_init
  simp only [List.append_nil] at i
  have hnd : (runHist s pre).srv.subs.Nodup := by rw [runHist, r.subs]; exact i.nodup
  refine ⟨targets (runHist s pre).srv.subs ch, targets_nodup _ _ hnd, fun t => ?_, publish_step_reply _ env c name ch m hn, fun t => ?_⟩
  · rw [mem_targets, runHist, r.subs]; exact i.subs t ch
  · rw [publish_step_delivery _ env c name ch m hn hnd (by rw [runHist]; exact r.drained) t]
    simp only [mem_targets]

/-! ### non-vacuity: three connections, a handover, a republish -/

/-- channel "a"; connection 1 subscribes, 3 publishes x; 2 subscribes while 1 leaves (handover); 3 republishes x, then y;
    2 publishes to itself; an unrelated SET in between; 2 is killed; a last publish reaches nobody -/
def demo : List HEv :=
  [ .cmd {now := 0} 1 [nSubscribe, [97]],
    .cmd {now := 1} 3 [nPublish, [97], [120]],
    .cmd {now := 2} 2 [nSubscribe, [97], [98]],
    .close 1,
    .cmd {now := 3} 3 [nPublish, [97], [120]],
    .cmd {now := 3} 3 [[115, 101, 116], [107], [118]],
    .cmd {now := 4} 3 [nPublish, [97], [121]],
    .cmd {now := 5} 2 [nPublish, [98], [122]],
    .kill 2,
    .cmd {now := 6} 3 [nPublish, [97], [119]] ]

example : received (runHist (Server.init 1) demo) 1 = [pushMsg [97] [120]] ∧
    received (runHist (Server.init 1) demo) 2 = [pushMsg [97] [120], pushMsg [97] [121], pushMsg [98] [122]] ∧
    received (runHist (Server.init 1) demo) 3 = [] := by
  refine ⟨?_, ?_, ?_⟩ <;> rw [history_delivery _ rfl rfl]
  · rw [show PubSub.expected 1 (absHist demo).reverse = [([97], [120])] from by decide +kernel]; rfl
  · rw [show PubSub.expected 2 (absHist demo).reverse = [([97], [120]), ([97], [121]), ([98], [122])] from by decide +kernel]; rfl
  · rw [show PubSub.expected 3 (absHist demo).reverse = [] from by decide +kernel]; rfl

/-- after the first three events of `demo` (1 and 2 subscribed to "a"), a PUBLISH by 3 replies `:2` -/
example : ∃ rs : List Nat, rs.Nodup ∧ ((runHist (Server.init 1) (demo.take 3)).srv.execOn { now := 9 } 3 [nPublish, [97], [120]]).1.2 = .int rs.length ∧
    (∀ t, t ∈ rs ↔ PubSub.subscribed t [97] (absHist (demo.take 3)).reverse = true) := by
  obtain ⟨rs, h1, h2, h3, _⟩ := history_publish_reply (Server.init 1) rfl rfl (demo.take 3) { now := 9 } 3 nPublish [97] [120] (by decide)
  exact ⟨rs, h1, h3, h2⟩

example (t : Nat) : ((delivered (Server.init 1) { now := 0 } 3 [nPublish, [97], [120]]).filter (·.1 == t)).map (·.2) = [] := by
  rw [publish_step_delivery (Server.init 1) { now := 0 } 3 nPublish [97] [120] (by decide) List.nodup_nil rfl t]; rfl

end Exec.C19
