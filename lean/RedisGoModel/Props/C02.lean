import RedisGoModel.Resp.Chunked
import RedisGoModel.Props.C03
/-! # C02 — RESP request decoding is exact, binary-safe, fragmentation-independent: ARBITRARY bytes and ARBITRARY chunkings

`Resp/Resp.lean` proves the round trip for well-formed pipelines (`C02_roundtrip`, `C02_compositional`).  This file is about
every other input, and about the reader.  All statements are about `Resp.parseLoop` (the function the driver's parser and serve
engines run against `resp.ParseStream` / `Manager.Handle`) and `Exec.Server.handleEvents` (the Handle loop).

1. **Shape** (`stream_ends_with_one_eof`, `shape`, `handle_consumed`): for EVERY byte string and every parser state the event
   list is `pre ++ [eof]` with no `eof` inside `pre`.  The parser itself *does* go on after a protocol error (parser.go resets its
   state and `continue`s; so does the model) — the naive reading "data events followed by exactly one terminator" is therefore
   FALSE of the raw event list: `naive_shape_false` (witness `"\n*0\r\n"` ↦ `[err, data [], eof]`).  What holds, and what "the
   offending connection gets an error or is closed" needs, is about the part the Handle loop consumes: `consumed evs` (up to
   and including the first non-`data` event) is `ds ++ [t]`, all of `ds` data, `t` one of `err`/`eof`, and `handleEvents` depends
   on nothing else (`shape`, with `Exec.nothing_after_error`).
2. **Garbage after well-formed commands cannot change how they were decoded** (`prefix_stable`, any `junk`), and a pipeline followed
   by a frame that yields `err` executes exactly the pipeline, then the connection is closed (`isolation`).
3. **Malformed frames yield `err`, never a command** — each in ANY array state and followed by ANY bytes:
   `bulk_len_too_big` (above 512 MiB, in particular every numeral that does not fit in int64: `bulk_len_overflows_int64`),
   `array_len_overflows_int64`, `bulk_len_negative` (−2 and below), `array_len_negative` (−1 and below: this server has no null-array
   request), `header_not_numeric`, `missing_CR` (LF not preceded by CR; `bare_LF` is its empty instance), `bulk_body_bad_terminator`.
   These mirror `parseArrayHeader` / `parseBulkHeader` / `readLine` of resp/parser.go as repaired; the parser engine compares exactly
   these inputs (`vlib/props/c02.py` FRAGS) on every run.  No disagreement between model and code was found on them.
   `no_spurious_command`: GENERAL soundness — every array command the parser delivers, from ANY input, is backed by a contiguous,
   well-formed frame of the input (`ArrFrame`: a `*<numeral>` header whose value is the number of elements, directly followed by
   that many element frames whose bulk lengths are the lengths of the delivered payloads); `ArrFrame.unique` /
   `delivered_is_denotation`: a frame denotes exactly ONE command (the same bytes cannot be read as two different arrays), and
   `encodeCmd_is_frame`: what the encoder produces is a frame for exactly its arguments — so the frame relation is the RESP
   request grammar, neither too weak nor empty.
4. **Fragmentation independence as a theorem** (`fragmentation_independent`): the incremental reader of `Resp/Chunked.lean`
   (`feed` per chunk, `finish` at EOF — `ReadBytes('\n')` / `io.ReadFull` over a buffer carried between reads) produces, for EVERY
   list of chunks, exactly `parseLoop St.init chunks.flatten`; `chunking_irrelevant`: two chunkings of one stream give the same
   events.  Remaining trust: that `bufio.Reader.ReadBytes` and `io.ReadFull` implement that reader (return exactly the next line /
   the next `n` bytes of the concatenated stream); exercised by the three chunkings of the parser engine. -/
namespace C02
open Resp Exec

def isEof : Event → Bool | .eof => true | _ => false
def isData : Event → Bool | .data _ => true | _ => false

/-- a list of events that contains no `eof` -/
def NoEof (l : List Event) : Prop := ∀ e ∈ l, isEof e = false

/-- `pre ++ [eof]` with no `eof` in `pre` -/
def EndsEof (evs : List Event) : Prop := ∃ pre, evs = pre ++ [.eof] ∧ NoEof pre

theorem noEof_nil : NoEof [] := fun _ h => nomatch h
theorem noEof_err : NoEof [.err] := by intro e he; simp at he; subst he; rfl
theorem noEof_data (v : Val) : NoEof [.data v] := by intro e he; simp at he; subst he; rfl

theorem deliver_noEof (st : St) (v : Val) : NoEof (deliver st v).1 := by
  unfold deliver
  split
  · split
    · exact noEof_data _
    · exact noEof_nil
  · exact noEof_data _

theorem stepLine_noEof (st : St) (msg : Bytes) : NoEof (stepLine st msg).1 := by
  unfold stepLine
  split
  · exact noEof_err
  · simp only []
    generalize parseInt (List.take (List.length msg - 3) (List.drop 1 msg)) = p
    split
    · cases p with
      | none => exact noEof_err
      | some i =>
        cases i with
        | ofNat n => simp only []; split; exact noEof_data _; exact noEof_nil
        | negSucc k => exact noEof_err
    · split
      · cases p with
        | none => exact noEof_err
        | some i =>
          cases i with
          | ofNat n => simp only []; split; exact noEof_nil; exact noEof_err
          | negSucc k =>
            cases k with
            | zero => exact deliver_noEof _ _
            | succ k => exact noEof_err
      · split
        · exact noEof_err
        · split
          · exact noEof_err
          · exact deliver_noEof _ _

theorem stepBlock_noEof (st : St) (n : Nat) (msg : Bytes) : NoEof (stepBlock st n msg).1 := by
  unfold stepBlock
  split
  · exact deliver_noEof _ _
  · exact noEof_err

theorem endsEof_append {p l : List Event} (hp : NoEof p) (hl : EndsEof l) : EndsEof (p ++ l) := by
  obtain ⟨pre, rfl, hpre⟩ := hl
  refine ⟨p ++ pre, by simp, ?_⟩
  intro e he
  rcases List.mem_append.1 he with h | h
  · exact hp e h
  · exact hpre e h

theorem endsEof_eof : EndsEof [.eof] := ⟨[], rfl, noEof_nil⟩
theorem endsEof_err_eof : EndsEof [.err, .eof] := ⟨[.err], rfl, noEof_err⟩

/-- **every input, every parser state**: the event list ends with exactly one `eof`, and that is the only `eof` in it -/
theorem stream_ends_with_one_eof (st : St) (inp : Bytes) : EndsEof (parseLoop st inp) := by
  generalize hn : inp.length = n
  induction n using Nat.strongRecOn generalizing st inp with
  | _ n ih =>
    cases hm : st.multi with
    | none =>
      cases hs : splitLine inp with
      | none => rw [parseLoop_noline st inp hm hs]; exact endsEof_eof
      | some p =>
        obtain ⟨msg, rest⟩ := p
        rw [parseLoop_line st inp msg rest hm hs]
        exact endsEof_append (stepLine_noEof _ _) (ih rest.length (hn ▸ splitLine_len hs) _ rest rfl)
    | some k =>
      by_cases hl : inp.length < k + 2
      · rw [parseLoop_short st k inp hm hl]
        split
        · exact endsEof_eof
        · exact endsEof_err_eof
      · rw [parseLoop_block st k inp hm hl]
        exact endsEof_append (stepBlock_noEof _ _ _) (ih _ (hn ▸ stepBlock_len k inp hl) _ _ rfl)

/-! ### what the Handle loop consumes -/

/-- the events up to and including the first one that is not `data` (Handle returns on the first `err` or `eof`) -/
def consumed : List Event → List Event
| [] => []
| .data v :: evs => .data v :: consumed evs
| .err :: _ => [.err]
| .eof :: _ => [.eof]

/-- the Handle loop depends only on the consumed prefix: nothing that follows the first `err`/`eof` is looked at -/
theorem handle_consumed (s : Server) (env : Env) (c : Nat) (evs : List Event) (acc : List Written) :
    s.handleEvents env c evs acc = s.handleEvents env c (consumed evs) acc := by
  induction evs generalizing s acc with
  | nil => rfl
  | cons e evs ih =>
    cases e with
    | eof => simp [Server.handleEvents, consumed]
    | err => simp [Server.handleEvents, consumed]
    | data v =>
      cases v with
      | bulk b => simp only [consumed, Server.handleEvents]; exact ih s acc
      | line b => simp only [consumed, Server.handleEvents]; exact ih s acc
      | arr a =>
        cases a with
        | none => simp only [consumed, Server.handleEvents]; exact ih s acc
        | some vs => simp only [consumed, Server.handleEvents]; exact ih _ _

theorem consumed_endsEof : ∀ (pre : List Event), NoEof pre →
    ∃ ds t, consumed (pre ++ [.eof]) = ds ++ [t] ∧ (∀ e ∈ ds, isData e = true) ∧ (t = .err ∨ t = .eof)
| [], _ => ⟨[], .eof, rfl, fun _ h => (nomatch h), Or.inr rfl⟩
| .eof :: _, h => by have := h .eof (by simp); simp [isEof] at this
| .err :: _, _ => ⟨[], .err, rfl, fun _ h => (nomatch h), Or.inl rfl⟩
| .data v :: pre, h => by
  obtain ⟨ds, t, h1, h2, h3⟩ := consumed_endsEof pre (fun e he => h e (by simp [he]))
  refine ⟨.data v :: ds, t, by simp [consumed, h1], ?_, h3⟩
  intro e he
  rcases List.mem_cons.1 he with rfl | he
  · rfl
  · exact h2 e he

/-- **C02 shape, for EVERY input byte string**: what a connection consumes is a list of `data` events followed by exactly
    one terminator, `err` (the connection is closed, `Handle` returns) or `eof`; the Handle loop depends on nothing else of the
    input — nothing is delivered after a protocol error -/
theorem shape (inp : Bytes) :
    ∃ ds t, consumed (parseLoop St.init inp) = ds ++ [t] ∧ (∀ e ∈ ds, isData e = true) ∧ (t = .err ∨ t = .eof) ∧
      ∀ (s : Server) (env : Env) (c : Nat) (acc : List Written),
        s.handleEvents env c (parseLoop St.init inp) acc = s.handleEvents env c (ds ++ [t]) acc := by
  obtain ⟨pre, hpre, hno⟩ := stream_ends_with_one_eof St.init inp
  obtain ⟨ds, t, h1, h2, h3⟩ := consumed_endsEof pre hno
  refine ⟨ds, t, by rw [hpre, h1], h2, h3, ?_⟩
  intro s env c acc
  rw [handle_consumed, hpre, h1]

/-! ### garbage after well-formed commands -/

/-- the event of a decoded command -/
def cmdEvent (c : List Bytes) : Event := .data (.arr (some (c.map fun a => .bulk (some a))))

/-- **prefix stability**: whatever follows a well-formed pipeline — any bytes at all — the pipeline's commands are decoded
    exactly, first, and the parser meets the junk in its initial state -/
theorem prefix_stable (cmds : List (List Bytes)) (junk : Bytes) (hne : ∀ c ∈ cmds, c ≠ [])
    (hmax : ∀ c ∈ cmds, ∀ a ∈ c, a.length ≤ maxBulk) (hn : ∀ c ∈ cmds, c.length < 2^63) :
    parseLoop St.init ((cmds.map encodeCmd).flatten ++ junk) = cmds.map cmdEvent ++ parseLoop St.init junk := by
  induction cmds with
  | nil => simp
  | cons c r ih =>
    simp only [List.map_cons, List.flatten_cons, List.append_assoc]
    rw [C02_compositional c _ (hne c (by simp)) (hmax c (by simp)) (hn c (by simp))]
    rw [ih (fun x hx => hne x (by simp [hx])) (fun x hx => hmax x (by simp [hx])) (fun x hx => hn x (by simp [hx]))]
    simp [cmdEvent]

example : parseLoop St.init (([[[80, 73], [10, 13, 0]], [[255]]].map encodeCmd).flatten ++ [10, 36, 45, 13]) =
    [[[80, 73], [10, 13, 0]], [[255]]].map cmdEvent ++ parseLoop St.init [10, 36, 45, 13] :=
  prefix_stable _ _ (by decide) (by decide) (by decide)

theorem map_valBytes_bulks (c : List Bytes) : (c.map fun a => Val.bulk (some a)).map valBytes = c := by
  induction c with
  | nil => rfl
  | cons a as iha => simp only [List.map_cons, valBytes, iha]

theorem commandsOf_cmdEvents (cmds : List (List Bytes)) (tail : List Event) :
    commandsOf (cmds.map cmdEvent ++ tail) = cmds ++ commandsOf tail := by
  induction cmds with
  | nil => rfl
  | cons c r ih =>
    simp only [List.map_cons, List.cons_append, cmdEvent, commandsOf, map_valBytes_bulks]
    rw [ih]

/-- **isolation**: a well-formed pipeline followed by anything that makes the parser report a protocol error: exactly the
    pipeline's commands are executed, in order, then the connection is closed; nothing of the tail is executed -/
theorem isolation (cmds : List (List Bytes)) (tail : Bytes) (evs' : List Event) (hne : ∀ c ∈ cmds, c ≠ [])
    (hmax : ∀ c ∈ cmds, ∀ a ∈ c, a.length ≤ maxBulk) (hn : ∀ c ∈ cmds, c.length < 2^63)
    (hbad : parseLoop St.init tail = .err :: evs') (s : Server) (env : Env) (c : Nat) :
    commandsOf (parseLoop St.init ((cmds.map encodeCmd).flatten ++ tail)) = cmds ∧
    s.handleEvents env c (parseLoop St.init ((cmds.map encodeCmd).flatten ++ tail)) [] =
      s.handleEvents env c (cmds.map cmdEvent ++ [.err]) [] := by
  rw [prefix_stable cmds tail hne hmax hn, hbad]
  exact ⟨by rw [commandsOf_cmdEvents]; simp [commandsOf], nothing_after_error s env c _ evs' []⟩

/-! ### malformed frames yield `err`, never a command -/

theorem splitLine_LF (l rest : Bytes) (hno : LF ∉ l) : splitLine (l ++ LF :: rest) = some (l ++ [LF], rest) := by
  induction l with
  | nil => simp [splitLine]
  | cons b r ih =>
    have hb : (b == LF) = false := by
      have : b ≠ LF := fun e => hno (by simp [e])
      simpa using this
    have hr : LF ∉ r := fun e => hno (by simp [e])
    simp [splitLine, hb, ih hr]

/-- a line whose LF is not preceded by CR is a protocol error, in any array state, whatever follows -/
theorem missing_CR (arr : Option (Nat × List Val)) (l rest : Bytes) (hno : LF ∉ l) (hcr : l.getLast? ≠ some CR) :
    parseLoop ⟨none, arr⟩ (l ++ LF :: rest) = .err :: parseLoop St.init rest := by
  rw [parseLoop_line _ _ _ _ rfl (splitLine_LF l rest hno)]
  have : stepLine ⟨none, arr⟩ (l ++ [LF]) = ([.err], St.init) := by
    unfold stepLine
    have hc : (decide ((l ++ [LF]).length < 2) || (l ++ [LF])[(l ++ [LF]).length - 2]? != some CR) = true := by
      rcases List.eq_nil_or_concat l with rfl | ⟨l', x, rfl⟩
      · simp
      · have hx : x ≠ CR := by simpa using hcr
        simp [hx]
    rw [if_pos hc]
  rw [this]; rfl

/-- a bare LF -/
theorem bare_LF (arr : Option (Nat × List Val)) (rest : Bytes) :
    parseLoop ⟨none, arr⟩ (LF :: rest) = .err :: parseLoop St.init rest :=
  missing_CR arr [] rest (by simp) (by simp)

/-- the three preliminary tests of `stepLine` on a header line `<tag><body>\r\n` -/
theorem stepLine_hdr (st : St) (tag : UInt8) (body : Bytes) :
    stepLine st (tag :: body ++ [CR, LF]) =
      if tag == STAR then
        match parseInt body with
        | some (.ofNat n) => if n == 0 then ([.data (.arr (some []))], St.init) else ([], ⟨none, some (n, [])⟩)
        | _ => ([.err], St.init)
      else if tag == DOLLAR then
        match parseInt body with
        | some (.ofNat n) => if n ≤ maxBulk then ([], ⟨some n, st.arr⟩) else ([.err], St.init)
        | some (.negSucc 0) => deliver ⟨none, st.arr⟩ (.bulk none)
        | _ => ([.err], St.init)
      else if (tag == COLON && (parseInt body).isNone) then ([.err], St.init)
      else deliver st (.line (tag :: body)) := by
  unfold stepLine
  have hl : (tag :: body ++ [CR, LF]).length = body.length + 3 := by simp
  have h1 : (decide ((tag :: body ++ [CR, LF]).length < 2) || (tag :: body ++ [CR, LF])[(tag :: body ++ [CR, LF]).length - 2]? != some CR) = false := by
    rw [hl]
    have : body.length + 3 - 2 = body.length + 1 := by omega
    rw [this]
    simp [List.getElem?_cons_succ]
  have h2 : ((tag :: body ++ [CR, LF]).drop 1).take ((tag :: body ++ [CR, LF]).length - 3) = body := by
    rw [hl]; simp
  have h3 : (tag :: body ++ [CR, LF]).take ((tag :: body ++ [CR, LF]).length - 2) = tag :: body := by
    rw [hl]
    have : body.length + 3 - 2 = body.length + 1 := by omega
    rw [this]; simp
  have h4 : ¬ (tag :: body ++ [CR, LF]).length < 3 := by rw [hl]; omega
  rw [if_neg (by rw [h1]; simp)]
  have h5 : (tag :: body ++ [CR, LF]).head? = some tag := rfl
  have h6 : ∀ x : UInt8, (some tag == some x) = (tag == x) := fun x => by simp
  simp only [h2, h3, h4, h5, h6, if_false]
  rfl

/-- a header line is read as one line when its body has no LF -/
theorem parseLoop_hdr (arr : Option (Nat × List Val)) (tag : UInt8) (body rest : Bytes) (htag : tag ≠ LF) (hno : LF ∉ body) :
    parseLoop ⟨none, arr⟩ (tag :: body ++ CR :: LF :: rest) =
      (stepLine ⟨none, arr⟩ (tag :: body ++ [CR, LF])).1 ++ parseLoop (stepLine ⟨none, arr⟩ (tag :: body ++ [CR, LF])).2 rest := by
  have hs := splitLine_hdr (tag :: body) rest (by
    simp only [List.mem_cons, not_or]
    exact ⟨fun e => htag e.symm, hno⟩)
  exact parseLoop_line _ _ _ _ rfl (by simpa using hs)

/-- **a length header that is not a decimal integer** (`$abc`, `*x`, `$`, `$ 1`, `*1 `, …) is a protocol error -/
theorem header_not_numeric (arr : Option (Nat × List Val)) (tag : UInt8) (body rest : Bytes) (htag : tag = STAR ∨ tag = DOLLAR)
    (hno : LF ∉ body) (hbad : parseInt body = none) :
    parseLoop ⟨none, arr⟩ (tag :: body ++ CR :: LF :: rest) = .err :: parseLoop St.init rest := by
  have htl : tag ≠ LF := by rcases htag with rfl | rfl <;> decide
  rw [parseLoop_hdr arr tag body rest htl hno, stepLine_hdr, hbad]
  rcases htag with rfl | rfl
  · simp
  · have : (DOLLAR == STAR) = false := by decide
    simp [this]

theorem parseInt_dec_big (n : Nat) (hn : 2^63 ≤ n) : parseInt (dec n) = none := by
  have hne := dec_ne_nil n
  cases hd : dec n with
  | nil => exact absurd hd hne
  | cons c r =>
    have hc := dec_digits n c (by rw [hd]; simp)
    have h1 : (c == MINUS) = false := by
      have : c ≠ MINUS := by intro e; subst e; simp [MINUS] at hc
      simpa using this
    have h2 : (c == 43) = false := by
      have : c ≠ 43 := by intro e; subst e; simp at hc
      simpa using this
    simp only [parseInt, h1, h2]
    rw [← hd, parseNat_dec]
    have : ¬ n < 2^63 := by omega
    simp [this]

theorem parseInt_neg_dec (n : Nat) : parseInt (MINUS :: dec n) = if n ≤ 2^63 then some (-(n : Int)) else none := by
  simp [parseInt, parseNat_dec]

theorem dec_minus_no_LF (n : Nat) : LF ∉ MINUS :: dec n := by
  simp only [List.mem_cons, not_or]
  exact ⟨by decide, dec_no_LF n⟩

/-- **a bulk length above the limit** (512 MiB) — whether or not the numeral fits in int64 — is a protocol error, not an
    allocation and not a command; in any array state, whatever follows -/
theorem bulk_len_too_big (arr : Option (Nat × List Val)) (n : Nat) (rest : Bytes) (hn : maxBulk < n) :
    parseLoop ⟨none, arr⟩ (DOLLAR :: dec n ++ CR :: LF :: rest) = .err :: parseLoop St.init rest := by
  rw [parseLoop_hdr arr DOLLAR (dec n) rest (by decide) (dec_no_LF n), stepLine_hdr]
  have h0 : (DOLLAR == STAR) = false := by decide
  by_cases hb : n < 2^63
  · rw [parseInt_dec n hb]
    have : ¬ n ≤ maxBulk := by omega
    simp [h0, this]
  · rw [parseInt_dec_big n (by omega)]
    simp [h0]

/-- … in particular **a bulk length numeral that does not fit in int64** -/
theorem bulk_len_overflows_int64 (arr : Option (Nat × List Val)) (n : Nat) (rest : Bytes) (hn : 2^63 ≤ n) :
    parseLoop ⟨none, arr⟩ (DOLLAR :: dec n ++ CR :: LF :: rest) = .err :: parseLoop St.init rest :=
  bulk_len_too_big arr n rest (by unfold maxBulk; omega)

/-- **an array length numeral that does not fit in int64** is a protocol error -/
theorem array_len_overflows_int64 (arr : Option (Nat × List Val)) (n : Nat) (rest : Bytes) (hn : 2^63 ≤ n) :
    parseLoop ⟨none, arr⟩ (STAR :: dec n ++ CR :: LF :: rest) = .err :: parseLoop St.init rest := by
  rw [parseLoop_hdr arr STAR (dec n) rest (by decide) (dec_no_LF n), stepLine_hdr, parseInt_dec_big n hn]
  simp

/-- **a negative bulk length other than −1** is a protocol error -/
theorem bulk_len_negative (arr : Option (Nat × List Val)) (n : Nat) (rest : Bytes) (hn : 2 ≤ n) :
    parseLoop ⟨none, arr⟩ (DOLLAR :: MINUS :: dec n ++ CR :: LF :: rest) = .err :: parseLoop St.init rest := by
  have := parseLoop_hdr arr DOLLAR (MINUS :: dec n) rest (by decide) (dec_minus_no_LF n)
  simp only [List.cons_append] at this ⊢
  rw [this]
  have hs := stepLine_hdr ⟨none, arr⟩ DOLLAR (MINUS :: dec n)
  simp only [List.cons_append] at hs
  rw [hs, parseInt_neg_dec]
  have h0 : (DOLLAR == STAR) = false := by decide
  by_cases hb : n ≤ 2^63
  · obtain ⟨k, rfl⟩ : ∃ k, n = k + 2 := ⟨n - 2, by omega⟩
    have : (-((k + 2 : Nat) : Int)) = Int.negSucc (k + 1) := by omega
    simp only [hb, if_true, this, h0]
    simp
  · simp [hb, h0]

/-- **a negative array length** (this server accepts no null-array request) is a protocol error -/
theorem array_len_negative (arr : Option (Nat × List Val)) (n : Nat) (rest : Bytes) (hn : 1 ≤ n) :
    parseLoop ⟨none, arr⟩ (STAR :: MINUS :: dec n ++ CR :: LF :: rest) = .err :: parseLoop St.init rest := by
  have := parseLoop_hdr arr STAR (MINUS :: dec n) rest (by decide) (dec_minus_no_LF n)
  simp only [List.cons_append] at this ⊢
  rw [this]
  have hs := stepLine_hdr ⟨none, arr⟩ STAR (MINUS :: dec n)
  simp only [List.cons_append] at hs
  rw [hs, parseInt_neg_dec]
  by_cases hb : n ≤ 2^63
  · obtain ⟨k, rfl⟩ : ∃ k, n = k + 1 := ⟨n - 1, by omega⟩
    have : (-((k + 1 : Nat) : Int)) = Int.negSucc k := by omega
    simp only [hb, if_true, this]
    simp
  · simp [hb]

/-- **a bulk body not terminated by CR LF** (declared length wrong) is a protocol error; the parser resynchronises after
    the `n+2` bytes it read -/
theorem bulk_body_bad_terminator (arr : Option (Nat × List Val)) (n : Nat) (inp : Bytes) (hl : n + 2 ≤ inp.length)
    (hbad : ¬ (inp[n]? = some CR ∧ inp[n+1]? = some LF)) :
    parseLoop ⟨some n, arr⟩ inp = .err :: parseLoop St.init (inp.drop (n + 2)) := by
  rw [parseLoop_block _ n inp rfl (by omega)]
  have : stepBlock ⟨some n, arr⟩ n (inp.take (n + 2)) = ([.err], St.init) := by
    unfold stepBlock
    have e1 : (inp.take (n + 2))[n]? = inp[n]? := by rw [List.getElem?_take]; simp
    have e2 : (inp.take (n + 2))[n + 1]? = inp[n + 1]? := by rw [List.getElem?_take]; simp
    rw [e1, e2]
    have : ¬ ((inp[n]? == some CR && inp[n + 1]? == some LF) = true) := by
      intro h; apply hbad; simpa using h
    rw [if_neg this]
  rw [this]; rfl

/-! ### fragmentation independence -/

theorem splitLine_append {buf msg rest : Bytes} (more : Bytes) (h : splitLine buf = some (msg, rest)) :
    splitLine (buf ++ more) = some (msg, rest ++ more) := by
  induction buf generalizing msg rest with
  | nil => simp [splitLine] at h
  | cons b r ih =>
    simp only [List.cons_append, splitLine] at h ⊢
    split at h
    · rename_i hb
      simp only [Option.some.injEq, Prod.mk.injEq] at h
      obtain ⟨rfl, rfl⟩ := h
      rw [if_pos hb]
    · rename_i hb
      rw [Option.map_eq_some_iff] at h
      obtain ⟨⟨l', rest'⟩, h1, h2⟩ := h
      simp only [Prod.mk.injEq] at h2
      obtain ⟨rfl, rfl⟩ := h2
      rw [if_neg hb, ih h1]; rfl

theorem drain_line (st : St) (buf msg rest : Bytes) (hm : st.multi = none) (hs : splitLine buf = some (msg, rest)) :
    drain st buf = ((stepLine st msg).1 ++ (drain (stepLine st msg).2 rest).1, (drain (stepLine st msg).2 rest).2) := by
  rw [drain]
  simp only [hm]
  split
  · rename_i hs'; rw [hs] at hs'; cases hs'
  · rename_i msg' rest' hs'
    rw [hs] at hs'
    simp only [Option.some.injEq, Prod.mk.injEq] at hs'
    obtain ⟨rfl, rfl⟩ := hs'
    rfl

theorem drain_noline (st : St) (buf : Bytes) (hm : st.multi = none) (hs : splitLine buf = none) : drain st buf = ([], st, buf) := by
  rw [drain]
  simp only [hm]
  split
  · rfl
  · rename_i hs'; rw [hs] at hs'; cases hs'

theorem drain_block (st : St) (n : Nat) (buf : Bytes) (hm : st.multi = some n) (hl : ¬ buf.length < n + 2) :
    drain st buf = ((stepBlock st n (buf.take (n + 2))).1 ++ (drain (stepBlock st n (buf.take (n + 2))).2 (buf.drop (n + 2))).1,
      (drain (stepBlock st n (buf.take (n + 2))).2 (buf.drop (n + 2))).2) := by
  rw [drain]
  simp only [hm, hl, dite_false]

theorem drain_short (st : St) (n : Nat) (buf : Bytes) (hm : st.multi = some n) (hl : buf.length < n + 2) :
    drain st buf = ([], st, buf) := by
  rw [drain]
  simp only [hm, hl, dite_true]

/-- draining a buffer is a prefix of parsing it followed by ANY further bytes: the units already complete in the buffer are
    parsed the same way whatever arrives later -/
theorem drain_spec (st : St) (buf more : Bytes) :
    parseLoop st (buf ++ more) = (drain st buf).1 ++ parseLoop (drain st buf).2.1 ((drain st buf).2.2 ++ more) := by
  generalize hn : buf.length = n
  induction n using Nat.strongRecOn generalizing st buf with
  | _ n ih =>
    cases hm : st.multi with
    | none =>
      cases hs : splitLine buf with
      | none => rw [drain_noline st buf hm hs]; rfl
      | some p =>
        obtain ⟨msg, rest⟩ := p
        rw [drain_line st buf msg rest hm hs, parseLoop_line st _ msg (rest ++ more) hm (splitLine_append more hs)]
        rw [ih rest.length (hn ▸ splitLine_len hs) _ rest rfl]
        simp only [List.append_assoc]
    | some k =>
      by_cases hl : buf.length < k + 2
      · rw [drain_short st k buf hm hl]; rfl
      · rw [drain_block st k buf hm hl]
        have hl' : ¬ (buf ++ more).length < k + 2 := by simp; omega
        rw [parseLoop_block st k _ hm hl']
        have ht : (buf ++ more).take (k + 2) = buf.take (k + 2) := List.take_append_of_le_length (by omega)
        have hd : (buf ++ more).drop (k + 2) = buf.drop (k + 2) ++ more := List.drop_append_of_le_length (by omega)
        rw [ht, hd, ih _ (hn ▸ stepBlock_len k buf hl) _ _ rfl]
        simp only [List.append_assoc]

/-- nothing complete is left in the buffer: no LF outside a bulk body, fewer than `n+2` bytes inside one -/
def Stuck (st : St) (rem : Bytes) : Prop :=
  match st.multi with
  | some n => rem.length < n + 2
  | none => splitLine rem = none

theorem drain_stuck (st : St) (buf : Bytes) : Stuck (drain st buf).2.1 (drain st buf).2.2 := by
  generalize hn : buf.length = n
  induction n using Nat.strongRecOn generalizing st buf with
  | _ n ih =>
    cases hm : st.multi with
    | none =>
      cases hs : splitLine buf with
      | none => rw [drain_noline st buf hm hs]; simp only [Stuck, hm]; exact hs
      | some p =>
        obtain ⟨msg, rest⟩ := p
        rw [drain_line st buf msg rest hm hs]
        exact ih rest.length (hn ▸ splitLine_len hs) _ rest rfl
    | some k =>
      by_cases hl : buf.length < k + 2
      · rw [drain_short st k buf hm hl]; simp only [Stuck, hm]; exact hl
      · rw [drain_block st k buf hm hl]
        exact ih _ (hn ▸ stepBlock_len k buf hl) _ _ rfl

/-- at EOF the whole-stream parser on a stuck remainder does what `finish` does -/
theorem parseLoop_stuck (st : St) (rem : Bytes) (h : Stuck st rem) : parseLoop st rem = finish ⟨st, rem⟩ := by
  unfold Stuck at h
  unfold finish
  cases hm : st.multi with
  | none => rw [hm] at h; simp only; exact parseLoop_noline st rem hm h
  | some k => rw [hm] at h; simp only; exact parseLoop_short st k rem hm h

theorem feedAll_spec (chunks : List Bytes) : ∀ (p : PState) (more : Bytes),
    parseLoop p.st (p.pending ++ (chunks.flatten ++ more)) =
      (feedAll p chunks).2 ++ parseLoop (feedAll p chunks).1.st ((feedAll p chunks).1.pending ++ more) := by
  induction chunks with
  | nil => intro p more; simp [feedAll]
  | cons c cs ih =>
    intro p more
    simp only [feedAll, List.flatten_cons, List.append_assoc]
    rw [← List.append_assoc p.pending c, drain_spec p.st (p.pending ++ c)]
    have := ih (feed p c).1 more
    simp only [feed] at this ⊢
    rw [this]

theorem feedAll_stuck (chunks : List Bytes) : ∀ (p : PState), Stuck p.st p.pending →
    Stuck (feedAll p chunks).1.st (feedAll p chunks).1.pending := by
  induction chunks with
  | nil => intro p h; exact h
  | cons c cs ih =>
    intro p _
    simp only [feedAll]
    exact ih _ (drain_stuck _ _)

/-- **C02, fragmentation independence**: for EVERY list of chunks, the incremental reader (`feed` on each chunk as it arrives,
    `finish` at EOF) produces exactly the events of the whole-stream parser on the concatenation -/
theorem fragmentation_independent (chunks : List Bytes) : runChunks chunks = parseLoop St.init chunks.flatten := by
  unfold runChunks
  have h1 := feedAll_spec chunks PState.init []
  have h2 := feedAll_stuck chunks PState.init (by simp [Stuck, PState.init, St.init, splitLine])
  simp only [PState.init, List.nil_append, List.append_nil] at h1 h2 ⊢
  rw [h1, parseLoop_stuck _ _ h2]

/-- … so two chunkings of the same byte stream give the same events -/
theorem chunking_irrelevant (a b : List Bytes) (h : a.flatten = b.flatten) : runChunks a = runChunks b := by
  rw [fragmentation_independent, fragmentation_independent, h]

/-- … and a well-formed pipeline is decoded exactly however it is cut (inside CRLF, inside a header, inside a payload) -/
theorem chunked_roundtrip (chunks : List Bytes) (cmds : List (List Bytes)) (h : chunks.flatten = (cmds.map encodeCmd).flatten)
    (hne : ∀ c ∈ cmds, c ≠ []) (hmax : ∀ c ∈ cmds, ∀ a ∈ c, a.length ≤ maxBulk) (hn : ∀ c ∈ cmds, c.length < 2^63) :
    runChunks chunks = cmds.map cmdEvent ++ [.eof] := by
  rw [fragmentation_independent, h, C02_roundtrip cmds hne hmax hn]; rfl

/-- `*1\r\n$2\r\n\r\n\r\n` (one argument, the two bytes CR LF) cut inside the header CRLF, inside the payload and inside the
    trailing CRLF -/
example : runChunks [[42, 49, 13], [10, 36, 50], [13, 10, 13], [10, 13], [10]] = [cmdEvent [[13, 10]], .eof] :=
  chunked_roundtrip _ [[[13, 10]]] (by simp [encodeCmd, encodeBulks, encodeBulk, dec, decRev, digit, STAR, DOLLAR, CR, LF])
    (by decide) (by decide) (by decide)

/-! ### soundness for arbitrary input: no spurious command -/

/-- one array element as it stands in the input: a bulk header whose numeral IS the length of the payload that follows it
    (then CR LF), a null bulk, or an inline line -/
inductive ElemFrame : Val → Bytes → Prop
| bulk (num b : Bytes) (h1 : LF ∉ num) (h2 : parseInt num = some (Int.ofNat b.length)) (h3 : b.length ≤ maxBulk) :
    ElemFrame (.bulk (some b)) ((DOLLAR :: num ++ [CR, LF]) ++ (b ++ [CR, LF]))
| nullBulk (num : Bytes) (h1 : LF ∉ num) (h2 : parseInt num = some (Int.negSucc 0)) : ElemFrame (.bulk none) (DOLLAR :: num ++ [CR, LF])
| line (raw : Bytes) (h1 : LF ∉ raw) (h2 : raw ≠ []) (h3 : raw.head? ≠ some STAR) (h4 : raw.head? ≠ some DOLLAR) :
    ElemFrame (.line raw) (raw ++ [CR, LF])

/-- the concatenation of the frames of a list of elements -/
inductive ElemFrames : List Val → Bytes → Prop
| nil : ElemFrames [] []
| snoc {vs : List Val} {bs : Bytes} {v : Val} {b : Bytes} : ElemFrames vs bs → ElemFrame v b → ElemFrames (vs ++ [v]) (bs ++ b)

/-- `*<numeral>\r\n` whose numeral has the value `n` -/
def ArrHeader (n : Nat) (hdr : Bytes) : Prop :=
  ∃ num, hdr = STAR :: num ++ [CR, LF] ∧ LF ∉ num ∧ parseInt num = some (Int.ofNat n)

/-- a complete array frame for the elements `vs`: the header announces exactly `vs.length` elements and is directly followed
    by their frames -/
def ArrFrame (vs : List Val) (frame : Bytes) : Prop :=
  ∃ hdr body, frame = hdr ++ body ∧ ArrHeader vs.length hdr ∧ ElemFrames vs body

/-- the array being collected is backed by the bytes consumed so far -/
def ArrInv (arr : Option (Nat × List Val)) (done : Bytes) : Prop :=
  match arr with
  | some (n, acc) => acc.length < n ∧ ∃ pre hdr body, done = pre ++ (hdr ++ body) ∧ ArrHeader n hdr ∧ ElemFrames acc body
  | none => True

/-- … and a pending bulk body is announced by the bulk header just consumed -/
def PInv (st : St) (done : Bytes) : Prop :=
  match st.multi with
  | none => ArrInv st.arr done
  | some n => ∃ done1 num, done = done1 ++ (DOLLAR :: num ++ [CR, LF]) ∧ LF ∉ num ∧ parseInt num = some (Int.ofNat n) ∧
      n ≤ maxBulk ∧ ArrInv st.arr done1

/-- what a parser transition must guarantee -/
def StepOk (r : List Event × St) (done' : Bytes) : Prop :=
  PInv r.2 done' ∧ ∀ vs, Event.data (.arr (some vs)) ∈ r.1 → ∃ pre frame, done' = pre ++ frame ∧ ArrFrame vs frame

theorem stepOk_err (d : Bytes) : StepOk ([.err], St.init) d :=
  ⟨trivial, fun vs h => by simp at h⟩

theorem deliver_sound (arr : Option (Nat × List Val)) (done : Bytes) (v : Val) (b : Bytes) (hv : ∀ a, v ≠ .arr a)
    (hinv : ArrInv arr done) (hf : ElemFrame v b) : StepOk (deliver ⟨none, arr⟩ v) (done ++ b) := by
  unfold deliver
  cases arr with
  | none =>
    refine ⟨trivial, ?_⟩
    intro vs h
    simp only [List.mem_singleton, Event.data.injEq] at h
    exact absurd h.symm (hv _)
  | some p =>
    obtain ⟨n, acc⟩ := p
    obtain ⟨hlt, pre, hdr, body, rfl, hh, hb⟩ := hinv
    simp only
    split
    · rename_i heq
      refine ⟨trivial, ?_⟩
      intro vs h
      simp only [List.mem_singleton, Event.data.injEq, Val.arr.injEq, Option.some.injEq] at h
      subst h
      refine ⟨pre, hdr ++ (body ++ b), by simp, hdr, body ++ b, rfl, ?_, .snoc hb hf⟩
      have : (acc ++ [v]).length = n := by simp at heq ⊢; omega
      rw [this]; exact hh
    · rename_i hne
      refine ⟨?_, fun vs h => by simp at h⟩
      show ArrInv (some (n, acc ++ [v])) _
      exact ⟨by simp at hne ⊢; omega, pre, hdr, body ++ b, by simp, hh, .snoc hb hf⟩

theorem stepLine_missing_CR (st : St) (l : Bytes) (hcr : l.getLast? ≠ some CR) : stepLine st (l ++ [LF]) = ([.err], St.init) := by
  unfold stepLine
  have hc : (decide ((l ++ [LF]).length < 2) || (l ++ [LF])[(l ++ [LF]).length - 2]? != some CR) = true := by
    rcases List.eq_nil_or_concat l with rfl | ⟨l', x, rfl⟩
    · simp
    · have hx : x ≠ CR := by simpa using hcr
      simp [hx]
  rw [if_pos hc]

theorem stepLine_sound (st : St) (done l : Bytes) (hm : st.multi = none) (hinv : ArrInv st.arr done) (hno : LF ∉ l) :
    StepOk (stepLine st (l ++ [LF])) (done ++ (l ++ [LF])) := by
  by_cases hcr : l.getLast? = some CR
  · obtain ⟨raw, rfl⟩ := List.getLast?_eq_some_iff.1 hcr
    cases raw with
    | nil =>
      have : stepLine st ([] ++ [CR] ++ [LF]) = ([.err], St.init) := by
        unfold stepLine; simp [CR, LF, STAR, DOLLAR]
      rw [this]; exact stepOk_err _
    | cons tag body =>
      have hnb : LF ∉ body := fun h => hno (by simp [h])
      have hmsg : (tag :: body ++ [CR] ++ [LF]) = tag :: body ++ [CR, LF] := by simp
      rw [hmsg, stepLine_hdr]
      have hst : st = ⟨none, st.arr⟩ := by cases st; simp_all
      split
      · -- array header
        rename_i htag
        have htag : tag = STAR := by simpa using htag
        subst htag
        cases hp : parseInt body with
        | none => exact stepOk_err _
        | some i =>
          cases i with
          | negSucc k => exact stepOk_err _
          | ofNat n =>
            simp only
            have hh : ArrHeader n (STAR :: body ++ [CR, LF]) := ⟨body, rfl, hnb, hp⟩
            split
            · rename_i hz
              have hz : n = 0 := by simpa using hz
              subst hz
              refine ⟨trivial, ?_⟩
              intro vs h
              simp only [List.mem_singleton, Event.data.injEq, Val.arr.injEq, Option.some.injEq] at h
              subst h
              exact ⟨done, _, rfl, STAR :: body ++ [CR, LF], [], by simp, hh, .nil⟩
            · rename_i hz
              refine ⟨?_, fun vs h => by simp at h⟩
              show ArrInv (some (n, [])) _
              have hz : n ≠ 0 := by simpa using hz
              exact ⟨by simp; omega, done, STAR :: body ++ [CR, LF], [], by simp, hh, .nil⟩
      · split
        · -- bulk header
          rename_i _ htag
          have htag : tag = DOLLAR := by simpa using htag
          subst htag
          cases hp : parseInt body with
          | none => exact stepOk_err _
          | some i =>
            cases i with
            | ofNat n =>
              simp only
              split
              · rename_i hle
                refine ⟨?_, fun vs h => by simp at h⟩
                show ∃ done1 num, _
                exact ⟨done, body, rfl, hnb, hp, hle, hinv⟩
              · exact stepOk_err _
            | negSucc k =>
              cases k with
              | succ k => exact stepOk_err _
              | zero =>
                exact deliver_sound st.arr done (.bulk none) _ (fun a h => nomatch h) hinv (.nullBulk body hnb hp)
        · split
          · exact stepOk_err _
          · rename_i hS hD _
            rw [hst]
            have hno' : LF ∉ tag :: body := fun h => hno (List.mem_append_left _ h)
            have := deliver_sound st.arr done (.line (tag :: body)) _ (fun a h => nomatch h) hinv
              (.line (tag :: body) hno' (by simp) (by simpa using hS) (by simpa using hD))
            simpa using this
  · rw [stepLine_missing_CR st l hcr]; exact stepOk_err _

theorem stepBlock_sound (st : St) (n : Nat) (done msg : Bytes) (hm : st.multi = some n) (hinv : PInv st done)
    (hl : msg.length = n + 2) : StepOk (stepBlock st n msg) (done ++ msg) := by
  unfold stepBlock
  split
  · rename_i h
    simp only [Bool.and_eq_true, beq_iff_eq] at h
    have hd : msg.drop n = [CR, LF] := by
      have hlen : (msg.drop n).length = 2 := by rw [List.length_drop]; omega
      have h0 : (msg.drop n)[0]? = some CR := by rw [List.getElem?_drop]; simpa using h.1
      have h1 : (msg.drop n)[1]? = some LF := by rw [List.getElem?_drop]; simpa using h.2
      match hq : msg.drop n, hlen, h0, h1 with
      | [a, b], _, h0, h1 =>
        simp only [List.getElem?_cons_zero, Option.some.injEq, List.getElem?_cons_succ] at h0 h1
        rw [h0, h1]
    have hmsg : msg = msg.take n ++ [CR, LF] := by rw [← hd, List.take_append_drop]
    unfold PInv at hinv
    rw [hm] at hinv
    obtain ⟨done1, num, rfl, hnum, hp, hle, harr⟩ := hinv
    have hlt : (msg.take n).length = n := by rw [List.length_take]; omega
    have := deliver_sound st.arr done1 (.bulk (some (msg.take n))) _ (fun a h => nomatch h) harr
      (.bulk num (msg.take n) hnum (by rw [hlt]; exact hp) (by rw [hlt]; exact hle))
    rw [← hmsg, ← List.append_assoc] at this
    exact this
  · exact stepOk_err _

theorem splitLine_spec {inp msg rest : Bytes} (h : splitLine inp = some (msg, rest)) :
    ∃ l, msg = l ++ [LF] ∧ LF ∉ l ∧ inp = msg ++ rest := by
  induction inp generalizing msg rest with
  | nil => simp [splitLine] at h
  | cons b r ih =>
    simp only [splitLine] at h
    split at h
    · rename_i hb
      simp only [Option.some.injEq, Prod.mk.injEq] at h
      obtain ⟨rfl, rfl⟩ := h
      have : b = LF := by simpa using hb
      exact ⟨[], by simp [this], by simp, rfl⟩
    · rename_i hb
      rw [Option.map_eq_some_iff] at h
      obtain ⟨⟨l', rest'⟩, h1, h2⟩ := h
      simp only [Prod.mk.injEq] at h2
      obtain ⟨rfl, rfl⟩ := h2
      obtain ⟨l, rfl, hl, rfl⟩ := ih h1
      have hb' : b ≠ LF := by simpa using hb
      refine ⟨b :: l, rfl, ?_, rfl⟩
      simp only [List.mem_cons, not_or]
      exact ⟨fun e => hb' e.symm, hl⟩

theorem sound_aux (n : Nat) : ∀ (st : St) (done inp : Bytes), inp.length = n → PInv st done →
    ∀ vs, Event.data (.arr (some vs)) ∈ parseLoop st inp →
      ∃ pre frame post, done ++ inp = pre ++ (frame ++ post) ∧ ArrFrame vs frame := by
  induction n using Nat.strongRecOn with
  | _ n ih =>
    intro st done inp hn hinv vs hmem
    cases hm : st.multi with
    | none =>
      cases hs : splitLine inp with
      | none => rw [parseLoop_noline st inp hm hs] at hmem; simp at hmem
      | some p =>
        obtain ⟨msg, rest⟩ := p
        obtain ⟨l, rfl, hl, rfl⟩ := splitLine_spec hs
        rw [parseLoop_line st _ _ rest hm hs] at hmem
        have hinv' : ArrInv st.arr done := by unfold PInv at hinv; rw [hm] at hinv; exact hinv
        obtain ⟨h1, h2⟩ := stepLine_sound st done l hm hinv' hl
        rcases List.mem_append.1 hmem with hmem | hmem
        · obtain ⟨pre, frame, he, hf⟩ := h2 vs hmem
          exact ⟨pre, frame, rest, by rw [← List.append_assoc, he]; simp, hf⟩
        · obtain ⟨pre, frame, post, he, hf⟩ := ih rest.length (hn ▸ splitLine_len hs) _ _ rest rfl h1 vs hmem
          exact ⟨pre, frame, post, by rw [← he]; simp, hf⟩
    | some k =>
      by_cases hl : inp.length < k + 2
      · rw [parseLoop_short st k inp hm hl] at hmem
        split at hmem <;> simp at hmem
      · rw [parseLoop_block st k inp hm hl] at hmem
        have hlen : (inp.take (k + 2)).length = k + 2 := by rw [List.length_take]; omega
        obtain ⟨h1, h2⟩ := stepBlock_sound st k done (inp.take (k + 2)) hm hinv hlen
        have hsplit : inp = inp.take (k + 2) ++ inp.drop (k + 2) := (List.take_append_drop _ _).symm
        rcases List.mem_append.1 hmem with hmem | hmem
        · obtain ⟨pre, frame, he, hf⟩ := h2 vs hmem
          refine ⟨pre, frame, inp.drop (k + 2), ?_, hf⟩
          rw [← List.append_assoc, ← he, List.append_assoc, ← hsplit]
        · obtain ⟨pre, frame, post, he, hf⟩ := ih _ (hn ▸ stepBlock_len k inp hl) _ _ _ rfl h1 vs hmem
          refine ⟨pre, frame, post, ?_, hf⟩
          rw [← he, List.append_assoc, ← hsplit]

/-- **C02, no spurious command — for EVERY input byte string**: whatever array the parser delivers is backed by a contiguous
    well-formed frame of the input: a `*` header whose numeral is exactly the number of elements, directly followed by the
    elements' frames, each bulk header's numeral being exactly the length of the delivered payload, the payload being exactly
    the input bytes between that header and its CR LF.  No sequence of malformed frames, resynchronisations, nested or abandoned
    headers can make the parser invent, merge or truncate a command. -/
theorem no_spurious_command (inp : Bytes) (vs : List Val) (h : Event.data (.arr (some vs)) ∈ parseLoop St.init inp) :
    ∃ pre frame post, inp = pre ++ (frame ++ post) ∧ ArrFrame vs frame := by
  have := sound_aux inp.length St.init [] inp rfl trivial vs h
  simpa using this

theorem commandsOf_mem : ∀ (evs : List Event) (args : List Bytes), args ∈ commandsOf evs →
    ∃ vs, args = vs.map valBytes ∧ Event.data (.arr (some vs)) ∈ evs
| [], _, h => by simp [commandsOf] at h
| .eof :: _, _, h => by simp [commandsOf] at h
| .err :: _, _, h => by simp [commandsOf] at h
| .data (.bulk _) :: evs, args, h => by
  obtain ⟨vs, h1, h2⟩ := commandsOf_mem evs args (by simpa [commandsOf] using h)
  exact ⟨vs, h1, List.mem_cons_of_mem _ h2⟩
| .data (.line _) :: evs, args, h => by
  obtain ⟨vs, h1, h2⟩ := commandsOf_mem evs args (by simpa [commandsOf] using h)
  exact ⟨vs, h1, List.mem_cons_of_mem _ h2⟩
| .data (.arr none) :: evs, args, h => by
  obtain ⟨vs, h1, h2⟩ := commandsOf_mem evs args (by simpa [commandsOf] using h)
  exact ⟨vs, h1, List.mem_cons_of_mem _ h2⟩
| .data (.arr (some vs)) :: evs, args, h => by
  simp only [commandsOf, List.mem_cons] at h
  rcases h with rfl | h
  · exact ⟨vs, rfl, List.mem_cons_self⟩
  · obtain ⟨vs', h1, h2⟩ := commandsOf_mem evs args h
    exact ⟨vs', h1, List.mem_cons_of_mem _ h2⟩

/-- … in particular every command the Handle loop *executes*, on any input, is the argument vector of a well-formed frame
    that stands in the input -/
theorem executed_command_has_frame (inp : Bytes) (args : List Bytes) (h : args ∈ commandsOf (parseLoop St.init inp)) :
    ∃ vs pre frame post, args = vs.map valBytes ∧ inp = pre ++ (frame ++ post) ∧ ArrFrame vs frame := by
  obtain ⟨vs, h1, h2⟩ := commandsOf_mem _ _ h
  obtain ⟨pre, frame, post, h3, h4⟩ := no_spurious_command inp vs h2
  exact ⟨vs, pre, frame, post, h1, h3, h4⟩

/-! ### a frame denotes ONE command: `ArrFrame` is functional, and `encodeCmd` produces frames -/

theorem line_inj {x y r r' : Bytes} (hx : LF ∉ x) (hy : LF ∉ y) (e : x ++ CR :: LF :: r = y ++ CR :: LF :: r') : x = y ∧ r = r' := by
  have h1 := splitLine_hdr x r hx
  have h2 := splitLine_hdr y r' hy
  rw [e, h2] at h1
  simp only [Option.some.injEq, Prod.mk.injEq] at h1
  exact ⟨(List.append_cancel_right h1.1).symm, h1.2.symm⟩

theorem cons_no_LF {t : UInt8} {l : Bytes} (ht : t ≠ LF) (hl : LF ∉ l) : LF ∉ t :: l := by
  simp only [List.mem_cons, not_or]; exact ⟨fun e => ht e.symm, hl⟩

/-- the bytes of an element frame determine the element, and where the frame ends -/
theorem ElemFrame.unique {v v' : Val} {b b' r r' : Bytes} (h : ElemFrame v b) (h' : ElemFrame v' b') (e : b ++ r = b' ++ r') :
    v = v' ∧ b = b' ∧ r = r' := by
  have hD : DOLLAR ≠ LF := by decide
  cases h with
  | bulk num p h1 h2 h3 =>
    cases h' with
    | bulk num' p' h1' h2' h3' =>
      have e' : (DOLLAR :: num) ++ CR :: LF :: (p ++ CR :: LF :: r) = (DOLLAR :: num') ++ CR :: LF :: (p' ++ CR :: LF :: r') := by
        simpa using e
      obtain ⟨hn, hr⟩ := line_inj (cons_no_LF hD h1) (cons_no_LF hD h1') e'
      have hn : num = num' := by simpa using hn
      subst hn
      rw [h2] at h2'
      have hlen : p.length = p'.length := Int.ofNat.inj (Option.some.inj h2')
      obtain ⟨hp, hr'⟩ := List.append_inj hr hlen
      subst hp
      have : r = r' := by simpa using hr'
      exact ⟨rfl, rfl, this⟩
    | nullBulk num' h1' h2' =>
      have e' : (DOLLAR :: num) ++ CR :: LF :: (p ++ CR :: LF :: r) = (DOLLAR :: num') ++ CR :: LF :: r' := by simpa using e
      obtain ⟨hn, _⟩ := line_inj (cons_no_LF hD h1) (cons_no_LF hD h1') e'
      have hn : num = num' := by simpa using hn
      subst hn
      rw [h2] at h2'
      cases h2'
    | line raw h1' h2' h3' h4' =>
      have e' : (DOLLAR :: num) ++ CR :: LF :: (p ++ CR :: LF :: r) = raw ++ CR :: LF :: r' := by simpa using e
      obtain ⟨hn, _⟩ := line_inj (cons_no_LF hD h1) h1' e'
      subst hn
      exact absurd rfl h4'
  | nullBulk num h1 h2 =>
    cases h' with
    | bulk num' p' h1' h2' h3' =>
      have e' : (DOLLAR :: num) ++ CR :: LF :: r = (DOLLAR :: num') ++ CR :: LF :: (p' ++ CR :: LF :: r') := by simpa using e
      obtain ⟨hn, _⟩ := line_inj (cons_no_LF hD h1) (cons_no_LF hD h1') e'
      have hn : num = num' := by simpa using hn
      subst hn
      rw [h2] at h2'
      cases h2'
    | nullBulk num' h1' h2' =>
      have e' : (DOLLAR :: num) ++ CR :: LF :: r = (DOLLAR :: num') ++ CR :: LF :: r' := by simpa using e
      obtain ⟨hn, hr⟩ := line_inj (cons_no_LF hD h1) (cons_no_LF hD h1') e'
      have hn : num = num' := by simpa using hn
      subst hn
      exact ⟨rfl, rfl, hr⟩
    | line raw h1' h2' h3' h4' =>
      have e' : (DOLLAR :: num) ++ CR :: LF :: r = raw ++ CR :: LF :: r' := by simpa using e
      obtain ⟨hn, _⟩ := line_inj (cons_no_LF hD h1) h1' e'
      subst hn
      exact absurd rfl h4'
  | line raw h1 h2 h3 h4 =>
    cases h' with
    | bulk num' p' h1' h2' h3' =>
      have e' : raw ++ CR :: LF :: r = (DOLLAR :: num') ++ CR :: LF :: (p' ++ CR :: LF :: r') := by simpa using e
      obtain ⟨hn, _⟩ := line_inj h1 (cons_no_LF hD h1') e'
      subst hn
      exact absurd rfl h4
    | nullBulk num' h1' h2' =>
      have e' : raw ++ CR :: LF :: r = (DOLLAR :: num') ++ CR :: LF :: r' := by simpa using e
      obtain ⟨hn, _⟩ := line_inj h1 (cons_no_LF hD h1') e'
      subst hn
      exact absurd rfl h4
    | line raw' h1' h2' h3' h4' =>
      have e' : raw ++ CR :: LF :: r = raw' ++ CR :: LF :: r' := by simpa using e
      obtain ⟨hn, hr⟩ := line_inj h1 h1' e'
      subst hn
      exact ⟨rfl, rfl, hr⟩

theorem ElemFrames.cons {v : Val} {b : Bytes} {vs : List Val} {bs : Bytes} (hv : ElemFrame v b) (h : ElemFrames vs bs) :
    ElemFrames (v :: vs) (b ++ bs) := by
  induction h with
  | nil =>
    have := ElemFrames.snoc .nil hv
    simpa using this
  | snoc _ hw ih =>
    have := ElemFrames.snoc ih hw
    simpa [List.append_assoc] using this

/-- view from the left -/
theorem ElemFrames.view {vs : List Val} {bs : Bytes} (h : ElemFrames vs bs) :
    (vs = [] ∧ bs = []) ∨ ∃ v b vs' bs', vs = v :: vs' ∧ bs = b ++ bs' ∧ ElemFrame v b ∧ ElemFrames vs' bs' := by
  induction h with
  | nil => exact Or.inl ⟨rfl, rfl⟩
  | snoc hvs hw ih =>
    rename_i vs0 bs0 w bw
    rcases ih with ⟨rfl, rfl⟩ | ⟨v, b, vs', bs', rfl, rfl, hv, hrest⟩
    · exact Or.inr ⟨w, bw, [], [], rfl, by simp, hw, .nil⟩
    · exact Or.inr ⟨v, b, vs' ++ [w], bs' ++ bw, rfl, by simp, hv, .snoc hrest hw⟩

theorem ElemFrames.unique : ∀ (n : Nat) {vs vs' : List Val} {bs bs' r r' : Bytes}, vs.length = n → vs'.length = n →
    ElemFrames vs bs → ElemFrames vs' bs' → bs ++ r = bs' ++ r' → vs = vs' ∧ bs = bs' ∧ r = r'
| 0, vs, vs', bs, bs', r, r', h1, h2, hf, hf', e => by
  have e1 : vs = [] := List.length_eq_zero_iff.1 h1
  have e2 : vs' = [] := List.length_eq_zero_iff.1 h2
  subst e1 e2
  rcases hf.view with ⟨_, rfl⟩ | ⟨_, _, _, _, h, _⟩
  · rcases hf'.view with ⟨_, rfl⟩ | ⟨_, _, _, _, h, _⟩
    · exact ⟨rfl, rfl, by simpa using e⟩
    · cases h
  · cases h
| n + 1, vs, vs', bs, bs', r, r', h1, h2, hf, hf', e => by
  rcases hf.view with ⟨rfl, _⟩ | ⟨v, b, vs0, bs0, rfl, rfl, hv, hrest⟩
  · simp at h1
  rcases hf'.view with ⟨rfl, _⟩ | ⟨v', b', vs0', bs0', rfl, rfl, hv', hrest'⟩
  · simp at h2
  have e' : b ++ (bs0 ++ r) = b' ++ (bs0' ++ r') := by simpa using e
  obtain ⟨rfl, rfl, e''⟩ := ElemFrame.unique hv hv' e'
  obtain ⟨rfl, rfl, rfl⟩ := ElemFrames.unique n (by simpa using h1) (by simpa using h2) hrest hrest' e''
  exact ⟨rfl, rfl, rfl⟩

/-- **a frame denotes one command**: the same bytes cannot be read as two different arrays, and a frame ends where it ends -/
theorem ArrFrame.unique {vs vs' : List Val} {f f' r r' : Bytes} (h : ArrFrame vs f) (h' : ArrFrame vs' f') (e : f ++ r = f' ++ r') :
    vs = vs' ∧ f = f' ∧ r = r' := by
  obtain ⟨hdr, body, rfl, ⟨num, rfl, hnum, hp⟩, hb⟩ := h
  obtain ⟨hdr', body', rfl, ⟨num', rfl, hnum', hp'⟩, hb'⟩ := h'
  have hS : STAR ≠ LF := by decide
  have e' : (STAR :: num) ++ CR :: LF :: (body ++ r) = (STAR :: num') ++ CR :: LF :: (body' ++ r') := by simpa using e
  obtain ⟨hn, hr⟩ := line_inj (cons_no_LF hS hnum) (cons_no_LF hS hnum') e'
  have hn : num = num' := by simpa using hn
  subst hn
  rw [hp] at hp'
  have hlen : vs.length = vs'.length := Int.ofNat.inj (Option.some.inj hp')
  obtain ⟨rfl, rfl, rfl⟩ := ElemFrames.unique vs.length rfl hlen.symm hb hb' hr
  exact ⟨rfl, rfl, rfl⟩

theorem elemFrames_bulks (args : List Bytes) (hmax : ∀ a ∈ args, a.length ≤ maxBulk) :
    ElemFrames (args.map fun a => .bulk (some a)) (encodeBulks args) := by
  induction args with
  | nil => exact .nil
  | cons a as ih =>
    have ha := hmax a (by simp)
    have hlt : a.length < 2^63 := by unfold maxBulk at ha; omega
    have hf : ElemFrame (.bulk (some a)) (encodeBulk a) := by
      have := ElemFrame.bulk (dec a.length) a (dec_no_LF _) (parseInt_dec _ hlt) ha
      simpa [encodeBulk] using this
    have := ElemFrames.cons hf (ih fun x hx => hmax x (by simp [hx]))
    simpa [encodeBulks] using this

/-- the encoder produces frames: `encodeCmd args` is a frame for exactly `args` -/
theorem encodeCmd_is_frame (args : List Bytes) (hmax : ∀ a ∈ args, a.length ≤ maxBulk) (hn : args.length < 2^63) :
    ArrFrame (args.map fun a => .bulk (some a)) (encodeCmd args) := by
  refine ⟨STAR :: dec args.length ++ [CR, LF], encodeBulks args, by simp [encodeCmd], ⟨dec args.length, rfl, dec_no_LF _, ?_⟩,
    elemFrames_bulks args hmax⟩
  rw [List.length_map]; exact parseInt_dec _ hn

/-- **C02, exactness for every input**: whatever array the parser delivers from ANY byte string is THE command denoted by a
    contiguous frame of that input — no other reading of that frame exists -/
theorem delivered_is_denotation (inp : Bytes) (vs : List Val) (h : Event.data (.arr (some vs)) ∈ parseLoop St.init inp) :
    ∃ pre frame post, inp = pre ++ (frame ++ post) ∧ ArrFrame vs frame ∧ ∀ vs', ArrFrame vs' frame → vs' = vs := by
  obtain ⟨pre, frame, post, h1, h2⟩ := no_spurious_command inp vs h
  exact ⟨pre, frame, post, h1, h2, fun vs' h' => (ArrFrame.unique (r := []) (r' := []) h' h2 rfl).1⟩

/-- the hypothesis is satisfiable: `\n` (an error) followed by a well-formed command -/
example : ∃ pre frame post, (LF :: (encodeCmd [[97, 10]] ++ [36])) = pre ++ (frame ++ post) ∧
    ArrFrame [.bulk (some [97, 10])] frame := by
  apply no_spurious_command
  have h := bare_LF none (encodeCmd [[97, 10]] ++ [36])
  rw [C02_compositional [[97, 10]] [36] (by decide) (by decide) (by decide)] at h
  show _ ∈ parseLoop ⟨none, none⟩ _
  rw [h]
  simp

/-- `"\n*0\r\n"`: an error, then an (empty) array is still *delivered by the parser* — the Handle loop has returned by then -/
theorem parser_continues_after_error :
    parseLoop St.init [10, 42, 48, 13, 10] = [.err, .data (.arr (some [])), .eof] := by
  have h1 := bare_LF none [42, 48, 13, 10]
  have h2 := parseLoop_hdr none STAR (dec 0) [] (by decide) (dec_no_LF 0)
  rw [stepLine_hdr, parseInt_dec 0 (by decide)] at h2
  have h3 : parseLoop St.init [] = [.eof] := parseLoop_noline _ _ rfl rfl
  have hd : dec 0 = [48] := by simp [dec, decRev, digit]
  rw [hd] at h2
  simp only [STAR, CR, LF, St.init] at h1 h2 h3 ⊢
  rw [show ([10, 42, 48, 13, 10] : Bytes) = (10 : UInt8) :: [42, 48, 13, 10] from rfl, h1]
  simp at h2
  rw [h2, h3]

/-- the naive shape "data events, then exactly one terminator" is FALSE of the parser's raw event list -/
theorem naive_shape_false :
    ¬ ∀ inp : Bytes, ∃ ds t, parseLoop St.init inp = ds ++ [t] ∧ (∀ e ∈ ds, isData e = true) ∧ (t = .err ∨ t = .eof) := by
  intro h
  obtain ⟨ds, t, h1, h2, _⟩ := h [10, 42, 48, 13, 10]
  rw [parser_continues_after_error] at h1
  cases ds with
  | nil => simp at h1
  | cons d ds =>
    simp only [List.cons_append, List.cons.injEq] at h1
    have := h2 d (by simp)
    rw [← h1.1] at this
    simp [isData] at this

/-! ### the hypotheses of the theorems above are satisfiable (concrete, non-trivial instances) -/

/-- `PING` then a bare LF then more bytes: exactly `PING` is executed, then the connection is closed -/
example (s : Server) (env : Env) (c : Nat) :
    commandsOf (parseLoop St.init (([[[80, 73, 78, 71]]].map encodeCmd).flatten ++ LF :: [42, 49, 13, 10])) = [[[80, 73, 78, 71]]] :=
  (isolation [[[80, 73, 78, 71]]] (LF :: [42, 49, 13, 10]) _ (by decide) (by decide) (by decide) (bare_LF none _) s env c).1

/-- `abc\n` inside an array being collected -/
example : parseLoop ⟨none, some (2, [])⟩ ([97, 98, 99] ++ LF :: [43]) = .err :: parseLoop St.init [43] :=
  missing_CR _ [97, 98, 99] [43] (by decide) (by decide)

/-- `$abc\r\n` and `*x\r\n` -/
example : parseLoop ⟨none, none⟩ (DOLLAR :: [97, 98, 99] ++ CR :: LF :: []) = .err :: parseLoop St.init [] :=
  header_not_numeric none DOLLAR [97, 98, 99] [] (Or.inr rfl) (by decide) (by decide)
example : parseLoop ⟨none, none⟩ (STAR :: [120] ++ CR :: LF :: [1, 2]) = .err :: parseLoop St.init [1, 2] :=
  header_not_numeric none STAR [120] [1, 2] (Or.inl rfl) (by decide) (by decide)

/-- `$536870913\r\n` (one above the limit), `$9223372036854775808\r\n`, `*9223372036854775808\r\n`, `$-2\r\n`, `*-1\r\n` -/
example (rest : Bytes) : parseLoop ⟨none, none⟩ (DOLLAR :: dec 536870913 ++ CR :: LF :: rest) = .err :: parseLoop St.init rest :=
  bulk_len_too_big none 536870913 rest (by unfold maxBulk; omega)
example (rest : Bytes) : parseLoop ⟨none, none⟩ (DOLLAR :: dec (2^63) ++ CR :: LF :: rest) = .err :: parseLoop St.init rest :=
  bulk_len_overflows_int64 none (2^63) rest (Nat.le_refl _)
example (rest : Bytes) : parseLoop ⟨none, none⟩ (STAR :: dec (2^63) ++ CR :: LF :: rest) = .err :: parseLoop St.init rest :=
  array_len_overflows_int64 none (2^63) rest (Nat.le_refl _)
example (rest : Bytes) : parseLoop ⟨none, none⟩ (DOLLAR :: MINUS :: dec 2 ++ CR :: LF :: rest) = .err :: parseLoop St.init rest :=
  bulk_len_negative none 2 rest (Nat.le_refl _)
example (rest : Bytes) : parseLoop ⟨none, none⟩ (STAR :: MINUS :: dec 1 ++ CR :: LF :: rest) = .err :: parseLoop St.init rest :=
  array_len_negative none 1 rest (Nat.le_refl _)

/-- `$3\r\n` followed by `abcde\r\n`: the five bytes read are not terminated by CR LF -/
example : parseLoop ⟨some 3, none⟩ [97, 98, 99, 100, 101, 13, 10] = .err :: parseLoop St.init [13, 10] :=
  bulk_body_bad_terminator none 3 [97, 98, 99, 100, 101, 13, 10] (by decide) (by decide)

/-- two chunkings of `*1\r\n$1\r\na\r\n` -/
example : runChunks [[42, 49, 13], [10, 36, 49, 13, 10, 97, 13, 10]] = runChunks [[42], [49, 13, 10, 36, 49, 13, 10, 97], [13, 10]] :=
  chunking_irrelevant _ _ (by decide)

example : ArrFrame [.bulk (some [71, 69, 84]), .bulk (some [13, 10])] (encodeCmd [[71, 69, 84], [13, 10]]) :=
  encodeCmd_is_frame _ (by decide) (by decide)

/-- a frame followed by different tails is read the same way -/
example (vs : List Val) (r r' : Bytes) (h : ArrFrame vs (encodeCmd [[71, 69, 84], [13, 10]]))
    (e : encodeCmd [[71, 69, 84], [13, 10]] ++ r = encodeCmd [[71, 69, 84], [13, 10]] ++ r') :
    vs = [.bulk (some [71, 69, 84]), .bulk (some [13, 10])] :=
  (ArrFrame.unique h (encodeCmd_is_frame _ (by decide) (by decide)) e).1

end C02
