import RedisGoModel.Props.C19ConcLin
/-! # C19, concurrent: every operation is linearized exactly once

`Props/C19ConcLin.lean` shows that every completed operation HAS an entry in the ghost linearization `lin`, inside its interval.
Here: the tags (thread, operation number) of the entries of `lin` are pairwise different, and every tagged entry belongs to a
completed operation of its thread or to the thread's current, already linearized operation (`uinv_reach`).  So the completed
operations and the tagged entries of `lin` correspond one to one (prune entries, the environment's unsubscribes, carry no tag). -/
set_option linter.unusedSimpArgs false
set_option linter.unusedVariables false
namespace PSC
open PubSub (Chan Conn Payload)
variable {n : Nat}

def tags (l : List (LinEv n)) : List (Fin n × Nat) := l.filterMap (·.tag)

/-- what a step appends to `lin` -/
inductive Appended (s : St n) (t : Fin n) (s' : St n) : List (LinEv n) → Prop
| nothing : Appended s t s' []
| prune (op : PubSub.Op) : Appended s t s' [⟨none, op⟩]
| own (op : PubSub.Op) : (s.thr t).lpd = false → (s.thr t).pc ≠ .idle →
    ((s'.thr t).lpd = true ∧ (s'.thr t).k = (s.thr t).k ∧ (s'.thr t).pc ≠ .idle ∨ (s'.thr t).k = (s.thr t).k + 1) →
    Appended s t s' [⟨some (t, (s.thr t).k), op⟩]
| helped (o : Obj) : (s.thr t).pc = .u3d o → s.subs o = [] →
    (∀ u, staleOn o (s.thr u) = true → (s'.thr u).lpd = true) → Appended s t s' (helped s o)

theorem lin_appended (s s' : St n) (t : Fin n) (b : Bool) (h : next0 s t b = some s') (hp : PInv s) :
    ∃ x, s'.lin = s.lin ++ x ∧ Appended s t s' x := by
  have hpre := hp.pre t
  have hfr := hp.fresh t
  step_cases h
  all_goals simp only [setT, fin]
  all_goals (first
    | exact ⟨[], (List.append_nil _).symm, .nothing⟩
    | exact ⟨_, rfl, .prune _⟩
    | (refine ⟨_, rfl, .helped _ (by assumption) (by assumption) ?_⟩; intro u hu; by_cases e : u = t <;> simp_all [staleOn]; done)
    | (refine ⟨_, rfl, .own _ ?_ ?_ ?_⟩ <;> simp_all [upd]; done)
    | skip)

/-- how a step changes operation numbers and `lpd` -/
theorem k_frame (s s' : St n) (t : Fin n) (b : Bool) (h : next0 s t b = some s') :
    (∀ u, u ≠ t → (s'.thr u).k = (s.thr u).k ∧ ((s'.thr u).pc = .idle ↔ (s.thr u).pc = .idle) ∧
        ((s.thr u).lpd = true → (s'.thr u).lpd = true)) ∧
    ((s'.thr t).k = (s.thr t).k + 1 ∨
     ((s'.thr t).k = (s.thr t).k ∧ (s.thr t).pc = .idle ∧ s'.lin = s.lin) ∨
     ((s'.thr t).k = (s.thr t).k ∧ (s.thr t).pc ≠ .idle ∧ (s'.thr t).pc ≠ .idle ∧ ((s.thr t).lpd = true → (s'.thr t).lpd = true))) := by
  step_cases h
  all_goals refine ⟨fun u hu => ?_, ?_⟩
  all_goals (try (simp [setT, fin, upd, hu]; done))
  all_goals (try (simp [setT, fin, upd, hu]; split <;> simp; done))
  all_goals (first
    | (left; simp [setT, fin, upd]; done)
    | (right; left; simp [*, setT, fin, upd]; done)
    | (right; right; simp [*, setT, fin, upd]; done)
    | skip)

structure UInv (s : St n) : Prop where
  own : ∀ e ∈ s.lin, ∀ u k, e.tag = some (u, k) →
    k < (s.thr u).k ∨ (k = (s.thr u).k ∧ (s.thr u).pc ≠ .idle ∧ (s.thr u).lpd = true)
  nd : (tags s.lin).Nodup

theorem tags_append (a b : List (LinEv n)) : tags (a ++ b) = tags a ++ tags b := by simp [tags, List.filterMap_append]

theorem mem_tags (l : List (LinEv n)) (p : Fin n × Nat) : p ∈ tags l ↔ ∃ e ∈ l, e.tag = some p := by
  simp [tags, List.mem_filterMap]

theorem tags_helped (s : St n) (o : Obj) :
    tags (helped s o) = ((List.finRange n).filter (fun u => staleOn o (s.thr u))).map (fun u => (u, (s.thr u).k)) := by
  simp [tags, helped, List.filterMap_map, Function.comp_def]

theorem stale_not_lpd (s : St n) (a : AllInv s) (t u : Fin n) (o : Obj) (hpc : (s.thr t).pc = .u3d o)
    (hst : staleOn o (s.thr u) = true) : (s.thr u).lpd = false := by
  cases hl : (s.thr u).lpd with
  | false => rfl
  | true =>
    exfalso
    have hso := ((stale_iff _ _).1 hst).1
    have h1 := a.p.stale u o hso hl
    have h2 := a.si.held t o (by rw [hpc]; rfl)
    have h3 := a.si.pcch u o (sendObj_pcObj _ _ hso)
    have h4 := a.si.tab _ _ h2
    rw [← h3, h4] at h1
    exact h1 h2

theorem stale_not_idle (o : Obj) (th : Thread) (h : staleOn o th = true) : th.pc ≠ .idle := by
  intro e; unfold staleOn at h; rw [e] at h; simp at h

theorem uinv_next0 (s s' : St n) (t : Fin n) (b : Bool) (h : next0 s t b = some s') (a : AllInv s) (U : UInv s) : UInv s' := by
  obtain ⟨x, hx, hA⟩ := lin_appended s s' t b h a.p
  obtain ⟨F1, F2⟩ := k_frame s s' t b h
  -- the entries already there stay accounted for
  have hold : ∀ e ∈ s.lin, ∀ u k, e.tag = some (u, k) →
      k < (s'.thr u).k ∨ (k = (s'.thr u).k ∧ (s'.thr u).pc ≠ .idle ∧ (s'.thr u).lpd = true) := by
    intro e he u k htag
    have h0 := U.own e he u k htag
    by_cases eu : u = t
    · subst eu
      rcases F2 with f | ⟨f, hidle, _⟩ | ⟨f, hp0, hp1, hl⟩
      · left; rw [f]; rcases h0 with h0 | ⟨h0, _⟩ <;> omega
      · left; rw [f]; rcases h0 with h0 | ⟨_, h0, _⟩
        · exact h0
        · exact absurd hidle h0
      · rw [f]; rcases h0 with h0 | ⟨h0, _, h2⟩
        · exact Or.inl h0
        · exact Or.inr ⟨h0, hp1, hl h2⟩
    · obtain ⟨f1, f2, f3⟩ := F1 u eu
      rw [f1]
      rcases h0 with h0 | ⟨h0, h1, h2⟩
      · exact Or.inl h0
      · exact Or.inr ⟨h0, fun hh => h1 (f2.1 hh), f3 h2⟩
  suffices hgoal : (∀ e ∈ s.lin ++ x, ∀ u k, e.tag = some (u, k) →
      k < (s'.thr u).k ∨ (k = (s'.thr u).k ∧ (s'.thr u).pc ≠ .idle ∧ (s'.thr u).lpd = true)) ∧ (tags (s.lin ++ x)).Nodup by
    exact ⟨by rw [hx]; exact hgoal.1, by rw [hx]; exact hgoal.2⟩
  cases hA with
  | nothing => exact ⟨by simpa using hold, by simpa using U.nd⟩
  | prune op =>
    refine ⟨?_, ?_⟩
    · intro e he u k htag
      rw [List.mem_append] at he
      rcases he with he | he
      · exact hold e he u k htag
      · simp only [List.mem_singleton] at he; subst he; cases htag
    · rw [tags_append]; simpa [tags] using U.nd
  | own op hl hp hk =>
    refine ⟨?_, ?_⟩
    · intro e he u k htag
      rw [List.mem_append] at he
      rcases he with he | he
      · exact hold e he u k htag
      · simp only [List.mem_singleton] at he; subst he
        simp only [Option.some.injEq, Prod.mk.injEq] at htag
        obtain ⟨rfl, rfl⟩ := htag
        rcases hk with ⟨k1, k2, k3⟩ | k1
        · exact Or.inr ⟨k2.symm, k3, k1⟩
        · left; omega
    · rw [tags_append, List.nodup_append]
      refine ⟨U.nd, by simp [tags], ?_⟩
      intro p hp1 q hq
      simp only [tags, List.filterMap_cons, List.filterMap_nil, List.mem_singleton] at hq
      subst hq
      intro e; subst e
      obtain ⟨e, he, htag⟩ := (mem_tags _ _).1 hp1
      rcases U.own e he t _ htag with h0 | ⟨_, _, h0⟩
      · exact Nat.lt_irrefl _ h0
      · rw [hl] at h0; cases h0
  | helped o hpc hemp hlpd =>
    refine ⟨?_, ?_⟩
    · intro e he u k htag
      rw [List.mem_append] at he
      rcases he with he | he
      · exact hold e he u k htag
      · unfold PSC.helped at he
        rw [List.mem_map] at he
        obtain ⟨v, hv, rfl⟩ := he
        rw [List.mem_filter] at hv
        simp only [Option.some.injEq, Prod.mk.injEq] at htag
        obtain ⟨rfl, rfl⟩ := htag
        have hvt : v ≠ t := by
          intro e; subst e
          have := hv.2; unfold staleOn at this; rw [hpc] at this; simp at this
        obtain ⟨f1, f2, _⟩ := F1 v hvt
        exact Or.inr ⟨f1.symm, fun hh => stale_not_idle o _ hv.2 (f2.1 hh), hlpd v hv.2⟩
    · rw [tags_append, List.nodup_append]
      refine ⟨U.nd, ?_, ?_⟩
      · rw [tags_helped]
        have hnd : ((List.finRange n).filter (fun u => staleOn o (s.thr u))).Nodup := (List.nodup_finRange n).filter _
        exact List.Pairwise.map _ (fun a b hab => by intro e; exact hab (by simpa using congrArg Prod.fst e)) hnd
      · intro p hp1 q hq
        rw [tags_helped, List.mem_map] at hq
        obtain ⟨v, hv, rfl⟩ := hq
        rw [List.mem_filter] at hv
        intro e; subst e
        obtain ⟨e, he, htag⟩ := (mem_tags _ _).1 hp1
        rcases U.own e he v _ htag with h0 | ⟨_, _, h0⟩
        · exact Nat.lt_irrefl _ h0
        · rw [stale_not_lpd s a t v o hpc hv.2] at h0; cases h0

theorem uinv_reach (progs : Fin n → List Op) (hr : Real progs) (s : St n) (h : Reach progs s) : UInv s := by
  induction h with
  | init => exact ⟨by simp [init], by simp [init, tags]⟩
  | step s s' hs hst ih =>
    have a := allinv_reach progs hr s hs
    cases hst with
    | thr _ t b h =>
      obtain ⟨s1, h0, rfl⟩ := next_eq s s' t b h
      have := uinv_next0 s s1 t b h0 a ih
      exact ⟨this.own, this.nd⟩
    | die c => exact ⟨ih.own, ih.nd⟩

/-- **exactly once.** In every reachable state the tags (thread, operation number) in `lin` are pairwise different, a tagged entry
    belongs to a completed operation of its thread (`k <` the thread's operation count) or to its current, already linearized one,
    and (from `pubsub_linearizable_partial`) every completed operation has an entry: operations and tagged entries correspond
    one to one. -/
theorem each_operation_linearized_once (progs : Fin n → List Op) (hr : Real progs) (s : St n) (h : Reach progs s) :
    (tags s.lin).Nodup ∧
    (∀ e ∈ s.lin, ∀ u k, e.tag = some (u, k) →
      k < (s.thr u).k ∨ (k = (s.thr u).k ∧ (s.thr u).pc ≠ .idle ∧ (s.thr u).lpd = true)) ∧
    (∀ r ∈ s.done, (r.tid, r.k) ∈ tags s.lin) := by
  have U := uinv_reach progs hr s h
  refine ⟨U.nd, U.own, ?_⟩
  intro r hr'
  obtain ⟨_, i, _, _, hi, _⟩ := (allinv_reach progs hr s h).w.recs r hr'
  rw [mem_tags]
  exact ⟨_, List.mem_of_getElem? hi, rfl⟩

#print axioms each_operation_linearized_once

end PSC
