import RedisGoModel.Props.C08ReadyDisk
/-! `wal.Save` torn anywhere: the disk-level heart of persist-before-externalise.  Core Lean only. -/
namespace ReadyLoop

theorem reach_of_ent {recs : List Rec} {files : List Snap} {v : View} (hv : replayRecs recs files = some v) {e : Entry}
    (h : (Promise.ent e).holds v) : (Promise.reach e.index).holds v := by
  simp only [Promise.holds, View.last] at h ⊢
  rcases h with h | h
  · omega
  · have := contig_mem (replay_contig hv) h; omega

/-- the first index of a list of entries is above `x` (vacuous for no entries) -/
def Below (es : List Entry) (x : Nat) : Prop := ∀ e ∈ es.head?, x < e.index

/-- **the entries of a conforming Ready, written one record after the other, the write torn after any number `j` of records**: the restart
    works, hard state and snapshot are the old ones, every log promise below the first new index is kept; once all are written, all are there -/
theorem write_entries (files : List Snap) : ∀ (es : List Entry), Chain es → ∀ (recs : List Rec) (v : View), replayRecs recs files = some v →
    (∀ e ∈ es.head?, v.snap.index < e.index ∧ e.index ≤ v.last + 1) → ∀ j,
    ∃ v', replayRecs (recs ++ (es.map Rec.entry).take j) files = some v' ∧ v'.hs = v.hs ∧ v'.snap = v.snap ∧
      (∀ x, Below es x.index → (Promise.ent x).holds v → (Promise.ent x).holds v') ∧
      (∀ i, Below es i → (Promise.reach i).holds v → (Promise.reach i).holds v') ∧
      (es.length ≤ j → ∀ e ∈ es, (Promise.ent e).holds v') := by
  intro es
  induction es with
  | nil => intro _ recs v hv _ j; exact ⟨v, by simpa using hv, rfl, rfl, fun _ _ h => h, fun _ _ h => h, fun _ e he => by simp at he⟩
  | cons e rest ih =>
    intro hch recs v hv hfirst j
    cases j with
    | zero => exact ⟨v, by simpa using hv, rfl, rfl, fun _ _ h => h, fun _ _ h => h, fun h => by simp at h⟩
    | succ j =>
      obtain ⟨hb, hle⟩ := hfirst e (by simp)
      obtain ⟨v1, hv1, hhs1, hsn1, hlast1, hent1, hbelow1, hreach1⟩ := promise_survives_entry hv hb hle
      have hch' : Chain rest := by
        cases rest with
        | nil => trivial
        | cons e2 r2 => exact hch.2
      have hfirst' : ∀ e2 ∈ rest.head?, v1.snap.index < e2.index ∧ e2.index ≤ v1.last + 1 := by
        intro e2 he2
        cases rest with
        | nil => simp at he2
        | cons e3 r3 =>
          simp at he2; subst he2
          have := hch.1
          rw [hsn1, hlast1]; omega
      obtain ⟨v', hv', hhs', hsn', hent', hreach', hall'⟩ := ih hch' (recs ++ [.entry e]) v1 hv1 hfirst' j
      have hbel : ∀ x, x ≤ e.index → Below rest x := by
        intro x hx e2 he2
        cases rest with
        | nil => simp at he2
        | cons e3 r3 => simp at he2; subst he2; have := hch.1; omega
      refine ⟨v', ?_, by rw [hhs', hhs1], by rw [hsn', hsn1], ?_, ?_, ?_⟩
      · simpa [List.append_assoc] using hv'
      · intro x hx hh
        have hxe : x.index < e.index := hx e (by simp)
        exact hent' x (hbel _ (by omega)) (hbelow1 x hxe hh)
      · intro i hi _
        have hie : i < e.index := hi e (by simp)
        exact hreach' i (hbel _ (by omega)) (hreach1 i (by omega))
      · intro hlen e' he'
        rcases List.mem_cons.mp he' with rfl | he'
        · exact hent' _ (hbel _ (Nat.le_refl _)) hent1
        · exact hall' (by simp at hlen; omega) e' he'

/-- the promises `wal.Save` of entries `es` has to keep: log promises below the first new index (raft takes the others back by handing `es`
    out); a vote promise is never for candidate 0 -/
def NotTakenBack (es : List Entry) : Promise → Prop
| .ent x => Below es x.index
| .reach i => Below es i
| .vote _ x => x ≠ 0
| _ => True

/-- **`wal.Save(hs, ents)` torn anywhere** (entries, then the hard state if it is not empty; `j` records reached the disk): for a Ready whose
    entries are consecutive and start above the snapshot and at most one past the end of the log a restart would read, and whose hard
    state keeps the old one's term and vote promises and does not lower the commit index —
    the restart works, and every promise it kept before is kept now, except the log promises at or above the first new index (the ones
    raft takes back by handing these entries out) and vote promises for candidate 0 (never made);
    once everything is written the hard state is the new one and every new entry is in the log. -/
theorem save_keeps_promises {recs : List Rec} {files : List Snap} {v : View} (hv : replayRecs recs files = some v)
    (es : List Entry) (hch : Chain es) (hfirst : ∀ e ∈ es.head?, v.snap.index < e.index ∧ e.index ≤ v.last + 1)
    (hs : Option HardState) (hhs : ∀ h ∈ hs, HsKeeps v.hs h ∧ v.hs.commit ≤ h.commit) (j : Nat) :
    let written := es.map Rec.entry ++ hs.toList.map Rec.state
    ∃ v', replayRecs (recs ++ written.take j) files = some v' ∧
      (∀ p : Promise, p.holds v → NotTakenBack es p → p.holds v') ∧
      (written.length ≤ j → v'.hs = hs.getD v.hs ∧ ∀ e ∈ es, (Promise.ent e).holds v') := by
  intro written
  by_cases hj : j ≤ es.length
  · -- the tear is inside the entries
    have htake : written.take j = (es.map Rec.entry).take j := by
      simp only [written]; rw [List.take_append_of_le_length (by simpa using hj)]
    obtain ⟨v', hv', hhs', hsn', hent', hreach', hall'⟩ := write_entries files es hch recs v hv hfirst j
    refine ⟨v', by rw [htake]; exact hv', ?_, ?_⟩
    · intro p hp hc
      cases p with
      | term t => simpa [Promise.holds, hhs'] using hp
      | vote t x => simpa [Promise.holds, hhs'] using hp
      | ent x => exact hent' x hc hp
      | reach i => exact hreach' i hc hp
      | snap i => simpa [Promise.holds, hsn'] using hp
    · intro hlen
      cases hs with
      | none =>
        simp only [written, Option.toList, List.map_nil, List.append_nil, List.length_map] at hlen
        exact ⟨by simpa using hhs', hall' hlen⟩
      | some h => simp only [written, Option.toList, List.length_append, List.length_map, List.length_cons, List.length_nil] at hlen; omega
  · -- all entries and the hard state record are on disk
    cases hs with
    | none =>
      have htake : written.take j = (es.map Rec.entry).take j := by simp [written, Option.toList]
      obtain ⟨v', hv', hhs', hsn', hent', hreach', hall'⟩ := write_entries files es hch recs v hv hfirst j
      refine ⟨v', by rw [htake]; exact hv', ?_, fun _ => ⟨by simpa using hhs', hall' (by omega)⟩⟩
      intro p hp hc
      cases p with
      | term t => simpa [Promise.holds, hhs'] using hp
      | vote t x => simpa [Promise.holds, hhs'] using hp
      | ent x => exact hent' x hc hp
      | reach i => exact hreach' i hc hp
      | snap i => simpa [Promise.holds, hsn'] using hp
    | some h =>
      have htake : written.take j = (es.map Rec.entry).take es.length ++ [Rec.state h] := by
        simp only [written, Option.toList, List.map_cons, List.map_nil]
        rw [List.take_of_length_le (by simp; omega), List.take_of_length_le (by simp)]
      obtain ⟨v1, hv1, hhs1, hsn1, hent1, hreach1, hall1⟩ := write_entries files es hch recs v hv hfirst es.length
      obtain ⟨hk, hcm⟩ := hhs h rfl
      obtain ⟨v', hv', hhs', _, _, hE, hR, hS⟩ := promise_survives_growth (extra := [Rec.state h]) (files' := files) hv1
        (by intro r hr e; simp at hr; subst hr; simp) (by simpa [lastState, hhs1] using hcm) (fun _ hg => hg)
      have hhs'' : v'.hs = h := by simpa [lastState] using hhs'
      have hk' : HsKeeps v.hs v'.hs := by rw [hhs'']; exact hk
      refine ⟨v', by rw [htake, ← List.append_assoc]; exact hv', ?_, fun _ => ⟨by simpa using hhs'', fun e he => hE e (hall1 (Nat.le_refl _) e he)⟩⟩
      intro p hp hc
      cases p with
      | term t => exact holds_hs_mono (p := .term t) hk' hp
      | vote t x => exact holds_hs_mono (p := .vote t x) hk' hp hc
      | ent x => exact hE x (hent1 x hc hp)
      | reach i => exact hR i (hreach1 i hc hp)
      | snap i =>
        have : (Promise.snap i).holds v1 := by simpa [Promise.holds, hsn1] using hp
        exact hS i this

/-- after `take`, every log promise still owed lies below the first index of the Ready's entries -/
theorem take_not_taken_back (c : Cfg) (s : State) (rd : Ready) (p : Promise) (hp : p ∈ (take c s rd).owed) (hv : ∀ t x, p = .vote t x → x ≠ 0) :
    NotTakenBack rd.ents p := by
  have hf : released rd p = false := by simpa [take] using (List.mem_filter.mp hp).2
  cases p with
  | term t => trivial
  | vote t x => exact hv t x rfl
  | snap i => trivial
  | ent x =>
    intro e he
    cases hre : rd.ents with
    | nil => rw [hre] at he; simp at he
    | cons f r => rw [hre] at he; simp at he; subst he; simp [released, hre] at hf; omega
  | reach i =>
    intro e he
    cases hre : rd.ents with
    | nil => rw [hre] at he; simp at he
    | cons f r => rw [hre] at he; simp at he; subst he; simp [released, hre] at hf; omega

/-- **`wal.Save` of the arm (`walWrite`), torn anywhere, keeps `Safe`** when, relative to what a restart would read from everything written so
    far (`v`): the entries are consecutive, start above its snapshot and at most one past its end; the hard state keeps its term and vote
    promises and does not lower its commit index; and the promises owed are the ones raft has not taken back -/
theorem walWrite_safe (c : Cfg) (s : State) (h : Safe s) (v : View) (hv : replayRecs s.disk.all s.disk.files = some v)
    (hch : Chain s.rd.ents) (hfirst : ∀ e ∈ s.rd.ents.head?, v.snap.index < e.index ∧ e.index ≤ v.last + 1)
    (hhs : s.rd.hs.isEmpty = false → HsKeeps v.hs s.rd.hs ∧ v.hs.commit ≤ s.rd.hs.commit)
    (hnt : ∀ p ∈ s.owed, NotTakenBack s.rd.ents p) : Safe (exec c s .walWrite) := by
  simp only [exec]
  split
  · exact safe_of_eq rfl (fun _ hp => hp) h
  · intro k
    show ∃ v', replay (s.disk.write _) k = some v' ∧ ∀ p ∈ s.owed, p.holds v'
    rw [replay_write]
    split
    · exact h k
    · obtain ⟨v0, hv0, hp0⟩ := h s.disk.buffered.length
      have hv0' : replayRecs s.disk.all s.disk.files = some v0 := by rw [← all_eq_image]; exact hv0
      have hvv : v0 = v := by rw [hv] at hv0'; exact (Option.some.inj hv0').symm
      subst hvv
      cases hemp : s.rd.hs.isEmpty with
      | true =>
        obtain ⟨v', hv', hk, _⟩ := save_keeps_promises hv s.rd.ents hch hfirst none (by intro h hh; simp at hh) (k - s.disk.buffered.length)
        exact ⟨v', by simpa [Option.toList] using hv', fun p hp => hk p (hp0 p hp) (hnt p hp)⟩
      | false =>
        obtain ⟨v', hv', hk, _⟩ := save_keeps_promises hv s.rd.ents hch hfirst (some s.rd.hs)
          (by intro h hh; simp at hh; subst hh; exact hhs hemp) (k - s.disk.buffered.length)
        exact ⟨v', by simpa [Option.toList] using hv', fun p hp => hk p (hp0 p hp) (hnt p hp)⟩


/-- taking a Ready makes no promise (raft takes some back) -/
theorem take_safe' {s : State} {rd : Ready} {t : List Stmt} (h : Safe s) :
    Safe { s with rd := rd, todo := t, owed := s.owed.filter (fun p => !released rd p) } := by
  intro k
  obtain ⟨v, hv, hp⟩ := h k
  exact ⟨v, hv, fun p hpm => hp p (List.mem_filter.mp hpm).1⟩

end ReadyLoop
