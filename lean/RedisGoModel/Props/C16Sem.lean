import RedisGoModel.Props.C16WriterG
import RedisGoModel.Props.C16Dispatch
import RedisGoModel.Props.C16Msg
import RedisGoModel.Props.C16RefLog
/-! C16: what `ReadAll`'s dispatch makes of the items each writer call appends (`specCall`), call by call; helper for
    C16ReadAll.lean. -/
namespace WalFile
open WalCodec

def Writer.call (w : Writer) : Call → Writer
| .save st ents => (w.save st ents).1
| .snap s => w.saveSnapshot s
| .cut => w.cut

/-- the writer after a history of calls -/
def Writer.calls (w : Writer) (h : List Call) : Writer := h.foldl Writer.call w

/-- wire-size bounds on what is handed in (uint64 fields, marshalled messages below 2^55 bytes) -/
def Call.Fits : Call → Prop
| .save st ents => HSOk st ∧ ∀ e ∈ ents, EntryOk e ∧ (marshalEntry e).length < 2 ^ 55
| .snap s => WSnapOk s ∧ (marshalWSnap s).length < 2 ^ 55
| .cut => True

theorem marshalHS_len (s : HardState) (h : HSOk s) : (marshalHS s).length < 2 ^ 55 := by
  have a := encVarint_length_le s.term h.1
  have b := encVarint_length_le s.vote h.2.1
  have c := encVarint_length_le s.commit h.2.2
  have : (marshalHS s).length ≤ 33 := by
    simp only [marshalHS, List.length_append, List.length_cons, List.length_nil]; omega
  exact Nat.lt_of_le_of_lt this (by decide)

/-! ### items as records -/

def gRec (it : GItem) : Record := ⟨it.type, 0, it.data⟩

def applyItems (start : Nat × Nat) (ra : RA) (items : List GItem) : Except (RErr × HardState) RA :=
  applyRecs start ra (items.map gRec)

theorem applyRec_crc_irrel (start : Nat × Nat) (ra : RA) (t c : Nat) (d : Option Bytes) :
    applyRec start ra ⟨t, c, d⟩ = applyRec start ra ⟨t, 0, d⟩ := rfl

theorem applyRecs_gRecords (start : Nat × Nat) (c : Nat) (items : List GItem) (ra : RA) :
    applyRecs start ra (gRecords c items) = applyItems start ra items := by
  induction items generalizing c ra with
  | nil => rfl
  | cons it rest ih =>
    simp only [gRecords, applyItems, List.map_cons, applyRecs, gRec]
    rw [applyRec_crc_irrel]
    cases applyRec start ra ⟨it.type, 0, it.data⟩ with
    | ok ra' => exact ih _ ra'
    | error e => rfl

theorem applyItems_append (start : Nat × Nat) (a b : List GItem) (ra : RA) :
    applyItems start ra (a ++ b) =
      (match applyItems start ra a with
       | .ok ra' => applyItems start ra' b
       | .error e => .error e) := by
  unfold applyItems
  rw [List.map_append, applyRecs_append]
  cases applyRecs start ra (List.map gRec a) <;> rfl

theorem applyRecs_gchainRecords (start : Nat × Nat) (segs : List (List GItem × Bytes)) : ∀ (c : Nat) (ra : RA),
    applyRecs start ra (gchainRecords c segs) = applyItems start ra (segs.map (·.1)).flatten := by
  induction segs with
  | nil => intro c ra; rfl
  | cons s rest ih =>
    intro c ra
    obtain ⟨items, t⟩ := s
    simp only [gchainRecords, List.map_cons, List.flatten_cons]
    have hcr : applyRecs start ra (crcRec c :: gRecords c items) = applyRecs start ra (gRecords c items) := by
      simp only [applyRecs, applyRec_crc start ra (crcRec c) rfl]
    rw [applyItems_append, applyRecs_append, hcr, applyRecs_gRecords]
    cases applyItems start ra items with
    | ok ra' => exact ih _ ra'
    | error e => rfl

/-! ### one item of each kind -/

theorem applyRec_entry (start : Nat × Nat) (ra : RA) (e : Entry) (he : EntryOk e) :
    applyRec start ra ⟨entryType, 0, some (marshalEntry e)⟩ =
      (match place start.1 ra.ents e with
       | some R => .ok { ra with ents := R }
       | none => .error (.oor, ra.state)) := by
  unfold applyRec place
  simp only [Option.getD_some, if_true]
  rw [unmarshalEntry_marshal e he]
  simp only
  by_cases h1 : e.index > start.1
  · rw [if_pos h1, if_pos h1]
    by_cases h2 : e.index - start.1 - 1 > ra.ents.length
    · rw [if_pos h2, if_pos h2]
    · rw [if_neg h2, if_neg h2]
  · rw [if_neg h1, if_neg h1]

theorem applyItems_ents (start : Nat × Nat) (ents : List Entry) : ∀ (ra : RA), (∀ e ∈ ents, EntryOk e) →
    applyItems start ra (gEntItems ents) =
      (match placeAll start.1 ra.ents ents with
       | some R => .ok { ra with ents := R }
       | none => .error (.oor, ra.state)) := by
  induction ents with
  | nil => intro ra _; rfl
  | cons e rest ih =>
    intro ra hok
    simp only [gEntItems, List.map_cons, applyItems, applyRecs, gRec, placeAll]
    rw [applyRec_entry start ra e (hok e (by simp))]
    cases hp : place start.1 ra.ents e with
    | none => rfl
    | some R1 =>
      simp only
      have := ih { ra with ents := R1 } (fun x hx => hok x (by simp [hx]))
      simp only [gEntItems, applyItems] at this
      rw [this]

theorem applyRec_state (start : Nat × Nat) (ra : RA) (s : HardState) (hs : HSOk s) :
    applyRec start ra ⟨stateType, 0, some (marshalHS s)⟩ = .ok { ra with state := s } := by
  unfold applyRec
  simp only [Option.getD_some, if_true]
  rw [if_neg (show ¬ stateType = entryType by decide), unmarshalHS_marshal s hs]

theorem applyItems_state (start : Nat × Nat) (ra : RA) (s : HardState) (hs : HSOk s) :
    applyItems start ra (gStateItems s) = .ok { ra with state := stateAfter ra.state s } := by
  unfold gStateItems stateAfter
  by_cases he : isEmptyHS s = true
  · rw [if_pos he, if_pos he]; rfl
  · rw [if_neg he, if_neg he]
    simp only [applyItems, List.map_cons, List.map_nil, applyRecs, gRec]
    rw [applyRec_state start ra s hs]

/-- the snapshot arm -/
def snapArm (start : Nat × Nat) (ra : RA) (s : WSnap) : Except (RErr × HardState) RA :=
  if s.index = start.1 then
    if s.term ≠ start.2 then .error (.snapMismatch, emptyHS) else .ok { ra with matched := true }
  else .ok ra

theorem applyRec_snap (start : Nat × Nat) (ra : RA) (s : WSnap) (hs : WSnapOk s) :
    applyRec start ra ⟨snapshotType, 0, some (marshalWSnap s)⟩ = snapArm start ra s := by
  unfold applyRec snapArm
  simp only [Option.getD_some, if_true]
  rw [if_neg (show ¬ snapshotType = entryType by decide), if_neg (show ¬ snapshotType = stateType by decide),
    if_neg (show ¬ snapshotType = metadataType by decide), if_neg (show ¬ snapshotType = crcType by decide),
    unmarshalWSnap_marshal s hs]

theorem applyRec_meta (start : Nat × Nat) (ra : RA) (md : Option Bytes) (h : ra.metadata = none ∨ ra.metadata = md) :
    applyRec start ra ⟨metadataType, 0, md⟩ = .ok { ra with metadata := md } := by
  unfold applyRec
  simp only [if_true]
  rw [if_neg (show ¬ metadataType = entryType by decide), if_neg (show ¬ metadataType = stateType by decide)]
  have hno : ¬ (ra.metadata.isSome ∧ ra.metadata ≠ some (md.getD [])) := by
    rcases h with h | h
    · rw [h]; simp
    · rw [h]
      cases md with
      | none => simp
      | some m => simp
  rw [if_neg hno]

/-- the head of a new segment changes nothing for a reader that has seen the previous ones -/
theorem applyItems_cut (start : Nat × Nat) (ra : RA) (hs : HSOk ra.state) :
    applyItems start ra (cutItems ra.metadata ra.state) = .ok ra := by
  unfold cutItems
  rw [applyItems_append]
  have h1 : applyItems start ra [⟨metadataType, ra.metadata⟩] = .ok ra := by
    simp only [applyItems, List.map_cons, List.map_nil, applyRecs, gRec]
    rw [applyRec_meta start ra ra.metadata (Or.inr rfl)]
  rw [h1]
  simp only
  rw [applyItems_state start ra ra.state hs]
  unfold stateAfter
  split <;> rfl

/-! ### one call -/

/-- what `ReadAll` opened at `start` makes of the records of one call -/
def specCall (start : Nat × Nat) (ra : RA) : Call → Except (RErr × HardState) RA
| .save st ents =>
  match placeAll start.1 ra.ents ents with
  | none => .error (.oor, ra.state)
  | some R => .ok { ra with ents := R, state := stateAfter ra.state st }
| .snap s => if s.conf.isNone && s.index > 0 then .ok ra else snapArm start ra s
| .cut => .ok ra

def specCalls (start : Nat × Nat) : RA → List Call → Except (RErr × HardState) RA
| ra, [] => .ok ra
| ra, c :: rest =>
  match specCall start ra c with
  | .ok ra' => specCalls start ra' rest
  | .error e => .error e

theorem stateAfter_ok (cur st : HardState) (h1 : HSOk cur) (h2 : HSOk st) : HSOk (stateAfter cur st) := by
  unfold stateAfter; split <;> assumption

/-- the reader-side facts that go along with the writer invariant -/
structure Sync (w : Writer) (ra : RA) : Prop where
  mdat  : ra.metadata = w.metadata
  state : ra.state = w.state
  stOk  : HSOk w.state

theorem call_sem (start : Nat × Nat) {w : Writer} {g : GGhost} (hI : GInv w g) (c : Call) (hc : c.Fits)
    (hst : HSOk w.state) :
    ∃ g' extra, GInv (w.call c) g' ∧ g'.all = g.all ++ extra ∧ HSOk (w.call c).state ∧
      ∀ ra, Sync w ra →
        applyItems start ra extra = specCall start ra c ∧
        ∀ ra', specCall start ra c = .ok ra' → Sync (w.call c) ra' := by
  cases c with
  | save st ents =>
    obtain ⟨hs, he⟩ := hc
    obtain ⟨g', hI', hall⟩ := hI.save st ents (fun e h => (he e h).2) (marshalHS_len st hs)
    have hstate : (w.call (.save st ents)).state = stateAfter w.state st := Writer.save_state' w st ents
    have hmeta : (w.call (.save st ents)).metadata = w.metadata := Writer.save_metadata w st ents
    have hE : ∀ ra, applyItems start ra (gEntItems ents ++ gStateItems st) = specCall start ra (.save st ents) := by
      intro ra
      rw [applyItems_append, applyItems_ents start ents ra (fun e h => (he e h).1)]
      simp only [specCall]
      cases placeAll start.1 ra.ents ents with
      | none => rfl
      | some R => simp only; rw [applyItems_state start _ st hs]
    have hsync : ∀ ra, Sync w ra → ∀ ra', specCall start ra (.save st ents) = .ok ra' → Sync (w.call (.save st ents)) ra' := by
      intro ra hsy ra' hsp
      simp only [specCall] at hsp
      cases hp : placeAll start.1 ra.ents ents with
      | none => rw [hp] at hsp; cases hsp
      | some R =>
        rw [hp] at hsp
        simp only at hsp
        cases hsp
        exact ⟨by rw [hmeta]; exact hsy.mdat, by rw [hstate, ← hsy.state], by rw [hstate]; exact stateAfter_ok _ _ hst hs⟩
    have hso : HSOk (w.call (.save st ents)).state := by rw [hstate]; exact stateAfter_ok _ _ hst hs
    rcases hall with hall | hall
    · exact ⟨g', _, hI', hall, hso, fun ra hsy => ⟨hE ra, hsync ra hsy⟩⟩
    · refine ⟨g', _, hI', by rw [hall, List.append_assoc], hso, fun ra hsy => ⟨?_, hsync ra hsy⟩⟩
      rw [applyItems_append, hE ra]
      cases hsp : specCall start ra (.save st ents) with
      | error e => rfl
      | ok ra' =>
        simp only
        have hs' := hsync ra hsy ra' hsp
        rw [← hmeta, ← hs'.mdat, ← hstate, ← hs'.state]
        exact applyItems_cut start ra' (by rw [hs'.state]; exact hs'.stOk)
  | snap s =>
    obtain ⟨hs, hl⟩ := hc
    obtain ⟨g', hI', hall⟩ := hI.saveSnapshot s hl
    have hstate : (w.call (.snap s)).state = w.state := Writer.saveSnapshot_state w s
    have hmeta : (w.call (.snap s)).metadata = w.metadata := Writer.saveSnapshot_metadata w s
    refine ⟨g', _, hI', hall, by rw [hstate]; exact hst, fun ra hsy => ⟨?_, ?_⟩⟩
    · unfold snapItems
      simp only [specCall]
      split
      · rfl
      · simp only [applyItems, List.map_cons, List.map_nil, applyRecs, gRec]
        rw [applyRec_snap start ra s hs]
        cases snapArm start ra s <;> rfl
    · intro ra' hsp
      have hm : ra'.metadata = ra.metadata ∧ ra'.state = ra.state := by
        simp only [specCall] at hsp
        split at hsp
        · cases hsp; exact ⟨rfl, rfl⟩
        · unfold snapArm at hsp
          split at hsp
          · split at hsp
            · cases hsp
            · cases hsp; exact ⟨rfl, rfl⟩
          · cases hsp; exact ⟨rfl, rfl⟩
      exact ⟨by rw [hm.1, hmeta]; exact hsy.mdat, by rw [hm.2, hstate]; exact hsy.state, by rw [hstate]; exact hst⟩
  | cut =>
    have hI' := hI.cut
    have hstate : (w.call .cut).state = w.state := Writer.cut_state w
    have hmeta : (w.call .cut).metadata = w.metadata := Writer.cut_metadata w
    refine ⟨_, cutItems w.metadata w.state, hI', gcut_all g _, by rw [hstate]; exact hst, fun ra hsy => ⟨?_, ?_⟩⟩
    · rw [← hsy.mdat, ← hsy.state]
      exact applyItems_cut start ra (by rw [hsy.state]; exact hst)
    · intro ra' hsp
      simp only [specCall] at hsp
      cases hsp
      exact ⟨by rw [hmeta]; exact hsy.mdat, by rw [hstate]; exact hsy.state, by rw [hstate]; exact hst⟩

theorem Writer.calls_cons (w : Writer) (c : Call) (h : List Call) : w.calls (c :: h) = (w.call c).calls h := rfl

/-- **a whole history**: the items it appends, seen through `ReadAll`'s dispatch, are `specCalls` -/
theorem calls_sem (start : Nat × Nat) (h : List Call) : ∀ {w : Writer} {g : GGhost}, GInv w g → (∀ c ∈ h, c.Fits) →
    HSOk w.state →
    ∃ g' extra, GInv (w.calls h) g' ∧ g'.all = g.all ++ extra ∧
      ∀ ra, Sync w ra → applyItems start ra extra = specCalls start ra h := by
  induction h with
  | nil =>
    intro w g hI _ _
    exact ⟨g, [], hI, by simp, fun ra _ => rfl⟩
  | cons c rest ih =>
    intro w g hI hfit hst
    obtain ⟨g1, e1, hI1, hall1, hst1, hsem1⟩ := call_sem start hI c (hfit c (by simp)) hst
    obtain ⟨g2, e2, hI2, hall2, hsem2⟩ := ih hI1 (fun x hx => hfit x (by simp [hx])) hst1
    refine ⟨g2, e1 ++ e2, by rw [Writer.calls_cons]; exact hI2, by rw [hall2, hall1, List.append_assoc], fun ra hsy => ?_⟩
    obtain ⟨a1, a2⟩ := hsem1 ra hsy
    rw [applyItems_append, a1]
    simp only [specCalls]
    cases hsp : specCall start ra c with
    | error e => rfl
    | ok ra' => exact hsem2 ra' (a2 ra' hsp)

/-! ### `specCalls` in terms of the reference log, the reference state and the saved snapshots -/

/-- a saved snapshot with the index asked for but another term -/
def mism (start : Nat × Nat) (p : Nat × Nat) : Bool := p.1 == start.1 && p.2 != start.2

theorem specCalls_eval (start : Nat × Nat) (h : List Call) : ∀ (ra : RA) (R : List Entry),
    placeCalls start.1 ra.ents h = some R →
    specCalls start ra h =
      (if (snapsOf h).any (mism start) then .error (.snapMismatch, emptyHS)
       else .ok { metadata := ra.metadata, state := refStateFrom ra.state h, ents := R,
                  matched := ra.matched || (snapsOf h).contains start }) := by
  induction h with
  | nil =>
    intro ra R hp
    simp only [placeCalls, Option.some.injEq] at hp
    subst hp
    simp [specCalls, snapsOf, refStateFrom]
  | cons c rest ih =>
    intro ra R hp
    cases c with
    | save st ents =>
      simp only [placeCalls] at hp
      cases hpa : placeAll start.1 ra.ents ents with
      | none => rw [hpa] at hp; cases hp
      | some R1 =>
        rw [hpa] at hp
        simp only at hp
        simp only [specCalls, specCall, hpa, snapsOf, refStateFrom]
        rw [ih _ R hp]
        rfl
    | snap s =>
      simp only [placeCalls] at hp
      simp only [specCalls, specCall, snapsOf, refStateFrom]
      by_cases hv : (s.conf.isNone && decide (s.index > 0)) = true
      · simp only [if_pos hv]
        simp only [List.nil_append]
        exact ih ra R hp
      · simp only [if_neg hv]
        simp only [List.cons_append, List.nil_append, List.any_cons, List.contains_cons]
        unfold snapArm
        by_cases hi : s.index = start.1
        · rw [if_pos hi]
          by_cases ht : s.term ≠ start.2
          · rw [if_pos ht]
            have : mism start (s.index, s.term) = true := by simp [mism, hi, ht]
            simp [this]
          · rw [if_neg ht]
            have ht' : s.term = start.2 := Classical.not_not.mp ht
            have hm : mism start (s.index, s.term) = false := by simp [mism, ht']
            have he : (start == (s.index, s.term)) = true := by
              obtain ⟨a, b⟩ := start
              simp only at hi ht'
              simp [hi, ht']
            simp only [hm, Bool.false_or]
            rw [ih { ra with matched := true } R hp]
            simp [he]
        · rw [if_neg hi]
          have hm : mism start (s.index, s.term) = false := by simp [mism, hi]
          have he : (start == (s.index, s.term)) = false := by
            obtain ⟨a, b⟩ := start
            simp only at hi
            simp only [beq_eq_false_iff_ne, ne_eq, Prod.mk.injEq, not_and]
            intro h1; exact absurd h1.symm hi
          simp only [hm, Bool.false_or, he]
          exact ih ra R hp
    | cut =>
      simp only [placeCalls] at hp
      simp only [specCalls, specCall, snapsOf, refStateFrom]
      exact ih ra R hp

#print axioms calls_sem
#print axioms specCalls_eval
end WalFile
