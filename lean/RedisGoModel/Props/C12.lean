import RedisGoModel.Props.C12Avl
import RedisGoModel.Props.C12Order
import RedisGoModel.Exec.ZSet
/-! C12 — sorted sets keep one score per member, ordered output, valid AVL: theorems about the definitions the driver runs
    (Ds/ZTree.lean, Exec/ZSet.lean). -/
namespace ZT
open T

/-- one score per member name -/
def Func (M : List (Bytes × Int)) : Prop := ∀ n s s', (n, s) ∈ M → (n, s') ∈ M → s = s'

/-- the invariant of a sorted-set tree: height-balanced with exact stored heights, a search tree on the scores, no node without
    names, names ascending inside a node, every member name in exactly one node -/
structure Inv (t : T) : Prop where
  avl : ∃ h, IsAvl t h
  bst : KSorted (nodes t)
  names : NamesOK (nodes t)
  func : Func (members t)

theorem inv_nil : Inv nil :=
  ⟨⟨0, .nil⟩, by simp [nodes, KSorted], by intro p hp; simp [nodes] at hp, by intro n s s' h; simp [members, nodes, flat] at h⟩

/-! ### the member index (`dict`) -/

theorem lookup_some_mem {t : T} {m : Bytes} {s : Int} (h : lookup t m = some s) : (m, s) ∈ members t := by
  unfold lookup at h
  cases hf : (members t).find? (fun p => p.1 == m) with
  | none => rw [hf] at h; simp at h
  | some p =>
    rw [hf] at h
    simp at h
    have h1 := List.find?_some hf
    have h2 := List.mem_of_find?_eq_some hf
    simp at h1
    obtain ⟨n, s'⟩ := p
    simp at h1 h
    subst h1 h
    exact h2

theorem lookup_none_not_mem {t : T} {m : Bytes} (h : lookup t m = none) (s : Int) : (m, s) ∉ members t := by
  unfold lookup at h
  simp at h
  intro hm
  exact h m s hm rfl

theorem lookup_of_mem {t : T} {m : Bytes} {s : Int} (hf : Func (members t)) (hm : (m, s) ∈ members t) : lookup t m = some s := by
  cases hl : lookup t m with
  | none => exact absurd hm (lookup_none_not_mem hl s)
  | some s' => rw [hf m s' s (lookup_some_mem hl) hm]

theorem lookup_iff {t : T} (hf : Func (members t)) (m : Bytes) (s : Int) : lookup t m = some s ↔ (m, s) ∈ members t :=
  ⟨lookup_some_mem, lookup_of_mem hf⟩

/-! ### insert and del keep the invariant and change exactly one member -/

theorem mem_insert {t : T} (hi : Inv t) (s : Int) (m : Bytes) (p : Bytes × Int) :
    p ∈ members (insert t s m) ↔ p = (m, s) ∨ p ∈ members t := by
  unfold members
  rw [nodes_insert s m t hi.bst, mem_flat_insN]

theorem inv_insert {t : T} (hi : Inv t) (s : Int) (m : Bytes) (hnew : ∀ s', (m, s') ∉ members t) : Inv (insert t s m) := by
  obtain ⟨h, ha⟩ := hi.avl
  refine ⟨insert_avl t h s m ha, ?_, ?_, ?_⟩
  · rw [nodes_insert s m t hi.bst]; exact ksorted_insN s m _ hi.bst
  · rw [nodes_insert s m t hi.bst]; exact namesOK_insN s m _ hi.names
  · intro n a b h1 h2
    rcases (mem_insert hi s m _).mp h1 with e1 | h1 <;> rcases (mem_insert hi s m _).mp h2 with e2 | h2
    · simp at e1 e2; rw [e1.2, e2.2]
    · simp at e1; rw [e1.1] at h2; exact absurd h2 (hnew b)
    · simp at e2; rw [e2.1] at h1; exact absurd h1 (hnew a)
    · exact hi.func n a b h1 h2

theorem mem_del {t : T} (hi : Inv t) {x : Int} {m : Bytes} (hm : (m, x) ∈ members t) (p : Bytes × Int) :
    p ∈ members (del t x (some m)) ↔ p ∈ members t ∧ p ≠ (m, x) := by
  unfold members
  rw [nodes_del t x (some m) hi.bst]
  exact mem_flat_delN x m _ hi.bst hi.names hm p

theorem inv_del {t : T} (hi : Inv t) {x : Int} {m : Bytes} (hm : (m, x) ∈ members t) : Inv (del t x (some m)) := by
  obtain ⟨h, ha⟩ := hi.avl
  refine ⟨del_avl t h x (some m) ha, ?_, ?_, ?_⟩
  · rw [nodes_del t x _ hi.bst]; exact ksorted_delN x _ _ hi.bst
  · rw [nodes_del t x _ hi.bst]; exact namesOK_delN x _ _ hi.names
  · intro n a b h1 h2
    exact hi.func n a b ((mem_del hi hm _).mp h1).1 ((mem_del hi hm _).mp h2).1

/-- after `del`, the name is in no node any more -/
theorem del_gone {t : T} (hi : Inv t) {x : Int} {m : Bytes} (hm : (m, x) ∈ members t) (s' : Int) :
    (m, s') ∉ members (del t x (some m)) := by
  intro h
  obtain ⟨h1, h2⟩ := (mem_del hi hm _).mp h
  exact h2 (by rw [hi.func m s' x h1 hm])

/-! ### setScore (ZADD of one pair) and remove (ZREM of one member) -/

theorem inv_setScore {t : T} (hi : Inv t) (m : Bytes) (s : Int) : Inv (setScore t m s) := by
  unfold setScore
  cases hl : lookup t m with
  | none => exact inv_insert hi s m (lookup_none_not_mem hl)
  | some old =>
    have hm := lookup_some_mem hl
    exact inv_insert (inv_del hi hm) s m (del_gone hi hm)

/-- ZADD of one pair: the member is held with the new score, every other member keeps its score, nothing else appears -/
theorem mem_setScore {t : T} (hi : Inv t) (m : Bytes) (s : Int) (p : Bytes × Int) :
    p ∈ members (setScore t m s) ↔ p = (m, s) ∨ (p ∈ members t ∧ p.1 ≠ m) := by
  unfold setScore
  cases hl : lookup t m with
  | none =>
    simp only
    rw [mem_insert hi]
    constructor
    · rintro (h | h)
      · exact Or.inl h
      · right; refine ⟨h, ?_⟩
        intro e; obtain ⟨n, s'⟩ := p; simp at e; subst e
        exact lookup_none_not_mem hl s' h
    · rintro (h | ⟨h, _⟩)
      · exact Or.inl h
      · exact Or.inr h
  | some old =>
    have hm := lookup_some_mem hl
    simp only
    rw [mem_insert (inv_del hi hm), mem_del hi hm]
    constructor
    · rintro (h | ⟨h, hne⟩)
      · exact Or.inl h
      · right; refine ⟨h, ?_⟩
        intro e; obtain ⟨n, s'⟩ := p; simp at e; subst e
        exact hne (by rw [hi.func n s' old h hm])
    · rintro (h | ⟨h, hne⟩)
      · exact Or.inl h
      · right; refine ⟨h, ?_⟩
        intro e; rw [e] at hne; exact hne rfl

theorem inv_remove {t : T} (hi : Inv t) (m : Bytes) : Inv (remove t m) := by
  unfold remove
  cases hl : lookup t m with
  | none => exact hi
  | some old => exact inv_del hi (lookup_some_mem hl)

/-- ZREM of one member removes exactly that member: score-mates and everybody else stay, with their scores -/
theorem mem_remove {t : T} (hi : Inv t) (m : Bytes) (p : Bytes × Int) :
    p ∈ members (remove t m) ↔ p ∈ members t ∧ p.1 ≠ m := by
  unfold remove
  cases hl : lookup t m with
  | none =>
    simp only
    constructor
    · intro h
      refine ⟨h, ?_⟩
      intro e; obtain ⟨n, s'⟩ := p; simp at e; subst e
      exact lookup_none_not_mem hl s' h
    · exact fun h => h.1
  | some old =>
    have hm := lookup_some_mem hl
    simp only
    rw [mem_del hi hm]
    constructor
    · rintro ⟨h, hne⟩
      refine ⟨h, ?_⟩
      intro e; obtain ⟨n, s'⟩ := p; simp at e; subst e
      exact hne (by rw [hi.func n s' old h hm])
    · rintro ⟨h, hne⟩
      refine ⟨h, ?_⟩
      intro e; rw [e] at hne; exact hne rfl

theorem length_remove {t : T} (hi : Inv t) {m : Bytes} {x : Int} (hm : (m, x) ∈ members t) :
    (members (remove t m)).length + 1 = (members t).length := by
  unfold remove
  rw [lookup_of_mem hi.func hm]
  simp only [members]
  rw [nodes_del t x (some m) hi.bst]
  exact length_flat_delN x m _ hi.bst hm

/-- `one_score_per_member`, dict form: after ZADD m s the index answers s for m … -/
theorem lookup_setScore_self {t : T} (hi : Inv t) (m : Bytes) (s : Int) : lookup (setScore t m s) m = some s :=
  lookup_of_mem (inv_setScore hi m s).func ((mem_setScore hi m s _).mpr (Or.inl rfl))

/-- … and what it answered before for every other name -/
theorem lookup_setScore_other {t : T} (hi : Inv t) (m : Bytes) (s : Int) (m' : Bytes) (h : m' ≠ m) :
    lookup (setScore t m s) m' = lookup t m' := by
  apply Option.ext
  intro a
  rw [lookup_iff (inv_setScore hi m s).func, lookup_iff hi.func, mem_setScore hi]
  constructor
  · rintro (e | ⟨h1, _⟩)
    · simp at e; exact absurd e.1 h
    · exact h1
  · intro h1; exact Or.inr ⟨h1, h⟩

theorem lookup_remove_self {t : T} (hi : Inv t) (m : Bytes) : lookup (remove t m) m = none := by
  cases hl : lookup (remove t m) m with
  | none => rfl
  | some s => exact absurd rfl ((mem_remove hi m _).mp (lookup_some_mem hl)).2

theorem lookup_remove_other {t : T} (hi : Inv t) (m m' : Bytes) (h : m' ≠ m) : lookup (remove t m) m' = lookup t m' := by
  apply Option.ext
  intro a
  rw [lookup_iff (inv_remove hi m).func, lookup_iff hi.func, mem_remove hi]
  exact ⟨fun h1 => h1.1, fun h1 => ⟨h1, h⟩⟩

/-! ### order of the member sequence -/

/-- the member sequence (what ZRANGE and ZRANK read) is strictly ascending by (score, name) -/
theorem members_sorted {t : T} (hi : Inv t) : (members t).Pairwise mlt := flat_sorted _ hi.bst hi.names

theorem mlt_irrefl (a : Bytes × Int) : ¬ mlt a a := by
  rintro (h | ⟨_, h⟩)
  · omega
  · rw [blt_irrefl] at h; cases h

/-- each member name is held exactly once -/
theorem names_nodup {t : T} (hi : Inv t) : ((members t).map (·.1)).Nodup := by
  unfold List.Nodup
  rw [List.pairwise_map]
  refine List.Pairwise.imp_of_mem ?_ (members_sorted hi)
  intro a b ha hb hab e
  obtain ⟨an, as⟩ := a
  obtain ⟨bn, bs⟩ := b
  simp at e; subst e
  have := hi.func an as bs ha hb
  subst this
  exact mlt_irrefl _ hab

theorem setScore_ne_nil {t : T} (hi : Inv t) (m : Bytes) (s : Int) : setScore t m s ≠ nil := by
  intro e
  have := (mem_setScore hi m s (m, s)).mpr (Or.inl rfl)
  rw [e] at this
  simp [members, nodes, flat] at this

theorem members_nil_iff (t : T) : members t = [] → Inv t → t = nil := by
  intro h hi
  cases t with
  | nil => rfl
  | node l k ns hh r =>
    exfalso
    have hn := hi.names (k, ns) (by simp [nodes])
    cases ns with
    | nil => exact hn.1 rfl
    | cons a as =>
      have : (a, k) ∈ members (node l k (a :: as) hh r) := by
        simp [members, nodes, flat]
      rw [h] at this; cases this

/-! ### the invariant over arbitrary operation sequences on one tree -/

inductive Op
| add (m : Bytes) (s : Int)
| rem (m : Bytes)

def step (t : T) : Op → T
| .add m s => setScore t m s
| .rem m => remove t m

theorem inv_step {t : T} (hi : Inv t) (op : Op) : Inv (step t op) := by
  cases op with
  | add m s => exact inv_setScore hi m s
  | rem m => exact inv_remove hi m

/-- every tree reachable from the empty tree by member insertions / score changes / removals, and every tree in between, is a valid
    AVL search tree with a consistent member index -/
theorem inv_run (ops : List Op) : ∀ {t : T}, Inv t → Inv (ops.foldl step t) := by
  induction ops with
  | nil => intro t hi; exact hi
  | cons op ops ih => intro t hi; exact ih (inv_step hi op)

theorem inv_reachable (ops : List Op) : Inv (ops.foldl step nil) := inv_run ops inv_nil

example : Inv (([Op.add [1] 3, Op.add [2] 1, Op.add [3] 2, Op.rem [1]]).foldl step nil) := inv_reachable _

end ZT
