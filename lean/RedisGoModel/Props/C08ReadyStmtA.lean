import RedisGoModel.Props.C08ReadySteps
/-! Preservation of `Inv` by the statements of the arm that leave the node alone (saveSnap's three steps, the no-op branches, the syncs).
    Core Lean only. -/
namespace ReadyLoop

/-- what follows a statement in the arm -/
def after : Stmt → List Stmt
| .snapFile => [.snapWalWrite, .snapWalSync, .walWrite, .walFlush, .applySnap, .walSync, .publishSnap, .append, .send, .publish, .trigFile, .trigWalWrite, .trigWalSync, .trigCompact, .advance]
| .snapWalWrite => [.snapWalSync, .walWrite, .walFlush, .applySnap, .walSync, .publishSnap, .append, .send, .publish, .trigFile, .trigWalWrite, .trigWalSync, .trigCompact, .advance]
| .snapWalSync => [.walWrite, .walFlush, .applySnap, .walSync, .publishSnap, .append, .send, .publish, .trigFile, .trigWalWrite, .trigWalSync, .trigCompact, .advance]
| .walWrite => [.walFlush, .applySnap, .walSync, .publishSnap, .append, .send, .publish, .trigFile, .trigWalWrite, .trigWalSync, .trigCompact, .advance]
| .walFlush => [.applySnap, .walSync, .publishSnap, .append, .send, .publish, .trigFile, .trigWalWrite, .trigWalSync, .trigCompact, .advance]
| .applySnap => [.walSync, .publishSnap, .append, .send, .publish, .trigFile, .trigWalWrite, .trigWalSync, .trigCompact, .advance]
| .walSync => [.publishSnap, .append, .send, .publish, .trigFile, .trigWalWrite, .trigWalSync, .trigCompact, .advance]
| .publishSnap => [.append, .send, .publish, .trigFile, .trigWalWrite, .trigWalSync, .trigCompact, .advance]
| .append => [.send, .publish, .trigFile, .trigWalWrite, .trigWalSync, .trigCompact, .advance]
| .send => [.publish, .trigFile, .trigWalWrite, .trigWalSync, .trigCompact, .advance]
| .publish => [.trigFile, .trigWalWrite, .trigWalSync, .trigCompact, .advance]
| .trigFile => [.trigWalWrite, .trigWalSync, .trigCompact, .advance]
| .trigWalWrite => [.trigWalSync, .trigCompact, .advance]
| .trigWalSync => [.trigCompact, .advance]
| .trigCompact => [.advance]
| .advance => []

theorem tails_eq {st : Stmt} {rest : List Stmt} (h : (st :: rest) ∈ tailsOf theArm) : rest = after st := by
  simp only [tailsOf, theArm, List.mem_cons, List.mem_nil_iff, or_false] at h
  rcases h with h | h | h | h | h | h | h | h | h | h | h | h | h | h | h | h | h <;>
    first
    | (injection h with h1 h2; subst h1; subst h2; rfl)
    | (exact absurd h (by simp))

variable {c : Cfg} {s : State} {rest : List Stmt}

theorem inv_snapFile (h : Inv c s) (ht : s.todo = .snapFile :: rest) : Inv c { exec c s .snapFile with todo := rest } := by
  have hr := tails_eq (ht ▸ h.suf); subst hr
  have hw : Stmt.walWrite ∈ s.todo := by rw [ht]; decide
  simp only [exec]
  split
  · rename_i hsn
    exact inv_grow (s := s) h ht (by decide) (by decide) (by decide) (fun _ => ⟨by decide, by decide⟩) (fun _ => by decide)
      (fun _ _ => ⟨by decide, by decide, by decide⟩) (DiskGrows.rfl' _) (fun _ hc => by rw [hsn] at hc; cases hc)
  · exact inv_grow (s := s) h ht (by decide) (by decide) (by decide) (fun _ => ⟨by decide, by decide⟩) (fun _ => by decide)
      (fun _ _ => ⟨by decide, by decide, by decide⟩) (DiskGrows.addFile _ _)
      (fun _ _ => ⟨fun _ => by simp, fun hc => absurd (by decide) hc⟩)

theorem inv_snapWalWrite (h : Inv c s) (ht : s.todo = .snapWalWrite :: rest) : Inv c { exec c s .snapWalWrite with todo := rest } := by
  have hr := tails_eq (ht ▸ h.suf); subst hr
  have hw : Stmt.walWrite ∈ s.todo := by rw [ht]; decide
  simp only [exec]
  split
  · rename_i hsn
    exact inv_grow (s := s) h ht (by decide) (by decide) (by decide) (fun _ => ⟨by decide, by decide⟩) (fun _ => by decide)
      (fun _ _ => ⟨by decide, by decide, by decide⟩) (DiskGrows.rfl' _) (fun _ hc => by rw [hsn] at hc; cases hc)
  · exact inv_grow (s := s) h ht (by decide) (by decide) (by decide) (fun _ => ⟨by decide, by decide⟩) (fun _ => by decide)
      (fun _ _ => ⟨by decide, by decide, by decide⟩) (DiskGrows.writeSnap _ _ _)
      (fun _ hsn => ⟨fun _ => ((h.rdW hw).2.2 hsn).1 (by rw [ht]; decide), fun _ => mem_writeSnap _ _ _⟩)

theorem inv_snapWalSync (h : Inv c s) (ht : s.todo = .snapWalSync :: rest) : Inv c { exec c s .snapWalSync with todo := rest } := by
  have hr := tails_eq (ht ▸ h.suf); subst hr
  have hw : Stmt.walWrite ∈ s.todo := by rw [ht]; decide
  simp only [exec]
  split
  · rename_i hsn
    exact inv_grow (s := s) h ht (by decide) (by decide) (by decide) (fun _ => ⟨by decide, by decide⟩) (fun _ => by decide)
      (fun _ _ => ⟨by decide, by decide, by decide⟩) (DiskGrows.rfl' _) (fun _ hc => by rw [hsn] at hc; cases hc)
  · exact inv_grow (s := s) h ht (by decide) (by decide) (by decide) (fun _ => ⟨by decide, by decide⟩) (fun _ => by decide)
      (fun _ _ => ⟨by decide, by decide, by decide⟩) (DiskGrows.flush _)
      (fun _ hsn => ⟨fun _ => ((h.rdW hw).2.2 hsn).1 (by rw [ht]; decide),
        fun _ => (DiskGrows.flush _).recs _ (((h.rdW hw).2.2 hsn).2 (by rw [ht]; decide))⟩)

theorem trig_none (h : Inv c s) (hf : Stmt.trigFile ∈ s.todo) : s.node.trig = none := by
  cases ht : s.node.trig with
  | none => rfl
  | some sn => exact absurd hf (h.trigF sn ht).2.1

theorem VOk_true_of_false {v : View} (hn : s.node.trig = none) (hv : VOk s false v) : VOk s true v :=
  ⟨hv.1, hv.2.1, fun sn hsn => by rw [hn] at hsn; cases hsn⟩

theorem Settled_skip {st : Stmt} {d' : Disk} (ht : s.todo = st :: rest) (hs : Settled { s with disk := d', todo := rest })
    (i7 : s.node.mustSync = true → st ≠ .walFlush) (i6 : s.rd.snap.isEmpty = false → st ≠ .walSync) : Settled s := by
  refine ⟨fun hf => ?_, fun hsn => ?_⟩
  · by_cases hst : st = .walFlush
    · right
      cases hm : s.node.mustSync with
      | false => rfl
      | true => exact absurd hst (i7 hm)
    · rcases hs.1 (mem_todo ht _ hst hf) with h1 | h1
      · left; exact mem_rest ht _ h1
      · right; exact h1
  · rcases hs.2 hsn with h1 | h1
    · left; exact mem_rest ht _ h1
    · right; exact fun hc => h1 (mem_todo ht _ (i6 hsn) hc)

/-- a snapshot file whose WAL record is there and whose index is committed is at most the snapshot a restart loads -/
theorem base_ge_of_valid {recs : List Rec} {files : List Snap} {v : View} (hv : replayRecs recs files = some v) {f : Snap}
    (hf : f ∈ files) (hr : (f.index, f.term) ∈ snapRecs recs) (hc : f.index ≤ v.hs.commit) : f.index ≤ v.snap.index := by
  obtain ⟨h1, h2, _⟩ := replayRecs_some hv
  rw [h2]
  apply loadNewest_ge hf
  unfold validSnaps
  rw [List.mem_filter]
  exact ⟨hr, by rw [← h1]; simpa using hc⟩

theorem inv_walFlush (h : Inv c s) (ht : s.todo = .walFlush :: rest) : Inv c { exec c s .walFlush with todo := rest } := by
  have hr := tails_eq (ht ▸ h.suf); subst hr
  have htn := trig_none h (by rw [ht]; decide)
  simp only [exec]
  split
  · refine inv_grow' (s := s) h ht (by decide) (by decide) (by decide) (fun _ => by decide)
      (fun sn hsn => by rw [htn] at hsn; cases hsn) (DiskGrows.flush _) ?_ (fun hc => absurd hc (by decide))
    intro _
    refine imgs_flush h.full ?_
    intro v hF
    exact ⟨by rw [hF.1], by rw [hF.1], VOk_true_of_false (s := { s with disk := s.disk.flush, todo := _ }) htn
      (VOk_skip ht (by decide) (by decide) false (fun sn hsn => by rw [htn] at hsn; cases hsn) v hF.2)⟩
  · rename_i hm
    exact inv_grow (s := s) h ht (by decide) (by decide) (by decide) (fun _ => ⟨by decide, by decide⟩)
      (fun hc => absurd hc hm) (fun sn hsn => by rw [htn] at hsn; cases hsn) (DiskGrows.rfl' _) (fun hc => absurd hc (by decide))

theorem inv_applySnap_empty (h : Inv c s) (ht : s.todo = .applySnap :: rest) (hsn : s.rd.snap.isEmpty = true) :
    Inv c { exec c s .applySnap with todo := rest } := by
  have hr := tails_eq (ht ▸ h.suf); subst hr
  have htn := trig_none h (by rw [ht]; decide)
  simp only [exec, hsn, if_true]
  exact inv_grow (s := s) h ht (by decide) (by decide) (by decide) (fun hc => by rw [hsn] at hc; cases hc)
    (fun _ => by decide) (fun sn hsn => by rw [htn] at hsn; cases hsn) (DiskGrows.rfl' _) (fun hc => absurd hc (by decide))

theorem inv_walSync (h : Inv c s) (ht : s.todo = .walSync :: rest) : Inv c { exec c s .walSync with todo := rest } := by
  have hr := tails_eq (ht ▸ h.suf); subst hr
  have htn := trig_none h (by rw [ht]; decide)
  simp only [exec]
  split
  · rename_i hsn
    exact inv_grow (s := s) h ht (by decide) (by decide) (by decide) (fun hc => by rw [hsn] at hc; cases hc)
      (fun _ => by decide) (fun sn hsn => by rw [htn] at hsn; cases hsn) (DiskGrows.rfl' _) (fun hc => absurd hc (by decide))
  · refine inv_grow' (s := s) h ht (by decide) (by decide) (by decide) (fun _ => by decide)
      (fun sn hsn => by rw [htn] at hsn; cases hsn) (DiskGrows.flush _) ?_ (fun hc => absurd hc (by decide))
    intro _
    refine imgs_flush h.full ?_
    intro v hF
    exact ⟨by rw [hF.1], by rw [hF.1], VOk_true_of_false (s := { s with disk := s.disk.flush, todo := _ }) htn
      (VOk_skip ht (by decide) (by decide) false (fun sn hsn => by rw [htn] at hsn; cases hsn) v hF.2)⟩

theorem inv_publishSnap_empty (h : Inv c s) (ht : s.todo = .publishSnap :: rest) (hsn : s.rd.snap.isEmpty = true) :
    Inv c { exec c s .publishSnap with todo := rest } := by
  have hr := tails_eq (ht ▸ h.suf); subst hr
  have htn := trig_none h (by rw [ht]; decide)
  simp only [exec, hsn, if_true]
  exact inv_grow (s := s) h ht (by decide) (by decide) (by decide) (fun hc => by rw [hsn] at hc; cases hc)
    (fun _ => by decide) (fun sn hsn => by rw [htn] at hsn; cases hsn) (DiskGrows.rfl' _) (fun hc => absurd hc (by decide))

theorem inv_trigWalWrite (h : Inv c s) (ht : s.todo = .trigWalWrite :: rest) : Inv c { exec c s .trigWalWrite with todo := rest } := by
  have hr := tails_eq (ht ▸ h.suf); subst hr
  simp only [exec]
  split
  · rename_i htn
    exact inv_grow (s := s) h ht (by decide) (by decide) (by decide) (fun _ => ⟨by decide, by decide⟩)
      (fun _ => by decide) (fun sn hsn => by rw [htn] at hsn; cases hsn) (DiskGrows.rfl' _) (fun hc => absurd hc (by decide))
  · rename_i sn htr
    obtain ⟨_, _, hidx, _, hfile, _⟩ := h.trigF sn htr
    have hg := DiskGrows.writeSnap s.disk sn.index sn.term
    -- the full image after the write
    obtain ⟨v, hv, hF⟩ := h.full
    rw [replay_full] at hv
    obtain ⟨v', hv', g⟩ := grow_snaprec sn.index sn.term hv
    have hbase : sn.index ≤ v'.snap.index := by
      refine base_ge_of_valid hv' hfile (by rw [snapRecs_append]; simp [snapRecs]) ?_
      rw [g.hs, hF.1, hidx]; exact h.node.appc
    have hF' : FullOk { s with disk := s.disk.write [.snap sn.index sn.term], todo := after .trigWalWrite } v' := by
      refine ⟨by rw [g.hs]; exact hF.1, (Grows.cover g (by rw [L_skip ht (by decide) (by decide)]; exact hF.2.1)), ?_, ?_⟩
      · intro _ hsn; exact Nat.le_trans (hF.2.2.1 (by rw [ht]; decide) hsn) g.snap
      · intro sn' hsn' _
        have : sn' = sn := by rw [htr] at hsn'; exact (Option.some.inj hsn').symm
        rw [this]; exact hbase
    refine inv_disk (s := s) h ht (by decide) (by decide) (L_skip ht (by decide) (by decide))
      (lastP_skip ht (by decide) (by decide) (fun _ => by decide)) (fun _ _ => by decide) (safe_grows hg h.safe) ⟨v', by rw [full_write1]; exact hv', hF'⟩ ?_ hg.files ?_ (fun hc => absurd hc (by decide))
    · intro hs
      have hs' := Settled_skip ht hs (fun _ => by decide) (fun _ => by decide)
      refine imgs_write1 (P := ImgOk s) _ (h.imgs hs') ?_ ⟨v', hv', ?_⟩
      · intro v1 hI
        exact ⟨hI.1, hI.2.1, VOk_skip ht (by decide) (by decide) true (fun _ _ => by decide) v1 hI.2.2⟩
      · exact ⟨by rw [hF'.1], by rw [hF'.1], hF'.2.1, hF'.2.2.1, fun _ _ hc => absurd (show Stmt.trigWalSync ∈ after .trigWalWrite by decide) hc⟩
    · intro sn' hsn' _
      have : sn' = sn := by rw [htr] at hsn'; exact (Option.some.inj hsn').symm
      rw [this]; exact mem_writeSnap _ _ _

theorem inv_trigWalSync (h : Inv c s) (ht : s.todo = .trigWalSync :: rest) : Inv c { exec c s .trigWalSync with todo := rest } := by
  have hr := tails_eq (ht ▸ h.suf); subst hr
  simp only [exec]
  split
  · rename_i htn
    exact inv_grow (s := s) h ht (by decide) (by decide) (by decide) (fun _ => ⟨by decide, by decide⟩)
      (fun _ => by decide) (fun sn hsn => by rw [htn] at hsn; cases hsn) (DiskGrows.rfl' _) (fun hc => absurd hc (by decide))
  · rename_i sn htr
    refine inv_grow' (s := s) h ht (by decide) (by decide) (by decide) (fun _ => by decide)
      (fun _ _ => ⟨by decide, by decide⟩) (DiskGrows.flush _) ?_ (fun hc => absurd hc (by decide))
    intro _
    refine imgs_flush h.full ?_
    intro v hF
    refine ⟨by rw [hF.1], by rw [hF.1], by rw [L_skip ht (by decide) (by decide)]; exact hF.2.1, ?_, ?_⟩
    · intro _ hsn; exact hF.2.2.1 (by rw [ht]; decide) hsn
    · intro sn' hsn' _
      exact hF.2.2.2 sn' hsn' (by rw [ht]; decide)

theorem inv_trigCompact_none (h : Inv c s) (ht : s.todo = .trigCompact :: rest) (htn : s.node.trig = none) :
    Inv c { exec c s .trigCompact with todo := rest } := by
  have hr := tails_eq (ht ▸ h.suf); subst hr
  simp only [exec, htn]
  exact inv_grow (s := s) h ht (by decide) (by decide) (by decide) (fun _ => ⟨by decide, by decide⟩)
    (fun _ => by decide) (fun sn hsn => by rw [htn] at hsn; cases hsn) (DiskGrows.rfl' _) (fun hc => absurd hc (by decide))

end ReadyLoop
