import RedisGoModel.Props.C08ReadyStmtB
/-! Preservation of `Inv`: ApplySnapshot, publishSnapshot, transport.Send, publishEntries.  Core Lean only. -/
namespace ReadyLoop

variable {c : Cfg} {s : State} {rest : List Stmt}

theorem view_le_last (v : View) : v.snap.index ≤ v.last := by unfold View.last; omega

theorem settled_late (hf : Stmt.walFlush ∉ s.todo) (hs : Stmt.walSync ∉ s.todo) : Settled s :=
  ⟨fun h => absurd h hf, fun _ => Or.inr hs⟩

theorem inv_applySnap (h : Inv c s) (ht : s.todo = .applySnap :: rest) : Inv c { exec c s .applySnap with todo := rest } := by
  by_cases hsn : s.rd.snap.isEmpty = true
  · exact inv_applySnap_empty h ht hsn
  have hsn : s.rd.snap.isEmpty = false := by simpa using hsn
  have hr := tails_eq (ht ▸ h.suf); subst hr
  have hw : Stmt.walWrite ∉ s.todo := by rw [ht]; decide
  have hp := h.post hw (by rw [ht]; simp)
  have htn := trig_none h (by rw [ht]; decide)
  obtain ⟨hcm, hents, hcomm⟩ := hp.snapc hsn
  have eL : L s = s.node := by
    unfold L; rw [if_pos ⟨hw, by rw [ht]; decide⟩, hents]; rfl
  let n' : Node := { s.node with snap := s.rd.snap, off := s.rd.snap.index, ents := [] }
  have hex : exec c s .applySnap = { s with node := n' } := by simp [exec, hsn, n']
  rw [hex]
  show Inv c { s with node := n', todo := after .applySnap }
  have eL' : L { s with node := n', todo := after .applySnap } = n' := by
    unfold L; rw [if_pos ⟨by tdec, by tdec⟩]; dsimp only; rw [hents]; rfl
  refine inv_nodeT (s := s) n' h ht hw (by decide) rfl ?_ ?_ ?_ ?_ ?_
  · intro hs
    rcases hs.2 hsn with h1 | h1
    · exact absurd h1 (by tdec)
    · exact absurd (show Stmt.walSync ∈ after .applySnap by decide) h1
  · intro b v hv
    have h1 := hv.1
    rw [eL] at h1
    have hidx := hv.2.1 hw hsn
    refine ⟨?_, fun _ _ => hidx, fun sn hs2 => by rw [htn] at hs2; cases hs2⟩
    rw [eL']
    have hs3 : s.node.snapIndex ≤ v.snap.index := cover_snap h1
    refine cover_intro (fun e he => by have h0 : e ∈ ([] : List Entry) := he; simp at h0) ?_ hs3
    show s.rd.snap.index + 0 ≤ v.last
    have := view_le_last v; omega
  · exact { contig := contig_nil _, offc := hcm, appc := h.node.appc, ws := h.node.ws }
  · intro _
    exact
      { snapc := fun _ => ⟨hcm, hents, hcomm⟩
        appendF := fun _ => by
          show Chain s.rd.ents ∧ _
          rw [hents]; exact ⟨trivial, fun e he => by simp at he⟩
        sendF := fun _ => by
          have h2 := hp.sendF (by rw [ht]; decide)
          have e1 : lastP s = s.rd.snap.index := by unfold lastP; rw [if_pos ⟨hsn, by rw [ht]; decide⟩]
          have e2 : lastP { s with node := n', todo := after .applySnap } = s.rd.snap.index := by
            unfold lastP; rw [if_neg (fun hc => absurd hc.2 (by tdec)), eL']; rfl
          rw [e2]; rw [e1] at h2; exact h2
        pubF := fun _ => by
          show ∀ e ∈ s.rd.committed, _
          rw [hcomm]; intro e he; simp at he }
  · intro sn hs2; rw [htn] at hs2; cases hs2

theorem inv_publishSnap (h : Inv c s) (ht : s.todo = .publishSnap :: rest) : Inv c { exec c s .publishSnap with todo := rest } := by
  by_cases hsn : s.rd.snap.isEmpty = true
  · exact inv_publishSnap_empty h ht hsn
  have hsn : s.rd.snap.isEmpty = false := by simpa using hsn
  have hr := tails_eq (ht ▸ h.suf); subst hr
  have hw : Stmt.walWrite ∉ s.todo := by rw [ht]; decide
  have hp := h.post hw (by rw [ht]; simp)
  have htn := trig_none h (by rw [ht]; decide)
  obtain ⟨hcm, hents, hcomm⟩ := hp.snapc hsn
  have hset : Settled s := settled_late (by rw [ht]; decide) (by rw [ht]; decide)
  have eL : L s = s.node := by
    unfold L; rw [if_pos ⟨hw, by rw [ht]; decide⟩, hents]; rfl
  let n' : Node := { s.node with conf := s.rd.snap.conf, snapIndex := s.rd.snap.index, applied := s.rd.snap.index }
  let o' : List Promise := s.owed ++ [.snap s.rd.snap.index]
  let ps' : List (Nat × Nat) := s.pubSnaps ++ [(s.rd.snap.index, s.rd.snap.term)]
  have hex : exec c s .publishSnap = { s with pubSnaps := ps', owed := o', node := n' } := by simp [exec, hsn, n', o', ps']
  rw [hex]
  show Inv c { s with node := n', todo := after .publishSnap, owed := o', sent := s.sent, published := s.published, pubSnaps := ps' }
  have eL' : L { s with node := n', todo := after .publishSnap } = n' := by
    unfold L; rw [if_pos ⟨by tdec, by tdec⟩]; dsimp only; rw [hents]; rfl
  have h1 : Inv c { s with node := n', todo := after .publishSnap } := by
    refine inv_nodeT (s := s) n' h ht hw (by decide) rfl (fun _ => hset) ?_ ?_ ?_ ?_
    · intro b v hv
      have hc := hv.1
      rw [eL] at hc
      have hidx := hv.2.1 hw hsn
      refine ⟨?_, fun _ _ => hidx, fun sn hs2 => by rw [htn] at hs2; cases hs2⟩
      rw [eL']
      have hr3 : s.node.last ≤ v.last := cover_reach hc
      exact cover_intro (fun e he => cover_ent hc he) hr3 hidx
    · exact { contig := h.node.contig, offc := h.node.offc, appc := hcm, ws := h.node.ws }
    · intro _
      exact
        { snapc := fun _ => ⟨hcm, hents, hcomm⟩
          appendF := fun _ => hp.appendF (by rw [ht]; decide)
          sendF := fun _ => by
            have h2 := hp.sendF (by rw [ht]; decide)
            have e1 : lastP s = s.node.last := by unfold lastP; rw [if_neg (fun hc => absurd hc.2 (by rw [ht]; decide)), eL]
            have e2 : lastP { s with node := n', todo := after .publishSnap } = s.node.last := by
              unfold lastP; rw [if_neg (fun hc => absurd hc.2 (by tdec)), eL']; rfl
            rw [e2]; rw [e1] at h2; exact h2
          pubF := fun _ => by
            show ∀ e ∈ s.rd.committed, _
            rw [hcomm]; intro e he; simp at he }
    · intro sn hs2; exact absurd hs2 (by show s.node.trig ≠ some sn; rw [htn]; simp)
  refine inv_owe (s := { s with node := n', todo := after .publishSnap }) o' s.sent s.published ps' h1 (by tdec) ?_ ?_
  · intro p hp
    rcases List.mem_append.mp hp with hp | hp
    · left; exact hp
    · right
      simp at hp; subst hp
      intro k v hv
      obtain ⟨v', hv', hI⟩ := h.imgs hset k
      have : v' = v := by
        have h3 : replay s.disk k = some v := hv
        rw [hv'] at h3; exact Option.some.inj h3
      subst this
      exact hI.2.2.2.1 hw hsn
  · intro t hc
    rcases List.mem_append.mp hc with hc | hc
    · exact h.novote0 t hc
    · simp at hc

end ReadyLoop
