import RedisGoModel.Props.C06TBase
/-! C06 table congruence: KEYS.  The reply is the *sorted* list of the matching live keys, so two keyspaces with the same live view
    (as lookup functions) but different physical order answer the same: the key lists are permutations of each other and
    `sortBytes` is insertion sort by a strict total order. -/
namespace Exec.C06T
open Resp (Reply Bytes)
open Exec

theorem bytesLt_asymm : ∀ (a b : Bytes), bytesLt a b = true → bytesLt b a = false
| [], [], h => by simp [bytesLt] at h
| [], _ :: _, _ => by simp [bytesLt]
| _ :: _, [], h => by simp [bytesLt] at h
| x :: xs, y :: ys, h => by
  unfold bytesLt at h ⊢
  by_cases h1 : x < y
  · have h2 : ¬ y < x := UInt8.lt_asymm h1
    simp [h1, h2]
  · by_cases h2 : y < x
    · simp [h1, h2] at h
    · simp only [h1, h2, if_false] at h ⊢
      exact bytesLt_asymm xs ys h

theorem bytesLt_tricho : ∀ (a b : Bytes), bytesLt a b = false → bytesLt b a = false → a = b
| [], [], _, _ => rfl
| [], _ :: _, h, _ => by simp [bytesLt] at h
| _ :: _, [], _, h => by simp [bytesLt] at h
| x :: xs, y :: ys, h, h' => by
  unfold bytesLt at h h'
  by_cases h1 : x < y
  · simp [h1] at h
  · by_cases h2 : y < x
    · simp [h2] at h'
    · simp only [h1, h2, if_false] at h h'
      have : x = y := UInt8.le_antisymm (UInt8.not_lt.mp h2) (UInt8.not_lt.mp h1)
      rw [this, bytesLt_tricho xs ys h h']

/-- `le a b` := `¬ b < a` is transitive -/
theorem bytesLe_trans : ∀ (a b c : Bytes), bytesLt b a = false → bytesLt c b = false → bytesLt c a = false
| [], _, [], _, _ => by simp [bytesLt]
| [], _, _ :: _, _, _ => by simp [bytesLt]
| _ :: _, [], _, h, _ => by simp [bytesLt] at h
| _ :: _, _ :: _, [], _, h => by simp [bytesLt] at h
| x :: xs, y :: ys, z :: zs, h, h' => by
  unfold bytesLt at h h' ⊢
  by_cases h1 : y < x
  · simp [h1] at h
  · by_cases h2 : z < y
    · simp [h2] at h'
    · by_cases h3 : x < y
      · by_cases h4 : y < z
        · have : x < z := UInt8.lt_trans h3 h4
          simp [this, UInt8.lt_asymm this]
        · have : y = z := UInt8.le_antisymm (UInt8.not_lt.mp h2) (UInt8.not_lt.mp h4)
          subst this
          simp [h3, h1]
      · have hxy : x = y := UInt8.le_antisymm (UInt8.not_lt.mp h1) (UInt8.not_lt.mp h3)
        subst hxy
        by_cases h4 : x < z
        · simp [h4, h2]
        · simp only [h1, h2, h4, if_false] at h h' ⊢
          exact bytesLe_trans xs ys zs h h'

def bLe (a b : Bytes) : Prop := bytesLt b a = false

theorem insertSorted_perm (x : Bytes) : ∀ (l : List Bytes), (insertSorted bytesLt x l).Perm (x :: l)
| [] => by simp [insertSorted]
| y :: ys => by
  unfold insertSorted
  split
  · exact List.Perm.refl _
  · exact ((insertSorted_perm x ys).cons y).trans (List.Perm.swap x y ys)

theorem insertSorted_sorted (x : Bytes) : ∀ (l : List Bytes), l.Pairwise bLe → (insertSorted bytesLt x l).Pairwise bLe
| [], _ => by simp [insertSorted]
| y :: ys, h => by
  unfold insertSorted
  rw [List.pairwise_cons] at h
  split
  · rename_i hlt
    rw [List.pairwise_cons]
    refine ⟨?_, List.pairwise_cons.mpr h⟩
    intro z hz
    have hxy : bLe x y := bytesLt_asymm x y hlt
    rcases List.mem_cons.mp hz with rfl | hz
    · exact hxy
    · exact bytesLe_trans x y z hxy (h.1 z hz)
  · rename_i hlt
    rw [List.pairwise_cons]
    refine ⟨?_, insertSorted_sorted x ys h.2⟩
    intro z hz
    have := (insertSorted_perm x ys).subset hz
    rcases List.mem_cons.mp this with rfl | hz
    · simpa [bLe] using hlt
    · exact h.1 z hz

theorem sortBytes_perm : ∀ (l : List Bytes), (sortBytes l).Perm l
| [] => by simp [sortBytes, sortBy]
| x :: xs => by
  have ih := sortBytes_perm xs
  unfold sortBytes sortBy at ih ⊢
  rw [List.foldr_cons]
  exact (insertSorted_perm x _).trans (ih.cons x)

theorem sortBytes_sorted : ∀ (l : List Bytes), (sortBytes l).Pairwise bLe
| [] => by simp [sortBytes, sortBy]
| x :: xs => by
  have ih := sortBytes_sorted xs
  unfold sortBytes sortBy at ih ⊢
  rw [List.foldr_cons]
  exact insertSorted_sorted x _ ih

/-- sorting forgets the order of the input -/
theorem sortBytes_of_perm {l₁ l₂ : List Bytes} (h : l₁.Perm l₂) : sortBytes l₁ = sortBytes l₂ := by
  refine List.Perm.eq_of_pairwise (le := bLe) ?_ (sortBytes_sorted l₁) (sortBytes_sorted l₂)
    ((sortBytes_perm l₁).trans (h.trans (sortBytes_perm l₂).symm))
  intro x y _ _ hxy hyx
  exact bytesLt_tricho x y hyx hxy

theorem mem_keys_iff (db : Db) (k : Bytes) : k ∈ db.keys ↔ (db.get k).isSome = true := by
  unfold Db.keys Db.get
  rw [Option.isSome_map, List.find?_isSome]
  constructor
  · intro h
    obtain ⟨p, hp, rfl⟩ := List.mem_map.mp h
    exact ⟨p, hp, by simp⟩
  · rintro ⟨p, hp, he⟩
    exact List.mem_map.mpr ⟨p, hp, by simpa using he⟩

theorem live_wf {db : Db} (h : db.WF) (now : Int) : (live db now).WF := by
  unfold Db.WF live at *
  exact List.Nodup.sublist (List.Sublist.map _ List.filter_sublist) h

theorem live_idem (db : Db) (now : Int) : live (live db now) now = live db now := by
  unfold live; rw [List.filter_filter]; congr 1; funext p; simp

theorem c_keys : CmdOk cmdKeys := by
  intro env a b args hs; unfold cmdKeys; split
  · rename_i pat
    have hperm : (live a env.now).keys.Perm (live b env.now).keys := by
      refine (List.perm_ext_iff_of_nodup (l₁ := (live a env.now).keys) (l₂ := (live b env.now).keys)
        (live_wf hs.wfa _) (live_wf hs.wfb _)).mpr ?_
      intro k
      rw [mem_keys_iff, mem_keys_iff, hs.live k]
    refine ⟨?_, live_wf hs.wfa _, live_wf hs.wfb _, ?_⟩
    · show bulks _ = bulks _
      rw [sortBytes_of_perm (hperm.filter _)]
    · intro k
      rw [live_idem, live_idem]; exact hs.live k
  · c06_pair

end Exec.C06T
