import RedisGoModel.Ds.ZTree
/-! C12, balance part: `ZT.insert` and `ZT.del` (the model of btree.go's `insert` / `deleteNode` + `rebalance`, the functions the
    driver runs) keep the tree height-balanced with exact stored heights.  Adapted from the design prototype Ds/Avl.lean to the
    tree whose nodes carry name sets and whose keys are integer score keys. -/
namespace ZT
open T

/-- AVL with exact stored heights -/
inductive IsAvl : T → Nat → Prop
| nil : IsAvl nil 0
| node {l r k ns h hl hr} : IsAvl l hl → IsAvl r hr → hl ≤ hr + 1 → hr ≤ hl + 1 → h = max hl hr + 1 → IsAvl (node l k ns h r) h

theorem IsAvl.ht_eq {t h} (a : IsAvl t h) : ht t = h := by cases a <;> rfl

theorem isAvl_mk {l r : T} {hl hr : Nat} (k : Int) (ns : List Bytes) (a : IsAvl l hl) (b : IsAvl r hr) (h1 : hl ≤ hr + 1)
    (h2 : hr ≤ hl + 1) : IsAvl (mk l k ns r) (max hl hr + 1) := by
  unfold mk
  rw [a.ht_eq, b.ht_eq]
  exact .node a b h1 h2 rfl

/-! rotation lemmas, each with the exact height bookkeeping (hr = height of the untouched sibling) -/

theorem avl_LL {a b r : T} {k' k : Int} {ns' ns : List Bytes} {hr : Nat} (aa : IsAvl a (hr + 1)) (ab : IsAvl b hr)
    (ar : IsAvl r hr) : IsAvl (rotR (mk (node a k' ns' (hr + 2) b) k ns r)) (hr + 2) := by
  have B := isAvl_mk k ns ab ar (by omega) (by omega)
  have C := isAvl_mk k' ns' aa B (by omega) (by omega)
  simp only [mk, rotR]
  have : max (hr + 1) (max hr hr + 1) + 1 = hr + 2 := by omega
  rw [this] at C
  simpa [mk, aa.ht_eq, ab.ht_eq, ar.ht_eq] using C

theorem avl_LR {a bl br r : T} {k' bk k : Int} {ns' bns ns : List Bytes} {hr hc hd : Nat} (aa : IsAvl a hr) (ac : IsAvl bl hc)
    (ad : IsAvl br hd) (ar : IsAvl r hr) (h1 : hc ≤ hr) (h2 : hd ≤ hr) (h3 : hr = max hc hd) (h4 : hc ≤ hd + 1)
    (h5 : hd ≤ hc + 1) :
    IsAvl (rotR (mk (rotL (node a k' ns' (hr + 2) (node bl bk bns (hr + 1) br))) k ns r)) (hr + 2) := by
  have A := isAvl_mk k' ns' aa ac (by omega) (by omega)
  have B := isAvl_mk k ns ad ar (by omega) (by omega)
  have C := isAvl_mk bk bns A B (by omega) (by omega)
  have : max (max hr hc + 1) (max hd hr + 1) + 1 = hr + 2 := by omega
  rw [this] at C
  simpa [mk, rotL, rotR, ht, aa.ht_eq, ac.ht_eq, ad.ht_eq, ar.ht_eq] using C

theorem avl_RR {l a b : T} {k k' : Int} {ns ns' : List Bytes} {hl : Nat} (al : IsAvl l hl) (aa : IsAvl a hl)
    (ab : IsAvl b (hl + 1)) : IsAvl (rotL (mk l k ns (node a k' ns' (hl + 2) b))) (hl + 2) := by
  have A := isAvl_mk k ns al aa (by omega) (by omega)
  have C := isAvl_mk k' ns' A ab (by omega) (by omega)
  simp only [mk, rotL]
  have : max (max hl hl + 1) (hl + 1) + 1 = hl + 2 := by omega
  rw [this] at C
  simpa [mk, al.ht_eq, aa.ht_eq, ab.ht_eq] using C

theorem avl_RL {l bl br b : T} {k bk k' : Int} {ns bns ns' : List Bytes} {hl hc hd : Nat} (al : IsAvl l hl) (ac : IsAvl bl hc)
    (ad : IsAvl br hd) (ab : IsAvl b hl) (h1 : hc ≤ hl) (h2 : hd ≤ hl) (h3 : hl = max hc hd) (h4 : hc ≤ hd + 1)
    (h5 : hd ≤ hc + 1) :
    IsAvl (rotL (mk l k ns (rotR (node (node bl bk bns (hl + 1) br) k' ns' (hl + 2) b)))) (hl + 2) := by
  have A := isAvl_mk k ns al ac (by omega) (by omega)
  have B := isAvl_mk k' ns' ad ab (by omega) (by omega)
  have C := isAvl_mk bk bns A B (by omega) (by omega)
  have : max (max hl hc + 1) (max hd hl + 1) + 1 = hl + 2 := by omega
  rw [this] at C
  simpa [mk, rotL, rotR, ht, al.ht_eq, ac.ht_eq, ad.ht_eq, ab.ht_eq] using C

/-- insertion: the result is AVL; the height is unchanged or +1; if it grew and the tree was non-empty, the side that received
    the score is the strictly higher one — this is what selects single vs double rotation one level up -/
theorem insert_avl_aux (x : Int) (m : Bytes) : ∀ (t : T) (h : Nat), IsAvl t h →
    ∃ h', IsAvl (insert t x m) h' ∧ (h' = h ∨ h' = h + 1) ∧
      (h' = h + 1 → h ≠ 0 →
          ((x < keyOf (insert t x m) ∧ ht (lft (insert t x m)) = ht (rgt (insert t x m)) + 1) ∨
           (keyOf (insert t x m) < x ∧ ht (rgt (insert t x m)) = ht (lft (insert t x m)) + 1))) := by
  intro t
  induction t with
  | nil =>
    intro h a
    cases a
    exact ⟨1, .node .nil .nil (by omega) (by omega) (by simp), Or.inr rfl, fun _ h0 => absurd rfl h0⟩
  | node l k ns hh r ihl ihr =>
    intro h a
    cases a with
    | node al ar b1 b2 e =>
    rename_i hl hr
    simp only [insert]
    by_cases hlt : x < k
    · simp only [hlt, if_true]
      obtain ⟨hl', al', hch, hside⟩ := ihl hl al
      rw [al'.ht_eq, ar.ht_eq]
      by_cases hrot : hl' > hr + 1
      · simp only [hrot, if_true]
        have hgrow : hl' = hl + 1 := by omega
        have hl0 : hl ≠ 0 := by omega
        have side := hside hgrow hl0
        generalize insert l x m = t' at al' side ⊢
        cases al' with
        | nil => omega
        | node aa ab c1 c2 e' =>
        rename_i a' b' k' ns' ha hb
        have e1 := aa.ht_eq; have e3 := ab.ht_eq
        simp only [keyOf, lft, rgt, e1, e3] at side
        simp only [keyOf]
        have hhr : hl' = hr + 2 := by omega
        subst hhr
        refine ⟨hr + 2, ?_, Or.inl (by omega), fun hg => by omega⟩
        rcases side with ⟨sx, sh⟩ | ⟨sx, sh⟩
        · simp only [sx, if_true]
          obtain rfl : hb = hr := by omega
          obtain rfl : ha = hb + 1 := by omega
          exact avl_LL aa ab ar
        · have hnx : ¬ x < k' := by omega
          simp only [hnx, if_false]
          obtain rfl : ha = hr := by omega
          obtain rfl : hb = ha + 1 := by omega
          cases ab with
          | node ac ad d1 d2 e'' =>
          rename_i bl br bk bns hc hd
          exact avl_LR aa ac ad ar (by omega) (by omega) (by omega) d1 d2
      · simp only [hrot, if_false]
        have h1 : hl' ≤ hr + 1 := by omega
        have N := isAvl_mk k ns al' ar h1 (by omega)
        refine ⟨max hl' hr + 1, by simpa [mk, al'.ht_eq, ar.ht_eq] using N, by omega, ?_⟩
        intro hg _
        left
        simp only [mk, keyOf, lft, rgt, al'.ht_eq, ar.ht_eq]
        exact ⟨hlt, by omega⟩
    · simp only [hlt, if_false]
      by_cases hgt : k < x
      · simp only [hgt, if_true]
        obtain ⟨hr', ar', hch, hside⟩ := ihr hr ar
        rw [ar'.ht_eq, al.ht_eq]
        by_cases hrot : hr' > hl + 1
        · simp only [hrot, if_true]
          have hgrow : hr' = hr + 1 := by omega
          have hr0 : hr ≠ 0 := by omega
          have side := hside hgrow hr0
          generalize insert r x m = t' at ar' side ⊢
          cases ar' with
          | nil => omega
          | node aa ab c1 c2 e' =>
          rename_i a' b' k' ns' ha hb
          have e1 := aa.ht_eq; have e3 := ab.ht_eq
          simp only [keyOf, lft, rgt, e1, e3] at side
          simp only [keyOf]
          have hhr : hr' = hl + 2 := by omega
          subst hhr
          refine ⟨hl + 2, ?_, Or.inl (by omega), fun hg => by omega⟩
          rcases side with ⟨sx, sh⟩ | ⟨sx, sh⟩
          · have hnx : ¬ k' < x := by omega
            simp only [hnx, if_false]
            obtain rfl : hb = hl := by omega
            obtain rfl : ha = hb + 1 := by omega
            cases aa with
            | node ac ad d1 d2 e'' =>
            rename_i bl br bk bns hc hd
            exact avl_RL al ac ad ab (by omega) (by omega) (by omega) d1 d2
          · simp only [sx, if_true]
            obtain rfl : ha = hl := by omega
            obtain rfl : hb = ha + 1 := by omega
            exact avl_RR al aa ab
        · simp only [hrot, if_false]
          have h1 : hr' ≤ hl + 1 := by omega
          have N := isAvl_mk k ns al ar' (by omega) h1
          refine ⟨max hl hr' + 1, by simpa [mk, al.ht_eq, ar'.ht_eq] using N, by omega, ?_⟩
          intro hg _
          right
          simp only [mk, keyOf, lft, rgt, al.ht_eq, ar'.ht_eq]
          exact ⟨hgt, by omega⟩
      · simp only [hgt, if_false]
        exact ⟨_, .node al ar b1 b2 e, Or.inl rfl, fun hg => by omega⟩

/-- `insert` keeps the tree AVL (balance factor within ±1 at every node, stored heights exact) -/
theorem insert_avl (t : T) (h : Nat) (x : Int) (m : Bytes) (a : IsAvl t h) : ∃ h', IsAvl (insert t x m) h' :=
  let ⟨h', a', _⟩ := insert_avl_aux x m t h a
  ⟨h', a'⟩

/-! ### deletion -/

theorem rebalance_avl {l r : T} {hl hr : Nat} (k : Int) (ns : List Bytes) (al : IsAvl l hl) (ar : IsAvl r hr)
    (h1 : hl ≤ hr + 2) (h2 : hr ≤ hl + 2) :
    ∃ h', IsAvl (rebalance l k ns r) h' ∧
      (h' = max hl hr + 1 ∨ (h' = max hl hr ∧ (hl = hr + 2 ∨ hr = hl + 2))) := by
  unfold rebalance
  rw [al.ht_eq, ar.ht_eq]
  by_cases hL : hl > hr + 1
  · simp only [hL, if_true]
    have hl2 : hl = hr + 2 := by omega
    subst hl2
    cases al with
    | node aa ab c1 c2 e =>
    rename_i a b k' ns' ha hb
    simp only [balL, lft, rgt, aa.ht_eq, ab.ht_eq]
    by_cases hb0 : ha ≥ hb
    · -- single right rotation
      simp only [hb0, decide_true, if_true, rotR, mk]
      have ha1 : ha = hr + 1 := by omega
      subst ha1
      have B := isAvl_mk k ns ab ar (by omega) (by omega)
      have C := isAvl_mk k' ns' aa B (by omega) (by omega)
      refine ⟨_, by simpa [mk, aa.ht_eq, ab.ht_eq, ar.ht_eq] using C, ?_⟩
      have hcase : hb = hr + 1 ∨ hb = hr := by omega
      rcases hcase with rfl | rfl
      · left; omega
      · right; constructor
        · omega
        · first | trivial | (left; rfl) | simp
    · -- double rotation
      have hb0' : ¬ ha ≥ hb := hb0
      simp only [hb0', decide_false, if_false]
      have hb1 : hb = hr + 1 := by omega
      have ha1 : ha = hr := by omega
      subst hb1 ha1
      cases ab with
      | node ac ad d1 d2 e'' =>
      rename_i bl br bk bns hc hd
      have A := isAvl_mk k' ns' aa ac (by omega) (by omega)
      have B := isAvl_mk k ns ad ar (by omega) (by omega)
      have C := isAvl_mk bk bns A B (by omega) (by omega)
      refine ⟨max (max ha hc + 1) (max hd ha + 1) + 1, ?_, ?_⟩
      · simpa [mk, rotL, rotR, ht, aa.ht_eq, ac.ht_eq, ad.ht_eq, ar.ht_eq, A.ht_eq, B.ht_eq] using C
      · right; constructor
        · omega
        · first | trivial | (left; rfl) | simp
  · simp only [hL, if_false]
    by_cases hR : hr > hl + 1
    · simp only [hR, if_true]
      have hr2 : hr = hl + 2 := by omega
      subst hr2
      cases ar with
      | node aa ab c1 c2 e =>
      rename_i a b k' ns' ha hb
      simp only [balR, lft, rgt, aa.ht_eq, ab.ht_eq]
      by_cases hb0 : hb ≥ ha
      · simp only [hb0, decide_true, if_true, rotL, mk]
        have hb1 : hb = hl + 1 := by omega
        subst hb1
        have A := isAvl_mk k ns al aa (by omega) (by omega)
        have C := isAvl_mk k' ns' A ab (by omega) (by omega)
        refine ⟨_, by simpa [mk, al.ht_eq, aa.ht_eq, ab.ht_eq] using C, ?_⟩
        have hcase : ha = hl + 1 ∨ ha = hl := by omega
        rcases hcase with rfl | rfl
        · left; omega
        · right; constructor
          · omega
          · first | trivial | (right; rfl) | simp
      · have hb0' : ¬ hb ≥ ha := hb0
        simp only [hb0', decide_false, if_false]
        have ha1 : ha = hl + 1 := by omega
        have hb1 : hb = hl := by omega
        subst ha1 hb1
        cases aa with
        | node ac ad d1 d2 e'' =>
        rename_i bl br bk bns hc hd
        have A := isAvl_mk k ns al ac (by omega) (by omega)
        have B := isAvl_mk k' ns' ad ab (by omega) (by omega)
        have C := isAvl_mk bk bns A B (by omega) (by omega)
        refine ⟨max (max hb hc + 1) (max hd hb + 1) + 1, ?_, ?_⟩
        · simpa [mk, rotL, rotR, ht, al.ht_eq, ac.ht_eq, ad.ht_eq, ab.ht_eq, A.ht_eq, B.ht_eq] using C
        · right; constructor
          · omega
          · first | trivial | (right; rfl) | simp
    · simp only [hR, if_false]
      have N := isAvl_mk k ns al ar (by omega) (by omega)
      exact ⟨_, by simpa [mk, al.ht_eq, ar.ht_eq] using N, Or.inl rfl⟩

/-- the structural removal of a node (leaf / one child / two children with the successor moved up) -/
def unlink (l r : T) : T :=
  match l, r with
  | nil, _ => r
  | _, nil => l
  | _, _ => rebalance l (minNode r).1 (minNode r).2 (del r (minNode r).1 none)

theorem del_node_eq (l : T) (k : Int) (ns : List Bytes) (h : Nat) (r : T) (x : Int) (o : Option Bytes) :
    del (node l k ns h r) x o =
      if x < k then rebalance (del l x o) k ns r
      else if k < x then rebalance l k ns (del r x o)
      else match o with
        | some m => if ns.length ≤ 1 then unlink l r else node l k (ns.erase m) h r
        | none => unlink l r := by
  simp only [del, unlink]
  split
  · rfl
  · split
    · rfl
    · cases o <;> rfl

/-- deletion keeps the tree AVL with exact heights; the height stays or drops by one -/
theorem del_avl_aux : ∀ (t : T) (x : Int) (o : Option Bytes) (h : Nat), IsAvl t h →
    ∃ h', IsAvl (del t x o) h' ∧ (h' = h ∨ h' + 1 = h) := by
  intro t
  induction t with
  | nil => intro x o h a; cases a; exact ⟨0, .nil, Or.inl rfl⟩
  | node l k ns hh r ihl ihr =>
    intro x o h a
    rw [del_node_eq]
    cases a with
    | node al ar b1 b2 e =>
    rename_i hl hr
    have hunlink : ∃ h', IsAvl (unlink l r) h' ∧ (h' = hh ∨ h' + 1 = hh) := by
      cases al with
      | nil =>
        refine ⟨hr, ar, ?_⟩
        omega
      | node al1 al2 c1 c2 e1 =>
        rename_i ll lr lk lns hl1 hl2
        cases ar with
        | nil =>
          refine ⟨_, .node al1 al2 c1 c2 e1, ?_⟩
          omega
        | node ar1 ar2 d1 d2 e2 =>
          rename_i rl rr rk rns hr1 hr2
          simp only [unlink]
          obtain ⟨hr', ar', hch⟩ := ihr (minNode (node rl rk rns hr rr)).1 none hr (.node ar1 ar2 d1 d2 e2)
          obtain ⟨h', av, hh'⟩ := rebalance_avl (minNode (node rl rk rns hr rr)).1 (minNode (node rl rk rns hr rr)).2
            (.node al1 al2 c1 c2 e1) ar' (by omega) (by omega)
          refine ⟨h', av, ?_⟩
          rcases hch with rfl | hch <;> rcases hh' with hh' | ⟨hh', hq⟩ <;> omega
    by_cases hlt : x < k
    · simp only [hlt, if_true]
      obtain ⟨hl', al', hch⟩ := ihl x o hl al
      obtain ⟨h', av, hh'⟩ := rebalance_avl k ns al' ar (by omega) (by omega)
      refine ⟨h', av, ?_⟩
      rcases hch with rfl | hch <;> rcases hh' with hh' | ⟨hh', hq⟩ <;> omega
    · simp only [hlt, if_false]
      by_cases hgt : k < x
      · simp only [hgt, if_true]
        obtain ⟨hr', ar', hch⟩ := ihr x o hr ar
        obtain ⟨h', av, hh'⟩ := rebalance_avl k ns al ar' (by omega) (by omega)
        refine ⟨h', av, ?_⟩
        rcases hch with rfl | hch <;> rcases hh' with hh' | ⟨hh', hq⟩ <;> omega
      · simp only [hgt, if_false]
        cases o with
        | none => exact hunlink
        | some m =>
          simp only
          split
          · exact hunlink
          · exact ⟨hh, .node al ar b1 b2 e, Or.inl rfl⟩

/-- `del` keeps the tree AVL -/
theorem del_avl (t : T) (h : Nat) (x : Int) (o : Option Bytes) (a : IsAvl t h) : ∃ h', IsAvl (del t x o) h' :=
  let ⟨h', a', _⟩ := del_avl_aux t x o h a
  ⟨h', a'⟩

end ZT
