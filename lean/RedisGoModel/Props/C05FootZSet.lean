import RedisGoModel.Props.C05FootBase
/-! C05 footprint theorems: sorted-set and stream commands (`zsetTable`, `streamTable`) -/
namespace Exec.Foot
open Resp (Reply Bytes)
open Exec

theorem t_zadd : CmdFoot cmdZAdd (fpKge4 true) := by
  intro env args; unfold fpKge4; split
  · ft_keys_w cmdZAdd
  · unfold cmdZAdd; ft_none
theorem t_zrem : CmdFoot cmdZRem (fpKge3 true) := by
  intro env args; unfold fpKge3; split
  · ft_keys_w cmdZRem
  · unfold cmdZRem; ft_none
theorem t_zrange : CmdFoot cmdZRange (fpKge4 false) := by
  intro env args; unfold fpKge4; split
  · ft_keys_r cmdZRange
  · unfold cmdZRange; ft_none
theorem t_zrank : CmdFoot cmdZRank (fpK3 false) := by
  intro env args; unfold fpK3; split
  · ft_keys_r cmdZRank
  · unfold cmdZRank; ft_none
theorem t_xadd : CmdFoot cmdXAdd fpXAdd := by
  intro env args; unfold fpXAdd; split
  · split
    · unfold cmdXAdd; ft_none
    · ft_keys_w cmdXAdd xaddTo
  · unfold cmdXAdd; ft_none
theorem t_xrange : CmdFoot cmdXRange (fpKge4 false) := by
  intro env args; unfold fpKge4; split
  · ft_keys_r cmdXRange
  · unfold cmdXRange; ft_none

end Exec.Foot
