import RedisGoModel.Props.C16Snap
/-! C16: the payload messages of the WAL records round-trip through the generated `Unmarshal` loop (`parseMsg`):
    `raftpb.Entry`, `raftpb.HardState`, `walpb.Snapshot`. Used by C16ReadAll.lean ("unmodified"). -/
namespace WalFile
open WalCodec

/-- one varint field (wire type 0) of a message whose descriptor knows it -/
theorem pstep_v (desc : List (Nat × Nat)) (tag f : Nat) (htag : tag < 128) (hw : tag % 8 = 0)
    (hf : fieldNum tag = some f) (hk : lookupKind desc f = some 0) (fuel : Nat) (acc : List (Nat × PVal)) (v : Nat)
    (hv : v < 2 ^ 64) (rest : Bytes) :
    parseMsgAux desc (fuel + 1) acc (UInt8.ofNat tag :: (encVarint v ++ rest)) =
      parseMsgAux desc fuel ((f, .vint v) :: acc) rest := by
  rw [parseMsgAux, if_neg (by simp), tag_byte tag htag]
  simp [varint_roundtrip v hv, hf, hk, hw]

/-- one length-delimited field (wire type 2) -/
theorem pstep_b (desc : List (Nat × Nat)) (tag f : Nat) (htag : tag < 128) (hw : tag % 8 = 2)
    (hf : fieldNum tag = some f) (hk : lookupKind desc f = some 2) (fuel : Nat) (acc : List (Nat × PVal)) (d : Bytes)
    (hd : d.length < 2 ^ 63) (rest : Bytes) :
    parseMsgAux desc (fuel + 1) acc (UInt8.ofNat tag :: (encVarint d.length ++ (d ++ rest))) =
      parseMsgAux desc fuel ((f, .vbytes d) :: acc) rest := by
  rw [parseMsgAux, if_neg (by simp), tag_byte tag htag]
  have hd' : ¬ (9223372036854775808 ≤ d.length) := by
    have : (2 : Nat) ^ 63 = 9223372036854775808 := by decide
    omega
  simp [varint_roundtrip d.length (Nat.lt_trans hd (by decide)), hd', hf, hk, hw]

theorem pstep_end (desc : List (Nat × Nat)) (fuel : Nat) (acc : List (Nat × PVal)) :
    parseMsgAux desc (fuel + 1) acc [] = .ok acc := by
  rw [parseMsgAux, if_pos rfl]

theorem fieldNum_24 : fieldNum 24 = some 3 := by decide
theorem fieldNum_34 : fieldNum 34 = some 4 := by decide

def entryDesc : List (Nat × Nat) := [(1, 0), (2, 0), (3, 0), (4, 2)]
def hsDesc : List (Nat × Nat) := [(1, 0), (2, 0), (3, 0)]
def wsnapDesc : List (Nat × Nat) := [(1, 0), (2, 0), (3, 2)]

/-- what fits the wire: uint64 term/index, int32 enum type (as its uint32 image), payload below 2^63 bytes -/
def EntryOk (e : Entry) : Prop :=
  e.type < 2 ^ 32 ∧ e.term < 2 ^ 64 ∧ e.index < 2 ^ 64 ∧ ∀ d, e.data = some d → d.length < 2 ^ 63

def HSOk (s : HardState) : Prop := s.term < 2 ^ 64 ∧ s.vote < 2 ^ 64 ∧ s.commit < 2 ^ 64

def WSnapOk (s : WSnap) : Prop := s.index < 2 ^ 64 ∧ s.term < 2 ^ 64 ∧ ∀ d, s.conf = some d → d.length < 2 ^ 63

theorem optField_parse (desc : List (Nat × Nat)) (tag f : Nat) (htag : tag < 128) (hw : tag % 8 = 2)
    (hf : fieldNum tag = some f) (hk : lookupKind desc f = some 2) (fuel : Nat) (acc : List (Nat × PVal))
    (d : Option Bytes) (hd : ∀ x, d = some x → x.length < 2 ^ 63) :
    parseMsgAux desc (fuel + 2) acc (optField (UInt8.ofNat tag) d) =
      .ok (match d with | none => acc | some x => (f, .vbytes x) :: acc) := by
  cases d with
  | none => exact pstep_end desc (fuel + 1) acc
  | some x =>
    have := pstep_b desc tag f htag hw hf hk (fuel + 1) acc x (hd x rfl) []
    simp only [List.append_nil] at this
    simp only [optField, List.cons_append, List.nil_append]
    rw [this, pstep_end]

/-- **`Entry.Unmarshal ∘ Entry.Marshal = id`** -/
theorem unmarshalEntry_marshal (e : Entry) (h : EntryOk e) : unmarshalEntry (marshalEntry e) = .ok e := by
  obtain ⟨h1, h2, h3, h4⟩ := h
  unfold unmarshalEntry parseMsg
  have hlen : 6 ≤ (marshalEntry e).length := by
    have a := encVarint_ne_nil e.type
    have b := encVarint_ne_nil e.term
    have c := encVarint_ne_nil e.index
    have a' : 0 < (encVarint e.type).length := List.length_pos_iff.mpr a
    have b' : 0 < (encVarint e.term).length := List.length_pos_iff.mpr b
    have c' : 0 < (encVarint e.index).length := List.length_pos_iff.mpr c
    simp only [marshalEntry, List.length_append, List.length_cons, List.length_nil]; omega
  obtain ⟨f, hf⟩ : ∃ f, (marshalEntry e).length + 1 = f + 5 := ⟨(marshalEntry e).length - 4, by omega⟩
  rw [hf]
  simp only [marshalEntry, List.cons_append, List.nil_append, List.append_assoc]
  rw [show (0x08 : UInt8) = UInt8.ofNat 8 from rfl, show (0x10 : UInt8) = UInt8.ofNat 16 from rfl,
    show (0x18 : UInt8) = UInt8.ofNat 24 from rfl, show (0x22 : UInt8) = UInt8.ofNat 34 from rfl]
  rw [pstep_v _ 8 1 (by omega) rfl fieldNum_8 rfl _ _ _ (Nat.lt_of_lt_of_le h1 (by decide)),
    pstep_v _ 16 2 (by omega) rfl fieldNum_16 rfl _ _ _ h2,
    pstep_v _ 24 3 (by omega) rfl fieldNum_24 rfl _ _ _ h3,
    optField_parse _ 34 4 (by omega) rfl fieldNum_34 rfl _ _ _ h4]
  obtain ⟨ty, tm, ix, dt⟩ := e
  have h1' : ty < 4294967296 := h1
  cases dt with
  | none => simp [getV, getB]; omega
  | some x => simp [getV, getB]; omega

/-- **`HardState.Unmarshal ∘ HardState.Marshal = id`** -/
theorem unmarshalHS_marshal (s : HardState) (h : HSOk s) : unmarshalHS (marshalHS s) = .ok s := by
  obtain ⟨h1, h2, h3⟩ := h
  unfold unmarshalHS parseMsg
  have hlen : 6 ≤ (marshalHS s).length := by
    have a' : 0 < (encVarint s.term).length := List.length_pos_iff.mpr (encVarint_ne_nil _)
    have b' : 0 < (encVarint s.vote).length := List.length_pos_iff.mpr (encVarint_ne_nil _)
    have c' : 0 < (encVarint s.commit).length := List.length_pos_iff.mpr (encVarint_ne_nil _)
    simp only [marshalHS, List.length_append, List.length_cons, List.length_nil]; omega
  obtain ⟨f, hf⟩ : ∃ f, (marshalHS s).length + 1 = f + 4 := ⟨(marshalHS s).length - 3, by omega⟩
  rw [hf]
  simp only [marshalHS, List.cons_append, List.nil_append]
  rw [show (0x08 : UInt8) = UInt8.ofNat 8 from rfl, show (0x10 : UInt8) = UInt8.ofNat 16 from rfl,
    show (0x18 : UInt8) = UInt8.ofNat 24 from rfl]
  have e3 := pstep_v [(1, 0), (2, 0), (3, 0)] 24 3 (by omega) rfl fieldNum_24 rfl (f + 1)
    [(2, .vint s.vote), (1, .vint s.term)] s.commit h3 []
  rw [List.append_nil] at e3
  rw [pstep_v _ 8 1 (by omega) rfl fieldNum_8 rfl _ _ _ h1, pstep_v _ 16 2 (by omega) rfl fieldNum_16 rfl _ _ _ h2, e3]
  rw [pstep_end]
  rfl

/-- **`walpb.Snapshot.Unmarshal ∘ Marshal = id`** (ConfState carried as bytes) -/
theorem unmarshalWSnap_marshal (s : WSnap) (h : WSnapOk s) : unmarshalWSnap (marshalWSnap s) = .ok s := by
  obtain ⟨h1, h2, h3⟩ := h
  unfold unmarshalWSnap parseMsg
  have hlen : 4 ≤ (marshalWSnap s).length := by
    have a' : 0 < (encVarint s.index).length := List.length_pos_iff.mpr (encVarint_ne_nil _)
    have b' : 0 < (encVarint s.term).length := List.length_pos_iff.mpr (encVarint_ne_nil _)
    simp only [marshalWSnap, List.length_append, List.length_cons, List.length_nil]; omega
  obtain ⟨f, hf⟩ : ∃ f, (marshalWSnap s).length + 1 = f + 4 := ⟨(marshalWSnap s).length - 3, by omega⟩
  rw [hf]
  simp only [marshalWSnap, List.cons_append, List.nil_append]
  rw [show (0x08 : UInt8) = UInt8.ofNat 8 from rfl, show (0x10 : UInt8) = UInt8.ofNat 16 from rfl,
    show (0x1a : UInt8) = UInt8.ofNat 26 from rfl]
  rw [pstep_v _ 8 1 (by omega) rfl fieldNum_8 rfl _ _ _ h1, pstep_v _ 16 2 (by omega) rfl fieldNum_16 rfl _ _ _ h2,
    optField_parse _ 26 3 (by omega) rfl fieldNum_26 rfl _ _ _ h3]
  obtain ⟨ix, tm, cf⟩ := s
  cases cf with
  | none => simp [getV, getB]
  | some x => simp [getV, getB]

example : EntryOk ⟨0, 2, 7, some [1, 2, 3]⟩ := ⟨by decide, by decide, by decide, fun d h => by cases h; decide⟩
example : unmarshalEntry (marshalEntry ⟨1, 2, 7, none⟩) = .ok ⟨1, 2, 7, none⟩ := by decide +kernel

example : HSOk ⟨3, 1, 17⟩ ∧ unmarshalHS (marshalHS ⟨3, 1, 17⟩) = .ok ⟨3, 1, 17⟩ :=
  ⟨⟨by decide, by decide, by decide⟩, unmarshalHS_marshal _ ⟨by decide, by decide, by decide⟩⟩
example : WSnapOk ⟨9, 2, some [1]⟩ ∧ unmarshalWSnap (marshalWSnap ⟨9, 2, some [1]⟩) = .ok ⟨9, 2, some [1]⟩ :=
  ⟨⟨by decide, by decide, fun d h => by cases h; decide⟩, unmarshalWSnap_marshal _ ⟨by decide, by decide, fun d h => by cases h; decide⟩⟩

#print axioms unmarshalEntry_marshal
#print axioms unmarshalHS_marshal
#print axioms unmarshalWSnap_marshal
end WalFile
