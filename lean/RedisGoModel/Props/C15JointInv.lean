import RedisGoModel.Props.C15JointDyn
import RedisGoModel.Props.C15ConfDynInv

/-! C15 Stage D, last step: the invariant `CInv` of the joint-configuration protocol holds in every reachable state
    (`cinv_reach`), hence every run is linked, hence its L0 part is a run of the guarded system.  Template:
    `Props/C15ConfDynInv.lean`; new: the `autoLeave` step (the leader appends the empty `ConfChangeV2` itself — its guard
    `pend ≤ applied` is what an accepted proposal gives), and `gate_conf` for etcd's three-reason gate. -/
namespace RSJ
open RS hiding Inv0 Inv1 Inv2 Inv3 Inv4 Step Reach reach_inv leader_completeness committed_agree fresh_term QA QAc
  state_machine_safety committed_in_later_leader ldr_unique C15_election_safety C15_log_matching C15_leader_completeness
  C15_state_machine_safety C15_committed_never_rewritten commit_in_leader handleAE_keeps_committed
open RSQ
open RSC (nid nidsOf mem_nidsOf CSys updN updN_same updN_other cBecomeLeader cAdvanceCommit Label cinit LinkedStep
  Ext ext_step take_of_prefix voter_holds cmt_agree Cmtd node_cmtd take_take_le take_le_of_take cmt_len
  not_leader_follower not_cand_follower)

variable {N : Nat}

theorem cnt_zero_of_forall (l : Log) {a b : Nat} (h : ∀ k, a < k → k ≤ b → confAt l k = false) : cnt l a b = 0 := by
  induction b with
  | zero => rfl
  | succ b ih =>
    rw [cnt_succ, ih (fun k h1 h2 => h k h1 (by omega))]
    by_cases hab : a ≤ b
    · have := h (b+1) (by omega) (Nat.le_refl _)
      simp [this]
    · have : ¬ (a ≤ b ∧ confAt l (b+1) = true) := fun x => hab x.1
      simp [this]

theorem cnt_zero_of_bound (l : Log) {a hi : Nat} (h : ∀ c, c ≤ hi → confAt l c = true → c ≤ a) : cnt l a hi = 0 := by
  apply cnt_zero_of_forall
  intro k h1 h2
  cases hk : confAt l k with
  | false => rfl
  | true => have := h k h2 hk; omega

theorem NodeOK.ext {b b' : Sys N} (r : Reach b) (e : Ext b b') {nd : NodeSt N} {ap pd : Nat} (h : NodeOK b nd ap pd) :
    NodeOK b' nd ap pd :=
  ⟨h.app_le, h.one, h.pendok, fun hc => ⟨(h.cand hc).1, (h.cand hc).2.ext r e⟩, h.ldr⟩

/-- the nodes other than the acting one -/
theorem nodes_frame {c0 : RQJ.Config} {s : CSys N} (ci : CInv c0 s) {b' : Sys N} (ext : Ext s.base b') (i : Fin N)
    (nodes' : Fin N → NodeSt N) (applied' pend' : Fin N → Nat)
    (h : ∀ j, j ≠ i → nodes' j = s.base.nodes j ∧ applied' j = s.applied j ∧ pend' j = s.pend j)
    (hi : NodeOK b' (nodes' i) (applied' i) (pend' i)) : ∀ j, NodeOK b' (nodes' j) (applied' j) (pend' j) := by
  intro j
  by_cases hj : j = i
  · rw [hj]; exact hi
  · obtain ⟨a, b, c⟩ := h j hj
    rw [a, b, c]; exact (ci.node j).ext ci.reach ext

/-- the ghost records of the old state, read in the new one -/
theorem ghost_frame {c0 : RQJ.Config} {s : CSys N} (ci : CInv c0 s) {b' : Sys N} (ext : Ext s.base b') :
    (∀ t c, s.base.isLdr t c → IsQuorumJ (cfgAt c0 (b'.clog t c) (s.eapp t)) (b'.equo t) ∧
       cnt (b'.clog t c) (s.eapp t) (b'.clog t c).length ≤ 1 ∧ Cmtd b' (b'.clog t c) (s.eapp t) t) ∧
    (∀ k t a, s.capp k t a → b'.cmt k t ∧ a < k ∧
       (∃ Qc : Finset (Fin N), IsQuorumJ (cfgAt c0 (b'.llog t) a) Qc ∧ ∀ j ∈ Qc, ∃ n, k ≤ n ∧ b'.acks t j n) ∧
       cnt (b'.llog t) a k ≤ 1) ∧
    (∀ k t c, s.base.cmt k t → c ≤ k → confAt (b'.llog t) c = true →
       ∃ k' t' a', s.capp k' t' a' ∧ a' < c ∧ c ≤ k' ∧ t' ≤ t ∧ (b'.llog t').take c = (b'.llog t).take c) ∧
    (∀ t src prev pt ents cm, s.base.msgs (.ae t src prev pt ents cm) → cnt (b'.llog t) cm (prev + ents.length) ≤ 1) := by
  obtain ⟨h0, _, _, _, _⟩ := reach_inv ci.reach
  refine ⟨?_, ?_, ?_, ?_⟩
  · intro t c hl
    obtain ⟨_, e1, e2⟩ := ext.ldr t c hl
    obtain ⟨q, o, cm⟩ := ci.el t c hl
    rw [e1, e2]; exact ⟨q, o, cm.ext ci.reach ext⟩
  · intro k t a hr
    obtain ⟨hc, hak, ⟨Qc, hq, hQ⟩, ho⟩ := ci.cq k t a hr
    have hlen := cmt_len ci.reach hc
    have e1 : (b'.llog t).take k = (s.base.llog t).take k := take_of_prefix (ext.llog t) hlen
    refine ⟨ext.cmt k t hc, hak, ⟨Qc, ?_, fun j hj => ?_⟩, ?_⟩
    · rw [cfgAt_congr c0 (take_le_of_take e1 (by omega : a ≤ k))]; exact hq
    · obtain ⟨n, hn, ha⟩ := hQ j hj; exact ⟨n, hn, ext.acks _ _ _ ha⟩
    · rw [cnt_congr e1]; exact ho
  · intro k t c hc hck hconf
    have hlen := cmt_len ci.reach hc
    have e1 : (b'.llog t).take c = (s.base.llog t).take c := take_of_prefix (ext.llog t) (by omega)
    have hconf' : confAt (s.base.llog t) c = true := by rw [← confAt_congr e1 (Nat.le_refl _)]; exact hconf
    obtain ⟨k', t', a', hr, h1, h2, h3, h4⟩ := ci.fc k t c hc hck hconf'
    have hlen' := cmt_len ci.reach (ci.cq k' t' a' hr).1
    refine ⟨k', t', a', hr, h1, h2, h3, ?_⟩
    rw [e1, take_of_prefix (ext.llog t') (by omega)]; exact h4
  · intro t src prev pt ents cm hm
    obtain ⟨_, a2, _, a4⟩ := h0.ae_ok t src prev pt ents cm hm
    have hlen := ents_len_le a2 a4
    rw [cnt_congr (take_of_prefix (ext.llog t) hlen)]
    exact ci.aeone t src prev pt ents cm hm

/-- steps that neither elect nor commit -/
theorem cinv_classA {c0 : RQJ.Config} {s s' : CSys N} (ci : CInv c0 s) (r' : Reach s'.base) (ext : Ext s.base s'.base)
    (hl : s'.base.isLdr = s.base.isLdr) (hcmt : s'.base.cmt = s.base.cmt) (hcapp : s'.capp = s.capp) (heapp : s'.eapp = s.eapp)
    (hnode : ∀ j, NodeOK s'.base (s'.base.nodes j) (s'.applied j) (s'.pend j))
    (hae : ∀ t src prev pt ents cm, s'.base.msgs (.ae t src prev pt ents cm) →
      s.base.msgs (.ae t src prev pt ents cm) ∨ cnt (s'.base.llog t) cm (prev + ents.length) ≤ 1) : CInv c0 s' := by
  obtain ⟨g1, g2, g3, g4⟩ := ghost_frame ci ext
  refine ⟨r', hnode, ?_, ?_, ?_, ?_, ?_⟩
  · intro t src prev pt ents cm hm
    rcases hae t src prev pt ents cm hm with h | h
    · exact g4 t src prev pt ents cm h
    · exact h
  · intro t c h; rw [hl] at h; rw [heapp]; exact g1 t c h
  · intro k t a h; rw [hcapp] at h; exact g2 k t a h
  · intro k t h; rw [hcmt] at h; rw [hcapp]; exact ci.cqex k t h
  · intro k t c h; rw [hcmt] at h; rw [hcapp]; exact g3 k t c h


/-- a node that has just become (or stayed) a follower -/
theorem nodeOK_follower {b : Sys N} {nd : NodeSt N} {ap pd : Nat} (hr : nd.role = .follower) (h1 : ap ≤ nd.commit)
    (h2 : cnt nd.log nd.commit nd.log.length ≤ 1) : NodeOK b nd ap pd :=
  ⟨h1, h2, (fun h => by rw [hr] at h; cases h), (fun h => by rw [hr] at h; cases h), (fun h => by rw [hr] at h; cases h)⟩

/-- a conf change that passes the gate is the proposed one, and nothing is pending (of etcd's three reasons the safety proof
    needs the first) -/
theorem gate_conf {c0 : RQJ.Config} {s : CSys N} {i : Fin N} {v : Nat} (h : isConfData (gate c0 s i v) = true) :
    gate c0 s i v = v ∧ s.pend i ≤ s.applied i := by
  unfold gate gateJ at h ⊢
  cases hcc : ccOf v with
  | none => simp only [hcc] at h ⊢; exact absurd h (by simp [isConfData, hcc])
  | some cc =>
    simp only [hcc] at h ⊢
    by_cases hr : (refusal (s.applied i) (s.pend i) (RQJ.joint (cfg c0 s i)) cc).isSome = true
    · rw [if_pos hr] at h; rw [isConfData_zero] at h; cases h
    · rw [if_neg hr]
      refine ⟨rfl, ?_⟩
      unfold refusal at hr
      by_cases hp : s.applied i < s.pend i
      · rw [if_pos hp] at hr; simp at hr
      · omega

theorem cinv_step {c0 : RQJ.Config} {lab : Label N} {s s' : CSys N} (ci : CInv c0 s) (st : CStep c0 lab s s') : CInv c0 s' := by
  obtain ⟨h0, h1, h2, h3, h4⟩ := reach_inv ci.reach
  cases st with
  | timeout _ i h hp hc =>
    have bst : Step s.base (doTimeout s.base i) := .timeout _ i h
    have ext := ext_step h0 bst
    refine cinv_classA ci (.step ci.reach bst) ext rfl rfl rfl rfl ?_ ?_
    · refine nodes_frame ci ext i (doTimeout s.base i).nodes s.applied (updN s.pend i 0) ?_ ?_
      · intro j hj; exact ⟨upd_other _ _ hj, rfl, updN_other _ _ hj⟩
      · have hn := ci.node i
        simp only [doTimeout, upd_same, updN_same]
        exact ⟨hn.app_le, hn.one, (fun hh => by cases hh),
          fun _ => ⟨cnt_zero_of_forall _ hc, (node_cmtd ci.reach i).ext ci.reach ext⟩, (fun hh => by cases hh)⟩
    · intro t src prev pt ents cm hm
      rcases hm with hm | hm
      · exact Or.inl hm
      · cases hm
  | updateTerm _ i t ht =>
    have bst : Step s.base (doUpdateTerm s.base i t) := .updateTerm _ i t ht
    have ext := ext_step h0 bst
    refine cinv_classA ci (.step ci.reach bst) ext rfl rfl rfl rfl ?_ (fun _ _ _ _ _ _ hm => Or.inl hm)
    refine nodes_frame ci ext i (doUpdateTerm s.base i t).nodes s.applied (updN s.pend i 0) ?_ ?_
    · intro j hj; exact ⟨upd_other _ _ hj, rfl, updN_other _ _ hj⟩
    · have hn := ci.node i
      simp only [doUpdateTerm, upd_same, updN_same]
      exact nodeOK_follower rfl hn.app_le hn.one
  | grant _ j c t li lt hm ht hv hu =>
    have bst : Step s.base (doGrant s.base j c t) := .grant _ j c t li lt hm ht hv hu
    have ext := ext_step h0 bst
    refine cinv_classA ci (.step ci.reach bst) ext rfl rfl rfl rfl ?_ ?_
    · refine nodes_frame ci ext j (doGrant s.base j c t).nodes s.applied s.pend ?_ ?_
      · intro y hy; exact ⟨upd_other _ _ hy, rfl, rfl⟩
      · have hn := (ci.node j).ext ci.reach ext
        simp only [doGrant, upd_same]
        exact ⟨hn.app_le, hn.one, hn.pendok, hn.cand, hn.ldr⟩
    · intro t' src prev pt ents cm hm'
      rcases hm' with hm' | hm'
      · exact Or.inl hm'
      · cases hm'
  | becomeLeader _ i Q hq hc hQ =>
    have hok := electOK_of_cinv ci i Q hq hc hQ
    have bst : Step s.base (doBecomeLeader s.base i Q) := .becomeLeader _ i Q hok hc hQ
    have ext := ext_step h0 bst
    obtain ⟨_, hfresh⟩ := fresh_term h0 i Q hok hc hQ
    obtain ⟨g1, g2, g3, g4⟩ := ghost_frame ci ext
    have hn := ci.node i
    have hlog : (s.base.nodes i).log = s.base.clog (s.base.nodes i).term i := h1.cand_log i hc
    have hcl := (h3.n1 i).1
    have hone : cnt (s.base.nodes i).log (s.applied i) (s.base.nodes i).log.length ≤ 1 := by
      rw [cnt_split _ hn.app_le hcl, (hn.cand hc).1]; have := hn.one; omega
    have hnoop : isConf (⟨(s.base.nodes i).term, 0⟩ : Entry) = false := isConfData_zero
    refine ⟨.step ci.reach bst, ?_, ?_, ?_, ?_, ?_, ?_⟩
    · refine nodes_frame ci ext i (doBecomeLeader s.base i Q).nodes s.applied (updN s.pend i (s.base.nodes i).log.length) ?_ ?_
      · intro j hj; exact ⟨upd_other _ _ hj, rfl, updN_other _ _ hj⟩
      · simp only [doBecomeLeader, upd_same, updN_same]
        refine ⟨hn.app_le, ?_, ?_, (fun hh => by cases hh), ?_⟩
        · show cnt ((s.base.nodes i).log ++ [_]) (s.base.nodes i).commit ((s.base.nodes i).log ++ [_]).length ≤ 1
          rw [List.length_append, List.length_singleton, cnt_append_last _ _ hcl, hnoop]; simpa using hn.one
        · intro _ c hcl' hcf
          show c ≤ (s.base.nodes i).log.length
          by_cases hle : c ≤ (s.base.nodes i).log.length
          · exact hle
          · have hceq : c = (s.base.nodes i).log.length + 1 := by
              simp only [List.length_append, List.length_singleton] at hcl'; omega
            rw [hceq, confAt_append_last, hnoop] at hcf; cases hcf
        · intro _
          show cnt ((s.base.nodes i).log ++ [_]) (s.applied i) ((s.base.nodes i).log ++ [_]).length ≤ 1
          rw [List.length_append, List.length_singleton, cnt_append_last _ _ (by have := hn.app_le; omega), hnoop]; simpa using hone
    · exact g4
    · intro t c hl
      show IsQuorumJ (cfgAt c0 ((doBecomeLeader s.base i Q).clog t c) (if t = (s.base.nodes i).term then s.applied i else s.eapp t))
          ((doBecomeLeader s.base i Q).equo t) ∧
        cnt ((doBecomeLeader s.base i Q).clog t c) (if t = (s.base.nodes i).term then s.applied i else s.eapp t)
          ((doBecomeLeader s.base i Q).clog t c).length ≤ 1 ∧
        Cmtd (doBecomeLeader s.base i Q) ((doBecomeLeader s.base i Q).clog t c) (if t = (s.base.nodes i).term then s.applied i else s.eapp t) t
      by_cases ht : t = (s.base.nodes i).term
      · have hci : c = i := by
          rcases hl with hl | ⟨_, e⟩
          · rw [ht] at hl; exact absurd hl (hfresh c)
          · exact e
        subst hci
        rw [if_pos ht, ht]
        have e1 : (doBecomeLeader s.base c Q).clog (s.base.nodes c).term c = (s.base.nodes c).log := hlog.symm
        have e2 : (doBecomeLeader s.base c Q).equo (s.base.nodes c).term = Q := by simp [doBecomeLeader]
        rw [e1, e2]
        exact ⟨hq, hone, ((hn.cand hc).2.mono hn.app_le).ext ci.reach ext⟩
      · rw [if_neg ht]
        rcases hl with hl | ⟨e, _⟩
        · exact g1 t c hl
        · exact absurd e ht
    · exact g2
    · exact ci.cqex
    · exact g3
  | propose _ i v hl =>
    have bst : Step s.base (doClientReq s.base i (gate c0 s i v)) := .clientReq _ i _ hl
    have ext := ext_step h0 bst
    refine cinv_classA ci (.step ci.reach bst) ext rfl rfl rfl rfl ?_ (fun _ _ _ _ _ _ hm => Or.inl hm)
    refine nodes_frame ci ext i (doClientReq s.base i (gate c0 s i v)).nodes s.applied
      (updN s.pend i (if isConfData (gate c0 s i v) then (s.base.nodes i).log.length + 1 else s.pend i)) ?_ ?_
    · intro j hj; exact ⟨upd_other _ _ hj, rfl, updN_other _ _ hj⟩
    · have hn := ci.node i
      have hcl := (h3.n1 i).1
      have hpend := hn.pendok hl
      simp only [doClientReq, upd_same, updN_same]
      by_cases hg : isConfData (gate c0 s i v) = true
      · obtain ⟨_, hpa⟩ := gate_conf hg
        have hz1 : cnt (s.base.nodes i).log (s.base.nodes i).commit (s.base.nodes i).log.length = 0 :=
          cnt_zero_of_bound _ (fun c h1' h2' => by have := hpend c h1' h2'; have := hn.app_le; omega)
        have hz2 : cnt (s.base.nodes i).log (s.applied i) (s.base.nodes i).log.length = 0 :=
          cnt_zero_of_bound _ (fun c h1' h2' => by have := hpend c h1' h2'; omega)
        have hce : isConf (⟨(s.base.nodes i).term, gate c0 s i v⟩ : Entry) = true := hg
        rw [if_pos hg]
        refine ⟨hn.app_le, ?_, ?_, (fun hh => by rw [hl] at hh; cases hh), ?_⟩
        · show cnt ((s.base.nodes i).log ++ [_]) (s.base.nodes i).commit ((s.base.nodes i).log ++ [_]).length ≤ 1
          rw [List.length_append, List.length_singleton, cnt_append_last _ _ hcl, hz1, hce]; simp
        · intro _ c hcl' _
          simp only [List.length_append, List.length_singleton] at hcl'; exact hcl'
        · intro _
          show cnt ((s.base.nodes i).log ++ [_]) (s.applied i) ((s.base.nodes i).log ++ [_]).length ≤ 1
          rw [List.length_append, List.length_singleton, cnt_append_last _ _ (by have := hn.app_le; omega), hz2, hce]; simp
      · have hce : isConf (⟨(s.base.nodes i).term, gate c0 s i v⟩ : Entry) = false := by
          cases h' : isConfData (gate c0 s i v) <;> simp_all [isConf]
        rw [if_neg hg]
        refine ⟨hn.app_le, ?_, ?_, (fun hh => by rw [hl] at hh; cases hh), ?_⟩
        · show cnt ((s.base.nodes i).log ++ [_]) (s.base.nodes i).commit ((s.base.nodes i).log ++ [_]).length ≤ 1
          rw [List.length_append, List.length_singleton, cnt_append_last _ _ hcl, hce]; simpa using hn.one
        · intro _ c hcl' hcf
          by_cases hle : c ≤ (s.base.nodes i).log.length
          · rw [confAt_append_le _ _ hle] at hcf; exact hpend c hle hcf
          · have hceq : c = (s.base.nodes i).log.length + 1 := by
              simp only [List.length_append, List.length_singleton] at hcl'; omega
            rw [hceq, confAt_append_last, hce] at hcf; cases hcf
        · intro _
          show cnt ((s.base.nodes i).log ++ [_]) (s.applied i) ((s.base.nodes i).log ++ [_]).length ≤ 1
          rw [List.length_append, List.length_singleton, cnt_append_last _ _ (by have := hn.app_le; omega), hce]
          simpa using hn.ldr hl
  | autoLeave _ i hl hal hpa =>
    have bst : Step s.base (doClientReq s.base i leaveData) := .clientReq _ i _ hl
    have ext := ext_step h0 bst
    refine cinv_classA ci (.step ci.reach bst) ext rfl rfl rfl rfl ?_ (fun _ _ _ _ _ _ hm => Or.inl hm)
    refine nodes_frame ci ext i (doClientReq s.base i leaveData).nodes s.applied
      (updN s.pend i ((s.base.nodes i).log.length + 1)) ?_ ?_
    · intro j hj; exact ⟨upd_other _ _ hj, rfl, updN_other _ _ hj⟩
    · have hn := ci.node i
      have hcl := (h3.n1 i).1
      have hpend := hn.pendok hl
      simp only [doClientReq, upd_same, updN_same]
      have hz1 : cnt (s.base.nodes i).log (s.base.nodes i).commit (s.base.nodes i).log.length = 0 :=
        cnt_zero_of_bound _ (fun c h1' h2' => by have := hpend c h1' h2'; have := hn.app_le; omega)
      have hz2 : cnt (s.base.nodes i).log (s.applied i) (s.base.nodes i).log.length = 0 :=
        cnt_zero_of_bound _ (fun c h1' h2' => by have := hpend c h1' h2'; omega)
      have hce : isConf (⟨(s.base.nodes i).term, leaveData⟩ : Entry) = true := by
        show isConfData leaveData = true
        decide
      refine ⟨hn.app_le, ?_, ?_, (fun hh => by rw [hl] at hh; cases hh), ?_⟩
      · show cnt ((s.base.nodes i).log ++ [_]) (s.base.nodes i).commit ((s.base.nodes i).log ++ [_]).length ≤ 1
        rw [List.length_append, List.length_singleton, cnt_append_last _ _ hcl, hz1, hce]; simp
      · intro _ c hcl' _
        simp only [List.length_append, List.length_singleton] at hcl'; exact hcl'
      · intro _
        show cnt ((s.base.nodes i).log ++ [_]) (s.applied i) ((s.base.nodes i).log ++ [_]).length ≤ 1
        rw [List.length_append, List.length_singleton, cnt_append_last _ _ (by have := hn.app_le; omega), hz2, hce]; simp
  | sendAE _ i prev cnt' hl hp =>
    have bst : Step s.base (doSendAE s.base i prev cnt') := .sendAE _ i prev cnt' hl hp
    have ext := ext_step h0 bst
    refine cinv_classA ci (.step ci.reach bst) ext rfl rfl rfl rfl (fun j => (ci.node j).ext ci.reach ext) ?_
    intro t src prev' pt ents cm hm
    rcases hm with hm | hm
    · exact Or.inl hm
    · right
      cases hm
      show cnt (s.base.llog (s.base.nodes i).term) (s.base.nodes i).commit (prev + _) ≤ 1
      rw [← h0.ldr_log i hl]
      have hlen : prev + (((s.base.nodes i).log.drop prev).take cnt').length ≤ (s.base.nodes i).log.length := by
        simp [List.length_take, List.length_drop]; omega
      have := cnt_mono_hi (s.base.nodes i).log (s.base.nodes i).commit hlen
      have := (ci.node i).one
      omega
  | handleAE _ j src t prev pt ents cm hm ht hnl hmatch =>
    have bst : Step s.base (doHandleAE s.base j src t prev ents cm) := .handleAE _ j src t prev pt ents cm hm ht hnl hmatch
    have ext := ext_step h0 bst
    refine cinv_classA ci (.step ci.reach bst) ext rfl rfl rfl rfl ?_ ?_
    · refine nodes_frame ci ext j (doHandleAE s.base j src t prev ents cm).nodes s.applied s.pend ?_ ?_
      · intro y hy; exact ⟨upd_other _ _ hy, rfl, rfl⟩
      · have hn := ci.node j
        simp only [doHandleAE, upd_same]
        obtain ⟨a1, a2, a3, a4⟩ := h0.ae_ok t src prev pt ents cm hm
        have hlen := ents_len_le a2 a4
        have hspec := follAppend_spec (n := ents.length) (h0.p_nodes j) (h0.p_llog t) hmatch.1 hlen (by rw [hmatch.2, a3])
        rw [← a4] at hspec
        obtain ⟨⟨hRlen, hRtake⟩, hRcases⟩ := hspec
        have haeo := ci.aeone t src prev pt ents cm hm
        refine nodeOK_follower rfl (by show s.applied j ≤ max _ _; have := hn.app_le; omega) ?_
        show cnt (follAppend (s.base.nodes j).log prev ents) (max (s.base.nodes j).commit (min cm (prev + ents.length)))
          (follAppend (s.base.nodes j).log prev ents).length ≤ 1
        rcases hRcases with hsame | ⟨hnew, _⟩
        · rw [hsame]
          have := cnt_mono_lo (s.base.nodes j).log (s.base.nodes j).log.length
            (Nat.le_max_left (s.base.nodes j).commit (min cm (prev + ents.length)))
          have := hn.one
          omega
        · rw [hnew]
          have hl' : ((s.base.llog t).take (prev + ents.length)).length = prev + ents.length := by
            rw [List.length_take]; omega
          rw [hl', cnt_congr (take_take_le (s.base.llog t) (Nat.le_refl (prev + ents.length)))]
          by_cases hcm : cm ≤ prev + ents.length
          · have := cnt_mono_lo (s.base.llog t) (prev + ents.length)
              (show cm ≤ max (s.base.nodes j).commit (min cm (prev + ents.length)) by omega)
            omega
          · rw [cnt_of_le _ (show prev + ents.length ≤ max (s.base.nodes j).commit (min cm (prev + ents.length)) by omega)]
            omega
    · intro t' src' prev' pt' ents' cm' hm'
      rcases hm' with hm' | hm'
      · exact Or.inl hm'
      · cases hm'
  | advanceCommit _ i k Q hl hk hterm hq hQ =>
    have hok := commitOK_of_cinv ci i k Q hl hk hterm hq hQ
    have bst : Step s.base (doAdvanceCommit s.base i k) := .advanceCommit _ i k Q hl hk hterm hok hQ
    have ext := ext_step h0 bst
    obtain ⟨g1, g2, g3, g4⟩ := ghost_frame ci ext
    have hn := ci.node i
    have hlog : (s.base.nodes i).log = s.base.llog (s.base.nodes i).term := h0.ldr_log i hl
    refine ⟨.step ci.reach bst, ?_, g4, g1, ?_, ?_, ?_⟩
    · refine nodes_frame ci ext i (doAdvanceCommit s.base i k).nodes s.applied s.pend ?_ ?_
      · intro j hj; exact ⟨upd_other _ _ hj, rfl, rfl⟩
      · simp only [doAdvanceCommit, upd_same]
        refine ⟨by show s.applied i ≤ k; have := hn.app_le; omega, ?_, hn.pendok, (fun hh => by rw [hl] at hh; cases hh), hn.ldr⟩
        show cnt (s.base.nodes i).log k (s.base.nodes i).log.length ≤ 1
        have := cnt_mono_lo (s.base.nodes i).log (s.base.nodes i).log.length (by omega : (s.base.nodes i).commit ≤ k)
        have := hn.one
        omega
    · intro k' t a hr
      rcases hr with hr | ⟨rfl, rfl, rfl⟩
      · exact g2 k' t a hr
      · refine ⟨Or.inr ⟨rfl, rfl⟩, by have := hn.app_le; omega, ⟨Q, ?_, hQ⟩, ?_⟩
        · show IsQuorumJ (cfgAt c0 (s.base.llog (s.base.nodes i).term) (s.applied i)) Q
          rw [← hlog]; exact hq
        · show cnt (s.base.llog (s.base.nodes i).term) (s.applied i) k' ≤ 1
          rw [← hlog]
          have := cnt_mono_hi (s.base.nodes i).log (s.applied i) hk.2
          have := hn.ldr hl
          omega
    · intro k' t hc
      rcases hc with hc | ⟨rfl, rfl⟩
      · obtain ⟨a, ha⟩ := ci.cqex k' t hc; exact ⟨a, Or.inl ha⟩
      · exact ⟨s.applied i, Or.inr ⟨rfl, rfl, rfl⟩⟩
    · intro k' t c hc hck hconf
      rcases hc with hc | ⟨rfl, rfl⟩
      · obtain ⟨k2, t2, a2, x1, x2, x3, x4, x5⟩ := g3 k' t c hc hck hconf
        exact ⟨k2, t2, a2, Or.inl x1, x2, x3, x4, x5⟩
      · have hconf' : confAt (s.base.nodes i).log c = true := by rw [hlog]; exact hconf
        by_cases hcc : c ≤ (s.base.nodes i).commit
        · rcases node_cmtd ci.reach i with z | ⟨k0, t0, hk0, hck0, ht0, e0⟩
          · have : c = 0 := by omega
            rw [this] at hconf'; cases hconf'
          · have e1 : (s.base.nodes i).log.take c = (s.base.llog t0).take c := take_le_of_take e0 hcc
            have hconf0 : confAt (s.base.llog t0) c = true := by rw [← confAt_congr e1 (Nat.le_refl _)]; exact hconf'
            obtain ⟨k2, t2, a2, x1, x2, x3, x4, x5⟩ := ci.fc k0 t0 c hk0 (by omega) hconf0
            refine ⟨k2, t2, a2, Or.inl x1, x2, x3, by omega, ?_⟩
            show (s.base.llog t2).take c = (s.base.llog (s.base.nodes i).term).take c
            rw [x5, ← e1, hlog]
        · exact ⟨k', (s.base.nodes i).term, s.applied i, Or.inr ⟨rfl, rfl, rfl⟩, by have := hn.app_le; omega, hck, Nat.le_refl _, rfl⟩
  | restart _ i a ha =>
    have bst : Step s.base (doRestart s.base i) := .restart _ i
    have ext := ext_step h0 bst
    refine cinv_classA ci (.step ci.reach bst) ext rfl rfl rfl rfl ?_ (fun _ _ _ _ _ _ hm => Or.inl hm)
    refine nodes_frame ci ext i (doRestart s.base i).nodes (updN s.applied i a) (updN s.pend i 0) ?_ ?_
    · intro j hj; exact ⟨upd_other _ _ hj, updN_other _ _ hj, updN_other _ _ hj⟩
    · have hn := ci.node i
      simp only [doRestart, upd_same, updN_same]
      exact nodeOK_follower rfl (by show a ≤ (s.base.nodes i).commit; have := hn.app_le; omega) hn.one
  | ackCommitted _ j src t prev pt ents cm hm ht hnl hlt =>
    have bst : Step s.base (doAckCommitted s.base j src t) := .ackCommitted _ j src t prev pt ents cm hm ht hnl hlt
    have ext := ext_step h0 bst
    refine cinv_classA ci (.step ci.reach bst) ext rfl rfl rfl rfl ?_ ?_
    · refine nodes_frame ci ext j (doAckCommitted s.base j src t).nodes s.applied s.pend ?_ ?_
      · intro y hy; exact ⟨upd_other _ _ hy, rfl, rfl⟩
      · have hn := ci.node j
        simp only [doAckCommitted, upd_same]
        exact nodeOK_follower rfl hn.app_le hn.one
    · intro t' src' prev' pt' ents' cm' hm'
      rcases hm' with hm' | hm'
      · exact Or.inl hm'
      · cases hm'
  | sendHB _ i dst c hl hc hack =>
    have bst : Step s.base (doSendHB s.base i dst c) := .sendHB _ i dst c hl hc hack
    have ext := ext_step h0 bst
    refine cinv_classA ci (.step ci.reach bst) ext rfl rfl rfl rfl (fun j => (ci.node j).ext ci.reach ext) ?_
    intro t' src' prev' pt' ents' cm' hm'
    rcases hm' with hm' | hm'
    · exact Or.inl hm'
    · cases hm'
  | handleHB _ j src t c hm ht hnl =>
    have bst : Step s.base (doHandleHB s.base j c) := .handleHB _ j src t c hm ht hnl
    have ext := ext_step h0 bst
    refine cinv_classA ci (.step ci.reach bst) ext rfl rfl rfl rfl ?_ (fun _ _ _ _ _ _ hm => Or.inl hm)
    refine nodes_frame ci ext j (doHandleHB s.base j c).nodes s.applied s.pend ?_ ?_
    · intro y hy; exact ⟨upd_other _ _ hy, rfl, rfl⟩
    · have hn := ci.node j
      simp only [doHandleHB, upd_same]
      refine nodeOK_follower rfl (by show s.applied j ≤ max _ _; have := hn.app_le; omega) ?_
      show cnt (s.base.nodes j).log (max (s.base.nodes j).commit c) (s.base.nodes j).log.length ≤ 1
      have := cnt_mono_lo (s.base.nodes j).log (s.base.nodes j).log.length (Nat.le_max_left (s.base.nodes j).commit c)
      have := hn.one
      omega
  | apply _ i h =>
    refine cinv_classA ci ci.reach (Ext.refl _) rfl rfl rfl rfl ?_ (fun _ _ _ _ _ _ hm => Or.inl hm)
    refine nodes_frame ci (Ext.refl _) i s.base.nodes (updN s.applied i (s.applied i + 1)) s.pend ?_ ?_
    · intro j hj; exact ⟨rfl, updN_other _ _ hj, rfl⟩
    · have hn := ci.node i
      simp only [updN_same]
      refine ⟨h, hn.one, hn.pendok, fun hc => ⟨?_, (hn.cand hc).2⟩, fun hl => ?_⟩
      · have := cnt_mono_lo (s.base.nodes i).log (s.base.nodes i).commit (Nat.le_succ (s.applied i))
        have := (hn.cand hc).1
        simp only [Nat.succ_eq_add_one] at *
        omega
      · have := cnt_mono_lo (s.base.nodes i).log (s.base.nodes i).log.length (Nat.le_succ (s.applied i))
        have := hn.ldr hl
        simp only [Nat.succ_eq_add_one] at *
        omega

theorem cinv_init (c0 : RQJ.Config) : CInv c0 (cinit N) := by
  refine ⟨.init, fun i => ?_, ?_, ?_, ?_, ?_, ?_⟩
  · exact nodeOK_follower rfl (Nat.le_refl _) (by simp [cinit, init, cnt])
  · intro t src prev pt ents cm hm; exact absurd hm (by simp [cinit, init])
  · intro t c hl; exact absurd hl (by simp [cinit, init])
  · intro k t a h; exact absurd h (by simp [cinit])
  · intro k t h; exact absurd h (by simp [cinit, init])
  · intro k t c h; exact absurd h (by simp [cinit, init])

/-- the invariant holds in every reachable state of the joint-configuration protocol -/
theorem cinv_reach {c0 : RQJ.Config} {s : CSys N} (r : CReach c0 s) : CInv c0 s := by
  induction r with
  | init => exact cinv_init c0
  | step _ st ih => exact cinv_step ih st

/-- every decision taken in a reachable state is linked -/
theorem linked_of_reach {c0 : RQJ.Config} {lab : Label N} {s s' : CSys N} (r : CReach c0 s) (st : CStep c0 lab s s') :
    LinkedStep lab s := by
  have ci := cinv_reach r
  cases st with
  | becomeLeader _ i Q hq hc hQ => exact electOK_of_cinv ci i Q hq hc hQ
  | advanceCommit _ i k Q hl hk hterm hq hQ => exact commitOK_of_cinv ci i k Q hl hk hterm hq hQ
  | _ => trivial

/-- every run is a linked run -/
theorem creach_linked {c0 : RQJ.Config} {s : CSys N} (r : CReach c0 s) : CReachL c0 s := by
  induction r with
  | init => exact .init
  | step r0 st ih => exact .step ih st (linked_of_reach r0 st)

/-- the L0 part of every reachable state of the joint-configuration protocol is a reachable state of the guarded system -/
theorem creach_base {c0 : RQJ.Config} {s : CSys N} (r : CReach c0 s) : Reach s.base := (cinv_reach r).reach

end RSJ
