import RedisGoModel.Props.C06Table
/-! # C07, replica determinism — shared infrastructure

In cluster mode every replica applies the same committed log to its own keyspace, each with its OWN clock reading, random source
and float formatting: in the model, its own `Env` per step.  This module classifies the commands (`Deterministic`,
`DeterministicFl`, `ClockDeterministic`), defines the "no deadline anywhere" invariant (`NoDeadlines`, physical form `NoDLp`)
and the per-command obligations (`CmdDet`, `CmdNoFl`, `CmdNoObs`) the family modules discharge. -/
namespace Exec.C07
open Resp (Reply Bytes)
open Exec

/-! ### classification of the command table by what a command reads from outside the keyspace -/

/-- checker-mode commands: the reply/effect is the implementation's own random choice or float arithmetic (`env.obs`) -/
def randomNames : List String := ["spop", "srandmember", "hrandfield", "incrbyfloat", "hincrbyfloat"]

/-- commands that install a deadline relative to the executing node's own clock -/
def relClockNames : List String := ["expire", "setex"]

/-- commands that read `strconv.ParseFloat` of an argument (`env.fl`); ParseFloat is a function of the argument bytes, so on real
    replicas these readings agree — in the model they are part of `Env`, hence a separate class -/
def floatArgNames : List String := ["zadd", "blpop", "brpop", "incrbyfloat", "hincrbyfloat"]

def nameIn (l : List String) (name : Bytes) : Bool := l.any fun n => ofStr n == name

/-- SET without an expiry option (EX/PX are relative to the node's clock; EXAT is absolute but installs a deadline, after which
    the node's clock decides what is visible — kept out of the deadline-free fragment) -/
def setDet (args : List Bytes) : Bool :=
  match args with
  | _ :: _ :: _ :: opts =>
    match parseSetOpts opts {} with
    | none => true
    | some o => o.ex.isNone && o.px.isNone && o.exat.isNone
  | _ => true

/-- XADD whose ID is not the fully automatic `*` (`ms-*` and explicit IDs do not read the clock) -/
def xaddDet (args : List Bytes) : Bool :=
  match args with
  | _ :: _ :: rest =>
    match parseXadd rest {} with
    | some (_, .auto, _) => false
    | _ => true
  | _ => true

/-- commands that are functions of (keyspace, arguments, ParseFloat of the arguments) as long as no entry carries a deadline -/
def DeterministicFl (args : List Bytes) : Bool :=
  match args with
  | [] => true
  | name :: _ =>
    !nameIn randomNames (lower name) && !nameIn relClockNames (lower name)
    && (!(ofStr "set" == lower name) || setDet args)
    && (!(ofStr "xadd" == lower name) || xaddDet args)

/-- commands that read nothing of the environment except the clock for the expiry of entries that have a deadline:
    everything but SPOP, SRANDMEMBER, HRANDFIELD, INCRBYFLOAT, HINCRBYFLOAT, XADD with `*`, EXPIRE, SETEX, SET with
    EX/PX/EXAT, and (model artefact: `env.fl`) ZADD, BLPOP, BRPOP -/
def Deterministic (args : List Bytes) : Bool :=
  DeterministicFl args && (match args with | [] => true | name :: _ => !nameIn floatArgNames (lower name))

/-- commands whose result is a function of (keyspace, arguments, clock reading, ParseFloat of the arguments): everything but
    the random/float-arithmetic commands and XADD `*` -/
def ClockDeterministic (args : List Bytes) : Bool :=
  match args with
  | [] => true
  | name :: _ => !nameIn randomNames (lower name) && (!(ofStr "xadd" == lower name) || xaddDet args)

/-- the classification at the level of a table entry's name (no byte string is evaluated) -/
structure DetFor (s : String) (args : List Bytes) : Prop where
  notRandom : s ∉ randomNames
  notClock : s ∉ relClockNames
  set : s = "set" → setDet args = true
  xadd : s = "xadd" → xaddDet args = true

theorem nameIn_of_mem {l : List String} {s : String} {name : Bytes} (hs : s ∈ l) (h : (ofStr s == name) = true) :
    nameIn l name = true := by
  unfold nameIn; rw [List.any_eq_true]; exact ⟨s, hs, h⟩

theorem detFor_of {s : String} {name : Bytes} {rest : List Bytes} (hd : DeterministicFl (name :: rest) = true)
    (hn : (ofStr s == lower name) = true) : DetFor s (name :: rest) := by
  simp only [DeterministicFl, Bool.and_eq_true, Bool.not_eq_true', Bool.or_eq_true] at hd
  obtain ⟨⟨⟨h1, h2⟩, h3⟩, h4⟩ := hd
  refine ⟨fun hm => ?_, fun hm => ?_, fun he => ?_, fun he => ?_⟩
  · rw [nameIn_of_mem hm hn] at h1; cases h1
  · rw [nameIn_of_mem hm hn] at h2; cases h2
  · subst he; rcases h3 with h3 | h3
    · rw [hn] at h3; cases h3
    · exact h3
  · subst he; rcases h4 with h4 | h4
    · rw [hn] at h4; cases h4
    · exact h4

/-! ### keyspaces without deadlines -/

/-- no entry of the keyspace has a deadline (as seen by lookups) -/
def NoDeadlines (db : Db) : Prop := ∀ k e, db.get k = some e → e.exp = none

/-- physical form: no stored pair has a deadline (equivalent for well-formed keyspaces: `noDLp_iff`) -/
def NoDLp (db : Db) : Prop := ∀ p ∈ db, p.2.exp = none

theorem get_mem {db : Db} {k : Bytes} {e : Entry} (h : db.get k = some e) : ∃ k', (k', e) ∈ db := by
  unfold Db.get at h
  obtain ⟨p, hp, rfl⟩ := Option.map_eq_some_iff.mp h
  exact ⟨p.1, List.mem_of_find?_eq_some hp⟩

theorem NoDLp.noDeadlines {db : Db} (h : NoDLp db) : NoDeadlines db := by
  intro k e hg
  obtain ⟨k', hm⟩ := get_mem hg
  exact h _ hm

theorem mem_get {db : Db} (hw : db.WF) {p : Bytes × Entry} (hp : p ∈ db) : db.get p.1 = some p.2 := by
  induction db with
  | nil => cases hp
  | cons q qs ih =>
    unfold Db.WF at hw
    simp only [List.map_cons, List.nodup_cons] at hw
    rcases List.mem_cons.mp hp with rfl | hm
    · simp [Db.get]
    · have hne : (q.1 == p.1) = false := by
        simp only [beq_eq_false_iff_ne, ne_eq]
        intro he
        exact hw.1 (List.mem_map.mpr ⟨p, hm, he.symm⟩)
      have := ih hw.2 hm
      simp only [Db.get, List.find?_cons, hne] at this ⊢
      exact this

theorem noDLp_iff {db : Db} (hw : db.WF) : NoDLp db ↔ NoDeadlines db :=
  ⟨NoDLp.noDeadlines, fun h p hp => h p.1 p.2 (mem_get hw hp)⟩

theorem NoDLp.nil : NoDLp [] := fun _ h => nomatch h

theorem NoDLp.get {db : Db} (h : NoDLp db) {k : Bytes} {e : Entry} (hg : db.get k = some e) : e.exp = none :=
  h.noDeadlines k e hg

theorem NoDLp.get_bind {db : Db} (h : NoDLp db) (k : Bytes) : (db.get k).bind (·.exp) = none := by
  cases hg : db.get k with
  | none => rfl
  | some e => exact h.get hg

theorem NoDLp.del {db : Db} (h : NoDLp db) (k : Bytes) : NoDLp (db.del k) :=
  fun p hp => h p (List.mem_filter.mp hp).1

theorem NoDLp.put {db : Db} (h : NoDLp db) (k : Bytes) {e : Entry} (he : e.exp = none) : NoDLp (db.put k e) := by
  intro p hp
  rcases List.mem_cons.mp hp with rfl | hm
  · exact he
  · exact h.del k p hm

theorem NoDLp.setFresh {db : Db} (h : NoDLp db) (k : Bytes) (v : Value) : NoDLp (db.setFresh k v) := h.put k rfl

theorem NoDLp.setVal {db : Db} (h : NoDLp db) (k : Bytes) (v : Value) : NoDLp (db.setVal k v) := h.put k (h.get_bind k)

theorem NoDLp.putHash {db : Db} (h : NoDLp db) (k : Bytes) (x : HashT) : NoDLp (putHash db k x) := by
  unfold Exec.putHash; split
  · exact h.del k
  · exact h.setVal k _

theorem NoDLp.putSet {db : Db} (h : NoDLp db) (k : Bytes) (s : SetOps.MSet) : NoDLp (putSet db k s) := by
  unfold Exec.putSet; split
  · exact h.del k
  · exact h.setVal k _

theorem NoDLp.storeSet {db : Db} (h : NoDLp db) (k : Bytes) (s : SetOps.MSet) : NoDLp (storeSet db k s) := by
  unfold Exec.storeSet; split
  · exact h.del k
  · exact h.setFresh k _

theorem NoDLp.putList {db : Db} (h : NoDLp db) (k : Bytes) (l : List Bytes) : NoDLp (putList db k l) := by
  unfold Exec.putList; split
  · exact h.del k
  · exact h.setVal k _

/-- without deadlines the lazy expiry check does nothing, whatever the clock says -/
theorem checkTTL_nodl {db : Db} (h : NoDLp db) (now : Int) (k : Bytes) : checkTTL db now k = (db, true) := by
  unfold checkTTL
  cases hg : db.get k with
  | none => rfl
  | some e => simp [h.get hg]

theorem checkAll_nodl {db : Db} (h : NoDLp db) (now : Int) (keys : List Bytes) : checkAll now db keys = db := by
  unfold checkAll
  induction keys with
  | nil => rfl
  | cons k ks ih => simp only [List.foldl_cons, checkTTL_nodl h]; exact ih

/-- without deadlines every entry is live at every instant -/
theorem live_nodl {db : Db} (h : NoDLp db) (now : Int) : live db now = db := by
  unfold live
  rw [List.filter_eq_self]
  intro p hp
  simp [h p hp]

/-! ### per-command obligations -/

/-- on a deadline-free keyspace the command does not look at the clock or at the observation, and creates no deadline -/
def CmdDet (s : String) (c : Cmd) : Prop :=
  ∀ (n1 n2 : Int) (o1 o2 : Option Reply) (fl : Nat → Option UInt64) (db : Db) (args : List Bytes), NoDLp db → DetFor s args →
    c ⟨n1, o1, fl⟩ db args = c ⟨n2, o2, fl⟩ db args ∧ NoDLp (c ⟨n1, o1, fl⟩ db args).2

/-- the command never reads `env.fl` -/
def CmdNoFl (s : String) (c : Cmd) : Prop :=
  s ∉ floatArgNames → ∀ (n : Int) (o : Option Reply) (fl1 fl2 : Nat → Option UInt64) (db : Db) (args : List Bytes),
    c ⟨n, o, fl1⟩ db args = c ⟨n, o, fl2⟩ db args

/-- the command never reads `env.obs` (XADD: unless the ID is `*`) -/
def CmdNoObs (s : String) (c : Cmd) : Prop :=
  s ∉ randomNames → ∀ (n : Int) (o1 o2 : Option Reply) (fl : Nat → Option UInt64) (db : Db) (args : List Bytes),
    (s = "xadd" → xaddDet args = true) → c ⟨n, o1, fl⟩ db args = c ⟨n, o2, fl⟩ db args

structure EntryOk (p : String × Cmd) : Prop where
  det : CmdDet p.1 p.2
  nofl : CmdNoFl p.1 p.2
  noobs : CmdNoObs p.1 p.2

/-! ### tactics -/

/-- closes `NoDLp (X db)` for `X` built from the write primitives, from `NoDLp db` in the context -/
syntax "c07_nodl" : tactic
macro_rules | `(tactic| c07_nodl) => `(tactic| first
  | assumption
  | (apply NoDLp.del; c07_nodl)
  | (apply NoDLp.setFresh; c07_nodl)
  | (apply NoDLp.setVal; c07_nodl)
  | (apply NoDLp.putHash; c07_nodl)
  | (apply NoDLp.putSet; c07_nodl)
  | (apply NoDLp.storeSet; c07_nodl)
  | (apply NoDLp.putList; c07_nodl)
  | (apply NoDLp.put <;> first | c07_nodl | rfl | (apply NoDLp.get_bind; c07_nodl) | (apply NoDLp.get; c07_nodl; assumption)))

/-- a command built from `checkTTL`/`checkAll` and the write primitives: both conjuncts of `CmdDet` -/
macro "c07_cmd " h:ident : tactic => `(tactic|
  (refine ⟨?_, ?_⟩
   · first | rfl | (simp only [checkTTL_nodl $h, checkAll_nodl $h, live_nodl $h])
   · try simp only [checkTTL_nodl $h, checkAll_nodl $h, live_nodl $h]
     repeat' (first | c07_nodl | split)))

end Exec.C07
