import RedisGoModel.Cluster.Rendezvous
import RedisGoModel.Driver.Rendezvous
/-! # C07 `own_reply`: each client receives the reply of its own command

    Statement (property C07, clause "each client receives the reply of its own command"), on the rendezvous model of
    `Cluster/Rendezvous.lean` (the transition function `Rendezvous.next` that the `rendezvous` engine replays against the real
    `Manager.HandleCluster` / `handleClusterCommits` on every run), for an arbitrary state machine `step : S → Cmd → S × Reply`:

    * `own_reply` — in every reachable state, under `UniqueIds`: the k-th reply a connection has received is the reply of running its
      k-th submitted command at the position of THAT command's entry in the log — `(step (state after the log prefix before the entry)
      cmd).2` —, that entry exists, is the only entry with this id, a connection never has more replies than submissions and at most
      one submission unanswered (one reply per command, in the order of its own submissions).
    * `own_reply_needs_unique_ids`, `own_reply_needs_append_once` — concrete runs without the hypothesis in which it fails.
    * `no_reply_without_commit`, `waiter_never_stuck_after_apply`, `foreign_entries_deliver_nothing`.
    * `real_time_order`, `C07_linearizable_partial` — the history of the node's clients (invocation = submit, response = receive) is
      linearizable with the log order as witness.

    Core Lean only (it imports the driver engine for the last section). -/
set_option linter.unusedSectionVars false
namespace Rendezvous
variable {Id Conn S Cmd Reply : Type} [DecidableEq Id] [DecidableEq Conn]

/-! ## list facts -/

theorem concat_cases {α : Type} {l : List α} {x y : α} {k : Nat} (h : (l ++ [x])[k]? = some y) :
    l[k]? = some y ∨ (k = l.length ∧ y = x) := by
  by_cases hk : k < l.length
  · left; rwa [List.getElem?_append_left hk] at h
  · right
    have hk' : l.length ≤ k := Nat.le_of_not_lt hk
    rw [List.getElem?_append_right hk'] at h
    cases hd : k - l.length with
    | zero => rw [hd] at h; simp at h; exact ⟨by omega, h.symm⟩
    | succ n => rw [hd] at h; simp at h

theorem concat_old {α : Type} {l : List α} {x y : α} {k : Nat} (h : l[k]? = some y) : (l ++ [x])[k]? = some y := by
  have hk : k < l.length := by
    apply Classical.byContradiction; intro hn
    rw [List.getElem?_eq_none (Nat.le_of_not_lt hn)] at h; cases h
  rwa [List.getElem?_append_left hk]

theorem concat_last {α : Type} (l : List α) (x : α) : (l ++ [x])[l.length]? = some x := by simp

theorem lt_of_get {α : Type} {l : List α} {y : α} {k : Nat} (h : l[k]? = some y) : k < l.length := by
  apply Classical.byContradiction; intro hn
  rw [List.getElem?_eq_none (Nat.le_of_not_lt hn)] at h; cases h

theorem mem_of_get {α : Type} {l : List α} {y : α} {k : Nat} (h : l[k]? = some y) : y ∈ l := List.mem_of_getElem? h

variable (step : S → Cmd → S × Reply) (s0 : S)

theorem runLog_concat (l : List (Entry Id Cmd)) (e : Entry Id Cmd) :
    runLog step s0 (l ++ [e]) = (step (runLog step s0 l) e.cmd).1 := by simp [runLog, List.foldl_append]

theorem replyAt_concat (l : List (Entry Id Cmd)) (e : Entry Id Cmd) {j : Nat} (hj : j ≤ l.length) (cmd : Cmd) :
    replyAt step s0 (l ++ [e]) j cmd = replyAt step s0 l j cmd := by
  simp only [replyAt, List.take_append_of_le_length hj]

theorem replyAt_last (l : List (Entry Id Cmd)) (e : Entry Id Cmd) (cmd : Cmd) :
    replyAt step s0 (l ++ [e]) l.length cmd = (step (runLog step s0 l) cmd).2 := by
  simp [replyAt]

/-! ## the invariant -/

/-- what holds in every state reachable under `UniqueIds` -/
structure Inv (st : State Id Conn S Cmd Reply) : Prop where
  sm_log : st.sm = runLog step s0 st.log
  /-- the callback map is exactly "who waits for what" -/
  tw : ∀ id c, st.table id = some c ↔ st.waiting c = some id
  idle : ∀ c, st.waiting c = none → st.mailbox c = none ∧ (st.delivered c).length = (st.subs c).length
  wait : ∀ c id, st.waiting c = some id →
    ∃ cmd, (st.subs c)[(st.delivered c).length]? = some (id, cmd) ∧ (st.subs c).length = (st.delivered c).length + 1
  sub_uniq : ∀ (c : Conn) (k : Nat) (c' : Conn) (k' : Nat) (id : Id) (cmd cmd' : Cmd),
    (st.subs c)[k]? = some (id, cmd) → (st.subs c')[k']? = some (id, cmd') → c = c' ∧ k = k'
  log_local : ∀ (j : Nat) (e : Entry Id Cmd) (c : Conn) (k : Nat) (cmd : Cmd), st.log[j]? = some e → (st.subs c)[k]? = some (e.id, cmd) →
    e.cmd = cmd ∧ ∀ (j' : Nat) (e' : Entry Id Cmd), st.log[j']? = some e' → e'.id = e.id → j' = j
  mb_some : ∀ c r, st.mailbox c = some r →
    ∃ (id : Id) (cmd : Cmd) (j : Nat), st.waiting c = some id ∧ st.log[j]? = some ⟨id, cmd⟩ ∧ r = replyAt step s0 st.log j cmd
  mb_none : ∀ c id, st.waiting c = some id → st.mailbox c = none → ∀ e, e ∈ st.log → e.id ≠ id
  del : ∀ (c : Conn) (k : Nat) (r : Reply), (st.delivered c)[k]? = some r →
    ∃ (id : Id) (cmd : Cmd) (j : Nat), (st.subs c)[k]? = some (id, cmd) ∧ st.log[j]? = some ⟨id, cmd⟩ ∧ r = replyAt step s0 st.log j cmd

theorem inv_init : Inv step s0 (init s0 : State Id Conn S Cmd Reply) := by
  refine ⟨rfl, ?_, ?_, ?_, ?_, ?_, ?_, ?_, ?_⟩ <;> simp [init]

theorem inv_submit {st : State Id Conn S Cmd Reply} (h : Inv step s0 st) (c : Conn) (cmd : Cmd) (id : Id)
    (hen : st.waiting c = none) (hf1 : ∀ c' p, p ∈ st.subs c' → p.1 ≠ id) (hf2 : ∀ e, e ∈ st.log → e.id ≠ id) :
    Inv step s0 (next step st (.submit c cmd id)) := by
  have hnw : ∀ c', st.waiting c' ≠ some id := by
    intro c' hw
    obtain ⟨cmd', hs, _⟩ := h.wait c' id hw
    exact hf1 c' _ (mem_of_get hs) rfl
  refine ⟨h.sm_log, ?_, ?_, ?_, ?_, ?_, ?_, ?_, ?_⟩
  · intro id' c'
    simp only [next, upd]
    by_cases hi : id' = id <;> by_cases hc : c' = c
    · subst hi; subst hc; simp
    · subst hi; simp only [if_true, if_neg hc]
      constructor
      · intro hh; cases hh; exact absurd rfl hc
      · intro hh; exact absurd hh (hnw c')
    · subst hc; simp only [if_neg hi, if_true]
      constructor
      · intro hh; rw [(h.tw id' c').1 hh] at hen; cases hen
      · intro hh; cases hh; exact absurd rfl hi
    · simp only [if_neg hi, if_neg hc]; exact h.tw id' c'
  · intro c'
    simp only [next, upd]
    by_cases hc : c' = c
    · subst hc; simp
    · simp only [if_neg hc]; exact h.idle c'
  · intro c' id'
    simp only [next, upd]
    by_cases hc : c' = c
    · subst hc; simp only [if_true]
      intro hh; cases hh
      refine ⟨cmd, ?_, ?_⟩
      · rw [(h.idle c' hen).2]; exact concat_last _ _
      · simp [(h.idle c' hen).2]
    · simp only [if_neg hc]; exact h.wait c' id'
  · intro c1 k1 c2 k2 id' cmd1 cmd2
    simp only [next, upd]
    by_cases h1 : c1 = c <;> by_cases h2 : c2 = c
    · subst h1; subst h2; simp only [if_true]
      intro a b
      rcases concat_cases a with a | ⟨ka, ea⟩ <;> rcases concat_cases b with b | ⟨kb, eb⟩
      · exact ⟨trivial, (h.sub_uniq _ _ _ _ _ _ _ a b).2⟩
      · cases eb; exact absurd rfl (hf1 _ _ (mem_of_get a))
      · cases ea; exact absurd rfl (hf1 _ _ (mem_of_get b))
      · exact ⟨trivial, by omega⟩
    · subst h1; simp only [if_true, if_neg h2]
      intro a b
      rcases concat_cases a with a | ⟨ka, ea⟩
      · exact h.sub_uniq _ _ _ _ _ _ _ a b
      · cases ea; exact absurd rfl (hf1 _ _ (mem_of_get b))
    · subst h2; simp only [if_true, if_neg h1]
      intro a b
      rcases concat_cases b with b | ⟨kb, eb⟩
      · exact h.sub_uniq _ _ _ _ _ _ _ a b
      · cases eb; exact absurd rfl (hf1 _ _ (mem_of_get a))
    · simp only [if_neg h1, if_neg h2]; exact h.sub_uniq _ _ _ _ _ _ _
  · intro j e c1 k cmd1 hl
    simp only [next, upd] at hl ⊢
    by_cases h1 : c1 = c
    · subst h1; simp only [if_true]
      intro a
      rcases concat_cases a with a | ⟨ka, ea⟩
      · exact h.log_local j e _ k cmd1 hl a
      · cases ea; exact absurd rfl (hf2 e (mem_of_get hl))
    · simp only [if_neg h1]; exact h.log_local j e c1 k cmd1 hl
  · intro c1 r hm
    simp only [next, upd] at hm ⊢
    obtain ⟨id', cmd', j, hw, hl, hr⟩ := h.mb_some c1 r hm
    have h1 : c1 ≠ c := by intro hh; subst hh; rw [hen] at hw; cases hw
    exact ⟨id', cmd', j, by simp only [if_neg h1]; exact hw, hl, hr⟩
  · intro c1 id'
    simp only [next, upd]
    by_cases h1 : c1 = c
    · subst h1; simp only [if_true]
      intro hh _; cases hh; exact hf2
    · simp only [if_neg h1]; exact h.mb_none c1 id'
  · intro c1 k r hd
    simp only [next, upd] at hd ⊢
    obtain ⟨id', cmd', j, hs, hl, hr⟩ := h.del c1 k r hd
    refine ⟨id', cmd', j, ?_, hl, hr⟩
    by_cases h1 : c1 = c
    · subst h1; simp only [if_true]; exact concat_old hs
    · simp only [if_neg h1]; exact hs

/-- old log positions keep their entry and their reply when the log grows -/
theorem lift_pos {l : List (Entry Id Cmd)} (e : Entry Id Cmd) {j : Nat} {x : Entry Id Cmd} {cmd : Cmd} {r : Reply}
    (hl : l[j]? = some x) (hr : r = replyAt step s0 l j cmd) :
    (l ++ [e])[j]? = some x ∧ r = replyAt step s0 (l ++ [e]) j cmd :=
  ⟨concat_old hl, by rw [replyAt_concat step s0 l e (Nat.le_of_lt (lt_of_get hl))]; exact hr⟩

theorem inv_apply {st : State Id Conn S Cmd Reply} (h : Inv step s0 st) (e : Entry Id Cmd)
    (hg : ∀ c' p, p ∈ st.subs c' → p.1 = e.id → p.2 = e.cmd ∧ ∀ e', e' ∈ st.log → e'.id ≠ e.id) :
    Inv step s0 (next step st (.apply e)) := by
  -- the mailbox after the step
  have hmb : ∀ c1, (next step st (.apply e)).mailbox c1 =
      if st.table e.id = some c1 then some (step st.sm e.cmd).2 else st.mailbox c1 := by
    intro c1
    simp only [next]
    cases ht : st.table e.id with
    | none => simp
    | some c0 =>
      by_cases hc : c1 = c0
      · subst hc; simp [upd]
      · have : ¬ (some c0 = some c1) := by intro hh; cases hh; exact hc rfl
        simp [upd, hc, this]
  have hlog : (next step st (.apply e)).log = st.log ++ [e] := rfl
  refine ⟨?_, h.tw, ?_, h.wait, h.sub_uniq, ?_, ?_, ?_, ?_⟩
  · show (step st.sm e.cmd).1 = runLog step s0 (st.log ++ [e])
    rw [runLog_concat, ← h.sm_log]
  · intro c1 hw
    have hw : st.waiting c1 = none := hw
    refine ⟨?_, (h.idle c1 hw).2⟩
    rw [hmb]
    have : ¬ st.table e.id = some c1 := by intro ht; rw [(h.tw _ _).1 ht] at hw; cases hw
    rw [if_neg this]; exact (h.idle c1 hw).1
  · intro j e1 c1 k cmd1 hl hs
    rw [hlog] at hl
    show e1.cmd = cmd1 ∧ ∀ j' e', (st.log ++ [e])[j']? = some e' → e'.id = e1.id → j' = j
    rcases concat_cases hl with hl | ⟨hj, he⟩
    · obtain ⟨hc, hu⟩ := h.log_local j e1 c1 k cmd1 hl hs
      refine ⟨hc, ?_⟩
      intro j' e' hl' hid
      rcases concat_cases hl' with hl' | ⟨hj', he'⟩
      · exact hu j' e' hl' hid
      · rw [he'] at hid
        exact absurd hid.symm ((hg c1 _ (mem_of_get hs) hid.symm).2 e1 (mem_of_get hl))
    · subst he
      obtain ⟨hc, hno⟩ := hg c1 _ (mem_of_get hs) rfl
      refine ⟨hc.symm, ?_⟩
      intro j' e' hl' hid
      rcases concat_cases hl' with hl' | ⟨hj', _⟩
      · exact absurd hid (hno e' (mem_of_get hl'))
      · omega
  · intro c1 r hm
    rw [hmb] at hm
    rw [hlog]
    by_cases ht : st.table e.id = some c1
    · rw [if_pos ht] at hm
      cases hm
      refine ⟨e.id, e.cmd, st.log.length, (h.tw _ _).1 ht, concat_last _ _, ?_⟩
      rw [replyAt_last, ← h.sm_log]
    · rw [if_neg ht] at hm
      obtain ⟨id', cmd', j, hw, hl, hr⟩ := h.mb_some c1 r hm
      obtain ⟨a, b⟩ := lift_pos step s0 e hl hr
      exact ⟨id', cmd', j, hw, a, b⟩
  · intro c1 id' hw hm e' he'
    rw [hmb] at hm
    rw [hlog] at he'
    by_cases ht : st.table e.id = some c1
    · rw [if_pos ht] at hm; cases hm
    · rw [if_neg ht] at hm
      rcases List.mem_append.1 he' with he' | he'
      · exact h.mb_none c1 id' hw hm e' he'
      · have : e' = e := by simpa using he'
        subst this
        intro hid
        exact ht (by rw [hid]; exact (h.tw _ _).2 hw)
  · intro c1 k r hd
    obtain ⟨id', cmd', j, hs, hl, hr⟩ := h.del c1 k r hd
    obtain ⟨a, b⟩ := lift_pos step s0 e hl hr
    exact ⟨id', cmd', j, hs, by rw [hlog]; exact a, by rw [hlog]; exact b⟩

theorem next_receive {st : State Id Conn S Cmd Reply} {c : Conn} {id : Id} {r : Reply}
    (hw : st.waiting c = some id) (hm : st.mailbox c = some r) :
    next step st (.receive c) =
      { st with
        table := upd st.table id none
        waiting := upd st.waiting c none
        mailbox := upd st.mailbox c none
        delivered := upd st.delivered c (st.delivered c ++ [r])
        now := st.now + 1
        resT := upd st.resT c (st.resT c ++ [st.now]) } := by
  simp [next, hw, hm]

theorem inv_receive {st : State Id Conn S Cmd Reply} (h : Inv step s0 st) (c : Conn) (id : Id) (r : Reply)
    (hw : st.waiting c = some id) (hm : st.mailbox c = some r) :
    Inv step s0 (next step st (.receive c)) := by
  rw [next_receive step hw hm]
  have htc : st.table id = some c := (h.tw _ _).2 hw
  refine ⟨h.sm_log, ?_, ?_, ?_, h.sub_uniq, h.log_local, ?_, ?_, ?_⟩
  · intro id' c'
    simp only [upd]
    by_cases hi : id' = id <;> by_cases hc : c' = c
    · subst hi; subst hc; simp
    · subst hi; simp only [if_true, if_neg hc]
      constructor
      · intro hh; cases hh
      · intro hh; rw [(h.tw _ _).2 hh] at htc; cases htc; exact absurd rfl hc
    · subst hc; simp only [if_neg hi, if_true]
      constructor
      · intro hh; rw [(h.tw _ _).1 hh] at hw; cases hw; exact absurd rfl hi
      · intro hh; cases hh
    · simp only [if_neg hi, if_neg hc]; exact h.tw id' c'
  · intro c'
    simp only [upd]
    by_cases hc : c' = c
    · subst hc; simp only [if_true]
      intro _
      obtain ⟨cmd, _, hlen⟩ := h.wait c' id hw
      refine ⟨by simp, by simp [hlen]⟩
    · simp only [if_neg hc]; exact h.idle c'
  · intro c' id'
    simp only [upd]
    by_cases hc : c' = c
    · subst hc; simp
    · simp only [if_neg hc]; exact h.wait c' id'
  · intro c' r'
    simp only [upd]
    by_cases hc : c' = c
    · subst hc; simp
    · simp only [if_neg hc]; exact h.mb_some c' r'
  · intro c' id'
    simp only [upd]
    by_cases hc : c' = c
    · subst hc; simp
    · simp only [if_neg hc]; exact h.mb_none c' id'
  · intro c' k r'
    simp only [upd]
    by_cases hc : c' = c
    · subst hc; simp only [if_true]
      intro hd
      rcases concat_cases hd with hd | ⟨hk, hr⟩
      · exact h.del c' k r' hd
      · subst hr
        obtain ⟨id2, cmd2, j, hw2, hl, hrr⟩ := h.mb_some c' r' hm
        rw [hw] at hw2; cases hw2
        obtain ⟨cmd, hs, _⟩ := h.wait c' id hw
        have hcmd : cmd2 = cmd := (h.log_local j ⟨id, cmd2⟩ c' _ cmd hl hs).1
        subst hcmd
        exact ⟨id, cmd2, j, by rw [hk]; exact hs, hl, hrr⟩
    · simp only [if_neg hc]; exact h.del c' k r'

/-- states reachable under the hypothesis `UniqueIds` -/
abbrev ReachU (st : State Id Conn S Cmd Reply) : Prop := Reach step s0 UniqueIds st

theorem reach_inv {st : State Id Conn S Cmd Reply} (r : ReachU step s0 st) : Inv step s0 st := by
  induction r with
  | init => exact inv_init step s0
  | @step st ev _ hen hg ih =>
    cases ev with
    | submit c cmd id =>
      have : st.waiting c = none := by simpa [enabled] using hen
      exact inv_submit step s0 ih c cmd id this hg.1 hg.2
    | apply e => exact inv_apply step s0 ih e hg
    | receive c =>
      simp only [enabled, Bool.and_eq_true, Option.isSome_iff_exists] at hen
      obtain ⟨⟨id, hw⟩, ⟨r, hm⟩⟩ := hen
      exact inv_receive step s0 ih c id r hw hm

/-! ## the theorems -/

/-- **own_reply.**  In every state reachable under `UniqueIds`, the `k`-th reply connection `c` has received is the reply of its own
    `k`-th command, computed at the position `j` of that command's entry in the log: the entry `{id, cmd}` of its `k`-th submission
    is in the log at `j`, it is the only entry carrying that id, and the reply is `(step (state after log[0..j)) cmd).2`.  Replies
    and submissions of a connection are aligned by `k` (the order of its own submissions); there is never a reply without a
    submission, and at most one submission is unanswered. -/
def OwnReply (st : State Id Conn S Cmd Reply) (c : Conn) : Prop :=
    (∀ (k : Nat) (r : Reply), (st.delivered c)[k]? = some r →
      ∃ (id : Id) (cmd : Cmd) (j : Nat), (st.subs c)[k]? = some (id, cmd) ∧ st.log[j]? = some ⟨id, cmd⟩ ∧
        (∀ (j' : Nat) (e' : Entry Id Cmd), st.log[j']? = some e' → e'.id = id → j' = j) ∧
        r = (step (runLog step s0 (st.log.take j)) cmd).2) ∧
    (st.delivered c).length ≤ (st.subs c).length ∧ (st.subs c).length ≤ (st.delivered c).length + 1

/-- **own_reply** holds in every state reachable under `UniqueIds`, for every connection -/
theorem own_reply {st : State Id Conn S Cmd Reply} (hr : ReachU step s0 st) (c : Conn) : OwnReply step s0 st c := by
  have h := reach_inv step s0 hr
  refine ⟨?_, ?_⟩
  · intro k r hd
    obtain ⟨id, cmd, j, hs, hl, hrr⟩ := h.del c k r hd
    exact ⟨id, cmd, j, hs, hl, (h.log_local j ⟨id, cmd⟩ c k cmd hl hs).2, hrr⟩
  · cases hw : st.waiting c with
    | none => have := (h.idle c hw).2; omega
    | some id => obtain ⟨_, _, hlen⟩ := h.wait c id hw; omega

/-- two different submissions (of any connections) never share a log entry: a reply is never another command's reply -/
theorem own_reply_distinct_entries {st : State Id Conn S Cmd Reply} (hr : ReachU step s0 st) {c c' : Conn} {k k' j : Nat}
    {id id' : Id} {cmd cmd' : Cmd} (hs : (st.subs c)[k]? = some (id, cmd)) (hs' : (st.subs c')[k']? = some (id', cmd'))
    (hl : st.log[j]? = some ⟨id, cmd⟩) (hl' : st.log[j]? = some ⟨id', cmd'⟩) : c = c' ∧ k = k' := by
  have h := reach_inv step s0 hr
  rw [hl] at hl'; cases hl'
  exact h.sub_uniq _ _ _ _ _ _ _ hs hs'

/-- **no_reply_without_commit.**  A reply is in a connection's hands (received, or on its wait channel) only if the entry of the
    command it answers has been applied. -/
theorem no_reply_without_commit {st : State Id Conn S Cmd Reply} (hr : ReachU step s0 st) (c : Conn) :
    (∀ (k : Nat) (r : Reply), (st.delivered c)[k]? = some r → ∃ (id : Id) (cmd : Cmd), (st.subs c)[k]? = some (id, cmd) ∧ (⟨id, cmd⟩ : Entry Id Cmd) ∈ st.log) ∧
    (∀ r, st.mailbox c = some r → ∃ id cmd, st.waiting c = some id ∧ (⟨id, cmd⟩ : Entry Id Cmd) ∈ st.log) := by
  have h := reach_inv step s0 hr
  refine ⟨?_, ?_⟩
  · intro k r hd
    obtain ⟨id, cmd, j, hs, hl, _⟩ := h.del c k r hd
    exact ⟨id, cmd, hs, mem_of_get hl⟩
  · intro r hm
    obtain ⟨id, cmd, j, hw, hl, _⟩ := h.mb_some c r hm
    exact ⟨id, cmd, hw, mem_of_get hl⟩

/-- **waiter_never_stuck_after_apply** (no lost wake-up).  If a connection waits for proposal `id` and an entry with that id has
    been applied, its reply is on its channel: `receive` is enabled. -/
theorem waiter_never_stuck_after_apply {st : State Id Conn S Cmd Reply} (hr : ReachU step s0 st) (c : Conn) (id : Id)
    (hw : st.waiting c = some id) (e : Entry Id Cmd) (he : e ∈ st.log) (hid : e.id = id) :
    (∃ r, st.mailbox c = some r) ∧ enabled st (.receive c : Event Id Conn Cmd) = true := by
  have h := reach_inv step s0 hr
  cases hm : st.mailbox c with
  | none => exact absurd hid (h.mb_none c id hw hm e he)
  | some r => exact ⟨⟨r, rfl⟩, by simp [enabled, hw, hm]⟩

/-- **foreign_entries_deliver_nothing.**  Applying an entry whose id no local connection has submitted changes the log and the state
    machine and nothing else: no connection receives anything, no registration changes. -/
theorem foreign_entries_deliver_nothing {st : State Id Conn S Cmd Reply} (hr : ReachU step s0 st) (e : Entry Id Cmd)
    (hforeign : ∀ c p, p ∈ st.subs c → p.1 ≠ e.id) :
    let st' := next step st (.apply e)
    st'.mailbox = st.mailbox ∧ st'.delivered = st.delivered ∧ st'.table = st.table ∧ st'.waiting = st.waiting ∧
      st'.log = st.log ++ [e] ∧ st'.sm = (step st.sm e.cmd).1 := by
  have h := reach_inv step s0 hr
  have ht : st.table e.id = none := by
    cases ht : st.table e.id with
    | none => rfl
    | some c =>
      obtain ⟨cmd, hs, _⟩ := h.wait c e.id ((h.tw _ _).1 ht)
      exact absurd rfl (hforeign c _ (mem_of_get hs))
  simp [next, ht]


/-! ## real-time order -/

/-- the history variables are consistent, and **an entry submitted after another command's reply was received is later in the log** -/
structure InvT (st : State Id Conn S Cmd Reply) : Prop where
  lenI : ∀ c, (st.invT c).length = (st.subs c).length
  lenR : ∀ c, (st.resT c).length = (st.delivered c).length
  ltI : ∀ c t, t ∈ st.invT c → t < st.now
  ltR : ∀ c t, t ∈ st.resT c → t < st.now
  rt : ∀ (c : Conn) (k : Nat) (c' : Conn) (k' : Nat) (tr ti : Nat) (id id' : Id) (cmd cmd' : Cmd) (j j' : Nat),
    (st.resT c)[k]? = some tr → (st.invT c')[k']? = some ti → tr < ti →
    (st.subs c)[k]? = some (id, cmd) → (st.subs c')[k']? = some (id', cmd') →
    st.log[j]? = some ⟨id, cmd⟩ → st.log[j']? = some ⟨id', cmd'⟩ → j < j'

theorem upd_concat_cases {α : Type} {f : Conn → List α} {c c1 : Conn} {x y : α} {k : Nat}
    (h : (upd f c (f c ++ [x]) c1)[k]? = some y) : (f c1)[k]? = some y ∨ (c1 = c ∧ k = (f c).length ∧ y = x) := by
  by_cases hc : c1 = c
  · subst hc; rw [upd_same] at h
    rcases concat_cases h with h | ⟨a, b⟩
    · exact Or.inl h
    · exact Or.inr ⟨rfl, a, b⟩
  · rw [upd_other _ _ hc] at h; exact Or.inl h

theorem upd_concat_old {α : Type} {f : Conn → List α} {c c1 : Conn} {x y : α} {k : Nat}
    (h : (upd f c (f c ++ [x]) c1)[k]? = some y) (hk : k < (f c1).length) : (f c1)[k]? = some y := by
  rcases upd_concat_cases h with h | ⟨a, b, _⟩
  · exact h
  · subst a; omega

theorem invT_init : InvT (init s0 : State Id Conn S Cmd Reply) := by
  refine ⟨?_, ?_, ?_, ?_, ?_⟩ <;> simp [init]

theorem invT_submit {st : State Id Conn S Cmd Reply} (h : Inv step s0 st) (t : InvT st) (c : Conn) (cmd : Cmd) (id : Id)
    (hen : st.waiting c = none) (hf2 : ∀ e, e ∈ st.log → e.id ≠ id) : InvT (next step st (.submit c cmd id)) := by
  have hdl : ∀ c1, (st.delivered c1).length ≤ (st.subs c1).length := by
    intro c1
    cases hw : st.waiting c1 with
    | none => have := (h.idle c1 hw).2; omega
    | some id => obtain ⟨_, _, hlen⟩ := h.wait c1 id hw; omega
  refine ⟨?_, t.lenR, ?_, ?_, ?_⟩
  · intro c1
    simp only [next, upd]
    by_cases hc : c1 = c
    · subst hc; simp [t.lenI]
    · simp only [if_neg hc]; exact t.lenI c1
  · intro c1 x hx
    simp only [next, upd] at hx ⊢
    by_cases hc : c1 = c
    · subst hc; simp only [if_true] at hx
      rcases List.mem_append.1 hx with hx | hx
      · have := t.ltI _ _ hx; omega
      · have : x = st.now := by simpa using hx
        omega
    · simp only [if_neg hc] at hx; have := t.ltI _ _ hx; omega
  · intro c1 x hx
    have := t.ltR c1 x hx
    simp only [next]; omega
  · intro c1 k c2 k' tr ti id1 id2 cmd1 cmd2 j j' hr hi hlt hs1 hs2 hl1 hl2
    have hr : (st.resT c1)[k]? = some tr := hr
    have hl1 : st.log[j]? = some ⟨id1, cmd1⟩ := hl1
    have hl2 : st.log[j']? = some ⟨id2, cmd2⟩ := hl2
    have hk : k < (st.subs c1).length := by
      have := lt_of_get hr; rw [t.lenR] at this; exact Nat.lt_of_lt_of_le this (hdl c1)
    have hs1 : (st.subs c1)[k]? = some (id1, cmd1) := upd_concat_old hs1 hk
    rcases upd_concat_cases hi with hi | ⟨hc, hk', hti⟩
    · have hk2 : k' < (st.subs c2).length := by have := lt_of_get hi; rwa [t.lenI] at this
      exact t.rt c1 k c2 k' tr ti id1 id2 cmd1 cmd2 j j' hr hi hlt hs1 (upd_concat_old hs2 hk2) hl1 hl2
    · subst hc
      rcases upd_concat_cases hs2 with hs2 | ⟨_, _, hx⟩
      · have := lt_of_get hs2; rw [t.lenI] at hk'; omega
      · cases hx; exact absurd rfl (hf2 _ (mem_of_get hl2))

theorem invT_apply {st : State Id Conn S Cmd Reply} (h : Inv step s0 st) (h' : Inv step s0 (next step st (.apply e))) (t : InvT st) :
    InvT (next step st (.apply e)) := by
  refine ⟨t.lenI, t.lenR, ?_, ?_, ?_⟩
  · intro c1 x hx; have := t.ltI c1 x hx; simp only [next]; omega
  · intro c1 x hx; have := t.ltR c1 x hx; simp only [next]; omega
  · intro c1 k c2 k' tr ti id1 id2 cmd1 cmd2 j j' hr hi hlt hs1 hs2 hl1 hl2
    have hr : (st.resT c1)[k]? = some tr := hr
    have hs1 : (st.subs c1)[k]? = some (id1, cmd1) := hs1
    have hs2 : (st.subs c2)[k']? = some (id2, cmd2) := hs2
    -- the completed operation's entry is in the old log
    have hkd : k < (st.delivered c1).length := by have := lt_of_get hr; rwa [t.lenR] at this
    obtain ⟨r, hd⟩ : ∃ r, (st.delivered c1)[k]? = some r := ⟨_, List.getElem?_eq_getElem hkd⟩
    obtain ⟨id0, cmd0, j0, hs0, hl0, _⟩ := h.del c1 k r hd
    rw [hs1] at hs0; cases hs0
    have hj : j = j0 := ((h'.log_local j0 ⟨id1, cmd1⟩ c1 k cmd1 (concat_old hl0) hs1).2 j _ hl1 rfl)
    subst hj
    have hjl := lt_of_get hl0
    have hl2' : (st.log ++ [e])[j']? = some ⟨id2, cmd2⟩ := hl2
    rcases concat_cases hl2' with hl2' | ⟨hj', _⟩
    · exact t.rt c1 k c2 k' tr ti id1 id2 cmd1 cmd2 j j' hr hi hlt hs1 hs2 hl0 hl2'
    · omega

theorem invT_receive {st : State Id Conn S Cmd Reply} (t : InvT st) (c : Conn) (id : Id) (r : Reply)
    (hw : st.waiting c = some id) (hm : st.mailbox c = some r) : InvT (next step st (.receive c)) := by
  rw [next_receive step hw hm]
  refine ⟨t.lenI, ?_, ?_, ?_, ?_⟩
  · intro c1
    simp only [upd]
    by_cases hc : c1 = c
    · subst hc; simp [t.lenR]
    · simp only [if_neg hc]; exact t.lenR c1
  · intro c1 x hx; have := t.ltI c1 x hx; show x < st.now + 1; omega
  · intro c1 x hx
    show x < st.now + 1
    simp only [upd] at hx
    by_cases hc : c1 = c
    · subst hc; simp only [if_true] at hx
      rcases List.mem_append.1 hx with hx | hx
      · have := t.ltR _ _ hx; omega
      · have : x = st.now := by simpa using hx
        omega
    · simp only [if_neg hc] at hx; have := t.ltR _ _ hx; omega
  · intro c1 k c2 k' tr ti id1 id2 cmd1 cmd2 j j' hr hi hlt hs1 hs2 hl1 hl2
    rcases upd_concat_cases hr with hr | ⟨_, _, htr⟩
    · exact t.rt c1 k c2 k' tr ti id1 id2 cmd1 cmd2 j j' hr hi hlt hs1 hs2 hl1 hl2
    · have := t.ltI c2 ti (mem_of_get hi); omega

theorem reach_invT {st : State Id Conn S Cmd Reply} (r : ReachU step s0 st) : InvT st := by
  induction r with
  | init => exact invT_init s0
  | @step st ev r0 hen hg ih =>
    have h := reach_inv step s0 r0
    cases ev with
    | submit c cmd id =>
      have : st.waiting c = none := by simpa [enabled] using hen
      exact invT_submit step s0 h ih c cmd id this hg.2
    | apply e => exact invT_apply step s0 h (reach_inv step s0 (Reach.step r0 hen hg)) ih
    | receive c =>
      simp only [enabled, Bool.and_eq_true, Option.isSome_iff_exists] at hen
      obtain ⟨⟨id, hw⟩, ⟨r, hm⟩⟩ := hen
      exact invT_receive step ih c id r hw hm

/-- **real_time_order** (the statement of `RS.commit_order_respects_real_time`, inside the rendezvous model): if the reply to the
    `k`-th command of `c` was received (at time `tr`) before the `k'`-th command of `c'` was submitted (at time `ti`), the entry of
    the former is earlier in the log than the entry of the latter (if that one is in the log at all).  It is immediate here because
    a reply is produced only when the entry is applied, and a proposal's entry is appended only after its submission. -/
theorem real_time_order {st : State Id Conn S Cmd Reply} (hr : ReachU step s0 st) {c c' : Conn} {k k' tr ti j j' : Nat}
    {id id' : Id} {cmd cmd' : Cmd}
    (hres : (st.resT c)[k]? = some tr) (hinv : (st.invT c')[k']? = some ti) (hlt : tr < ti)
    (hs : (st.subs c)[k]? = some (id, cmd)) (hs' : (st.subs c')[k']? = some (id', cmd'))
    (hl : st.log[j]? = some ⟨id, cmd⟩) (hl' : st.log[j']? = some ⟨id', cmd'⟩) : j < j' :=
  (reach_invT step s0 hr).rt c k c' k' tr ti id id' cmd cmd' j j' hres hinv hlt hs hs' hl hl'

/-! ## linearizability of the node's client history, with the log order as witness -/

/-- one operation of a client history: the command, its invocation time and, once completed, its response time and reply -/
structure Op (Cmd Reply : Type) where
  cmd : Cmd
  inv : Nat
  res : Option (Nat × Reply)

/-- the history the model has produced in state `st`: the `k`-th operation of connection `c` (invocation = `submit`, response =
    `receive`) -/
def history (st : State Id Conn S Cmd Reply) (c : Conn) (k : Nat) : Option (Op Cmd Reply) :=
  match (st.subs c)[k]?, (st.invT c)[k]? with
  | some p, some ti =>
    some { cmd := p.2, inv := ti
           res := match (st.delivered c)[k]?, (st.resT c)[k]? with
             | some r, some tr => some (tr, r)
             | _, _ => none }
  | _, _ => none

/-- the sequential specification: run a list of commands from `s0` -/
def seqRun (cmds : List Cmd) : S := cmds.foldl (fun s c => (step s c).1) s0

/-- **Linearizability** (Herlihy & Wing) of a history `H` — operations indexed by client and sequence number — with respect to the
    sequential specification `step` from `s0`: there is a sequential history `seq` (a list of commands; it may contain operations of
    clients outside `H` and pending operations) and a placement `pos` of operations of `H` at positions of `seq` such that
    (1) an operation is placed only where its own command stands, (2) no two operations share a position, (3) every completed
    operation is placed and its reply is the one the sequential run of `seq` gives at its position, (4) if an operation's response
    precedes another's invocation, it is placed earlier. -/
def Linearizable (H : Conn → Nat → Option (Op Cmd Reply)) : Prop :=
  ∃ (seq : List Cmd) (pos : Conn → Nat → Option Nat),
    (∀ c k j, pos c k = some j → ∃ o, H c k = some o ∧ seq[j]? = some o.cmd) ∧
    (∀ c k c' k' j, pos c k = some j → pos c' k' = some j → c = c' ∧ k = k') ∧
    (∀ c k o t r, H c k = some o → o.res = some (t, r) →
      ∃ j, pos c k = some j ∧ r = (step (seqRun step s0 (seq.take j)) o.cmd).2) ∧
    (∀ c k c' k' o o' t r j j', H c k = some o → H c' k' = some o' → o.res = some (t, r) → t < o'.inv →
      pos c k = some j → pos c' k' = some j' → j < j')

theorem history_some {st : State Id Conn S Cmd Reply} {c : Conn} {k : Nat} {o : Op Cmd Reply} (h : history st c k = some o) :
    ∃ id, (st.subs c)[k]? = some (id, o.cmd) ∧ (st.invT c)[k]? = some o.inv ∧
      ∀ t r, o.res = some (t, r) → (st.delivered c)[k]? = some r ∧ (st.resT c)[k]? = some t := by
  unfold history at h
  split at h
  · rename_i p ti hp hti
    cases h
    refine ⟨p.1, hp, hti, ?_⟩
    intro t r hres
    simp only at hres
    split at hres
    · rename_i r' tr' hd hr; cases hres; exact ⟨hd, hr⟩
    · cases hres
  · cases h

theorem runLog_eq_seqRun (l : List (Entry Id Cmd)) : runLog step s0 l = seqRun step s0 (l.map (·.cmd)) := by
  simp [runLog, seqRun, List.foldl_map]

open Classical in
/-- the position of the entry of the `k`-th command of `c` in the log, if it is there -/
noncomputable def logPos (st : State Id Conn S Cmd Reply) (c : Conn) (k : Nat) : Option Nat :=
  if h : ∃ j : Nat, ∃ id cmd, (st.subs c)[k]? = some (id, cmd) ∧ st.log[j]? = some (⟨id, cmd⟩ : Entry Id Cmd) then some (choose h) else none

theorem logPos_spec {st : State Id Conn S Cmd Reply} {c : Conn} {k j : Nat} (h : logPos st c k = some j) :
    ∃ id cmd, (st.subs c)[k]? = some (id, cmd) ∧ st.log[j]? = some (⟨id, cmd⟩ : Entry Id Cmd) := by
  unfold logPos at h
  split at h
  · rename_i hex; cases h; exact Classical.choose_spec hex
  · cases h

theorem logPos_of {st : State Id Conn S Cmd Reply} (hi : Inv step s0 st) {c : Conn} {k j : Nat} {id : Id} {cmd : Cmd}
    (hs : (st.subs c)[k]? = some (id, cmd)) (hl : st.log[j]? = some ⟨id, cmd⟩) : logPos st c k = some j := by
  have hex : ∃ j : Nat, ∃ id cmd, (st.subs c)[k]? = some (id, cmd) ∧ st.log[j]? = some (⟨id, cmd⟩ : Entry Id Cmd) := ⟨j, id, cmd, hs, hl⟩
  unfold logPos
  rw [dif_pos hex]
  obtain ⟨id', cmd', hs', hl'⟩ := Classical.choose_spec hex
  rw [hs] at hs'; cases hs'
  exact congrArg some ((hi.log_local j ⟨id, cmd⟩ c k cmd hl hs).2 _ _ hl' rfl)

/-- **C07_linearizable_partial.**  For any deterministic state machine `step` (in particular a single key-value store), every history
    the rendezvous model produces under `UniqueIds` — invocation = a connection submits a command, response = it receives the reply —
    is linearizable, and the witness is the log order: the sequential history is the list of the commands of the applied log (local
    and foreign entries alike), each operation sits at the position of its own entry, the reply of every completed operation is the
    reply of the sequential run at that position (`own_reply`), and an operation answered before another was submitted precedes it
    in the log (`real_time_order`).

    *Partial*: (1) the history is that of ONE node's clients; operations of other nodes' clients appear as foreign entries of the
    same log. That all nodes apply the same log, and that the log order respects real time ACROSS nodes, are
    `RS.C15_state_machine_safety` / `Apply.apply_exactly_once` and `RS.commit_order_respects_real_time` (proved for the abstract
    protocol), and that replicas compute the same replies from the same log is `Exec.C07.replicas_agree` (deterministic fragment);
    they are not re-derived here.  (2) It is a statement about the model `Rendezvous.next`; the Go code is tied to it by the
    `rendezvous` correspondence suite, not by proof.  (3) `UniqueIds` is a hypothesis (uuid collisions, duplicated proposals). -/
theorem C07_linearizable_partial {st : State Id Conn S Cmd Reply} (hr : ReachU step s0 st) :
    Linearizable step s0 (history st) := by
  have hi := reach_inv step s0 hr
  have ht := reach_invT step s0 hr
  refine ⟨st.log.map (·.cmd), logPos st, ?_, ?_, ?_, ?_⟩
  · intro c k j hp
    obtain ⟨id, cmd, hs, hl⟩ := logPos_spec hp
    have hk : k < (st.invT c).length := by rw [ht.lenI]; exact lt_of_get hs
    have hh : ∃ o, history st c k = some o ∧ o.cmd = cmd := by
      simp only [history, hs, List.getElem?_eq_getElem hk]
      exact ⟨_, rfl, rfl⟩
    obtain ⟨o, ho, hc⟩ := hh
    exact ⟨o, ho, by simp [List.getElem?_map, hl, hc]⟩
  · intro c k c' k' j hp hp'
    obtain ⟨id, cmd, hs, hl⟩ := logPos_spec hp
    obtain ⟨id', cmd', hs', hl'⟩ := logPos_spec hp'
    exact own_reply_distinct_entries step s0 hr hs hs' hl hl'
  · intro c k o t r hh hres
    obtain ⟨id, hs, _, hc⟩ := history_some hh
    obtain ⟨hd, _⟩ := hc t r hres
    obtain ⟨id0, cmd0, j, hs0, hl0, hrr⟩ := hi.del c k r hd
    rw [hs] at hs0; cases hs0
    refine ⟨j, logPos_of step s0 hi hs hl0, ?_⟩
    rw [hrr, replyAt, runLog_eq_seqRun, List.map_take]
  · intro c k c' k' o o' t r j j' hh hh' hres hlt hp hp'
    obtain ⟨id, hs, _, hc⟩ := history_some hh
    obtain ⟨id', hs', hinv', _⟩ := history_some hh'
    obtain ⟨_, hrt⟩ := hc t r hres
    obtain ⟨id1, cmd1, hs1, hl1⟩ := logPos_spec hp
    obtain ⟨id2, cmd2, hs2, hl2⟩ := logPos_spec hp'
    exact ht.rt c k c' k' t o'.inv id1 id2 cmd1 cmd2 j j' hrt hinv' hlt hs1 hs2 hl1 hl2

/-! ## `UniqueIds` is needed: concrete runs without it -/

/-- a small state machine for the witnesses: an accumulator; the reply is the new total -/
def exStep (s c : Nat) : Nat × Nat := (s + c, s + c)

/-- two proposals with the same id 7 (an id collision): the second registration overwrites the first, the entry of the FIRST
    command is applied, and connection 1 receives the reply of connection 0's command -/
def collide : State Nat Nat Nat Nat Nat :=
  next exStep (next exStep (next exStep (next exStep (init 0) (.submit 0 1 7)) (.submit 1 2 7)) (.apply ⟨7, 1⟩)) (.receive 1)

theorem collide_reach : Reach exStep 0 NoGuard collide :=
  .step (.step (.step (.step .init rfl trivial) rfl trivial) rfl trivial) rfl trivial

/-- **without unique ids `own_reply` fails**: in the reachable state `collide`, connection 1 has received `1`, the reply of
    connection 0's command; its own command `2` is not in the log at all. -/
theorem own_reply_needs_unique_ids :
    ∃ st : State Nat Nat Nat Nat Nat, Reach exStep 0 NoGuard st ∧ st.delivered 1 = [1] ∧ st.subs 1 = [(7, 2)] ∧
      st.log.map (·.cmd) = [1] ∧ ¬ OwnReply exStep 0 st 1 := by
  refine ⟨collide, collide_reach, rfl, rfl, rfl, ?_⟩
  intro h
  obtain ⟨id, cmd, j, hs, hl, _⟩ := h.1 0 1 rfl
  have hs' : (collide.subs 1)[0]? = some (7, 2) := rfl
  rw [hs'] at hs; cases hs
  have hlog : collide.log = [⟨7, 1⟩] := rfl
  rw [hlog] at hl
  cases j with
  | zero => simp at hl
  | succ n => simp at hl

/-- one proposal whose entry is appended twice (a duplicated proposal): the second application overwrites the value on the channel -/
def twice : State Nat Nat Nat Nat Nat :=
  next exStep (next exStep (next exStep (next exStep (init 0) (.submit 0 1 7)) (.apply ⟨7, 1⟩)) (.apply ⟨7, 1⟩)) (.receive 0)

theorem twice_reach : Reach exStep 0 NoGuard twice :=
  .step (.step (.step (.step .init rfl trivial) rfl trivial) rfl trivial) rfl trivial

/-- **without "appended at most once" `own_reply` fails**: connection 0 receives `2`, the reply of the second copy, while the first
    application of its command (the one that took effect first) replied `1`; "the entry of the command" is not unique. -/
theorem own_reply_needs_append_once :
    ∃ st : State Nat Nat Nat Nat Nat, Reach exStep 0 NoGuard st ∧ st.delivered 0 = [2] ∧
      (exStep (runLog exStep 0 (st.log.take 0)) 1).2 = 1 ∧ ¬ OwnReply exStep 0 st 0 := by
  refine ⟨twice, twice_reach, rfl, rfl, ?_⟩
  intro h
  obtain ⟨id, cmd, j, hs, hl, hu, _⟩ := h.1 0 2 rfl
  have hs' : (twice.subs 0)[0]? = some (7, 1) := rfl
  rw [hs'] at hs; cases hs
  have h0 := hu 0 ⟨7, 1⟩ rfl rfl
  have h1 := hu 1 ⟨7, 1⟩ rfl rfl
  omega

/-! ## non-vacuity: a run that satisfies `UniqueIds` and exercises every theorem

    connection 0 submits `5` (id 1) · a foreign entry `{9, 10}` is applied · the entry `{1, 5}` is applied · connection 0 receives
    `15` · connection 0 submits `2` (id 2) · `{2, 2}` is applied · connection 0 receives `17`. -/

def g1 : State Nat Nat Nat Nat Nat := next exStep (init 0) (.submit 0 5 1)
def g2 : State Nat Nat Nat Nat Nat := next exStep g1 (.apply ⟨9, 10⟩)
def g3 : State Nat Nat Nat Nat Nat := next exStep g2 (.apply ⟨1, 5⟩)
def g4 : State Nat Nat Nat Nat Nat := next exStep g3 (.receive 0)
def g5 : State Nat Nat Nat Nat Nat := next exStep g4 (.submit 0 2 2)
def g6 : State Nat Nat Nat Nat Nat := next exStep g5 (.apply ⟨2, 2⟩)
def g7 : State Nat Nat Nat Nat Nat := next exStep g6 (.receive 0)

/-- the submissions of the example run: only connection 0 submits -/
theorem subs_cases {f : Nat → List (Nat × Nat)} {l : List (Nat × Nat)} (hf : ∀ c, f c = if c = 0 then l else []) {c : Nat} {p : Nat × Nat}
    (hp : p ∈ f c) : p ∈ l := by
  rw [hf] at hp
  split at hp
  · exact hp
  · cases hp

theorem g1_subs (c : Nat) : g1.subs c = if c = 0 then [(1, 5)] else [] := by simp [g1, next, init, upd]
theorem g5_subs (c : Nat) : g5.subs c = if c = 0 then [(1, 5), (2, 2)] else [] := by
  have : g5.subs = upd g1.subs 0 (g1.subs 0 ++ [(2, 2)]) := rfl
  rw [this]; simp only [upd, g1_subs]; split <;> simp

theorem g1_reach : ReachU exStep 0 g1 :=
  .step .init rfl ⟨by intro c p hp; simp [init] at hp, by intro e he; simp [init] at he⟩
theorem g2_reach : ReachU exStep 0 g2 :=
  .step g1_reach rfl (by intro c p hp hid; have := subs_cases g1_subs hp; simp at this; subst this; simp at hid)
theorem g3_reach : ReachU exStep 0 g3 :=
  .step g2_reach rfl (by
    intro c p hp hid
    have := subs_cases g1_subs hp
    simp at this; subst this
    refine ⟨rfl, ?_⟩
    intro e' he'
    have : e' = ⟨9, 10⟩ := by simpa [g2, g1, next, init] using he'
    subst this; simp)
theorem g4_reach : ReachU exStep 0 g4 := .step g3_reach rfl trivial
theorem g5_reach : ReachU exStep 0 g5 :=
  .step g4_reach rfl ⟨by
    intro c p hp
    have := subs_cases g1_subs hp
    simp at this; subst this; simp, by
    intro e he
    have : e = ⟨9, 10⟩ ∨ e = ⟨1, 5⟩ := by simpa [g4, g3, g2, g1, next, init] using he
    rcases this with h | h <;> subst h <;> simp⟩
theorem g6_reach : ReachU exStep 0 g6 :=
  .step g5_reach rfl (by
    intro c p hp hid
    have := subs_cases g5_subs hp
    simp at this
    rcases this with h | h <;> subst h
    · simp at hid
    · refine ⟨rfl, ?_⟩
      intro e he
      have : e = ⟨9, 10⟩ ∨ e = ⟨1, 5⟩ := by simpa [g5, g4, g3, g2, g1, next, init] using he
      rcases this with h | h <;> subst h <;> simp)
theorem g7_reach : ReachU exStep 0 g7 := .step g6_reach rfl trivial

theorem g3_mem : (⟨1, 5⟩ : Entry Nat Nat) ∈ g3.log := by
  have : g3.log = [⟨9, 10⟩, ⟨1, 5⟩] := rfl
  rw [this]; simp

/-- `own_reply` on the example: the replies are 15 (5 after the foreign 10) and 17, each at its own entry's position (1 and 2) -/
example : ReachU exStep 0 g7 ∧ g7.delivered 0 = [15, 17] ∧ g7.log.map (·.id) = [9, 1, 2] ∧ OwnReply exStep 0 g7 0 :=
  ⟨g7_reach, rfl, rfl, own_reply exStep 0 g7_reach 0⟩
/-- `no_reply_without_commit`: a reply is on the channel in `g3` and received in `g4` -/
example : g3.mailbox 0 = some 15 ∧ (g4.delivered 0)[0]? = some 15 ∧ (⟨1, 5⟩ : Entry Nat Nat) ∈ g3.log := ⟨rfl, rfl, g3_mem⟩
/-- `waiter_never_stuck_after_apply`: in `g3` connection 0 waits for id 1 and the entry with id 1 has been applied -/
example : (∃ r, g3.mailbox 0 = some r) ∧ enabled g3 (.receive 0 : Event Nat Nat Nat) = true :=
  waiter_never_stuck_after_apply exStep 0 g3_reach 0 1 rfl ⟨1, 5⟩ g3_mem rfl
/-- `foreign_entries_deliver_nothing`: the entry `{9, 10}` is foreign in `g1` -/
example : (next exStep g1 (.apply ⟨9, 10⟩)).mailbox = g1.mailbox :=
  (foreign_entries_deliver_nothing exStep 0 g1_reach ⟨9, 10⟩
    (by intro c p hp; have := subs_cases g1_subs hp; simp at this; subst this; simp)).1
/-- `real_time_order`: the first reply was received at time 3, the second command submitted at time 4; entries at 1 and 2 -/
example : (1 : Nat) < 2 :=
  real_time_order exStep 0 g7_reach (c := 0) (c' := 0) (k := 0) (k' := 1) (tr := 3) (ti := 4) (id := 1) (id' := 2) (cmd := 5) (cmd' := 2)
    rfl rfl (by decide) rfl rfl rfl rfl
/-- `C07_linearizable_partial` on the example, whose history has two completed operations -/
example : Linearizable exStep 0 (history g7) ∧ (history g7 0 1).map (·.res) = some (some (6, 17)) :=
  ⟨C07_linearizable_partial exStep 0 g7_reach, rfl⟩

/-! ## the instance the driver runs

    `Driver.rzStep` is `applyClusterProposal` on the executable keyspace model (`Exec.exec`), `Driver.RzModel` the rendezvous state
    with proposal ids as strings and connections as numbers: the `rendezvous` engine replays the observed events with exactly
    `next Driver.rzStep`.  The theorems above are about any `step`, hence about this one. -/

theorem own_reply_keyspace {st : Driver.RzModel} (hr : ReachU Driver.rzStep [] st) (c : Nat) : OwnReply Driver.rzStep [] st c :=
  own_reply Driver.rzStep [] hr c

theorem C07_linearizable_keyspace_partial {st : Driver.RzModel} (hr : ReachU Driver.rzStep [] st) :
    Linearizable Driver.rzStep [] (history st) :=
  C07_linearizable_partial Driver.rzStep [] hr

end Rendezvous

#print axioms Rendezvous.own_reply
#print axioms Rendezvous.own_reply_needs_unique_ids
#print axioms Rendezvous.own_reply_needs_append_once
#print axioms Rendezvous.no_reply_without_commit
#print axioms Rendezvous.waiter_never_stuck_after_apply
#print axioms Rendezvous.foreign_entries_deliver_nothing
#print axioms Rendezvous.real_time_order
#print axioms Rendezvous.C07_linearizable_partial
