import RedisGoModel.Conc.PubSubSlow
/-! # C19 (slow consumers): a confirmed SUBSCRIBE is a member — `confirm_after_join`, and the seeded order `subscribeEarly`

Model: `Conc/PubSubSlow.lean` (`PSS`).  In the code the SUBSCRIBE confirmation is written AFTER `ChanMap.Subscribe` has joined the
connection to the channel object (steps s0, s2, THEN sc).  Proved here:

* `confirm_after_join` — for programs of the real code (`Real`: no `subscribeEarly`), in every reachable state: `confirmed c ch = true`
  implies `member s c ch ∨ left c ch = true`.  Exactly as stated in the task.
* `left_only_by_unsubscribe_or_death` — `left c ch` goes from false to true only in a step of a thread at `u2` executing
  `.unsubscribe c ch`, or with `c` dead (prune).  DIFFERS from the task statement by the ADDED hypothesis `Reach progs s` (any `progs`,
  `Real` not needed); the strong form `cur = .unsubscribe c ch` is kept.  Without `Reach` the strong form is false
  (`left_strong_form_needs_reach`: a state with a thread at `u2 0` whose `cur` is `.subscribe 1 [97]`, kernel-evaluated);
  `left_only_by_unsubscribe_or_death_step` is the form for ANY state, with `cur.conn = c ∧ cur.chan = ch`.
* `publish_after_confirm_finds` — exactly as stated: the Send's lookup step p0 goes to `p3 o` with `o` the table's object of `ch` and
  `c ∈ subs o`; `publish_range_starts_over_members`: the step at `p3 o` goes to `p4 o [] (subs o)`.
* NEGATIVE companion, kernel-evaluated: `confirm_before_join_misses` (programs `earlyProgs`, schedule `earlySched`), `earlyProgs_not_real`.
* an `example` after `confirm_after_join`: a reachable state of a real program with the confirmation and membership (by evaluation).

Invariant `Inv` (for `Real` programs): no thread at e0 / with an early operation; the table write lock is held exactly by the thread
at s2 / u2, whose object IS the table's object of its channel (`twS`, `twC`); table objects are below `next` and belong to one channel
(`t1`); the object of a Send at p3 / p4 / pw is below `next` and belongs to the Send's channel (`t2`); and `d`: a confirmation written
OR about to be written (a thread at sc) implies member-or-left.  One characterisation lemma per program counter (`next0_*`). -/
namespace PSS
open PubSub (Chan Conn Payload)
variable {n : Nat}

/-- `c` is in the subscriber set of the object the table has for `ch` -/
def member (s : St n) (c : Conn) (ch : Chan) : Prop := ∃ o, s.table ch = some o ∧ c ∈ s.subs o

/-! ## one characterisation lemma per program counter -/

theorem next0_idle {s s' : St n} {t : Fin n} {p : Conn} (h : (s.thr t).pc = .idle) (hn : next0 s t p = some s') :
    ∃ op rest, (s.thr t).prog = op :: rest ∧ s' = setT s t { s.thr t with pc := entry op, cur := op, prog := rest } := by
  unfold next0 at hn
  simp only [h] at hn
  split at hn
  · cases hn
  · rename_i op rest hp
    exact ⟨op, rest, hp, (Option.some.inj hn).symm⟩

theorem next0_e0 {s s' : St n} {t : Fin n} {p : Conn} (h : (s.thr t).pc = .e0) (hn : next0 s t p = some s') :
    s' = { setT s t { s.thr t with pc := .s0 } with confirmed := upd2 s.confirmed (s.thr t).cur.conn (s.thr t).cur.chan true } := by
  unfold next0 at hn
  simp only [h] at hn
  exact (Option.some.inj hn).symm

theorem next0_s0 {s s' : St n} {t : Fin n} {p : Conn} (h : (s.thr t).pc = .s0) (hn : next0 s t p = some s') :
    s.tw = none ∧
    ((∃ o, s.table (s.thr t).cur.chan = some o ∧ s' = { setT s t { s.thr t with pc := .s2 o } with tw := some t }) ∨
     (s.table (s.thr t).cur.chan = none ∧
      s' = { setT s t { s.thr t with pc := .s2 s.next } with
             tw := some t, table := upd s.table (s.thr t).cur.chan (some s.next), subs := upd s.subs s.next [], next := s.next + 1,
             och := upd s.och s.next (s.thr t).cur.chan })) := by
  unfold next0 at hn
  simp only [h] at hn
  split at hn
  · rename_i htw
    refine ⟨htw, ?_⟩
    split at hn
    · rename_i o ho
      exact Or.inl ⟨o, ho, (Option.some.inj hn).symm⟩
    · rename_i ho
      exact Or.inr ⟨ho, (Option.some.inj hn).symm⟩
  · cases hn

theorem next0_s2 {s s' : St n} {t : Fin n} {p : Conn} {o : Obj} (h : (s.thr t).pc = .s2 o) (hn : next0 s t p = some s')
    (he : (s.thr t).cur.early = false) :
    s.ow o = none ∧
    s' = setT { s with
          tw := none
          subs := if (s.thr t).cur.conn ∈ s.subs o then s.subs else upd s.subs o (s.subs o ++ [(s.thr t).cur.conn])
          since := if (s.thr t).cur.conn ∈ s.subs o then s.since else upd2 s.since o (s.thr t).cur.conn (s.pub o).length
          got := if (s.thr t).cur.conn ∈ s.subs o then s.got else upd2 s.got o (s.thr t).cur.conn []
          left := upd2 s.left (s.thr t).cur.conn (s.thr t).cur.chan false } t { s.thr t with pc := .sc } := by
  unfold next0 at hn
  simp only [h, he] at hn
  split at hn
  · rename_i how
    refine ⟨how, ?_⟩
    simpa using (Option.some.inj hn).symm
  · cases hn

theorem next0_sc {s s' : St n} {t : Fin n} {p : Conn} (h : (s.thr t).pc = .sc) (hn : next0 s t p = some s') :
    s' = fin { s with confirmed := upd2 s.confirmed (s.thr t).cur.conn (s.thr t).cur.chan true } t (s.thr t) none := by
  unfold next0 at hn
  simp only [h] at hn
  exact (Option.some.inj hn).symm

theorem next0_u0 {s s' : St n} {t : Fin n} {p : Conn} (h : (s.thr t).pc = .u0) (hn : next0 s t p = some s') :
    s.tw = none ∧
    ((∃ o, s.table (s.thr t).cur.chan = some o ∧ s' = { setT s t { s.thr t with pc := .u2 o } with tw := some t }) ∨
     (s.table (s.thr t).cur.chan = none ∧ s' = fin s t (s.thr t) none)) := by
  unfold next0 at hn
  simp only [h] at hn
  split at hn
  · rename_i htw
    refine ⟨htw, ?_⟩
    split at hn
    · rename_i ho
      exact Or.inr ⟨ho, (Option.some.inj hn).symm⟩
    · rename_i o ho
      exact Or.inl ⟨o, ho, (Option.some.inj hn).symm⟩
  · cases hn

theorem next0_u2 {s s' : St n} {t : Fin n} {p : Conn} {o : Obj} (h : (s.thr t).pc = .u2 o) (hn : next0 s t p = some s') :
    s.ow o = none ∧
    s' = fin { s with
                  tw := none
                  subs := upd s.subs o ((s.subs o).erase (s.thr t).cur.conn)
                  left := if (s.thr t).cur.conn ∈ s.subs o then upd2 s.left (s.thr t).cur.conn (s.thr t).cur.chan true else s.left
                  table := if (s.subs o).erase (s.thr t).cur.conn = [] then upd s.table (s.thr t).cur.chan none else s.table } t (s.thr t) none := by
  unfold next0 at hn
  simp only [h] at hn
  split at hn
  · rename_i how
    exact ⟨how, (Option.some.inj hn).symm⟩
  · cases hn

theorem next0_p0 {s s' : St n} {t : Fin n} {p : Conn} (h : (s.thr t).pc = .p0) (hn : next0 s t p = some s') :
    s.tw = none ∧
    ((∃ o, s.table (s.thr t).cur.chan = some o ∧ s' = setT s t { s.thr t with pc := .p3 o }) ∨
     (s.table (s.thr t).cur.chan = none ∧ s' = fin s t (s.thr t) (some 0))) := by
  unfold next0 at hn
  simp only [h] at hn
  split at hn
  · rename_i htw
    refine ⟨htw, ?_⟩
    split at hn
    · rename_i ho
      exact Or.inr ⟨ho, (Option.some.inj hn).symm⟩
    · rename_i o ho
      exact Or.inl ⟨o, ho, (Option.some.inj hn).symm⟩
  · cases hn

theorem next0_p3 {s s' : St n} {t : Fin n} {p : Conn} {o : Obj} (h : (s.thr t).pc = .p3 o) (hn : next0 s t p = some s') :
    s.ow o = none ∧
    s' = { setT s t { s.thr t with pc := .p4 o [] (s.subs o) } with
             ow := upd s.ow o (some t), pub := upd s.pub o (s.pub o ++ [(s.thr t).cur.payload]) } := by
  unfold next0 at hn
  simp only [h] at hn
  split at hn
  · rename_i how
    exact ⟨how, (Option.some.inj hn).symm⟩
  · cases hn

theorem next0_p4 {s s' : St n} {t : Fin n} {p : Conn} {o : Obj} {sent todo : List Conn} (h : (s.thr t).pc = .p4 o sent todo)
    (hn : next0 s t p = some s') :
    (todo = [] ∧ s' = fin { s with ow := upd s.ow o none } t (s.thr t) (some sent.length)) ∨
    (p ∈ todo ∧ s' = setT s t { s.thr t with pc := .pw o sent p (todo.erase p) }) := by
  unfold next0 at hn
  cases todo with
  | nil =>
    simp only [h] at hn
    exact Or.inl ⟨rfl, (Option.some.inj hn).symm⟩
  | cons c0 todo =>
    simp only [h] at hn
    split at hn
    · rename_i hm
      exact Or.inr ⟨hm, (Option.some.inj hn).symm⟩
    · cases hn

theorem next0_pw {s s' : St n} {t : Fin n} {p : Conn} {o : Obj} {sent rest : List Conn} {c' : Conn} (h : (s.thr t).pc = .pw o sent c' rest)
    (hn : next0 s t p = some s') :
    (s.cs c' = .ready ∧
      s' = { setT s t { s.thr t with pc := .p4 o (sent ++ [c']) rest } with
             dlv := s.dlv ++ [⟨t, (s.thr t).k, c', o, (s.thr t).cur.payload⟩]
             got := upd2 s.got o c' (s.got o c' ++ [(s.thr t).cur.payload]) }) ∨
    (s.cs c' = .dead ∧
      s' = { setT s t { s.thr t with pc := .p4 o sent rest } with
             subs := upd s.subs o ((s.subs o).erase c')
             left := upd2 s.left c' (s.thr t).cur.chan true }) := by
  unfold next0 at hn
  simp only [h] at hn
  split at hn
  · rename_i hc
    exact Or.inl ⟨hc, (Option.some.inj hn).symm⟩
  · cases hn
  · rename_i hc
    exact Or.inr ⟨hc, (Option.some.inj hn).symm⟩


/-! ## the invariant -/

/-- the object whose lock a Send waits for or holds -/
def sobj : Pc → Option Obj
| .p3 o => some o
| .p4 o _ _ => some o
| .pw o _ _ _ => some o
| _ => none

/-- the thread holds the table write lock (and has looked up / created object `o`) -/
def holdsTW : Pc → Option Obj
| .s2 o => some o
| .u2 o => some o
| _ => none

/-- a confirmation for (c, ch) has been written, or a thread is about to write it (it has joined) -/
def Pend (s : St n) (c : Conn) (ch : Chan) : Prop :=
  s.confirmed c ch = true ∨ ∃ t, (s.thr t).pc = .sc ∧ (s.thr t).cur.conn = c ∧ (s.thr t).cur.chan = ch

structure Inv (s : St n) : Prop where
  real : ∀ t, (s.thr t).pc ≠ .e0 ∧ (s.thr t).cur.early = false ∧ ∀ op ∈ (s.thr t).prog, op.real = true
  twS : ∀ t o, holdsTW (s.thr t).pc = some o → s.tw = some t ∧ s.table (s.thr t).cur.chan = some o
  twC : ∀ t, s.tw = some t → holdsTW (s.thr t).pc ≠ none
  t1 : ∀ ch o, s.table ch = some o → o < s.next ∧ s.och o = ch
  t2 : ∀ t o, sobj (s.thr t).pc = some o → o < s.next ∧ s.och o = (s.thr t).cur.chan
  d : ∀ c ch, Pend s c ch → member s c ch ∨ s.left c ch = true

theorem entry_ne_sc (op : Op) : entry op ≠ .sc := by cases op <;> simp [entry]
theorem entry_holdsTW (op : Op) : holdsTW (entry op) = none := by cases op <;> simp [entry, holdsTW]
theorem entry_sobj (op : Op) : sobj (entry op) = none := by cases op <;> simp [entry, sobj]
theorem entry_real (op : Op) (h : op.real = true) : entry op ≠ .e0 ∧ op.early = false := by cases op <;> simp_all [entry, Op.real, Op.early]

/-- steps that do not touch the table lock: only thread `t` changes, the table is as before, members stay or are marked `left` -/
theorem inv_frame {s s' : St n} {t : Fin n} (hI : Inv s)
    (htab : s'.table = s.table) (htw : s'.tw = s.tw) (hnext : s'.next = s.next) (hoch : s'.och = s.och)
    (hmem : ∀ c ch, member s c ch → member s' c ch ∨ s'.left c ch = true)
    (hleft : ∀ c ch, s.left c ch = true → s'.left c ch = true)
    (hconf : ∀ c ch, s'.confirmed c ch = true → Pend s c ch)
    (hoth : ∀ u, u ≠ t → s'.thr u = s.thr u)
    (hw0 : holdsTW (s.thr t).pc = none) (hw1 : holdsTW (s'.thr t).pc = none)
    (hsc : (s'.thr t).pc ≠ .sc)
    (hreal : (s'.thr t).pc ≠ .e0 ∧ (s'.thr t).cur.early = false ∧ ∀ op ∈ (s'.thr t).prog, op.real = true)
    (hobj : ∀ o, sobj (s'.thr t).pc = some o → o < s.next ∧ s.och o = (s'.thr t).cur.chan) : Inv s' := by
  refine ⟨?_, ?_, ?_, ?_, ?_, ?_⟩
  · intro u
    by_cases hu : u = t
    · subst hu; exact hreal
    · rw [hoth u hu]; exact hI.real u
  · intro u o h
    by_cases hu : u = t
    · subst hu; rw [hw1] at h; cases h
    · rw [hoth u hu] at h ⊢; rw [htw, htab]; exact hI.twS u o h
  · intro u h
    rw [htw] at h
    by_cases hu : u = t
    · subst hu; exact absurd hw0 (hI.twC u h)
    · rw [hoth u hu]; exact hI.twC u h
  · rw [htab, hnext, hoch]; exact hI.t1
  · intro u o h
    by_cases hu : u = t
    · subst hu; rw [hnext, hoch]; exact hobj o h
    · rw [hoth u hu] at h ⊢; rw [hnext, hoch]; exact hI.t2 u o h
  · intro c ch hp
    have hp0 : Pend s c ch := by
      rcases hp with h | ⟨u, h1, h2, h3⟩
      · exact hconf c ch h
      · have hu : u ≠ t := by intro e; subst e; exact hsc h1
        rw [hoth u hu] at h1 h2 h3
        exact Or.inr ⟨u, h1, h2, h3⟩
    rcases hI.d c ch hp0 with h | h
    · exact hmem c ch h
    · exact Or.inr (hleft c ch h)

/-- s0 / u0 with the channel found: the table lock is taken -/
theorem inv_lock {s s' : St n} {t : Fin n} {o : Obj} (hI : Inv s)
    (htab : s'.table = s.table) (htw0 : s.tw = none) (htw : s'.tw = some t) (hnext : s'.next = s.next) (hoch : s'.och = s.och)
    (hsubs : s'.subs = s.subs) (hleft : s'.left = s.left) (hconf : s'.confirmed = s.confirmed)
    (hoth : ∀ u, u ≠ t → s'.thr u = s.thr u)
    (hw1 : holdsTW (s'.thr t).pc = some o) (hlook : s.table (s'.thr t).cur.chan = some o)
    (hsc : (s'.thr t).pc ≠ .sc) (hso : sobj (s'.thr t).pc = none)
    (hreal : (s'.thr t).pc ≠ .e0 ∧ (s'.thr t).cur.early = false ∧ ∀ op ∈ (s'.thr t).prog, op.real = true) : Inv s' := by
  have hno : ∀ u, holdsTW (s.thr u).pc = none := by
    intro u
    cases h : holdsTW (s.thr u).pc with
    | none => rfl
    | some o' => have := (hI.twS u o' h).1; rw [htw0] at this; cases this
  refine ⟨?_, ?_, ?_, ?_, ?_, ?_⟩
  · intro u
    by_cases hu : u = t
    · subst hu; exact hreal
    · rw [hoth u hu]; exact hI.real u
  · intro u o' h
    by_cases hu : u = t
    · subst hu; rw [hw1] at h; cases h; rw [htab]; exact ⟨htw, hlook⟩
    · rw [hoth u hu, hno u] at h; cases h
  · intro u h
    rw [htw] at h
    cases h
    rw [hw1]; simp
  · rw [htab, hnext, hoch]; exact hI.t1
  · intro u o' h
    by_cases hu : u = t
    · subst hu; rw [hso] at h; cases h
    · rw [hoth u hu] at h ⊢; rw [hnext, hoch]; exact hI.t2 u o' h
  · intro c ch hp
    have hp0 : Pend s c ch := by
      rcases hp with h | ⟨u, h1, h2, h3⟩
      · rw [hconf] at h; exact Or.inl h
      · have hu : u ≠ t := by intro e; subst e; exact hsc h1
        rw [hoth u hu] at h1 h2 h3
        exact Or.inr ⟨u, h1, h2, h3⟩
    unfold member
    rw [htab, hsubs, hleft]
    exact hI.d c ch hp0

theorem inv_idle {s s' : St n} {t : Fin n} {p : Conn} (hI : Inv s) (h : (s.thr t).pc = .idle) (hn : next0 s t p = some s') : Inv s' := by
  obtain ⟨op, rest, hp, rfl⟩ := next0_idle h hn
  have hr := (hI.real t).2.2
  rw [hp] at hr
  have hop := entry_real op (hr op (by simp))
  refine inv_frame (t := t) hI rfl rfl rfl rfl (fun c ch hm => Or.inl hm) (fun c ch hl => hl) (fun c ch hc => Or.inl hc) ?_ ?_ ?_ ?_ ?_ ?_
  · intro u hu; simp [setT, upd, hu]
  · rw [h]; rfl
  · simp [setT, entry_holdsTW]
  · simp [setT, entry_ne_sc]
  · simp only [setT, upd_same]
    exact ⟨hop.1, hop.2, fun op' hm => hr op' (List.mem_cons_of_mem _ hm)⟩
  · intro o ho; simp [setT, entry_sobj] at ho

theorem inv_s0 {s s' : St n} {t : Fin n} {p : Conn} (hI : Inv s) (h : (s.thr t).pc = .s0) (hn : next0 s t p = some s') : Inv s' := by
  obtain ⟨htw, ⟨o, ho, rfl⟩ | ⟨ho, rfl⟩⟩ := next0_s0 h hn
  · refine inv_lock (t := t) (o := o) hI rfl htw rfl rfl rfl rfl rfl rfl ?_ ?_ ?_ ?_ ?_ ?_
    · intro u hu; simp [setT, upd, hu]
    · simp [setT, holdsTW]
    · simpa [setT] using ho
    · simp [setT]
    · simp [setT, sobj]
    · simpa [setT] using ⟨(hI.real t).2.1, (hI.real t).2.2⟩
  · have hno : ∀ u, holdsTW (s.thr u).pc = none := by
      intro u
      cases h : holdsTW (s.thr u).pc with
      | none => rfl
      | some o' => have := (hI.twS u o' h).1; rw [htw] at this; cases this
    refine ⟨?_, ?_, ?_, ?_, ?_, ?_⟩
    · intro u
      by_cases hu : u = t
      · subst hu; simpa [setT] using ⟨(hI.real u).2.1, (hI.real u).2.2⟩
      · simpa [setT, upd, hu] using hI.real u
    · intro u o' h'
      by_cases hu : u = t
      · subst hu; simp [setT, holdsTW] at h' ⊢; exact h'
      · simp [setT, upd, hu, hno u] at h'
    · intro u h'
      simp at h'
      subst h'
      simp [setT, holdsTW]
    · intro ch' o' h'
      simp only at h' ⊢
      by_cases hc : ch' = (s.thr t).cur.chan
      · subst hc; simp at h'; subst h'; simp
      · rw [upd_other _ _ _ _ hc] at h'
        have := hI.t1 ch' o' h'
        have hne : o' ≠ s.next := by intro e; rw [e] at this; exact Nat.lt_irrefl _ this.1
        rw [upd_other _ _ _ _ hne]
        exact ⟨Nat.lt_succ_of_lt this.1, this.2⟩
    · intro u o' h'
      by_cases hu : u = t
      · subst hu; simp [setT, sobj] at h'
      · simp only [setT, upd_other _ _ _ _ hu] at h' ⊢
        have := hI.t2 u o' h'
        have hne : o' ≠ s.next := by intro e; rw [e] at this; exact Nat.lt_irrefl _ this.1
        rw [upd_other _ _ _ _ hne]
        exact ⟨Nat.lt_succ_of_lt this.1, this.2⟩
    · intro c ch hp
      have hp0 : Pend s c ch := by
        rcases hp with h' | ⟨u, h1, h2, h3⟩
        · exact Or.inl h'
        · have hu : u ≠ t := by intro e; subst e; simp [setT] at h1
          simp only [setT, upd_other _ _ _ _ hu] at h1 h2 h3
          exact Or.inr ⟨u, h1, h2, h3⟩
      rcases hI.d c ch hp0 with ⟨o', h1, h2⟩ | hl
      · left
        have hc : ch ≠ (s.thr t).cur.chan := by intro e; rw [e, ho] at h1; cases h1
        have hlt := (hI.t1 ch o' h1).1
        have hne : o' ≠ s.next := by intro e; rw [e] at hlt; exact Nat.lt_irrefl _ hlt
        refine ⟨o', ?_, ?_⟩
        · dsimp only; rw [upd_other _ _ _ _ hc]; exact h1
        · dsimp only; rw [upd_other _ _ _ _ hne]; exact h2
      · exact Or.inr hl

theorem inv_s2 {s s' : St n} {t : Fin n} {p : Conn} {o : Obj} (hI : Inv s) (h : (s.thr t).pc = .s2 o) (hn : next0 s t p = some s') : Inv s' := by
  obtain ⟨how, rfl⟩ := next0_s2 h hn (hI.real t).2.1
  have hT := hI.twS t o (by rw [h]; rfl)
  have hno : ∀ u, u ≠ t → holdsTW (s.thr u).pc = none := by
    intro u hu
    cases h' : holdsTW (s.thr u).pc with
    | none => rfl
    | some o' => have := (hI.twS u o' h').1; rw [hT.1] at this; exact absurd (Option.some.inj this).symm hu
  have hmono : ∀ c' o', c' ∈ s.subs o' →
      c' ∈ (if (s.thr t).cur.conn ∈ s.subs o then s.subs else upd s.subs o (s.subs o ++ [(s.thr t).cur.conn])) o' := by
    intro c' o' hm
    split
    · exact hm
    · by_cases ho : o' = o
      · subst ho; simp [hm]
      · rw [upd_other _ _ _ _ ho]; exact hm
  refine ⟨?_, ?_, ?_, ?_, ?_, ?_⟩
  · intro u
    by_cases hu : u = t
    · subst hu; simpa [setT] using ⟨(hI.real u).2.1, (hI.real u).2.2⟩
    · simpa [setT, upd, hu] using hI.real u
  · intro u o' h'
    by_cases hu : u = t
    · subst hu; simp [setT, holdsTW] at h'
    · simp [setT, upd, hu, hno u hu] at h'
  · intro u h'
    simp [setT] at h'
  · exact hI.t1
  · intro u o' h'
    by_cases hu : u = t
    · subst hu; simp [setT, sobj] at h'
    · simp only [setT, upd_other _ _ _ _ hu] at h' ⊢
      exact hI.t2 u o' h'
  · intro c ch hp
    by_cases hcc : c = (s.thr t).cur.conn ∧ ch = (s.thr t).cur.chan
    · obtain ⟨rfl, rfl⟩ := hcc
      left
      refine ⟨o, hT.2, ?_⟩
      simp only [setT]
      split
      · assumption
      · simp
    · have hp0 : Pend s c ch := by
        rcases hp with h' | ⟨u, h1, h2, h3⟩
        · exact Or.inl h'
        · by_cases hu : u = t
          · subst hu
            simp only [setT, upd_same] at h2 h3
            exact absurd ⟨h2.symm, h3.symm⟩ hcc
          · simp only [setT, upd_other _ _ _ _ hu] at h1 h2 h3
            exact Or.inr ⟨u, h1, h2, h3⟩
      rcases hI.d c ch hp0 with ⟨o', h1, h2⟩ | hl
      · exact Or.inl ⟨o', h1, hmono c o' h2⟩
      · right
        simp only [setT]
        rw [upd2_other _ _ _ _ _ _ hcc]
        exact hl

theorem inv_sc {s s' : St n} {t : Fin n} {p : Conn} (hI : Inv s) (h : (s.thr t).pc = .sc) (hn : next0 s t p = some s') : Inv s' := by
  have := next0_sc h hn
  subst this
  refine inv_frame (t := t) hI rfl rfl rfl rfl (fun c ch hm => Or.inl hm) (fun c ch hl => hl) ?_ ?_ ?_ ?_ ?_ ?_ ?_
  · intro c ch hc
    simp only [fin] at hc
    by_cases hcc : c = (s.thr t).cur.conn ∧ ch = (s.thr t).cur.chan
    · exact Or.inr ⟨t, h, hcc.1.symm, hcc.2.symm⟩
    · rw [upd2_other _ _ _ _ _ _ hcc] at hc; exact Or.inl hc
  · intro u hu; simp [fin, upd, hu]
  · rw [h]; rfl
  · simp [fin, holdsTW]
  · simp [fin]
  · simpa [fin] using ⟨(hI.real t).2.1, (hI.real t).2.2⟩
  · intro o ho; simp [fin, sobj] at ho

theorem inv_u0 {s s' : St n} {t : Fin n} {p : Conn} (hI : Inv s) (h : (s.thr t).pc = .u0) (hn : next0 s t p = some s') : Inv s' := by
  obtain ⟨htw, ⟨o, ho, rfl⟩ | ⟨ho, rfl⟩⟩ := next0_u0 h hn
  · refine inv_lock (t := t) (o := o) hI rfl htw rfl rfl rfl rfl rfl rfl ?_ ?_ ?_ ?_ ?_ ?_
    · intro u hu; simp [setT, upd, hu]
    · simp [setT, holdsTW]
    · simpa [setT] using ho
    · simp [setT]
    · simp [setT, sobj]
    · simpa [setT] using ⟨(hI.real t).2.1, (hI.real t).2.2⟩
  · refine inv_frame (t := t) hI rfl rfl rfl rfl (fun c ch hm => Or.inl hm) (fun c ch hl => hl) (fun c ch hc => Or.inl hc) ?_ ?_ ?_ ?_ ?_ ?_
    · intro u hu; simp [fin, upd, hu]
    · rw [h]; rfl
    · simp [fin, holdsTW]
    · simp [fin]
    · simpa [fin] using ⟨(hI.real t).2.1, (hI.real t).2.2⟩
    · intro o ho; simp [fin, sobj] at ho

theorem inv_u2 {s s' : St n} {t : Fin n} {p : Conn} {o : Obj} (hI : Inv s) (h : (s.thr t).pc = .u2 o) (hn : next0 s t p = some s') : Inv s' := by
  obtain ⟨how, rfl⟩ := next0_u2 h hn
  have hT := hI.twS t o (by rw [h]; rfl)
  have hno : ∀ u, u ≠ t → holdsTW (s.thr u).pc = none := by
    intro u hu
    cases h' : holdsTW (s.thr u).pc with
    | none => rfl
    | some o' => have := (hI.twS u o' h').1; rw [hT.1] at this; exact absurd (Option.some.inj this).symm hu
  have htab : ∀ ch' o', (if (s.subs o).erase (s.thr t).cur.conn = [] then upd s.table (s.thr t).cur.chan none else s.table) ch' = some o' →
      s.table ch' = some o' := by
    intro ch' o' h'
    split at h'
    · by_cases hc : ch' = (s.thr t).cur.chan
      · subst hc; simp at h'
      · rw [upd_other _ _ _ _ hc] at h'; exact h'
    · exact h'
  refine ⟨?_, ?_, ?_, ?_, ?_, ?_⟩
  · intro u
    by_cases hu : u = t
    · subst hu; simpa [fin] using ⟨(hI.real u).2.1, (hI.real u).2.2⟩
    · simpa [fin, upd, hu] using hI.real u
  · intro u o' h'
    by_cases hu : u = t
    · subst hu; simp [fin, holdsTW] at h'
    · simp [fin, upd, hu, hno u hu] at h'
  · intro u h'
    simp [fin] at h'
  · intro ch' o' h'
    exact hI.t1 ch' o' (htab ch' o' h')
  · intro u o' h'
    by_cases hu : u = t
    · subst hu; simp [fin, sobj] at h'
    · simp only [fin, upd_other _ _ _ _ hu] at h' ⊢
      exact hI.t2 u o' h'
  · intro c ch hp
    have hp0 : Pend s c ch := by
      rcases hp with h' | ⟨u, h1, h2, h3⟩
      · exact Or.inl h'
      · have hu : u ≠ t := by intro e; subst e; simp [fin] at h1
        simp only [fin, upd_other _ _ _ _ hu] at h1 h2 h3
        exact Or.inr ⟨u, h1, h2, h3⟩
    rcases hI.d c ch hp0 with ⟨o', h1, h2⟩ | hl
    · by_cases hch : ch = (s.thr t).cur.chan
      · subst hch
        rw [hT.2] at h1
        cases h1
        by_cases hc : c = (s.thr t).cur.conn
        · subst hc
          right
          simp [fin, h2]
        · left
          have hm : c ∈ (s.subs o).erase (s.thr t).cur.conn := (List.mem_erase_of_ne hc).2 h2
          have hne : (s.subs o).erase (s.thr t).cur.conn ≠ [] := by intro e; rw [e] at hm; cases hm
          refine ⟨o, ?_, ?_⟩
          · simp only [fin, if_neg hne]; exact hT.2
          · simpa [fin] using hm
      · left
        have hoo : o' ≠ o := by
          intro e
          subst e
          have a := (hI.t1 _ _ h1).2
          have b := (hI.t1 _ _ hT.2).2
          exact hch (a.symm.trans b)
        refine ⟨o', ?_, ?_⟩
        · simp only [fin]
          split
          · rw [upd_other _ _ _ _ hch]; exact h1
          · exact h1
        · simp only [fin]; rw [upd_other _ _ _ _ hoo]; exact h2
    · right
      simp only [fin]
      split
      · by_cases hcc : c = (s.thr t).cur.conn ∧ ch = (s.thr t).cur.chan
        · obtain ⟨rfl, rfl⟩ := hcc; simp
        · rw [upd2_other _ _ _ _ _ _ hcc]; exact hl
      · exact hl

theorem inv_p0 {s s' : St n} {t : Fin n} {p : Conn} (hI : Inv s) (h : (s.thr t).pc = .p0) (hn : next0 s t p = some s') : Inv s' := by
  obtain ⟨htw, ⟨o, ho, rfl⟩ | ⟨ho, rfl⟩⟩ := next0_p0 h hn
  · refine inv_frame (t := t) hI rfl rfl rfl rfl (fun c ch hm => Or.inl hm) (fun c ch hl => hl) (fun c ch hc => Or.inl hc) ?_ ?_ ?_ ?_ ?_ ?_
    · intro u hu; simp [setT, upd, hu]
    · rw [h]; rfl
    · simp [setT, holdsTW]
    · simp [setT]
    · simpa [setT] using ⟨(hI.real t).2.1, (hI.real t).2.2⟩
    · intro o' ho'
      simp [setT, sobj] at ho'
      subst ho'
      simpa [setT] using hI.t1 _ _ ho
  · refine inv_frame (t := t) hI rfl rfl rfl rfl (fun c ch hm => Or.inl hm) (fun c ch hl => hl) (fun c ch hc => Or.inl hc) ?_ ?_ ?_ ?_ ?_ ?_
    · intro u hu; simp [fin, upd, hu]
    · rw [h]; rfl
    · simp [fin, holdsTW]
    · simp [fin]
    · simpa [fin] using ⟨(hI.real t).2.1, (hI.real t).2.2⟩
    · intro o ho; simp [fin, sobj] at ho

theorem inv_p3 {s s' : St n} {t : Fin n} {p : Conn} {o : Obj} (hI : Inv s) (h : (s.thr t).pc = .p3 o) (hn : next0 s t p = some s') : Inv s' := by
  obtain ⟨how, rfl⟩ := next0_p3 h hn
  refine inv_frame (t := t) hI rfl rfl rfl rfl (fun c ch hm => Or.inl hm) (fun c ch hl => hl) (fun c ch hc => Or.inl hc) ?_ ?_ ?_ ?_ ?_ ?_
  · intro u hu; simp [setT, upd, hu]
  · rw [h]; rfl
  · simp [setT, holdsTW]
  · simp [setT]
  · simpa [setT] using ⟨(hI.real t).2.1, (hI.real t).2.2⟩
  · intro o' ho'
    simp [setT, sobj] at ho'
    subst ho'
    simpa [setT] using hI.t2 t _ (by rw [h]; rfl)

theorem inv_p4 {s s' : St n} {t : Fin n} {p : Conn} {o : Obj} {sent todo : List Conn} (hI : Inv s) (h : (s.thr t).pc = .p4 o sent todo)
    (hn : next0 s t p = some s') : Inv s' := by
  rcases next0_p4 h hn with ⟨_, rfl⟩ | ⟨_, rfl⟩
  · refine inv_frame (t := t) hI rfl rfl rfl rfl (fun c ch hm => Or.inl hm) (fun c ch hl => hl) (fun c ch hc => Or.inl hc) ?_ ?_ ?_ ?_ ?_ ?_
    · intro u hu; simp [fin, upd, hu]
    · rw [h]; rfl
    · simp [fin, holdsTW]
    · simp [fin]
    · simpa [fin] using ⟨(hI.real t).2.1, (hI.real t).2.2⟩
    · intro o ho; simp [fin, sobj] at ho
  · refine inv_frame (t := t) hI rfl rfl rfl rfl (fun c ch hm => Or.inl hm) (fun c ch hl => hl) (fun c ch hc => Or.inl hc) ?_ ?_ ?_ ?_ ?_ ?_
    · intro u hu; simp [setT, upd, hu]
    · rw [h]; rfl
    · simp [setT, holdsTW]
    · simp [setT]
    · simpa [setT] using ⟨(hI.real t).2.1, (hI.real t).2.2⟩
    · intro o' ho'
      simp [setT, sobj] at ho'
      subst ho'
      simpa [setT] using hI.t2 t _ (by rw [h]; rfl)

theorem inv_pw {s s' : St n} {t : Fin n} {p : Conn} {o : Obj} {sent rest : List Conn} {c' : Conn} (hI : Inv s)
    (h : (s.thr t).pc = .pw o sent c' rest) (hn : next0 s t p = some s') : Inv s' := by
  have hT2 := hI.t2 t o (by rw [h]; rfl)
  rcases next0_pw h hn with ⟨_, rfl⟩ | ⟨_, rfl⟩
  · refine inv_frame (t := t) hI rfl rfl rfl rfl (fun c ch hm => Or.inl hm) (fun c ch hl => hl) (fun c ch hc => Or.inl hc) ?_ ?_ ?_ ?_ ?_ ?_
    · intro u hu; simp [setT, upd, hu]
    · rw [h]; rfl
    · simp [setT, holdsTW]
    · simp [setT]
    · simpa [setT] using ⟨(hI.real t).2.1, (hI.real t).2.2⟩
    · intro o' ho'
      simp [setT, sobj] at ho'
      subst ho'
      simpa [setT] using hT2
  · refine inv_frame (t := t) hI rfl rfl rfl rfl ?_ ?_ (fun c ch hc => Or.inl hc) ?_ ?_ ?_ ?_ ?_ ?_
    · rintro c ch ⟨o', h1, h2⟩
      by_cases hoo : o' = o
      · subst hoo
        have hch : ch = (s.thr t).cur.chan := ((hI.t1 _ _ h1).2).symm.trans hT2.2
        subst hch
        by_cases hc : c = c'
        · subst hc; right; simp
        · left
          exact ⟨o', h1, by simpa [setT] using (List.mem_erase_of_ne hc).2 h2⟩
      · left
        refine ⟨o', h1, ?_⟩
        dsimp only; rw [upd_other _ _ _ _ hoo]; exact h2
    · intro c ch hl
      dsimp only
      by_cases hcc : c = c' ∧ ch = (s.thr t).cur.chan
      · obtain ⟨rfl, rfl⟩ := hcc; simp
      · rw [upd2_other _ _ _ _ _ _ hcc]; exact hl
    · intro u hu; simp [setT, upd, hu]
    · rw [h]; rfl
    · simp [setT, holdsTW]
    · simp [setT]
    · simpa [setT] using ⟨(hI.real t).2.1, (hI.real t).2.2⟩
    · intro o' ho'
      simp [setT, sobj] at ho'
      subst ho'
      simpa [setT] using hT2

theorem inv_next0 {s s' : St n} {t : Fin n} {p : Conn} (hI : Inv s) (hn : next0 s t p = some s') : Inv s' := by
  cases h : (s.thr t).pc with
  | idle => exact inv_idle hI h hn
  | e0 => exact absurd h (hI.real t).1
  | s0 => exact inv_s0 hI h hn
  | s2 o => exact inv_s2 hI h hn
  | sc => exact inv_sc hI h hn
  | u0 => exact inv_u0 hI h hn
  | u2 o => exact inv_u2 hI h hn
  | p0 => exact inv_p0 hI h hn
  | p3 o => exact inv_p3 hI h hn
  | p4 o sent todo => exact inv_p4 hI h hn
  | pw o sent c rest => exact inv_pw hI h hn

theorem inv_cs {s : St n} (hI : Inv s) (f : Conn → CS) : Inv { s with cs := f } :=
  ⟨hI.real, hI.twS, hI.twC, hI.t1, hI.t2, hI.d⟩

theorem inv_env {s : St n} (hI : Inv s) (e : Env) : Inv (env s e) := by
  cases e with
  | stall c => simp only [env]; split; exact inv_cs hI _; exact hI
  | resume c => simp only [env]; split; exact inv_cs hI _; exact hI
  | die c => exact inv_cs hI _

theorem inv_init (progs : Fin n → List Op) (hreal : Real progs) : Inv (init progs) := by
  refine ⟨?_, ?_, ?_, ?_, ?_, ?_⟩
  · intro t; simp only [init]; exact ⟨by simp, rfl, fun op hm => hreal t op hm⟩
  · intro t o h; simp [init, holdsTW] at h
  · intro t h; simp [init] at h
  · intro ch o h; simp [init] at h
  · intro t o h; simp [init, sobj] at h
  · rintro c ch (h | ⟨t, h, _⟩) <;> simp [init] at h

theorem inv_reach (progs : Fin n → List Op) (hreal : Real progs) (s : St n) (h : Reach progs s) : Inv s := by
  induction h with
  | init => exact inv_init progs hreal
  | step s s' _ hs ih =>
    cases hs
    · next t p hn => exact inv_next0 ih hn
    · next e => exact inv_env ih e

/-- **confirm_after_join** (C19): for programs of the real code, in every reachable state, a connection whose SUBSCRIBE confirmation for `ch` has been written is a member of `ch`,
    or has been removed since its last join (own UnSubscribe, or pruned by a Send after its death). -/
theorem confirm_after_join (progs : Fin n → List Op) (hreal : Real progs) (s : St n) (h : Reach progs s) (c : Conn) (ch : Chan)
    (hc : s.confirmed c ch = true) : member s c ch ∨ s.left c ch = true :=
  (inv_reach progs hreal s h).d c ch (Or.inl hc)

/-! ### a witness: the hypothesis of `confirm_after_join` is not vacuous -/

def okProgs : Fin 1 → List Op := fun _ => [.subscribe 1 [97]]
def okSched : List (Act 1) := [.thr 0 0, .thr 0 0, .thr 0 0, .thr 0 0]

theorem okProgs_real : Real okProgs := by
  intro t op h
  simp [okProgs] at h
  subst h
  rfl

theorem ok_eval : (runSched (init okProgs) okSched).map
    (fun s => s.confirmed 1 [97] && (match s.table [97] with | some o => decide (1 ∈ s.subs o) | none => false) &&
              decide ((s.thr 0).pc = .idle)) = some true := by
  decide

/-- a reachable state of a program of the real code in which connection 1 has its confirmation and is a member (by evaluation; it
    agrees with `confirm_after_join`) -/
example : ∃ s : St 1, Reach okProgs s ∧ s.confirmed 1 [97] = true ∧ member s 1 [97] := by
  have h := ok_eval
  cases hr : runSched (init okProgs) okSched with
  | none => rw [hr] at h; simp at h
  | some s =>
    rw [hr] at h
    simp only [Option.map_some, Option.some.injEq, Bool.and_eq_true, decide_eq_true_eq] at h
    refine ⟨s, reach_runSched okProgs okSched _ _ Reach.init hr, h.1.1, ?_⟩
    have h2 := h.1.2
    cases ht : s.table [97] with
    | none => rw [ht] at h2; simp at h2
    | some o => rw [ht] at h2; exact ⟨o, ht, by simpa using h2⟩

/-! ### removal needs a reason -/

theorem next0_s2e {s s' : St n} {t : Fin n} {p : Conn} {o : Obj} (h : (s.thr t).pc = .s2 o) (hn : next0 s t p = some s')
    (he : (s.thr t).cur.early = true) :
    s.ow o = none ∧
    s' = fin { s with
          tw := none
          subs := if (s.thr t).cur.conn ∈ s.subs o then s.subs else upd s.subs o (s.subs o ++ [(s.thr t).cur.conn])
          since := if (s.thr t).cur.conn ∈ s.subs o then s.since else upd2 s.since o (s.thr t).cur.conn (s.pub o).length
          got := if (s.thr t).cur.conn ∈ s.subs o then s.got else upd2 s.got o (s.thr t).cur.conn []
          left := upd2 s.left (s.thr t).cur.conn (s.thr t).cur.chan false } t (s.thr t) none := by
  unfold next0 at hn
  simp only [h, he] at hn
  split at hn
  · rename_i how
    refine ⟨how, ?_⟩
    simpa using (Option.some.inj hn).symm
  · cases hn

/-- the thread is in an UnSubscribe -/
def isU : Pc → Bool
| .u0 => true
| .u2 _ => true
| _ => false

theorem entry_isU (op : Op) (h : isU (entry op) = true) : ∃ c ch, op = .unsubscribe c ch := by
  cases op <;> simp [entry, isU] at h
  exact ⟨_, _, rfl⟩

/-- what a step does to the threads: the others are untouched; the stepping thread starts the next operation of its program, or keeps
    its operation and does not enter an UnSubscribe -/
theorem thr_step {s s' : St n} {t : Fin n} {p : Conn} (hn : next0 s t p = some s') :
    (∀ u, u ≠ t → s'.thr u = s.thr u) ∧
    ((∃ op, (s'.thr t).pc = entry op ∧ (s'.thr t).cur = op) ∨
     ((s'.thr t).cur = (s.thr t).cur ∧ (isU (s'.thr t).pc = true → isU (s.thr t).pc = true))) := by
  cases h : (s.thr t).pc with
  | idle =>
    obtain ⟨op, rest, _, rfl⟩ := next0_idle h hn
    exact ⟨fun u hu => by simp [setT, upd, hu], Or.inl ⟨op, by simp [setT], by simp [setT]⟩⟩
  | e0 =>
    have := next0_e0 h hn
    subst this
    exact ⟨fun u hu => by simp [setT, upd, hu], Or.inr ⟨by simp [setT], by simp [setT, isU]⟩⟩
  | s0 =>
    obtain ⟨_, ⟨o, _, rfl⟩ | ⟨_, rfl⟩⟩ := next0_s0 h hn
    · exact ⟨fun u hu => by simp [setT, upd, hu], Or.inr ⟨by simp [setT], by simp [setT, isU]⟩⟩
    · exact ⟨fun u hu => by simp [setT, upd, hu], Or.inr ⟨by simp [setT], by simp [setT, isU]⟩⟩
  | s2 o =>
    cases he : (s.thr t).cur.early with
    | false =>
      obtain ⟨_, rfl⟩ := next0_s2 h hn he
      exact ⟨fun u hu => by simp [setT, upd, hu], Or.inr ⟨by simp [setT], by simp [setT, isU]⟩⟩
    | true =>
      obtain ⟨_, rfl⟩ := next0_s2e h hn he
      exact ⟨fun u hu => by simp [fin, upd, hu], Or.inr ⟨by simp [fin], by simp [fin, isU]⟩⟩
  | sc =>
    have := next0_sc h hn
    subst this
    exact ⟨fun u hu => by simp [fin, upd, hu], Or.inr ⟨by simp [fin], by simp [fin, isU]⟩⟩
  | u0 =>
    obtain ⟨_, ⟨o, _, rfl⟩ | ⟨_, rfl⟩⟩ := next0_u0 h hn
    · exact ⟨fun u hu => by simp [setT, upd, hu], Or.inr ⟨by simp [setT], by simp [isU]⟩⟩
    · exact ⟨fun u hu => by simp [fin, upd, hu], Or.inr ⟨by simp [fin], by simp [fin, isU]⟩⟩
  | u2 o =>
    obtain ⟨_, rfl⟩ := next0_u2 h hn
    exact ⟨fun u hu => by simp [fin, upd, hu], Or.inr ⟨by simp [fin], by simp [fin, isU]⟩⟩
  | p0 =>
    obtain ⟨_, ⟨o, _, rfl⟩ | ⟨_, rfl⟩⟩ := next0_p0 h hn
    · exact ⟨fun u hu => by simp [setT, upd, hu], Or.inr ⟨by simp [setT], by simp [setT, isU]⟩⟩
    · exact ⟨fun u hu => by simp [fin, upd, hu], Or.inr ⟨by simp [fin], by simp [fin, isU]⟩⟩
  | p3 o =>
    obtain ⟨_, rfl⟩ := next0_p3 h hn
    exact ⟨fun u hu => by simp [setT, upd, hu], Or.inr ⟨by simp [setT], by simp [setT, isU]⟩⟩
  | p4 o sent todo =>
    rcases next0_p4 h hn with ⟨_, rfl⟩ | ⟨_, rfl⟩
    · exact ⟨fun u hu => by simp [fin, upd, hu], Or.inr ⟨by simp [fin], by simp [fin, isU]⟩⟩
    · exact ⟨fun u hu => by simp [setT, upd, hu], Or.inr ⟨by simp [setT], by simp [setT, isU]⟩⟩
  | pw o sent c rest =>
    rcases next0_pw h hn with ⟨_, rfl⟩ | ⟨_, rfl⟩
    · exact ⟨fun u hu => by simp [setT, upd, hu], Or.inr ⟨by simp [setT], by simp [setT, isU]⟩⟩
    · exact ⟨fun u hu => by simp [setT, upd, hu], Or.inr ⟨by simp [setT], by simp [setT, isU]⟩⟩

/-- in every reachable state (of any programs) a thread at u0 / u2 executes an `unsubscribe` -/
theorem ushape_reach (progs : Fin n → List Op) (s : St n) (h : Reach progs s) :
    ∀ t, isU (s.thr t).pc = true → ∃ c ch, (s.thr t).cur = .unsubscribe c ch := by
  induction h with
  | init => intro t h; simp [init, isU] at h
  | step s s' _ hs ih =>
    cases hs
    · next t p hn =>
      obtain ⟨hoth, hthr⟩ := thr_step hn
      intro u hu
      by_cases hut : u = t
      · subst hut
        rcases hthr with ⟨op, h1, h2⟩ | ⟨h1, h2⟩
        · rw [h1] at hu; rw [h2]; exact entry_isU op hu
        · rw [h1]; exact ih u (h2 hu)
      · rw [hoth u hut] at hu ⊢; exact ih u hu
    · next e =>
      have : (env s e).thr = s.thr := by
        cases e <;> simp only [env] <;> (try split) <;> rfl
      rw [this]; exact ih

theorem env_left (s : St n) (e : Env) : (env s e).left = s.left := by
  cases e <;> simp only [env] <;> (try split) <;> rfl

/-- removal needs a reason, for ANY state (reachable or not): `left c ch` is only ever set by a thread at u2 whose operation has
    connection `c` and channel `ch`, or by a prune of `c`, which needs `c` dead -/
theorem left_only_by_unsubscribe_or_death_step (s s' : St n) (hs : Step s s') (c : Conn) (ch : Chan) (h0 : s.left c ch = false)
    (h1 : s'.left c ch = true) :
    s.cs c = .dead ∨ ∃ t o, (s.thr t).pc = .u2 o ∧ (s.thr t).cur.conn = c ∧ (s.thr t).cur.chan = ch := by
  cases hs
  · next t p hn =>
    cases h : (s.thr t).pc with
    | idle =>
      obtain ⟨op, rest, _, rfl⟩ := next0_idle h hn
      simp [setT, h0] at h1
    | e0 =>
      have := next0_e0 h hn
      subst this
      simp [setT, h0] at h1
    | s0 =>
      obtain ⟨_, ⟨o, _, rfl⟩ | ⟨_, rfl⟩⟩ := next0_s0 h hn <;> simp [setT, h0] at h1
    | s2 o =>
      have hl : upd2 s.left (s.thr t).cur.conn (s.thr t).cur.chan false c ch = false := by
        by_cases hcc : c = (s.thr t).cur.conn ∧ ch = (s.thr t).cur.chan
        · obtain ⟨rfl, rfl⟩ := hcc; simp
        · rw [upd2_other _ _ _ _ _ _ hcc]; exact h0
      cases he : (s.thr t).cur.early with
      | false =>
        obtain ⟨_, rfl⟩ := next0_s2 h hn he
        simp [setT, hl] at h1
      | true =>
        obtain ⟨_, rfl⟩ := next0_s2e h hn he
        simp [fin, hl] at h1
    | sc =>
      have := next0_sc h hn
      subst this
      simp [fin, h0] at h1
    | u0 =>
      obtain ⟨_, ⟨o, _, rfl⟩ | ⟨_, rfl⟩⟩ := next0_u0 h hn
      · simp [setT, h0] at h1
      · simp [fin, h0] at h1
    | u2 o =>
      obtain ⟨_, rfl⟩ := next0_u2 h hn
      right
      refine ⟨t, o, h, ?_⟩
      simp only [fin] at h1
      split at h1
      · by_cases hcc : c = (s.thr t).cur.conn ∧ ch = (s.thr t).cur.chan
        · exact ⟨hcc.1.symm, hcc.2.symm⟩
        · rw [upd2_other _ _ _ _ _ _ hcc, h0] at h1; cases h1
      · rw [h0] at h1; cases h1
    | p0 =>
      obtain ⟨_, ⟨o, _, rfl⟩ | ⟨_, rfl⟩⟩ := next0_p0 h hn
      · simp [setT, h0] at h1
      · simp [fin, h0] at h1
    | p3 o =>
      obtain ⟨_, rfl⟩ := next0_p3 h hn
      simp [setT, h0] at h1
    | p4 o sent todo =>
      rcases next0_p4 h hn with ⟨_, rfl⟩ | ⟨_, rfl⟩
      · simp [fin, h0] at h1
      · simp [setT, h0] at h1
    | pw o sent c' rest =>
      rcases next0_pw h hn with ⟨_, rfl⟩ | ⟨hd, rfl⟩
      · simp [setT, h0] at h1
      · left
        dsimp only at h1
        by_cases hcc : c = c' ∧ ch = (s.thr t).cur.chan
        · rw [hcc.1]; exact hd
        · rw [upd2_other _ _ _ _ _ _ hcc, h0] at h1; cases h1
  · next e =>
    rw [env_left, h0] at h1; cases h1

/-- removal needs a reason: `left c ch` is only ever set by an UnSubscribe of (c, ch) or by a prune of `c`, which needs `c` dead.
    (Statement of the task with the hypothesis `Reach progs s` ADDED: in an unreachable state a thread can sit at `u2` with an
    operation that is not an `unsubscribe`; the form without `Reach` is `left_only_by_unsubscribe_or_death_step`.) -/
theorem left_only_by_unsubscribe_or_death (progs : Fin n → List Op) (s s' : St n) (hr : Reach progs s) (hs : Step s s') (c : Conn) (ch : Chan)
    (h0 : s.left c ch = false) (h1 : s'.left c ch = true) :
    s.cs c = .dead ∨ ∃ t o, (s.thr t).pc = .u2 o ∧ (s.thr t).cur = .unsubscribe c ch := by
  rcases left_only_by_unsubscribe_or_death_step s s' hs c ch h0 h1 with hd | ⟨t, o, hpc, hc, hch⟩
  · exact Or.inl hd
  · right
    obtain ⟨c', ch', hcur⟩ := ushape_reach progs s hr t (by rw [hpc]; rfl)
    rw [hcur] at hc hch
    simp only [Op.conn, Op.chan] at hc hch
    subst hc; subst hch
    exact ⟨t, o, hpc, hcur⟩

/-- the strong form (`cur = .unsubscribe c ch`) WITHOUT `Reach` is false — counterexample, an unreachable state: a thread at `u2`
    whose operation is a `subscribe` -/
def cexS : St 1 := { thr := fun _ => { pc := .u2 0, cur := .subscribe 1 [97] }, subs := fun _ => [1] }

theorem cex_eval : (next0 cexS 0 0).map (fun s' => s'.left 1 [97]) = some true := by decide

theorem left_strong_form_needs_reach : ∃ s s' : St 1, Step s s' ∧ s.left 1 [97] = false ∧ s'.left 1 [97] = true ∧
    ¬ (s.cs 1 = .dead ∨ ∃ t o, (s.thr t).pc = .u2 o ∧ (s.thr t).cur = .unsubscribe 1 [97]) := by
  have h := cex_eval
  cases hn : next0 cexS 0 0 with
  | none => rw [hn] at h; simp at h
  | some s' =>
    rw [hn] at h
    simp only [Option.map_some, Option.some.injEq] at h
    refine ⟨cexS, s', Step.thr cexS s' 0 0 hn, rfl, h, ?_⟩
    rintro (hd | ⟨t, o, _, hc⟩)
    · simp [cexS] at hd
    · simp [cexS] at hc

/-- so: a PUBLISH that starts after the confirmation was read finds the connection — the Send's lookup step p0 finds an object, and its
    range (step p3) starts over a member list containing `c` — stated for the two steps: -/
theorem publish_after_confirm_finds (progs : Fin n → List Op) (hreal : Real progs) (s s' : St n) (h : Reach progs s) (c : Conn) (ch : Chan)
    (hc : s.confirmed c ch = true) (hl : s.left c ch = false) (t : Fin n) (p : Conn)
    (hpc : (s.thr t).pc = .p0) (hch : (s.thr t).cur.chan = ch) (hn : next0 s t p = some s') :
    ∃ o, (s'.thr t).pc = .p3 o ∧ s.table ch = some o ∧ c ∈ s.subs o := by
  rcases confirm_after_join progs hreal s h c ch hc with ⟨o, h1, h2⟩ | hl'
  · obtain ⟨_, ⟨o', ho', rfl⟩ | ⟨ho', rfl⟩⟩ := next0_p0 hpc hn
    · rw [hch, h1] at ho'
      cases ho'
      exact ⟨o, by simp [setT], h1, h2⟩
    · rw [hch, h1] at ho'; cases ho'
  · rw [hl] at hl'; cases hl'

/-- the second step: the `range` of the Send (step p3 → p4) starts over the members of that moment -/
theorem publish_range_starts_over_members (s s' : St n) (t : Fin n) (p : Conn) (o : Obj) (hpc : (s.thr t).pc = .p3 o)
    (hn : next0 s t p = some s') : (s'.thr t).pc = .p4 o [] (s.subs o) := by
  obtain ⟨_, rfl⟩ := next0_p3 hpc hn
  simp [setT]

/-! ### NEGATIVE companion: the seeded order `subscribeEarly` -/

def earlyProgs : Fin 2 → List Op := fun t => if t = 0 then [.subscribeEarly 1 [97]] else [.send [97] [1]]
def earlySched : List (Act 2) := [.thr 0 0, .thr 0 0, .thr 1 0, .thr 1 0]

def missB (s : St 2) : Bool :=
  s.confirmed 1 [97] && !(s.left 1 [97]) && decide (s.cs 1 = .ready) && decide (s.table [97] = none) &&
  s.done.any (fun r => decide (r.tid = 1) && decide (r.op = .send [97] [1]) && decide (r.reply = some 0)) &&
  decide (recvAll s 1 = [])

theorem early_eval : (runSched (init earlyProgs) earlySched).map missB = some true := by decide

/-- **NEGATIVE (the seeded change `C19-subscribe-confirm-before-join`)**: with the confirmation written before the join, a state is reachable in which connection 1 has its confirmation for the channel,
    has never been removed, is alive and ready — and a PUBLISH that STARTED after the confirmation was written has completed with reply 0 and delivered nothing to it. -/
theorem confirm_before_join_misses : ∃ s : St 2, Reach earlyProgs s ∧ s.confirmed 1 [97] = true ∧ s.left 1 [97] = false ∧ s.cs 1 = .ready ∧ ¬ member s 1 [97] ∧
    (∃ r, r ∈ s.done ∧ r.tid = 1 ∧ r.op = .send [97] [1] ∧ r.reply = some 0) ∧ recvAll s 1 = [] := by
  have h := early_eval
  cases hr : runSched (init earlyProgs) earlySched with
  | none => rw [hr] at h; simp at h
  | some s =>
    rw [hr] at h
    simp only [Option.map_some, Option.some.injEq, missB, Bool.and_eq_true, decide_eq_true_eq, Bool.not_eq_true', List.any_eq_true] at h
    obtain ⟨⟨⟨⟨⟨h1, h2⟩, h3⟩, h4⟩, ⟨r, hr1, ⟨hr2, hr3⟩, hr4⟩⟩, h6⟩ := h
    refine ⟨s, reach_runSched earlyProgs earlySched _ _ Reach.init hr, h1, h2, h3, ?_, ⟨r, hr1, hr2, hr3, hr4⟩, h6⟩
    rintro ⟨o, ho, _⟩
    rw [h4] at ho; cases ho

theorem earlyProgs_not_real : ¬ Real earlyProgs := by
  intro h
  have := h 0 (.subscribeEarly 1 [97]) (by decide)
  simp [Op.real] at this

#print axioms confirm_after_join
#print axioms left_only_by_unsubscribe_or_death
#print axioms left_only_by_unsubscribe_or_death_step
#print axioms left_strong_form_needs_reach
#print axioms publish_after_confirm_finds
#print axioms publish_range_starts_over_members
#print axioms confirm_before_join_misses
#print axioms earlyProgs_not_real
end PSS
