import RedisGoModel.Props.C05FootBase
/-! C05 footprint theorems: list commands (`listTable`); BLPOP / BRPOP through the key scan `bpopScan` -/
namespace Exec.Foot
open Resp (Reply Bytes)
open Exec

theorem t_lpush : CmdFoot cmdLPush (fpKge3 true) := by
  intro env args; unfold fpKge3; split
  · ft_keys_w cmdLPush pushGen
  · unfold cmdLPush pushGen; ft_none
theorem t_rpush : CmdFoot cmdRPush (fpKge3 true) := by
  intro env args; unfold fpKge3; split
  · ft_keys_w cmdRPush pushGen
  · unfold cmdRPush pushGen; ft_none
theorem t_lpushx : CmdFoot cmdLPushX (fpKge3 true) := by
  intro env args; unfold fpKge3; split
  · ft_keys_w cmdLPushX pushGen
  · unfold cmdLPushX pushGen; ft_none
theorem t_rpushx : CmdFoot cmdRPushX (fpKge3 true) := by
  intro env args; unfold fpKge3; split
  · ft_keys_w cmdRPushX pushGen
  · unfold cmdRPushX pushGen; ft_none
theorem t_lpop : CmdFoot cmdLPop (fpK2or3 true) := by
  intro env args; unfold fpK2or3; split
  · ft_keys_w cmdLPop popGen
  · ft_keys_w cmdLPop popGen
  · unfold cmdLPop popGen; ft_none
theorem t_rpop : CmdFoot cmdRPop (fpK2or3 true) := by
  intro env args; unfold fpK2or3; split
  · ft_keys_w cmdRPop popGen
  · ft_keys_w cmdRPop popGen
  · unfold cmdRPop popGen; ft_none
theorem t_llen : CmdFoot cmdLLen (fpK2 false) := by
  intro env args; unfold fpK2; split
  · ft_keys_r cmdLLen
  · unfold cmdLLen; ft_none
theorem t_lindex : CmdFoot cmdLIndex (fpK3 false) := by
  intro env args; unfold fpK3; split
  · ft_keys_r cmdLIndex
  · unfold cmdLIndex; ft_none
theorem t_lpos : CmdFoot cmdLPos (fpKge3 false) := by
  intro env args; unfold fpKge3; split
  · ft_keys_r cmdLPos
  · unfold cmdLPos; ft_none
theorem t_lset : CmdFoot cmdLSet (fpK4 true) := by
  intro env args; unfold fpK4; split
  · ft_keys_w cmdLSet
  · unfold cmdLSet; ft_none
theorem t_lrem : CmdFoot cmdLRem (fpK4 true) := by
  intro env args; unfold fpK4; split
  · ft_keys_w cmdLRem
  · unfold cmdLRem; ft_none
theorem t_ltrim : CmdFoot cmdLTrim (fpK4 true) := by
  intro env args; unfold fpK4; split
  · ft_keys_w cmdLTrim
  · unfold cmdLTrim; ft_none
theorem t_lrange : CmdFoot cmdLRange (fpK4 false) := by
  intro env args; unfold fpK4; split
  · ft_keys_r cmdLRange
  · unfold cmdLRange; ft_none
theorem t_lmove : CmdFoot cmdLMove (fpLMove) := by
  intro env args; unfold fpLMove; split
  · ft_keys_w cmdLMove
  · unfold cmdLMove; ft_none

theorem bpop_loc {ks₀ : List Bytes} (left : Bool) (now : Int) : ∀ (ks : List Bytes) (a b : Db), (∀ k ∈ ks, k ∈ ks₀) → Agree ks₀ a b →
    LRes ks₀ (bpopScan left now a ks) (bpopScan left now b ks)
| [], a, b, _, hs => by unfold bpopScan; exact ⟨rfl, hs⟩
| k :: ks, a, b, hsub, hs => by
  have hsub' : ∀ k' ∈ ks, k' ∈ ks₀ := fun k' hk' => hsub k' (List.mem_cons_of_mem _ hk')
  have hk := hsub k List.mem_cons_self
  unfold bpopScan
  obtain ⟨a', b', x, hca, hcb, hs'⟩ := Agree.ttl hs now hk
  simp only [hca, hcb, C06T.getList_congr (hs' k hk)]
  split
  · exact bpop_loc left now ks _ _ hsub' hs'
  · exact ⟨rfl, hs'⟩
  · split
    · exact bpop_loc left now ks _ _ hsub' hs'
    · exact ⟨rfl, hs'.putList (hs' k hk) _⟩

theorem bpop_frm {ks₀ : List Bytes} {a₀ : Db} (left : Bool) (now : Int) : ∀ (ks : List Bytes) (a : Db), (∀ k ∈ ks, k ∈ ks₀) → Frm ks₀ a₀ a →
    Frm ks₀ a₀ (bpopScan left now a ks).2
| [], a, _, h => by unfold bpopScan; exact h
| k :: ks, a, hsub, h => by
  have hsub' : ∀ k' ∈ ks, k' ∈ ks₀ := fun k' hk' => hsub k' (List.mem_cons_of_mem _ hk')
  have hk := hsub k List.mem_cons_self
  unfold bpopScan
  dsimp only
  split
  · exact bpop_frm left now ks _ hsub' (h.ttl now hk)
  · exact h.ttl now hk
  · split
    · exact bpop_frm left now ks _ hsub' (h.ttl now hk)
    · exact (h.ttl now hk).putList hk _

theorem t_bpopGen (left : Bool) : CmdFoot (bpopGen left) fpBPop := by
  intro env args; unfold fpBPop; split
  · rename_i x k rest
    split
    · rename_i t k1 ksRev hrev
      refine KeysOk.mk (fun a b hs => ?_) (fun a => ?_) (fun hw => Bool.noConfusion hw) <;> unfold bpopGen <;> simp only [hrev]
      · split
        · ft_pair
        · split
          · ft_pair
          · split
            · ft_pair
            · have h := bpop_loc left env.now (k1 :: ksRev).reverse a b (fun _ h => h) hs
              revert h
              generalize bpopScan left env.now a (k1 :: ksRev).reverse = pa
              generalize bpopScan left env.now b (k1 :: ksRev).reverse = pb
              intro h
              obtain ⟨ra, da⟩ := pa
              obtain ⟨rb, db⟩ := pb
              obtain ⟨h1, h2⟩ := h
              simp only at h1 h2
              subst h1
              cases ra with
              | none => dsimp only; split <;> ft_pair
              | some r => dsimp only; ft_pair
      · have h := bpop_frm left env.now (k1 :: ksRev).reverse a (fun _ h => h) (Frm.refl (k1 :: ksRev).reverse a)
        revert h
        generalize bpopScan left env.now a (k1 :: ksRev).reverse = pa
        intro h
        obtain ⟨ra, da⟩ := pa
        simp only at h
        repeat' (first | frm_close | dsimp only | split)
    · rename_i hno
      intro a; unfold bpopGen
      refine ⟨?_, fun b => ?_⟩ <;> dsimp only <;> split <;> first | rfl | (exfalso; solve_by_elim)
  · unfold bpopGen; ft_none

theorem t_blpop : CmdFoot cmdBLPop fpBPop := t_bpopGen _
theorem t_brpop : CmdFoot cmdBRPop fpBPop := t_bpopGen _

end Exec.Foot
