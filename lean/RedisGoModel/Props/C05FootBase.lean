import RedisGoModel.Props.C06TBase
import RedisGoModel.Exec.Footprint
import Lean
/-! # C05 / C13 — the footprint theorems, shared infrastructure

For a key list `ks` (the footprint of a command):

* `Agree ks a b` — the two keyspaces hold physically the same entry (value and deadline, `Db.get`) under every key of `ks`.  This is
  what the stripes of `ks` protect; the keyspaces may differ arbitrarily elsewhere.
* `Frm ks a₀ a`  — `a` holds what `a₀` held under every key OUTSIDE `ks` (frame).
* `RO now a₀ a`  — `a` is `a₀` except that entries of `a₀` whose deadline had passed at `now` may have been deleted (what a read-only
  command does: nothing but `CheckTTL`'s lazy deletion).

`KeysOk c env args ks w` packages the three statements for one executor and one argument vector; `CmdFoot c f` says it for every
argument vector, with `f args` as the key list (`NoneOk` / `WholeOk` for the two other footprint shapes).  The lemmas below say
how each primitive the executors are built from acts on the three relations; the tactics follow an executor's control flow. -/
namespace Exec.Foot
open Resp (Reply Bytes)
open Exec
open Exec.C06T (getStr_congr getHash_congr getSet_congr getList_congr getZ_congr getStream_congr has_congr
  agree_put agree_del agree_setVal agree_setFresh agree_putList agree_putSet)

def Agree (ks : List Bytes) (a b : Db) : Prop := ∀ k ∈ ks, a.get k = b.get k
def Frm (ks : List Bytes) (a₀ a : Db) : Prop := ∀ k, k ∉ ks → a.get k = a₀.get k
/-- the entry exists and its deadline has been reached -/
def Expired (now : Int) (o : Option Entry) : Prop := ∃ e d, o = some e ∧ e.exp = some d ∧ d ≤ now
def RO (now : Int) (a₀ a : Db) : Prop := ∀ k, a.get k = a₀.get k ∨ (a.get k = none ∧ Expired now (a₀.get k))

/-- two results: same reply, keyspaces agree on `ks` -/
def LRes {α : Type} (ks : List Bytes) (x y : α × Db) : Prop := x.1 = y.1 ∧ Agree ks x.2 y.2

/-- the three footprint statements for executor `c` on `args` with key list `ks` (write mode `w`) -/
structure KeysOk (c : Cmd) (env : Env) (args : List Bytes) (ks : List Bytes) (w : Bool) : Prop where
  loc : ∀ a b, Agree ks a b → LRes ks (c env a args) (c env b args)
  frm : ∀ a, Frm ks a (c env a args).2
  ro : w = false → ∀ a, RO env.now a (c env a args).2

/-- no keyspace access: the keyspace is returned as it came and the reply does not depend on it -/
def NoneOk (c : Cmd) (env : Env) (args : List Bytes) : Prop := ∀ a, (c env a args).2 = a ∧ ∀ b, (c env a args).1 = (c env b args).1

/-- the whole keyspace (KEYS): nothing but lazy deletion happens; the reply is a function of the keyspace as a lookup function -/
def WholeOk (c : Cmd) (env : Env) (args : List Bytes) : Prop :=
  (∀ a, a.WF → RO env.now a (c env a args).2) ∧
  ∀ a b, a.WF → b.WF → (∀ k, a.get k = b.get k) → (c env a args).1 = (c env b args).1 ∧ ∀ k, (c env a args).2.get k = (c env b args).2.get k

def FootOk (c : Cmd) (env : Env) (args : List Bytes) : Footprint → Prop
| .keys ks w => KeysOk c env args ks w
| .none => NoneOk c env args
| .whole => WholeOk c env args

abbrev CmdFoot (c : Cmd) (f : FP) : Prop := ∀ (env : Env) (args : List Bytes), FootOk c env args (f args)

/-! ### Agree -/

theorem Agree.refl (ks : List Bytes) (a : Db) : Agree ks a a := fun _ _ => rfl
theorem Agree.symm {ks : List Bytes} {a b : Db} (h : Agree ks a b) : Agree ks b a := fun k hk => (h k hk).symm
theorem Agree.sub {ks ks' : List Bytes} {a b : Db} (h : Agree ks a b) (hs : ∀ k ∈ ks', k ∈ ks) : Agree ks' a b :=
  fun k hk => h k (hs k hk)

theorem Agree.put {ks : List Bytes} {a b : Db} (h : Agree ks a b) (k : Bytes) (e : Entry) : Agree ks (a.put k e) (b.put k e) :=
  fun k' hk' => agree_put (h k' hk') k e
theorem Agree.del {ks : List Bytes} {a b : Db} (h : Agree ks a b) (k : Bytes) : Agree ks (a.del k) (b.del k) :=
  fun k' hk' => agree_del (h k' hk') k
theorem Agree.setFresh {ks : List Bytes} {a b : Db} (h : Agree ks a b) (k : Bytes) (v : Value) :
    Agree ks (a.setFresh k v) (b.setFresh k v) := h.put k _
theorem Agree.setVal {ks : List Bytes} {a b : Db} {k : Bytes} (h : Agree ks a b) (hk : a.get k = b.get k) (v : Value) :
    Agree ks (a.setVal k v) (b.setVal k v) := fun k' hk' => agree_setVal hk (h k' hk') v
theorem Agree.putList {ks : List Bytes} {a b : Db} {k : Bytes} (h : Agree ks a b) (hk : a.get k = b.get k) (l : List Bytes) :
    Agree ks (putList a k l) (putList b k l) := fun k' hk' => agree_putList hk (h k' hk') l
theorem Agree.putSet {ks : List Bytes} {a b : Db} {k : Bytes} (h : Agree ks a b) (hk : a.get k = b.get k) (s : SetOps.MSet) :
    Agree ks (putSet a k s) (putSet b k s) := fun k' hk' => agree_putSet hk (h k' hk') s
theorem Agree.putHash {ks : List Bytes} {a b : Db} {k : Bytes} (h : Agree ks a b) (hk : a.get k = b.get k) (x : HashT) :
    Agree ks (putHash a k x) (putHash b k x) := by
  unfold Exec.putHash; split
  · exact h.del k
  · exact h.setVal hk _
theorem Agree.storeSet {ks : List Bytes} {a b : Db} (h : Agree ks a b) (k : Bytes) (s : SetOps.MSet) :
    Agree ks (storeSet a k s) (storeSet b k s) := by
  unfold Exec.storeSet; split
  · exact h.del k
  · exact h.setFresh k _

/-- the lazy check on a footprint key: both sides take the same decision, and still agree -/
theorem checkTTL_congr {a b : Db} (now : Int) {k : Bytes} (hk : a.get k = b.get k) :
    (checkTTL a now k).2 = (checkTTL b now k).2 ∧
    ((checkTTL a now k).1 = a ∧ (checkTTL b now k).1 = b ∨ (checkTTL a now k).1 = a.del k ∧ (checkTTL b now k).1 = b.del k) := by
  unfold checkTTL
  rw [hk]
  split
  · split
    · split
      · exact ⟨rfl, Or.inr ⟨rfl, rfl⟩⟩
      · exact ⟨rfl, Or.inl ⟨rfl, rfl⟩⟩
    · exact ⟨rfl, Or.inl ⟨rfl, rfl⟩⟩
  · exact ⟨rfl, Or.inl ⟨rfl, rfl⟩⟩

theorem Agree.ttl {ks : List Bytes} {a b : Db} (h : Agree ks a b) (now : Int) {k : Bytes} (hk : k ∈ ks) :
    ∃ a' b' x, checkTTL a now k = (a', x) ∧ checkTTL b now k = (b', x) ∧ Agree ks a' b' := by
  obtain ⟨h2, h1⟩ := checkTTL_congr now (h k hk)
  refine ⟨(checkTTL a now k).1, (checkTTL b now k).1, (checkTTL a now k).2, rfl, by rw [h2], ?_⟩
  rcases h1 with ⟨ea, eb⟩ | ⟨ea, eb⟩ <;> rw [ea, eb]
  · exact h
  · exact h.del k

/-! reads of a footprint key see the same on both sides -/
theorem get_agree {ks : List Bytes} {a b : Db} (h : Agree ks a b) {k : Bytes} (hk : k ∈ ks) : a.get k = b.get k := h k hk
theorem getStr_agree {ks : List Bytes} {a b : Db} (h : Agree ks a b) {k : Bytes} (hk : k ∈ ks) : getStr a k = getStr b k :=
  getStr_congr (h k hk)
theorem getHash_agree {ks : List Bytes} {a b : Db} (h : Agree ks a b) {k : Bytes} (hk : k ∈ ks) : getHash a k = getHash b k :=
  getHash_congr (h k hk)
theorem getSet_agree {ks : List Bytes} {a b : Db} (h : Agree ks a b) {k : Bytes} (hk : k ∈ ks) : getSet a k = getSet b k :=
  getSet_congr (h k hk)
theorem getList_agree {ks : List Bytes} {a b : Db} (h : Agree ks a b) {k : Bytes} (hk : k ∈ ks) : getList a k = getList b k :=
  getList_congr (h k hk)
theorem getZ_agree {ks : List Bytes} {a b : Db} (h : Agree ks a b) {k : Bytes} (hk : k ∈ ks) : getZ a k = getZ b k :=
  getZ_congr (h k hk)
theorem getStream_agree {ks : List Bytes} {a b : Db} (h : Agree ks a b) {k : Bytes} (hk : k ∈ ks) : getStream a k = getStream b k :=
  getStream_congr (h k hk)
theorem has_agree {ks : List Bytes} {a b : Db} (h : Agree ks a b) {k : Bytes} (hk : k ∈ ks) : a.has k = b.has k :=
  has_congr (h k hk)

theorem LRes.intro {α : Type} {ks : List Bytes} {a b : Db} {r r' : α} (h : r = r') (hs : Agree ks a b) : LRes ks (r, a) (r', b) := ⟨h, hs⟩

/-- closes `k ∈ ks` for a literal key list, or from the context -/
macro "ft_mem" : tactic => `(tactic| first
  | assumption
  | (simp only [List.mem_cons, List.mem_singleton, true_or, or_true]; done)
  | (apply_assumption; simp only [List.mem_cons, List.mem_singleton, true_or, or_true]; done)
  | (simp; done))

syntax "ft_agree" : tactic
syntax "ft_at" : tactic
/-- closes `a.get k = b.get k` from an `Agree` hypothesis -/
macro_rules | `(tactic| ft_at) => `(tactic| first
  | assumption
  | (apply get_agree (by assumption); ft_mem)
  | exact C06T.agree_put_self _ _ _ _
  | exact C06T.agree_del_self _ _ _
  | (apply agree_put; ft_at)
  | (apply agree_del; ft_at)
  | (apply agree_setFresh; ft_at)
  | (apply agree_setVal <;> ft_at)
  | (apply agree_putList <;> ft_at)
  | (apply agree_putSet <;> ft_at))
/-- closes `Agree ks (X a) (X b)` for `X` built from the write primitives -/
macro_rules | `(tactic| ft_agree) => `(tactic| first
  | assumption
  | (apply Agree.put; ft_agree)
  | (apply Agree.del; ft_agree)
  | (apply Agree.setFresh; ft_agree)
  | (apply Agree.storeSet; ft_agree)
  | (apply Agree.setVal <;> first | ft_agree | ft_at)
  | (apply Agree.putHash <;> first | ft_agree | ft_at)
  | (apply Agree.putSet <;> first | ft_agree | ft_at)
  | (apply Agree.putList <;> first | ft_agree | ft_at))

macro "ft_pair" : tactic => `(tactic| (apply LRes.intro <;> first | rfl | ft_agree))

/-- run the lazy check on `k` on both sides (hypothesis `hs : Agree ks a b`), then rewrite every read of the new `a`-side keyspace
    under a footprint key into the `b`-side -/
macro "ft_ttl " hs:term:max now:term:max k:term:max : tactic => `(tactic|
  (obtain ⟨a', b', x, hca, hcb, hs'⟩ := Agree.ttl $hs $now (k := $k) (by ft_mem)
   simp only [hca, hcb]
   try simp only [getStr_agree hs', getHash_agree hs', getSet_agree hs', getList_agree hs', getZ_agree hs', getStream_agree hs',
     has_agree hs', get_agree hs', List.mem_cons, List.mem_singleton, true_or, or_true]))

open Lean Elab Tactic Meta in
/-- find a `checkTTL db now k` in the goal whose `db` is the left side of an `Agree` hypothesis and run `ft_ttl` on it -/
elab "ft_auto_ttl" : tactic => withMainContext do
  let tgt ← instantiateMVars (← getMainTarget)
  let mut cands : Array (Expr × Expr) := #[]
  for d in ← getLCtx do
    if d.isImplementationDetail then continue
    let ty ← instantiateMVars d.type
    if ty.isAppOfArity ``Exec.Foot.Agree 3 then
      cands := cands.push (ty.getArg! 1, mkFVar d.fvarId)
  let some e := tgt.find? (fun e => e.isAppOfArity ``Exec.checkTTL 3 && !e.hasLooseBVars && cands.any (fun c => c.1 == e.getArg! 0))
    | throwError "no checkTTL on the left side of an Agree hypothesis"
  let some c := cands.find? (fun c => c.1 == e.getArg! 0) | throwError "unreachable"
  let k ← Term.exprToSyntax (e.getArg! 2)
  let now ← Term.exprToSyntax (e.getArg! 1)
  let hs ← Term.exprToSyntax c.2
  evalTactic (← `(tactic| ft_ttl ($hs) ($now) ($k)))

/-- the locality statement of one executor: split the control flow; at a lazy check move both sides on; close the leaves -/
macro "ft_loc" : tactic => `(tactic|
  (repeat' (first | ft_pair | ft_auto_ttl | split | (exfalso; apply_assumption; rfl) | (exfalso; solve_by_elim) | (exfalso; simp_all; done))))

/-! ### Frm -/

theorem Frm.refl (ks : List Bytes) (a : Db) : Frm ks a a := fun _ _ => rfl

theorem Frm.put {ks : List Bytes} {a₀ a : Db} (h : Frm ks a₀ a) {k : Bytes} (hk : k ∈ ks) (e : Entry) : Frm ks a₀ (a.put k e) := by
  intro k' hk'
  have : k' ≠ k := fun e => hk' (e ▸ hk)
  rw [Db.get_put_other _ _ this]; exact h k' hk'
theorem Frm.del {ks : List Bytes} {a₀ a : Db} (h : Frm ks a₀ a) {k : Bytes} (hk : k ∈ ks) : Frm ks a₀ (a.del k) := by
  intro k' hk'
  have : k' ≠ k := fun e => hk' (e ▸ hk)
  rw [Db.get_del_other _ this]; exact h k' hk'
theorem Frm.setVal {ks : List Bytes} {a₀ a : Db} (h : Frm ks a₀ a) {k : Bytes} (hk : k ∈ ks) (v : Value) : Frm ks a₀ (a.setVal k v) :=
  h.put hk _
theorem Frm.setFresh {ks : List Bytes} {a₀ a : Db} (h : Frm ks a₀ a) {k : Bytes} (hk : k ∈ ks) (v : Value) : Frm ks a₀ (a.setFresh k v) :=
  h.put hk _
theorem Frm.putList {ks : List Bytes} {a₀ a : Db} (h : Frm ks a₀ a) {k : Bytes} (hk : k ∈ ks) (l : List Bytes) : Frm ks a₀ (putList a k l) := by
  unfold Exec.putList; split
  · exact h.del hk
  · exact h.setVal hk _
theorem Frm.putHash {ks : List Bytes} {a₀ a : Db} (h : Frm ks a₀ a) {k : Bytes} (hk : k ∈ ks) (x : HashT) : Frm ks a₀ (putHash a k x) := by
  unfold Exec.putHash; split
  · exact h.del hk
  · exact h.setVal hk _
theorem Frm.putSet {ks : List Bytes} {a₀ a : Db} (h : Frm ks a₀ a) {k : Bytes} (hk : k ∈ ks) (s : SetOps.MSet) : Frm ks a₀ (putSet a k s) := by
  unfold Exec.putSet; split
  · exact h.del hk
  · exact h.setVal hk _
theorem Frm.storeSet {ks : List Bytes} {a₀ a : Db} (h : Frm ks a₀ a) {k : Bytes} (hk : k ∈ ks) (s : SetOps.MSet) : Frm ks a₀ (storeSet a k s) := by
  unfold Exec.storeSet; split
  · exact h.del hk
  · exact h.setFresh hk _

theorem Frm.ttl {ks : List Bytes} {a₀ a : Db} (h : Frm ks a₀ a) (now : Int) {k : Bytes} (hk : k ∈ ks) : Frm ks a₀ (checkTTL a now k).1 := by
  intro k' hk'
  have : k' ≠ k := fun e => hk' (e ▸ hk)
  rw [checkTTL_other a now this]; exact h k' hk'

theorem Frm.ofEqFst {ks : List Bytes} {β : Type} {a₀ a' : Db} {x : Db × β} {r : β} (heq : x = (a', r)) (h : Frm ks a₀ x.1) : Frm ks a₀ a' := by
  subst heq; exact h
theorem Frm.ofEqSnd {ks : List Bytes} {β : Type} {a₀ a' : Db} {x : β × Db} {r : β} (heq : x = (r, a')) (h : Frm ks a₀ x.2) : Frm ks a₀ a' := by
  subst heq; exact h

theorem Frm.checkAll {ks : List Bytes} {a₀ : Db} (now : Int) : ∀ (keys : List Bytes) {a : Db}, (∀ k ∈ keys, k ∈ ks) → Frm ks a₀ a →
    Frm ks a₀ (checkAll now a keys)
| [], _, _, h => h
| k :: keys, _, hk, h => by
  unfold Exec.checkAll; rw [List.foldl_cons]
  exact Frm.checkAll now keys (fun k' hk' => hk k' (List.mem_cons_of_mem _ hk')) (h.ttl now (hk k List.mem_cons_self))

syntax "frm_close" : tactic
macro_rules | `(tactic| frm_close) => `(tactic| first
  | exact Frm.refl _ _
  | assumption
  | (refine Frm.ofEqFst (by assumption) ?_; frm_close)
  | (refine Frm.ofEqSnd (by assumption) ?_; frm_close)
  | (refine Frm.ttl ?_ _ (by ft_mem); frm_close)
  | (refine Frm.del ?_ (by ft_mem); frm_close)
  | (refine Frm.setVal ?_ (by ft_mem) _; frm_close)
  | (refine Frm.setFresh ?_ (by ft_mem) _; frm_close)
  | (refine Frm.put ?_ (by ft_mem) _; frm_close)
  | (refine Frm.putList ?_ (by ft_mem) _; frm_close)
  | (refine Frm.putHash ?_ (by ft_mem) _; frm_close)
  | (refine Frm.putSet ?_ (by ft_mem) _; frm_close)
  | (refine Frm.storeSet ?_ (by ft_mem) _; frm_close)
  | (refine Frm.checkAll _ _ (by intro _ h; first | exact h | ft_mem | (simp only [List.mem_cons, List.mem_singleton] at h ⊢; simp [h]; done)) ?_; frm_close))

/-- the frame statement of one executor: follow the control flow, close every leaf -/
macro "ft_frm" : tactic => `(tactic| repeat' (first | frm_close | dsimp only | split))

/-! ### RO -/

theorem RO.refl (now : Int) (a : Db) : RO now a a := fun _ => Or.inl rfl

theorem checkTTL_ro (a : Db) (now : Int) (k : Bytes) :
    (checkTTL a now k).1 = a ∨ ((checkTTL a now k).1 = a.del k ∧ Expired now (a.get k)) := by
  unfold checkTTL
  split
  · rename_i e he
    split
    · rename_i d hd
      split
      · rename_i hle; exact Or.inr ⟨rfl, e, d, he, hd, hle⟩
      · exact Or.inl rfl
    · exact Or.inl rfl
  · exact Or.inl rfl

theorem RO.ttl {now : Int} {a₀ a : Db} (h : RO now a₀ a) (k : Bytes) : RO now a₀ (checkTTL a now k).1 := by
  rcases checkTTL_ro a now k with e | ⟨e, hx⟩
  · rw [e]; exact h
  · rw [e]
    intro k'
    by_cases hk : k' = k
    · subst hk
      right
      refine ⟨Db.get_del_same _ _, ?_⟩
      rcases h k' with h1 | ⟨h1, _⟩
      · rw [← h1]; exact hx
      · obtain ⟨e', _, he', _⟩ := hx; rw [h1] at he'; cases he'
    · rw [Db.get_del_other _ hk]; exact h k'

theorem RO.ofEqFst {now : Int} {β : Type} {a₀ a' : Db} {x : Db × β} {r : β} (heq : x = (a', r)) (h : RO now a₀ x.1) : RO now a₀ a' := by
  subst heq; exact h
theorem RO.ofEqSnd {now : Int} {β : Type} {a₀ a' : Db} {x : β × Db} {r : β} (heq : x = (r, a')) (h : RO now a₀ x.2) : RO now a₀ a' := by
  subst heq; exact h

theorem RO.checkAll {now : Int} {a₀ : Db} : ∀ (keys : List Bytes) {a : Db}, RO now a₀ a → RO now a₀ (checkAll now a keys)
| [], _, h => h
| k :: keys, _, h => by
  unfold Exec.checkAll; rw [List.foldl_cons]
  exact RO.checkAll keys (h.ttl k)

syntax "ro_close" : tactic
macro_rules | `(tactic| ro_close) => `(tactic| first
  | exact RO.refl _ _
  | assumption
  | (refine RO.ofEqFst (by assumption) ?_; ro_close)
  | (refine RO.ofEqSnd (by assumption) ?_; ro_close)
  | (refine RO.ttl ?_ _; ro_close)
  | (refine RO.checkAll _ ?_; ro_close))

/-- the read-only statement of one executor -/
macro "ft_ro" : tactic => `(tactic| repeat' (first | ro_close | dsimp only | split))

/-- read-only executor `c` on a concrete argument shape: the three statements -/
macro "ft_keys_r " c:ident* : tactic => `(tactic|
  (refine KeysOk.mk (fun a b hs => ?_) (fun a => ?_) (fun _ a => ?_) <;> unfold $[$c]* <;> try dsimp only
   · ft_loc
   · ft_frm
   · ft_ro))
/-- writing executor: the read-only clause is vacuous -/
macro "ft_keys_w " c:ident* : tactic => `(tactic|
  (refine KeysOk.mk (fun a b hs => ?_) (fun a => ?_) (fun hw => Bool.noConfusion hw) <;> unfold $[$c]* <;> try dsimp only
   · ft_loc
   · ft_frm))

/-- the `none` statement: every path returns the keyspace it was given and a reply that does not mention it -/
macro "ft_none" : tactic => `(tactic|
  (intro a; refine ⟨?_, fun b => ?_⟩ <;>
   repeat' (first | rfl | (exfalso; apply_assumption; rfl) | (exfalso; solve_by_elim) | (exfalso; simp_all; done) | dsimp only | split)))

end Exec.Foot
