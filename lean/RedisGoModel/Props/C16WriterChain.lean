import RedisGoModel.Props.C16Writer
import RedisGoModel.Props.C16Chain
/-! C16: the writer of File.lean through any sequence of `Save` / `SaveSnapshot` calls (with the `cut`s they trigger):
    the segment files it leaves are a chain in the sense of C16Chain.lean, so that — once the last call has synced —
    `recLoop` reads back exactly the records written, and in particular every entry handed to `Save`, in order. -/
namespace WalFile
open WalCodec

/-! ### projections that `write` / `encode` / `flush` leave alone -/

theorem Writer.write_closed (w : Writer) (p : Bytes) : (w.write p).closed = w.closed := rfl
theorem Writer.write_metadata (w : Writer) (p : Bytes) : (w.write p).metadata = w.metadata := rfl
theorem Writer.write_segSize (w : Writer) (p : Bytes) : (w.write p).segSize = w.segSize := rfl
theorem Writer.write_state (w : Writer) (p : Bytes) : (w.write p).state = w.state := rfl
theorem Writer.encode_closed (w : Writer) (t : Nat) (d : Option Bytes) : (w.encode t d).closed = w.closed := rfl
theorem Writer.encode_metadata (w : Writer) (t : Nat) (d : Option Bytes) : (w.encode t d).metadata = w.metadata := rfl
theorem Writer.encode_segSize (w : Writer) (t : Nat) (d : Option Bytes) : (w.encode t d).segSize = w.segSize := rfl
theorem Writer.encode_state (w : Writer) (t : Nat) (d : Option Bytes) : (w.encode t d).state = w.state := rfl
theorem Writer.flush_bytes (w : Writer) : w.flush.bytes = w.bytes := by simp [Writer.bytes, Writer.flush]

/-! ### chains -/

theorem chainFiles_append (c : Nat) (a : List (List Item × Bytes)) (s : List Item × Bytes) :
    chainFiles c (a ++ [s]) = chainFiles c a ++ [fileOf (chainCrc c a) s.1 s.2] := by
  induction a generalizing c with
  | nil => obtain ⟨i, t⟩ := s; rfl
  | cons x rest ih => obtain ⟨i, t⟩ := x; simp only [List.cons_append, chainFiles, chainCrc, ih]

theorem chainCrc_append (c : Nat) (a : List (List Item × Bytes)) (s : List Item × Bytes) :
    chainCrc c (a ++ [s]) = crcAfter crcUpdate (chainCrc c a) s.1 := by
  induction a generalizing c with
  | nil => obtain ⟨i, t⟩ := s; rfl
  | cons x rest ih => obtain ⟨i, t⟩ := x; simp only [List.cons_append, chainCrc, ih]

/-! ### the ghost state: the segments' items -/

structure Ghost where
  closed : List (List Item)
  cur    : List Item

def noTail (l : List (List Item)) : List (List Item × Bytes) := l.map (fun i => (i, ([] : Bytes)))

/-- rolling CRC at the head of the current segment -/
def Ghost.crc0 (g : Ghost) : Nat := chainCrc 0 (noTail g.closed)

def Ghost.all (g : Ghost) : List Item := (g.closed ++ [g.cur]).flatten

/-- payloads of the entry records, in order -/
def Ghost.entries (g : Ghost) : List Bytes := (g.all.filter (fun it => it.type == entryType)).map (·.data)

def Ghost.Ok (g : Ghost) : Prop := ∀ it ∈ g.all, ItemOk it ∧ it.type ≠ crcType

/-- the writer invariant -/
structure WInv (w : Writer) (g : Ghost) : Prop where
  closed : w.closed.map (·.2) = chainFiles 0 (noTail g.closed)
  bytes  : w.bytes = fileOf g.crc0 g.cur []
  crc    : w.crc = crcAfter crcUpdate g.crc0 g.cur
  ok     : g.Ok
  mdat   : ∃ m, w.metadata = some m ∧ m.length < 2 ^ 55
  tsize  : w.tailSize = w.segSize
  stOk   : (marshalHS w.state).length < 2 ^ 55

theorem Ghost.all_snoc (g : Ghost) (it : Item) : ({ g with cur := g.cur ++ [it] } : Ghost).all = g.all ++ [it] := by
  simp [Ghost.all, List.flatten_append]

theorem WInv.encode {w : Writer} {g : Ghost} (h : WInv w g) (ty : Nat) (d : Bytes)
    (hit : ItemOk ⟨ty, d⟩ ∧ ty ≠ crcType) : WInv (w.encode ty (some d)) { g with cur := g.cur ++ [⟨ty, d⟩] } := by
  obtain ⟨h1, h2⟩ := w.encode_bytes ty (some d)
  refine { closed := by rw [Writer.encode_closed]; exact h.closed, bytes := ?_, crc := ?_, ok := ?_,
           mdat := by rw [Writer.encode_metadata]; exact h.mdat,
           tsize := by rw [Writer.encode_tailSize, Writer.encode_segSize]; exact h.tsize,
           stOk := by rw [Writer.encode_state]; exact h.stOk }
  · show _ = fileOf g.crc0 (g.cur ++ [⟨ty, d⟩]) []
    rw [h1, h.bytes, fileOf, fileOf, encodeAll_append, ← h.crc]
    simp [encodeAll]
  · show _ = crcAfter crcUpdate g.crc0 (g.cur ++ [⟨ty, d⟩])
    rw [h2, crcAfter_append, ← h.crc]; rfl
  · intro it hit'
    rw [Ghost.all_snoc] at hit'
    rcases List.mem_append.mp hit' with h' | h'
    · exact h.ok it h'
    · simp only [List.mem_singleton] at h'; subst h'; exact hit

theorem WInv.congr {w w' : Writer} {g : Ghost} (h : WInv w g) (e1 : w'.closed = w.closed) (e2 : w'.bytes = w.bytes)
    (e3 : w'.crc = w.crc) (e4 : w'.metadata = w.metadata) (e5 : w'.tailSize = w.tailSize) (e6 : w'.segSize = w.segSize)
    (e7 : w'.state = w.state) : WInv w' g :=
  { closed := by rw [e1]; exact h.closed, bytes := by rw [e2]; exact h.bytes, crc := by rw [e3]; exact h.crc,
    ok := h.ok, mdat := by rw [e4]; exact h.mdat, tsize := by rw [e5, e6]; exact h.tsize,
    stOk := by rw [e7]; exact h.stOk }

theorem WInv.flush {w : Writer} {g : Ghost} (h : WInv w g) : WInv w.flush g :=
  h.congr rfl w.flush_bytes rfl rfl rfl rfl rfl

theorem WInv.setEnti {w : Writer} {g : Ghost} (h : WInv w g) (i : Nat) : WInv { w with enti := i } g :=
  h.congr rfl rfl rfl rfl rfl rfl rfl

/-- a ghost whose items are those of `g` followed by `extra` (in the current segment) -/
def Ghost.add (g : Ghost) (extra : List Item) : Ghost := { g with cur := g.cur ++ extra }

theorem Ghost.add_all (g : Ghost) (extra : List Item) : (g.add extra).all = g.all ++ extra := by
  simp [Ghost.add, Ghost.all, List.flatten_append]

theorem Ghost.add_nil (g : Ghost) : g.add [] = g := by simp [Ghost.add]

theorem Ghost.add_add (g : Ghost) (a b : List Item) : (g.add a).add b = g.add (a ++ b) := by
  simp [Ghost.add, List.append_assoc]

theorem WInv.encode' {w : Writer} {g : Ghost} (h : WInv w g) (ty : Nat) (d : Bytes)
    (hit : ItemOk ⟨ty, d⟩ ∧ ty ≠ crcType) : WInv (w.encode ty (some d)) (g.add [⟨ty, d⟩]) := h.encode ty d hit

/-- the items `saveState` appends -/
def stateItems (s : HardState) : List Item := if isEmptyHS s then [] else [⟨stateType, marshalHS s⟩]

theorem WInv.saveState {w : Writer} {g : Ghost} (h : WInv w g) (s : HardState) (hs : (marshalHS s).length < 2 ^ 55) :
    WInv (w.saveState s) (g.add (stateItems s)) := by
  unfold Writer.saveState stateItems
  by_cases he : isEmptyHS s = true
  · rw [if_pos he, if_pos he, Ghost.add_nil]; exact h
  · rw [if_neg he, if_neg he]
    have h' : WInv { w with state := s } g :=
      { closed := h.closed, bytes := h.bytes, crc := h.crc, ok := h.ok, mdat := h.mdat, tsize := h.tsize, stOk := hs }
    exact h'.encode' stateType (marshalHS s) ⟨⟨show stateType < 2 ^ 64 by decide, hs⟩, show stateType ≠ crcType by decide⟩

theorem Writer.saveState_state_ok (w : Writer) (s : HardState) (hw : (marshalHS w.state).length < 2 ^ 55)
    (hs : (marshalHS s).length < 2 ^ 55) : (marshalHS (w.saveState s).state).length < 2 ^ 55 := by
  unfold Writer.saveState
  split
  · exact hw
  · rw [Writer.encode_state]; exact hs

/-- the first step of `cut`: flush, close the current file, start an empty one -/
def Writer.cutStart (w : Writer) : Writer :=
  let w := w.flush
  { w with closed := w.closed ++ [(w.name, w.tail)], name := (w.name.1 + 1, w.enti + 1), tail := [], tailSize := w.segSize }

theorem Writer.cut_eq (w : Writer) :
    w.cut = (((w.cutStart.encode crcType none).encode metadataType (w.cutStart.encode crcType none).metadata).saveState
      ((w.cutStart.encode crcType none).encode metadataType (w.cutStart.encode crcType none).metadata).state).flush := rfl

/-- `cut`: the current segment is closed as it is, and a new one starts with the CRC record carrying the rolling CRC,
    the metadata record and (if there is one) the state record -/
theorem WInv.cut {w : Writer} {g : Ghost} (h : WInv w g) :
    ∃ m, w.metadata = some m ∧
      WInv w.cut { closed := g.closed ++ [g.cur], cur := [⟨metadataType, m⟩] ++ stateItems w.state } := by
  obtain ⟨m, hm, hml⟩ := h.mdat
  refine ⟨m, hm, ?_⟩
  rw [Writer.cut_eq]
  -- the writer after flush, with the old file closed and a fresh empty file
  generalize hw2 : w.cutStart = w2
  have c0 : ({ closed := g.closed ++ [g.cur], cur := [] } : Ghost).crc0 = crcAfter crcUpdate g.crc0 g.cur := by
    simp only [Ghost.crc0, noTail, List.map_append, List.map_cons, List.map_nil]
    rw [chainCrc_append]
  have hcl : w2.closed.map (·.2) = chainFiles 0 (noTail (g.closed ++ [g.cur])) := by
    rw [← hw2]
    have e1 : w.cutStart.closed = w.closed ++ [(w.name, w.bytes)] := rfl
    rw [e1]
    simp only [List.map_append, List.map_cons, List.map_nil, noTail]
    rw [chainFiles_append]
    have := h.closed
    simp only [noTail] at this
    rw [this, h.bytes]
    rfl
  have hb2 : w2.bytes = [] := by rw [← hw2]; rfl
  have hc2 : w2.crc = crcAfter crcUpdate g.crc0 g.cur := by rw [← hw2]; exact h.crc
  have hm2 : w2.metadata = some m := by rw [← hw2]; exact hm
  have hs2 : w2.state = w.state := by rw [← hw2]; rfl
  have ht2 : w2.tailSize = w2.segSize := by rw [← hw2]; rfl
  -- the CRC record
  have hI3 : WInv (w2.encode crcType none) { closed := g.closed ++ [g.cur], cur := [] } := by
    obtain ⟨b1, b2⟩ := w2.encode_bytes crcType none
    have e : crcUpdate w2.crc ((none : Option Bytes).getD []) = w2.crc := crcUpdate_nil _
    rw [e] at b1 b2
    refine { closed := by rw [Writer.encode_closed]; exact hcl, bytes := ?_, crc := ?_, ok := ?_,
             mdat := ⟨m, by rw [Writer.encode_metadata]; exact hm2, hml⟩,
             tsize := by rw [Writer.encode_tailSize, Writer.encode_segSize]; exact ht2,
             stOk := by rw [Writer.encode_state, hs2]; exact h.stOk }
    · rw [b1, hb2, c0, hc2]; simp [fileOf, encodeAll, crcRec]
    · rw [b2, c0, hc2]; rfl
    · intro it hit
      simp only [Ghost.all, List.flatten_append, List.flatten_cons, List.flatten_nil, List.append_nil] at hit
      exact h.ok it (by simpa [Ghost.all, List.flatten_append] using hit)
  have hmeta3 : (w2.encode crcType none).metadata = some m := by rw [Writer.encode_metadata]; exact hm2
  rw [hmeta3]
  have hI4 := hI3.encode' metadataType m ⟨⟨show metadataType < 2 ^ 64 by decide, hml⟩, show metadataType ≠ crcType by decide⟩
  have hst4 : ((w2.encode crcType none).encode metadataType (some m)).state = w.state := by
    rw [Writer.encode_state, Writer.encode_state, hs2]
  rw [hst4]
  have hI5 := hI4.saveState w.state h.stOk
  rw [Ghost.add_add] at hI5
  exact hI5.flush

/-! ### `Save`, `SaveSnapshot` -/

def isEntryItem (it : Item) : Bool := it.type == entryType

def entItems (ents : List Entry) : List Item := ents.map (fun e => ⟨entryType, marshalEntry e⟩)

theorem filter_entItems (ents : List Entry) : ((entItems ents).filter isEntryItem).map (·.data) = ents.map marshalEntry := by
  induction ents with
  | nil => rfl
  | cons e rest ih =>
    simp only [entItems, List.map_cons] at ih ⊢
    rw [List.filter_cons_of_pos (by simp [isEntryItem])]
    simp only [List.map_cons, ih]

theorem filter_stateItems (s : HardState) : (stateItems s).filter isEntryItem = [] := by
  unfold stateItems
  split
  · rfl
  · rfl

def Writer.foldEnts (w : Writer) (ents : List Entry) : Writer :=
  ents.foldl (fun w e => { (w.encode entryType (some (marshalEntry e))) with enti := e.index }) w

theorem WInv.foldEnts (ents : List Entry) : ∀ (w : Writer) (g : Ghost), WInv w g →
    (∀ e ∈ ents, (marshalEntry e).length < 2 ^ 55) → WInv (w.foldEnts ents) (g.add (entItems ents)) := by
  induction ents with
  | nil => intro w g h _; rw [entItems, List.map_nil, Ghost.add_nil]; exact h
  | cons e rest ih =>
    intro w g h hok
    have h1 := (h.encode' entryType (marshalEntry e)
      ⟨⟨show entryType < 2 ^ 64 by decide, hok e (by simp)⟩, show entryType ≠ crcType by decide⟩).setEnti e.index
    have h2 := ih _ _ h1 (fun x hx => hok x (by simp [hx]))
    rw [Ghost.add_add] at h2
    exact h2

theorem Writer.save_eq (w : Writer) (st : HardState) (ents : List Entry) :
    w.save st ents =
      (if isEmptyHS st && ents.isEmpty then (w, false) else
        if ((w.foldEnts ents).saveState st).tail.length < ((w.foldEnts ents).saveState st).segSize then
          (if (!ents.isEmpty || st.vote != w.state.vote || st.term != w.state.term)
            then (((w.foldEnts ents).saveState st).flush, true) else ((w.foldEnts ents).saveState st, false))
        else (((w.foldEnts ents).saveState st).cut, true)) := rfl

theorem cut_all (g : Ghost) (new : List Item) :
    ({ closed := g.closed ++ [g.cur], cur := new } : Ghost).all = g.all ++ new := by
  simp [Ghost.all, List.flatten_append]

/-- `Save` appends the entries (and possibly state / cut records): the ghost's items grow by `extra`, whose entry
    records are exactly the entries handed in, in order -/
theorem WInv.save {w : Writer} {g : Ghost} (h : WInv w g) (st : HardState) (ents : List Entry)
    (hents : ∀ e ∈ ents, (marshalEntry e).length < 2 ^ 55) (hst : (marshalHS st).length < 2 ^ 55) :
    ∃ g' extra, WInv (w.save st ents).1 g' ∧ g'.all = g.all ++ extra ∧
      (extra.filter isEntryItem).map (·.data) = ents.map marshalEntry := by
  rw [Writer.save_eq]
  by_cases h0 : (isEmptyHS st && ents.isEmpty) = true
  · rw [if_pos h0]
    refine ⟨g, [], h, by simp, ?_⟩
    have : ents = [] := by
      simp only [Bool.and_eq_true, List.isEmpty_iff] at h0; exact h0.2
    rw [this]; rfl
  · rw [if_neg h0]
    have h2 := (WInv.foldEnts ents w g h hents).saveState st hst
    rw [Ghost.add_add] at h2
    have hf : ((entItems ents ++ stateItems st).filter isEntryItem).map (·.data) = ents.map marshalEntry := by
      rw [List.filter_append, filter_stateItems, List.append_nil, filter_entItems]
    split
    · split
      · exact ⟨_, _, h2.flush, Ghost.add_all _ _, hf⟩
      · exact ⟨_, _, h2, Ghost.add_all _ _, hf⟩
    · obtain ⟨m, _, hcut⟩ := h2.cut
      refine ⟨_, (entItems ents ++ stateItems st) ++ ([⟨metadataType, m⟩] ++ stateItems ((w.foldEnts ents).saveState st).state),
        hcut, ?_, ?_⟩
      · rw [cut_all, Ghost.add_all, List.append_assoc]
      · rw [List.filter_append, List.map_append, hf, List.filter_append, filter_stateItems]
        simp [isEntryItem, metadataType, entryType]

theorem Writer.saveSnapshot_eq (w : Writer) (s : WSnap) :
    w.saveSnapshot s =
      (if s.conf.isNone && s.index > 0 then w else
        (if (w.encode snapshotType (some (marshalWSnap s))).enti < s.index
          then { (w.encode snapshotType (some (marshalWSnap s))) with enti := s.index }
          else w.encode snapshotType (some (marshalWSnap s))).flush) := rfl

theorem WInv.saveSnapshot {w : Writer} {g : Ghost} (h : WInv w g) (s : WSnap) (hs : (marshalWSnap s).length < 2 ^ 55) :
    ∃ g' extra, WInv (w.saveSnapshot s) g' ∧ g'.all = g.all ++ extra ∧
      (extra.filter isEntryItem).map (·.data) = [] := by
  rw [Writer.saveSnapshot_eq]
  split
  · exact ⟨g, [], h, by simp, rfl⟩
  · have h1 := h.encode' snapshotType (marshalWSnap s)
      ⟨⟨show snapshotType < 2 ^ 64 by decide, hs⟩, show snapshotType ≠ crcType by decide⟩
    refine ⟨_, [⟨snapshotType, marshalWSnap s⟩], ?_, Ghost.add_all _ _, by simp [isEntryItem, snapshotType, entryType]⟩
    split
    · exact (h1.setEnti s.index).flush
    · exact h1.flush

/-! ### `Create`, then any sequence of calls -/

theorem Writer.flush_closed (w : Writer) : w.flush.closed = w.closed := rfl
theorem Writer.flush_metadata (w : Writer) : w.flush.metadata = w.metadata := rfl
theorem Writer.flush_segSize (w : Writer) : w.flush.segSize = w.segSize := rfl
theorem Writer.flush_state (w : Writer) : w.flush.state = w.state := rfl
theorem Writer.flush_crc (w : Writer) : w.flush.crc = w.crc := rfl

theorem emptyHS_len : (marshalHS emptyHS).length < 2 ^ 55 := by
  have e : encVarint 0 = [0] := by rw [encVarint]; rfl
  simp [marshalHS, emptyHS, e]

def createGhost (m : Bytes) : Ghost := { closed := [], cur := [⟨metadataType, m⟩, ⟨snapshotType, marshalWSnap ⟨0, 0, none⟩⟩] }

theorem WInv.create (segSize : Nat) (m : Bytes) (hm : m.length < 2 ^ 55) :
    WInv (Writer.create segSize (some m)) (createGhost m) := by
  obtain ⟨⟨hb, hc⟩, _, hts⟩ := Writer.create_inv segSize m
  have hcl : (Writer.create segSize (some m)).closed = [] := by
    unfold Writer.create; simp only
    rw [Writer.flush_closed, Writer.encode_closed, Writer.encode_closed, Writer.encode_closed]
  have hmd : (Writer.create segSize (some m)).metadata = some m := by
    unfold Writer.create; simp only
    rw [Writer.flush_metadata, Writer.encode_metadata, Writer.encode_metadata, Writer.encode_metadata]
  have hsg : (Writer.create segSize (some m)).segSize = segSize := by
    unfold Writer.create; simp only
    rw [Writer.flush_segSize, Writer.encode_segSize, Writer.encode_segSize, Writer.encode_segSize]
  have hst : (Writer.create segSize (some m)).state = emptyHS := by
    unfold Writer.create; simp only
    rw [Writer.flush_state, Writer.encode_state, Writer.encode_state, Writer.encode_state]
  refine { closed := by rw [hcl]; rfl, bytes := ?_, crc := hc, ok := ?_, mdat := ⟨m, hmd, hm⟩,
           tsize := by rw [hts, hsg], stOk := by rw [hst]; exact emptyHS_len }
  · rw [hb]; simp [fileOf, createGhost, Ghost.crc0, noTail, chainCrc]
  · intro it hit
    simp only [Ghost.all, createGhost, List.nil_append, List.flatten_cons, List.flatten_nil, List.append_nil,
      List.mem_cons, List.not_mem_nil, or_false] at hit
    rcases hit with rfl | rfl
    · exact ⟨⟨show metadataType < 2 ^ 64 by decide, hm⟩, show metadataType ≠ crcType by decide⟩
    · exact ⟨⟨show snapshotType < 2 ^ 64 by decide,
        show (marshalWSnap ⟨0, 0, none⟩).length < 2 ^ 55 by rw [wsnap0_len]; decide⟩, show snapshotType ≠ crcType by decide⟩

/-- the calls of the WAL's write API -/
inductive Op
| save (st : HardState) (ents : List Entry)
| snap (s : WSnap)

/-- size bounds on what is handed in (marshalled messages below 2^55 bytes) -/
def Op.Ok : Op → Prop
| .save st ents => (marshalHS st).length < 2 ^ 55 ∧ ∀ e ∈ ents, (marshalEntry e).length < 2 ^ 55
| .snap s => (marshalWSnap s).length < 2 ^ 55

def Writer.step (w : Writer) : Op → Writer
| .save st ents => (w.save st ents).1
| .snap s => w.saveSnapshot s

def Writer.run (w : Writer) (ops : List Op) : Writer := ops.foldl Writer.step w

/-- the marshalled entries handed to `Save`, in order -/
def opEntries : List Op → List Bytes
| [] => []
| .save _ ents :: rest => ents.map marshalEntry ++ opEntries rest
| .snap _ :: rest => opEntries rest

theorem WInv.run (ops : List Op) : ∀ (w : Writer) (g : Ghost), WInv w g → (∀ op ∈ ops, op.Ok) →
    ∃ g' extra, WInv (w.run ops) g' ∧ g'.all = g.all ++ extra ∧
      (extra.filter isEntryItem).map (·.data) = opEntries ops := by
  induction ops with
  | nil => intro w g h _; exact ⟨g, [], h, by simp, rfl⟩
  | cons op rest ih =>
    intro w g h hok
    have hop := hok op (by simp)
    have hstep : ∃ g1 e1, WInv (w.step op) g1 ∧ g1.all = g.all ++ e1 ∧
        (e1.filter isEntryItem).map (·.data) = opEntries [op] := by
      cases op with
      | save st ents =>
        obtain ⟨g1, e1, a, b, c⟩ := h.save st ents hop.2 hop.1
        exact ⟨g1, e1, a, b, by simpa [opEntries] using c⟩
      | snap s =>
        obtain ⟨g1, e1, a, b, c⟩ := h.saveSnapshot s hop
        exact ⟨g1, e1, a, b, by simpa [opEntries] using c⟩
    obtain ⟨g1, e1, a1, b1, c1⟩ := hstep
    obtain ⟨g2, e2, a2, b2, c2⟩ := ih (w.step op) g1 a1 (fun x hx => hok x (by simp [hx]))
    refine ⟨g2, e1 ++ e2, a2, by rw [b2, b1, List.append_assoc], ?_⟩
    rw [List.filter_append, List.map_append, c1, c2]
    cases op <;> simp [opEntries]

/-! ### the segment size never changes -/

theorem Writer.saveState_segSize (w : Writer) (s : HardState) : (w.saveState s).segSize = w.segSize := by
  unfold Writer.saveState
  split
  · rfl
  · rw [Writer.encode_segSize]

theorem Writer.foldEnts_segSize (ents : List Entry) : ∀ w : Writer, (w.foldEnts ents).segSize = w.segSize := by
  induction ents with
  | nil => intro w; rfl
  | cons e rest ih =>
    intro w
    show (Writer.foldEnts _ rest).segSize = _
    rw [ih]; rfl

theorem Writer.cut_segSize (w : Writer) : w.cut.segSize = w.segSize := by
  rw [Writer.cut_eq, Writer.flush_segSize, Writer.saveState_segSize, Writer.encode_segSize, Writer.encode_segSize]
  rfl

theorem Writer.step_segSize (w : Writer) (op : Op) : (w.step op).segSize = w.segSize := by
  cases op with
  | save st ents =>
    show (w.save st ents).1.segSize = _
    rw [Writer.save_eq]
    split
    · rfl
    · split
      · split
        · rw [Writer.flush_segSize, Writer.saveState_segSize, Writer.foldEnts_segSize]
        · rw [Writer.saveState_segSize, Writer.foldEnts_segSize]
      · rw [Writer.cut_segSize, Writer.saveState_segSize, Writer.foldEnts_segSize]
  | snap s =>
    show (w.saveSnapshot s).segSize = _
    rw [Writer.saveSnapshot_eq]
    split
    · rfl
    · rw [Writer.flush_segSize]
      split
      · rw [show ∀ (x : Writer) (i : Nat), ({ x with enti := i } : Writer).segSize = x.segSize from fun _ _ => rfl,
          Writer.encode_segSize]
      · rw [Writer.encode_segSize]

theorem Writer.run_segSize (ops : List Op) : ∀ w : Writer, (w.run ops).segSize = w.segSize := by
  induction ops with
  | nil => intro w; rfl
  | cons op rest ih =>
    intro w
    show (Writer.run (w.step op) rest).segSize = _
    rw [ih, Writer.step_segSize]

/-! ### reading back what the writer left -/

theorem encodeFrame_len_mod (r : Record) : (encodeFrame r).length % 8 = 0 := by
  rw [encodeFrame_length]
  have : (encodeFrameSize (marshal r).length).2 = (8 - (marshal r).length % 8) % 8 := rfl
  omega

theorem encodeAll_len_mod (c : Nat) (items : List Item) : (encodeAll crcUpdate c items).length % 8 = 0 := by
  induction items generalizing c with
  | nil => rfl
  | cons it rest ih =>
    simp only [encodeAll, List.length_append]
    have := encodeFrame_len_mod ⟨it.type, crcUpdate c it.data, some it.data⟩
    have := ih (crcUpdate c it.data)
    omega

def isEntryRec (r : Record) : Bool := r.type == entryType

theorem records_filter (c : Nat) (items : List Item) :
    ((records crcUpdate c items).filter isEntryRec).map (·.data) = ((items.filter isEntryItem).map (fun it => some it.data)) := by
  induction items generalizing c with
  | nil => rfl
  | cons it rest ih =>
    simp only [records]
    by_cases h : it.type = entryType
    · rw [List.filter_cons_of_pos (by simp [isEntryRec, h]), List.filter_cons_of_pos (by simp [isEntryItem, h])]
      simp only [List.map_cons, ih]
    · rw [List.filter_cons_of_neg (by simp [isEntryRec, h]), List.filter_cons_of_neg (by simp [isEntryItem, h])]
      exact ih _

theorem chainRecords_filter (c : Nat) (segs : List (List Item × Bytes)) :
    ((chainRecords c segs).filter isEntryRec).map (·.data) =
      (((segs.map (·.1)).flatten.filter isEntryItem).map (fun it => some it.data)) := by
  induction segs generalizing c with
  | nil => rfl
  | cons s rest ih =>
    obtain ⟨items, t⟩ := s
    simp only [chainRecords, List.map_cons, List.flatten_cons, List.filter_append, List.map_append]
    have hcr : (crcRec c :: records crcUpdate c items).filter isEntryRec = (records crcUpdate c items).filter isEntryRec :=
      List.filter_cons_of_neg (by simp [isEntryRec, crcRec, crcType, entryType])
    rw [hcr, records_filter, ih]

/-- **write, then read** (any number of segments). `wal.Create` followed by any sequence of `Save` / `SaveSnapshot`
    calls — with the `cut`s into new segment files that `Save` performs when a segment is full, the PageWriter
    buffering, the CRC record / metadata / state records `cut` writes — and a final sync: the segment files on disk form
    a chain `chainFiles 0 segs`; the file-level record loop reads them back as exactly the records written
    (`chainRecords 0 segs`), ending in a clean EOF with the decoder's rolling CRC equal to the encoder's; and the entry
    records among them are exactly the entries handed to `Save`, in order. -/
theorem writer_readback (segSize : Nat) (hseg : segSize % 8 = 0) (m : Bytes) (hm : m.length < 2 ^ 55) (ops : List Op)
    (hops : ∀ op ∈ ops, op.Ok) :
    ∃ segs, (((Writer.create segSize (some m)).run ops).flush.files.map (·.2)) = chainFiles 0 segs ∧
      (∀ extra, ∃ d', recLoop (chainFuel segs + extra) (Dec.open (chainFiles 0 segs)) = (chainRecords 0 segs, .decEof, d') ∧
        d'.crc = ((Writer.create segSize (some m)).run ops).flush.crc) ∧
      ((chainRecords 0 segs).filter isEntryRec).map (·.data) = (opEntries ops).map some := by
  obtain ⟨g, extra, hI, hall, hent⟩ := WInv.run ops _ _ (WInv.create segSize m hm) hops
  have hI := hI.flush
  have hbuf := Writer.flush_buf ((Writer.create segSize (some m)).run ops)
  have hsegsz : ((Writer.create segSize (some m)).run ops).flush.segSize = segSize := by
    rw [Writer.flush_segSize, Writer.run_segSize]
    have := (WInv.create segSize m hm).tsize
    rw [(Writer.create_inv segSize m).2.2] at this
    exact this.symm
  generalize ((Writer.create segSize (some m)).run ops).flush = w at hI hbuf hsegsz ⊢
  -- after the flush everything is in the file
  have htail : w.tail = encodeFrame (crcRec g.crc0) ++ encodeAll crcUpdate g.crc0 g.cur := by
    have := hI.bytes
    rw [Writer.bytes, hbuf, List.append_nil] at this
    rw [this]; simp [fileOf]
  have hlenmod : w.tail.length % 8 = 0 := by
    rw [htail, List.length_append]
    have := encodeFrame_len_mod (crcRec g.crc0)
    have := encodeAll_len_mod g.crc0 g.cur
    omega
  -- the zeros of the preallocation
  obtain ⟨zeros, hz⟩ : ∃ z : Bytes, z = List.replicate (w.tailSize - w.tail.length) 0 := ⟨_, rfl⟩
  have hzend : EndOfWritten zeros := by
    rw [hz, hI.tsize]
    by_cases hlt : w.tail.length < w.segSize
    · have hsg : w.segSize % 8 = 0 := by rw [hsegsz]; exact hseg
      have hn : 8 ≤ w.segSize - w.tail.length := by omega
      generalize w.segSize - w.tail.length = n at hn
      right
      refine ⟨List.replicate (n - 8) 0, ?_⟩
      rw [List.replicate_append_replicate]
      have e : 8 + (n - 8) = n := by omega
      rw [e]
    · left
      have : w.segSize - w.tail.length = 0 := by omega
      rw [this]; rfl
  -- the files form a chain
  have hfiles : w.files.map (·.2) = chainFiles 0 (noTail g.closed ++ [(g.cur, zeros)]) := by
    rw [chainFiles_append]
    simp only [Writer.files, List.map_append, List.map_cons, List.map_nil, hI.closed]
    congr 1
    rw [Writer.tailImage, ← hz, htail]
    simp [fileOf, Ghost.crc0]
  have hsegok : ∀ s ∈ noTail g.closed ++ [(g.cur, zeros)],
      (∀ it ∈ s.1, ItemOk it ∧ it.type ≠ crcType) ∧ EndOfWritten s.2 := by
    intro s hs
    rcases List.mem_append.mp hs with h | h
    · simp only [noTail, List.mem_map] at h
      obtain ⟨items, hmem, rfl⟩ := h
      refine ⟨fun it hit => hI.ok it ?_, Or.inl rfl⟩
      simp only [Ghost.all, List.mem_flatten]
      exact ⟨items, by simp [hmem], hit⟩
    · simp only [List.mem_singleton] at h
      subst h
      refine ⟨fun it hit => hI.ok it ?_, hzend⟩
      simp only [Ghost.all, List.mem_flatten]
      exact ⟨g.cur, by simp, hit⟩
  refine ⟨noTail g.closed ++ [(g.cur, zeros)], hfiles, ?_, ?_⟩
  · intro ex
    obtain ⟨d', h1, _, h3⟩ := readAll_roundtrip_chain 0 (by decide) _ hsegok ex
    refine ⟨d', h1, ?_⟩
    rw [h3 (by simp), chainCrc_append, hI.crc]; rfl
  · rw [chainRecords_filter]
    have hfl : ((noTail g.closed ++ [(g.cur, zeros)]).map (·.1)).flatten = g.all := by
      simp [noTail, Ghost.all, List.map_map, Function.comp_def]
    rw [hfl, hall, List.filter_append, List.map_append]
    have : (createGhost m).all.filter isEntryItem = [] := by
      simp [createGhost, Ghost.all, isEntryItem, metadataType, snapshotType, entryType]
    rw [this, ← hent, List.map_map]
    rfl

#print axioms writer_readback
end WalFile
