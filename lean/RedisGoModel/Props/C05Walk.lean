import RedisGoModel.Conc.MapWalk
/-! # C05 / C17 — what a `Keys()` walk over the sharded map guarantees while writers run

KEYS is excluded from the atomicity theorems (`Props/C05Atomic*.lean`): its executor walks `ConcurrentMap` shard by shard with no stripe
and no lock spanning the walk, so it is NOT atomic — a key inserted and a key deleted during the walk may or may not be listed.  What
users rely on nevertheless (two seeded changes broke exactly this, and only a stress scenario noticed) is proved here on the micro-step
model `Conc/MapWalk.lean`, for any number of writers running arbitrary programs of `Set` / `SetIfNotExist` / `Delete`, any number of
walkers, any shard function, every interleaving:

* `walk_sees_stable_keys` — a key that is in the map in every state from before the walk starts until after it has ended (it may be
  OVERWRITTEN any number of times in between: `Set` of an existing key is one in-place step under the shard lock) is in the walk's
  result, exactly once;
* `walk_sees_overwritten_keys` — in particular: if no writer ever deletes, every key present before the walk is listed exactly once;
* `walk_only_lists_keys_present_sometime` — every listed key was in the map in some state during the walk;
* `walk_no_duplicates` — no key is listed twice;
* `no_writer_while_reading` — mutual exclusion of a shard's writer and its readers, the reason why copying a shard is ONE step.

NEGATIVE theorems, each a concrete run:
* `overwrite_two_step_loses_key` — if overwriting is compiled to `Delete` then `Set` (two lock sections; `compile true`), a client that
  only ever overwrites key 7 makes a concurrent walk miss it, although 7 is in the map before and after;
* `stopAtCap_misses_stable_key` / `walkSeesStable_false_for_stopAtCap` — a walker that stops after `count`-at-the-start keys misses a key
  that is present throughout when another key is inserted meanwhile; so the statement of `walk_sees_stable_keys` is FALSE for that
  variant (and true for the real one: `walkSeesStable_real`). -/
namespace MW
variable {K V : Type} [DecidableEq K] {nw nr : Nat}

/-! ### the map keeps unique keys -/

theorem keys_map_put (items : List (K × V)) (k : K) (v : V) :
    keys (items.map fun p => if p.1 = k then (k, v) else p) = keys items := by
  unfold keys
  rw [List.map_map]
  apply List.map_congr_left
  intro p _
  by_cases h : p.1 = k <;> simp [h]

theorem keys_putItem (items : List (K × V)) (k : K) (v : V) :
    keys (putItem items k v) = if k ∈ keys items then keys items else k :: keys items := by
  unfold putItem
  split
  · exact keys_map_put items k v
  · rfl

theorem mem_keys_delItem (items : List (K × V)) (k k' : K) : k' ∈ keys (delItem items k) ↔ k' ∈ keys items ∧ k' ≠ k := by
  unfold keys delItem
  simp only [List.mem_map, List.mem_filter, decide_eq_true_eq]
  constructor
  · rintro ⟨p, ⟨hp, hne⟩, rfl⟩; exact ⟨⟨p, hp, rfl⟩, hne⟩
  · rintro ⟨⟨p, hp, rfl⟩, hne⟩; exact ⟨p, ⟨hp, hne⟩, rfl⟩

theorem nodup_applyOp {items : List (K × V)} (h : (keys items).Nodup) (c : Nat) (op : Op K V) : (keys (applyOp items c op).1).Nodup := by
  cases op with
  | put k v =>
    simp only [applyOp, keys_putItem]
    split
    · exact h
    · rename_i hk; exact List.nodup_cons.mpr ⟨hk, h⟩
  | setnx k v =>
    simp only [applyOp]
    split
    · exact h
    · rename_i hk; exact List.nodup_cons.mpr ⟨hk, h⟩
  | del k =>
    simp only [applyOp]
    unfold keys delItem
    exact List.Nodup.sublist (List.Sublist.map _ List.filter_sublist) h

/-- an operation other than `Delete` keeps every key -/
theorem present_applyOp {items : List (K × V)} {k : K} (h : k ∈ keys items) (c : Nat) {op : Op K V} (hop : ∀ k', op ≠ .del k') :
    k ∈ keys (applyOp items c op).1 := by
  cases op with
  | put k' v =>
    simp only [applyOp, keys_putItem]
    split
    · exact h
    · exact List.mem_cons_of_mem _ h
  | setnx k' v =>
    simp only [applyOp]
    split
    · exact h
    · exact List.mem_cons_of_mem _ h
  | del k' => exact absurd rfl (hop k')

/-! ### what one step does to one walker, to one writer, to the map -/

/-- the local transitions of a walker (map `items`, counter `count` of the state the step is taken from) -/
inductive RStep (var : Variant) (sh : K → Nat) (ns : Nat) (items : List (K × V)) (count : Nat) : RPhase K → RPhase K → Prop
| start : RStep var sh ns items count .fresh (.at 0 [] count)
| acquire (i acc cap) (hi : i < ns) : RStep var sh ns items count (.at i acc cap) (.holding i acc cap)
| copy (i acc cap) : RStep var sh ns items count (.holding i acc cap) (.copied i (take var cap acc (shardKeys sh items i)) cap)
| release (i acc cap) : RStep var sh ns items count (.copied i acc cap)
    (if var.stopAtCap && decide (cap ≤ acc.length) then .done acc else .at (i + 1) acc cap)
| finish (acc cap) : RStep var sh ns items count (.at ns acc cap) (.done acc)

theorem setR_same (r : Fin nr → RPhase K) (y : Fin nr) (p : RPhase K) : setR r y p y = p := by simp [setR]
theorem setR_other (r : Fin nr → RPhase K) {y y' : Fin nr} (p : RPhase K) (h : y' ≠ y) : setR r y p y' = r y' := by simp [setR, h]
theorem setW_same (w : Fin nw → Writer K V) (j : Fin nw) (t : Writer K V) : setW w j t j = t := by simp [setW]
theorem setW_other (w : Fin nw → Writer K V) {j j' : Fin nw} (t : Writer K V) (h : j' ≠ j) : setW w j t j' = w j' := by simp [setW, h]

theorem step_r {var : Variant} {sh : K → Nat} {ns : Nat} {s s' : St K V nw nr} (st : Step var sh ns s s') (y : Fin nr) :
    s'.r y = s.r y ∨ RStep var sh ns s.items s.count (s.r y) (s'.r y) := by
  cases st with
  | wAcquire j op rest h hw hr => exact Or.inl rfl
  | wApply j op todo h => exact Or.inl rfl
  | wRelease j op todo h => exact Or.inl rfl
  | rStart y' h =>
    by_cases e : y = y'
    · subst e; right; simp only [setR_same]; rw [h]; exact .start
    · left; simp only [setR_other _ _ e]
  | rAcquire y' i acc cap h hi hw =>
    by_cases e : y = y'
    · subst e; right; simp only [setR_same]; rw [h]; exact .acquire i acc cap hi
    · left; simp only [setR_other _ _ e]
  | rCopy y' i acc cap h =>
    by_cases e : y = y'
    · subst e; right; simp only [setR_same]; rw [h]; exact .copy i acc cap
    · left; simp only [setR_other _ _ e]
  | rRelease y' i acc cap h =>
    by_cases e : y = y'
    · subst e; right; simp only [setR_same]; rw [h]; exact .release i acc cap
    · left; simp only [setR_other _ _ e]
  | rFinish y' acc cap h =>
    by_cases e : y = y'
    · subst e; right; simp only [setR_same]; rw [h]; exact .finish acc cap
    · left; simp only [setR_other _ _ e]

theorem step_items {var : Variant} {sh : K → Nat} {ns : Nat} {s s' : St K V nw nr} (st : Step var sh ns s s') :
    s'.items = s.items ∨ ∃ j op todo, s.w j = ⟨.locked op, todo⟩ ∧ s'.items = (applyOp s.items s.count op).1 := by
  cases st with
  | wApply j op todo h => exact Or.inr ⟨j, op, todo, h, rfl⟩
  | _ => exact Or.inl rfl

theorem step_nodup {var : Variant} {sh : K → Nat} {ns : Nat} {s s' : St K V nw nr} (st : Step var sh ns s s')
    (h : (keys s.items).Nodup) : (keys s'.items).Nodup := by
  rcases step_items st with e | ⟨_, op, _, _, e⟩ <;> rw [e]
  · exact h
  · exact nodup_applyOp h _ op

/-! ### no duplicates -/

def accOf : RPhase K → List K
| .fresh => []
| .at _ acc _ => acc
| .holding _ acc _ => acc
| .copied _ acc _ => acc
| .done acc => acc

/-- what a walker has collected is duplicate-free and comes from the shards it has visited -/
def WalkOk (sh : K → Nat) : RPhase K → Prop
| .fresh => True
| .at i acc _ => acc.Nodup ∧ ∀ k ∈ acc, sh k < i
| .holding i acc _ => acc.Nodup ∧ ∀ k ∈ acc, sh k < i
| .copied i acc _ => acc.Nodup ∧ ∀ k ∈ acc, sh k ≤ i
| .done acc => acc.Nodup

theorem mem_shardKeys {sh : K → Nat} {items : List (K × V)} {i : Nat} {k : K} : k ∈ shardKeys sh items i ↔ k ∈ keys items ∧ sh k = i := by
  simp [shardKeys]

theorem rstep_walkOk {sh : K → Nat} {ns : Nat} {items : List (K × V)} {count : Nat} {p p' : RPhase K}
    (h : RStep .real sh ns items count p p') (hn : (keys items).Nodup) (hp : WalkOk sh p) : WalkOk sh p' := by
  cases h with
  | start => exact ⟨List.nodup_nil, fun k hk => nomatch hk⟩
  | acquire i acc cap hi => exact hp
  | copy i acc cap =>
    obtain ⟨h1, h2⟩ := hp
    show (acc ++ shardKeys sh items i).Nodup ∧ ∀ k ∈ acc ++ shardKeys sh items i, sh k ≤ i
    refine ⟨List.nodup_append.mpr ⟨h1, List.Nodup.sublist List.filter_sublist hn, ?_⟩, ?_⟩
    · intro a ha b hb e
      subst e
      have := h2 a ha
      have := (mem_shardKeys.mp hb).2
      omega
    · intro k hk
      rcases List.mem_append.mp hk with hk | hk
      · exact Nat.le_of_lt (h2 k hk)
      · exact Nat.le_of_eq (mem_shardKeys.mp hk).2
  | release i acc cap =>
    obtain ⟨h1, h2⟩ := hp
    exact ⟨h1, fun k hk => Nat.lt_succ_of_le (h2 k hk)⟩
  | finish acc cap => exact hp.1

/-- **no key is listed twice** -/
theorem walk_no_duplicates {sh : K → Nat} {ns : Nat} {s₀ s₁ : St K V nw nr} {l : List (St K V nw nr)}
    (run : Run (Step .real sh ns) s₀ l s₁) (hn : (keys s₀.items).Nodup) (y : Fin nr) (h₀ : s₀.r y = .fresh)
    {acc : List K} (h₁ : s₁.r y = .done acc) : acc.Nodup := by
  have h := Run.forward (Q := fun _ => True) (I := fun s => (keys s.items).Nodup ∧ WalkOk sh (s.r y))
    (fun a b st _ hI => ⟨step_nodup st hI.1, by
      rcases step_r st y with e | e
      · rw [e]; exact hI.2
      · exact rstep_walkOk e hI.1 hI.2⟩) run (fun _ _ => trivial) ⟨hn, by rw [h₀]; trivial⟩
  have := h.2
  rw [h₁] at this
  exact this

/-! ### a key that is there all the time is listed -/

/-- walker progress relative to key `k`: once the shard of `k` has been copied, `k` is in the result -/
def Cov (sh : K → Nat) (k : K) : RPhase K → Prop
| .fresh => True
| .at i acc _ => sh k < i → k ∈ acc
| .holding i acc _ => sh k < i → k ∈ acc
| .copied i acc _ => sh k ≤ i → k ∈ acc
| .done acc => k ∈ acc

theorem rstep_cov {sh : K → Nat} {ns : Nat} {items : List (K × V)} {count : Nat} {p p' : RPhase K} {k : K}
    (h : RStep .real sh ns items count p p') (hsh : sh k < ns) (hk : k ∈ keys items) (hp : Cov sh k p) : Cov sh k p' := by
  cases h with
  | start => intro h; exact absurd h (Nat.not_lt_zero _)
  | acquire i acc cap hi => exact hp
  | copy i acc cap =>
    show sh k ≤ i → k ∈ acc ++ shardKeys sh items i
    intro hle
    rcases Nat.lt_or_eq_of_le hle with hlt | heq
    · exact List.mem_append_left _ (hp hlt)
    · exact List.mem_append_right _ (mem_shardKeys.mpr ⟨hk, heq⟩)
  | release i acc cap => exact fun h => hp (Nat.le_of_lt_succ h)
  | finish acc cap => exact hp hsh

theorem count_one_of_nodup : ∀ {l : List K} {k : K}, l.Nodup → k ∈ l → l.count k = 1
| [], _, _, h => nomatch h
| a :: l, k, hn, h => by
  rw [List.nodup_cons] at hn
  rw [List.count_cons]
  by_cases e : a = k
  · subst e
    have : l.count a = 0 := List.count_eq_zero.mpr hn.1
    simp [this]
  · have hk : k ∈ l := by
      rcases List.mem_cons.mp h with h | h
      · exact absurd h.symm e
      · exact h
    have : (a == k) = false := by simpa using e
    simp [this, count_one_of_nodup hn.2 hk]

/-- **a key that is in the map from before the walk starts until after it has ended is listed, exactly once** — whatever the writers
    do in between (overwrite it, insert and delete other keys), for every shard function and every interleaving -/
theorem walk_sees_stable_keys {sh : K → Nat} {ns : Nat} (hsh : ∀ k, sh k < ns) {s₀ s₁ : St K V nw nr} {l : List (St K V nw nr)}
    (run : Run (Step .real sh ns) s₀ l s₁) (hn : (keys s₀.items).Nodup) (y : Fin nr) (h₀ : s₀.r y = .fresh)
    {acc : List K} (h₁ : s₁.r y = .done acc) {k : K} (hk : ∀ s ∈ s₀ :: l, present s k) : acc.count k = 1 := by
  have h := Run.forward (Q := fun s => present s k) (I := fun s => Cov sh k (s.r y))
    (fun a b st hq hI => by
      rcases step_r st y with e | e
      · rw [e]; exact hI
      · exact rstep_cov e (hsh k) hq hI) run hk (by rw [h₀]; trivial)
  rw [h₁] at h
  exact count_one_of_nodup (walk_no_duplicates run hn y h₀ h₁) h

/-! ### a listed key was there at some moment of the walk -/

theorem rstep_listed {sh : K → Nat} {ns : Nat} {items : List (K × V)} {count : Nat} {p p' : RPhase K} {k : K}
    (h : RStep .real sh ns items count p p') (hk : k ∈ accOf p') : k ∈ accOf p ∨ k ∈ keys items := by
  cases h with
  | start => cases hk
  | acquire i acc cap hi => exact Or.inl hk
  | copy i acc cap =>
    rcases List.mem_append.mp (hk : k ∈ acc ++ shardKeys sh items i) with h | h
    · exact Or.inl h
    · exact Or.inr (mem_shardKeys.mp h).1
  | release i acc cap => exact Or.inl hk
  | finish acc cap => exact Or.inl hk

theorem run_listed {sh : K → Nat} {ns : Nat} (y : Fin nr) : ∀ {s u : St K V nw nr} {l : List (St K V nw nr)},
    Run (Step .real sh ns) s l u → ∀ k ∈ accOf (u.r y), k ∈ accOf (s.r y) ∨ ∃ a ∈ s :: l, present a k := by
  intro s u l run
  induction run with
  | refl s => intro k hk; exact Or.inl hk
  | @cons s t u l st _ ih =>
    intro k hk
    rcases ih k hk with h | ⟨a, ha, hp⟩
    · rcases step_r st y with e | e
      · rw [e] at h; exact Or.inl h
      · rcases rstep_listed e h with h | h
        · exact Or.inl h
        · exact Or.inr ⟨s, List.mem_cons_self, h⟩
    · exact Or.inr ⟨a, List.mem_cons_of_mem _ ha, hp⟩

/-- **every listed key was in the map in some state between the start and the end of the walk** -/
theorem walk_only_lists_keys_present_sometime {sh : K → Nat} {ns : Nat} {s₀ s₁ : St K V nw nr} {l : List (St K V nw nr)}
    (run : Run (Step .real sh ns) s₀ l s₁) (y : Fin nr) (h₀ : s₀.r y = .fresh) {acc : List K} (h₁ : s₁.r y = .done acc) :
    ∀ k ∈ acc, ∃ s ∈ s₀ :: l, present s k := by
  intro k hk
  have := run_listed y run k (by rw [h₁]; exact hk)
  rw [h₀] at this
  rcases this with h | h
  · cases h
  · exact h

/-! ### writers that never delete: every key present before the walk is listed -/

def NoDel (t : Writer K V) : Prop :=
  (∀ op ∈ t.todo, ∀ k, op ≠ .del k) ∧
  match t.phase with
  | .idle => True
  | .locked op => ∀ k, op ≠ .del k
  | .applied _ => True

theorem step_noDel {var : Variant} {sh : K → Nat} {ns : Nat} {s s' : St K V nw nr} (st : Step var sh ns s s')
    (h : ∀ x, NoDel (s.w x)) : ∀ x, NoDel (s'.w x) := by
  cases st with
  | wAcquire j op rest hj hw hr =>
    intro x
    by_cases e : x = j
    · subst e
      have := h x; rw [hj] at this
      simp only [setW_same]
      exact ⟨fun o ho => this.1 o (List.mem_cons_of_mem _ ho), this.1 op List.mem_cons_self⟩
    · simp only [setW_other _ _ e]; exact h x
  | wApply j op todo hj =>
    intro x
    by_cases e : x = j
    · subst e
      have := h x; rw [hj] at this
      simp only [setW_same]
      exact ⟨this.1, trivial⟩
    · simp only [setW_other _ _ e]; exact h x
  | wRelease j op todo hj =>
    intro x
    by_cases e : x = j
    · subst e
      have := h x; rw [hj] at this
      simp only [setW_same]
      exact ⟨this.1, trivial⟩
    · simp only [setW_other _ _ e]; exact h x
  | rStart => exact h
  | rAcquire => exact h
  | rCopy => exact h
  | rRelease => exact h
  | rFinish => exact h

theorem run_present_noDel {var : Variant} {sh : K → Nat} {ns : Nat} {k : K} : ∀ {s u : St K V nw nr} {l : List (St K V nw nr)},
    Run (Step var sh ns) s l u → (∀ x, NoDel (s.w x)) → present s k → ∀ a ∈ s :: l, present a k := by
  intro s u l run
  induction run with
  | refl s => intro _ hp a ha; simp at ha; subst ha; exact hp
  | @cons s t u l st _ ih =>
    intro hnd hp a ha
    rcases List.mem_cons.mp ha with rfl | ha
    · exact hp
    · refine ih (step_noDel st hnd) ?_ a ha
      rcases step_items st with e | ⟨j, op, todo, hj, e⟩
      · unfold present; rw [e]; exact hp
      · unfold present; rw [e]
        have := (hnd j).2; rw [hj] at this
        exact present_applyOp hp _ this

/-- **keys that are only ever overwritten are never missed**: if no writer deletes, every key that is in the map before the walk
    starts is listed exactly once -/
theorem walk_sees_overwritten_keys {sh : K → Nat} {ns : Nat} (hsh : ∀ k, sh k < ns) {s₀ s₁ : St K V nw nr} {l : List (St K V nw nr)}
    (run : Run (Step .real sh ns) s₀ l s₁) (hn : (keys s₀.items).Nodup) (hnd : ∀ x, NoDel (s₀.w x)) (y : Fin nr) (h₀ : s₀.r y = .fresh)
    {acc : List K} (h₁ : s₁.r y = .done acc) {k : K} (hk : present s₀ k) : acc.count k = 1 :=
  walk_sees_stable_keys hsh run hn y h₀ h₁ (run_present_noDel run hnd hk)

/-! ### mutual exclusion: nobody writes a shard while a walker reads it -/

def Excl (sh : K → Nat) (s : St K V nw nr) : Prop := ∀ x y i, wHolds sh (s.w x) i → rHolds (s.r y) i → False

theorem step_excl {var : Variant} {sh : K → Nat} {ns : Nat} {s s' : St K V nw nr} (st : Step var sh ns s s') (h : Excl sh s) :
    Excl sh s' := by
  cases st with
  | wAcquire j op rest hj hw hr =>
    intro x y i hx hy
    by_cases e : x = j
    · subst e
      simp only [setW_same, wHolds] at hx
      subst hx
      exact hr y hy
    · simp only [setW_other _ _ e] at hx; exact h x y i hx hy
  | wApply j op todo hj =>
    intro x y i hx hy
    by_cases e : x = j
    · subst e
      simp only [setW_same, wHolds] at hx
      exact h x y i (by rw [hj]; exact hx) hy
    · simp only [setW_other _ _ e] at hx; exact h x y i hx hy
  | wRelease j op todo hj =>
    intro x y i hx hy
    by_cases e : x = j
    · subst e; simp only [setW_same, wHolds] at hx
    · simp only [setW_other _ _ e] at hx; exact h x y i hx hy
  | rStart y' hy' =>
    intro x y i hx hy
    by_cases e : y = y'
    · subst e; simp only [setR_same, rHolds] at hy
    · simp only [setR_other _ _ e] at hy; exact h x y i hx hy
  | rAcquire y' i' acc cap hy' hi hw =>
    intro x y i hx hy
    by_cases e : y = y'
    · subst e
      simp only [setR_same, rHolds] at hy
      subst hy
      exact hw x hx
    · simp only [setR_other _ _ e] at hy; exact h x y i hx hy
  | rCopy y' i' acc cap hy' =>
    intro x y i hx hy
    by_cases e : y = y'
    · subst e
      simp only [setR_same, rHolds] at hy
      exact h x y i hx (by rw [hy']; exact hy)
    · simp only [setR_other _ _ e] at hy; exact h x y i hx hy
  | rRelease y' i' acc cap hy' =>
    intro x y i hx hy
    by_cases e : y = y'
    · subst e
      simp only [setR_same] at hy
      split at hy <;> simp only [rHolds] at hy
    · simp only [setR_other _ _ e] at hy; exact h x y i hx hy
  | rFinish y' acc cap hy' =>
    intro x y i hx hy
    by_cases e : y = y'
    · subst e; simp only [setR_same, rHolds] at hy
    · simp only [setR_other _ _ e] at hy; exact h x y i hx hy

/-- **while a walker holds a shard's read lock no writer holds that shard** (in particular none is between its look-up and its
    release): the shard cannot change under the walker, which is why copying it is one step of the model -/
theorem no_writer_while_reading {var : Variant} {sh : K → Nat} {ns : Nat} {s₀ s₁ : St K V nw nr} {l : List (St K V nw nr)}
    (run : Run (Step var sh ns) s₀ l s₁) (h₀ : Excl sh s₀) : Excl sh s₁ :=
  Run.forward (Q := fun _ => True) (I := Excl sh) (fun _ _ st _ hI => step_excl st hI) run (fun _ _ => trivial) h₀

/-! ### the statement, and the two wrong variants -/

/-- the statement of `walk_sees_stable_keys` for a walker variant, on natural-number keys, one writer, one walker -/
def WalkSeesStable (var : Variant) : Prop :=
  ∀ (sh : Nat → Nat) (ns : Nat), (∀ k, sh k < ns) → ∀ (s₀ s₁ : St Nat Unit 1 1) (l : List (St Nat Unit 1 1)),
    Run (Step var sh ns) s₀ l s₁ → (keys s₀.items).Nodup → s₀.r 0 = .fresh → ∀ acc, s₁.r 0 = .done acc →
    ∀ k, (∀ s ∈ s₀ :: l, present s k) → acc.count k = 1

theorem walkSeesStable_real : WalkSeesStable .real :=
  fun _ _ hsh _ _ _ run hn h₀ _ h₁ _ hk => walk_sees_stable_keys hsh run hn 0 h₀ h₁ hk

/-! #### the early stop: key 1 (shard 1) is there all the time; key 0 (shard 0) is inserted after the walk has read `count = 1` -/
section stopAtCap
def shB : Nat → Nat := fun k => if k = 0 then 0 else 1
abbrev StB := St Nat Unit 1 1
def b0 : StB := ⟨[(1, ())], 1, fun _ => ⟨.idle, [.put 0 ()]⟩, fun _ => .fresh⟩
def b1 : StB := { b0 with r := setR b0.r 0 (.at 0 [] b0.count) }
def b2 : StB := { b1 with w := setW b1.w 0 ⟨.locked (.put 0 ()), []⟩ }
def b3 : StB := { b2 with items := (applyOp b2.items b2.count (.put 0 ())).1, count := (applyOp b2.items b2.count (.put 0 ())).2,
                          w := setW b2.w 0 ⟨.applied (.put 0 ()), []⟩ }
def b4 : StB := { b3 with w := setW b3.w 0 ⟨.idle, []⟩ }
def b5 : StB := { b4 with r := setR b4.r 0 (.holding 0 [] 1) }
def b6 : StB := { b5 with r := setR b5.r 0 (.copied 0 (take ⟨true⟩ 1 [] (shardKeys shB b5.items 0)) 1) }
def b7 : StB := { b6 with r := setR b6.r 0 (.done [0]) }

theorem stopAtCap_run : Run (Step ⟨true⟩ shB 2) b0 [b1, b2, b3, b4, b5, b6, b7] b7 := by
  refine .cons (Step.rStart b0 0 rfl) (.cons (Step.wAcquire b1 0 (.put 0 ()) [] rfl ?_ ?_) (.cons (Step.wApply b2 0 (.put 0 ()) [] rfl)
    (.cons (Step.wRelease b3 0 (.put 0 ()) [] rfl) (.cons (Step.rAcquire b4 0 0 [] 1 rfl (by decide) ?_)
    (.cons (Step.rCopy b5 0 0 [] 1 rfl) (.cons (Step.rRelease b6 0 0 [0] 1 rfl) (.refl _)))))))
  · intro x hx; exact absurd (Subsingleton.elim x 0) hx
  · intro y hy; have : y = 0 := Subsingleton.elim y 0; subst this; exact hy
  · intro x hx; have : x = 0 := Subsingleton.elim x 0; subst this; exact hx

/-- **the early stop misses a key that is present throughout** -/
theorem stopAtCap_misses_stable_key :
    Run (Step ⟨true⟩ shB 2) b0 [b1, b2, b3, b4, b5, b6, b7] b7 ∧ b0.r 0 = .fresh ∧ b7.r 0 = .done [0] ∧
    (∀ s ∈ b0 :: [b1, b2, b3, b4, b5, b6, b7], present s 1) ∧ (1 : Nat) ∉ [0] := by
  refine ⟨stopAtCap_run, rfl, rfl, ?_, by decide⟩
  intro s hs
  simp only [List.mem_cons, List.mem_nil_iff, or_false] at hs
  rcases hs with rfl | rfl | rfl | rfl | rfl | rfl | rfl | rfl <;> (unfold present; decide)

theorem walkSeesStable_false_for_stopAtCap : ¬ WalkSeesStable ⟨true⟩ := by
  intro h
  obtain ⟨run, h0, h1, hp, _⟩ := stopAtCap_misses_stable_key
  have := h shB 2 (fun k => by unfold shB; split <;> decide) b0 b7 _ run (by decide) h0 [0] h1 1 hp
  exact absurd this (by decide)
end stopAtCap

/-! #### overwrite as delete-then-insert -/
section twoStep
/-- what a client does to a key, and how it reaches the map: the real `SET` of an existing key is ONE `Set`; the seeded change compiled
    it to `Delete` followed by `Set` -/
inductive UserCmd | overwrite (k : Nat) | remove (k : Nat)

def compile (twoStep : Bool) : UserCmd → List (Op Nat Unit)
| .overwrite k => if twoStep then [.del k, .put k ()] else [.put k ()]
| .remove k => [.del k]

abbrev StA := St Nat Unit 1 1
def a0 : StA := ⟨[(7, ())], 1, fun _ => ⟨.idle, compile true (.overwrite 7)⟩, fun _ => .fresh⟩
def a1 : StA := { a0 with w := setW a0.w 0 ⟨.locked (.del 7), [.put 7 ()]⟩ }
def a2 : StA := { a1 with items := (applyOp a1.items a1.count (.del 7)).1, count := (applyOp a1.items a1.count (.del 7)).2,
                          w := setW a1.w 0 ⟨.applied (.del 7), [.put 7 ()]⟩ }
def a3 : StA := { a2 with w := setW a2.w 0 ⟨.idle, [.put 7 ()]⟩ }
def a4 : StA := { a3 with r := setR a3.r 0 (.at 0 [] a3.count) }
def a5 : StA := { a4 with r := setR a4.r 0 (.holding 0 [] 0) }
def a6 : StA := { a5 with r := setR a5.r 0 (.copied 0 (take .real 0 [] (shardKeys (fun _ => 0) a5.items 0)) 0) }
def a7 : StA := { a6 with r := setR a6.r 0 (.at 1 [] 0) }
def a8 : StA := { a7 with r := setR a7.r 0 (.done []) }
def a9 : StA := { a8 with w := setW a8.w 0 ⟨.locked (.put 7 ()), []⟩ }
def a10 : StA := { a9 with items := (applyOp a9.items a9.count (.put 7 ())).1, count := (applyOp a9.items a9.count (.put 7 ())).2,
                           w := setW a9.w 0 ⟨.applied (.put 7 ()), []⟩ }
def a11 : StA := { a10 with w := setW a10.w 0 ⟨.idle, []⟩ }

/-- **overwrite compiled to delete-then-insert loses the key for a concurrent walk**: the REAL walker, one shard; the client only ever
    overwrites key 7, which is in the map before the walk and after it — and the walk returns the empty list -/
theorem overwrite_two_step_loses_key :
    Run (Step .real (fun _ => 0) 1) a0 [a1, a2, a3, a4, a5, a6, a7, a8, a9, a10, a11] a11 ∧
    (a0.w 0).todo = compile true (.overwrite 7) ∧ present a0 7 ∧ present a11 7 ∧ a3.r 0 = .fresh ∧ a8.r 0 = .done [] := by
  refine ⟨?_, rfl, by unfold present; decide, by unfold present; decide, rfl, rfl⟩
  refine .cons (Step.wAcquire a0 0 (.del 7) [.put 7 ()] rfl ?_ ?_) (.cons (Step.wApply a1 0 (.del 7) [.put 7 ()] rfl)
    (.cons (Step.wRelease a2 0 (.del 7) [.put 7 ()] rfl) (.cons (Step.rStart a3 0 rfl) (.cons (Step.rAcquire a4 0 0 [] 0 rfl (by decide) ?_)
    (.cons (Step.rCopy a5 0 0 [] 0 rfl) (.cons (Step.rRelease a6 0 0 [] 0 rfl) (.cons (Step.rFinish a7 0 [] 0 rfl)
    (.cons (Step.wAcquire a8 0 (.put 7 ()) [] rfl ?_ ?_) (.cons (Step.wApply a9 0 (.put 7 ()) [] rfl)
    (.cons (Step.wRelease a10 0 (.put 7 ()) [] rfl) (.refl _)))))))))))
  · intro x hx; exact absurd (Subsingleton.elim x 0) hx
  · intro y hy; have : y = 0 := Subsingleton.elim y 0; subst this; exact hy
  · intro x hx; have : x = 0 := Subsingleton.elim x 0; subst this; exact hx
  · intro x hx; exact absurd (Subsingleton.elim x 0) hx
  · intro y hy; have : y = 0 := Subsingleton.elim y 0; subst this; exact hy

/-- with the real compilation the same client cannot hide the key (`walk_sees_overwritten_keys`): its program has no `Delete` -/
example : ∀ op ∈ compile false (.overwrite 7), ∀ k, op ≠ .del k := by
  intro op hop k; simp [compile] at hop; subst hop; exact fun h => nomatch h
end twoStep

end MW
