import RedisGoModel.Props.C08ReadyRun
/-! The persisted hard state never regresses along a run of the Ready loop, crashes and restarts included (C15's clause "persisted term, vote
    and commit index never regress", for the loop around raft).  Core Lean only. -/
namespace ReadyLoop

/-- `b` does not go back from `a`: term and commit index do not decrease, a vote cast in a term is kept while the term lasts -/
def HsMono (a b : HardState) : Prop := a.term ≤ b.term ∧ a.commit ≤ b.commit ∧ (b.term = a.term → a.vote = 0 ∨ b.vote = a.vote)

theorem HsMono.refl (a : HardState) : HsMono a a := ⟨Nat.le_refl _, Nat.le_refl _, fun _ => Or.inr rfl⟩

theorem HsMono.trans {a b c : HardState} (h1 : HsMono a b) (h2 : HsMono b c) : HsMono a c := by
  obtain ⟨t1, c1, v1⟩ := h1
  obtain ⟨t2, c2, v2⟩ := h2
  refine ⟨by omega, by omega, fun ht => ?_⟩
  have hb : b.term = a.term := by omega
  rcases v1 hb with h0 | h0
  · left; exact h0
  · rcases v2 (by omega) with h3 | h3
    · left; omega
    · right; omega

/-- the hard-state records of a WAL never go back, starting from `h` -/
def chainOk : HardState → List Rec → Prop
| _, [] => True
| h, .state h' :: rs => HsMono h h' ∧ chainOk h' rs
| h, _ :: rs => chainOk h rs

theorem chainOk_append (a b : List Rec) (h : HardState) : chainOk h (a ++ b) ↔ chainOk h a ∧ chainOk (lastState a h) b := by
  induction a generalizing h with
  | nil => simp [chainOk, lastState]
  | cons r a ih =>
    cases r with
    | entry e => simp only [List.cons_append, chainOk, lastState]; exact ih h
    | snap i t => simp only [List.cons_append, chainOk, lastState]; exact ih h
    | state h' => simp only [List.cons_append, chainOk, lastState]; rw [ih h']; exact and_assoc.symm

theorem chainOk_mono (recs : List Rec) (h : HardState) (hc : chainOk h recs) : HsMono h (lastState recs h) := by
  induction recs generalizing h with
  | nil => exact HsMono.refl h
  | cons r recs ih =>
    cases r with
    | entry e => exact ih h hc
    | snap i t => exact ih h hc
    | state h' => exact HsMono.trans hc.1 (ih h' hc.2)

theorem chainOk_take (recs : List Rec) (k : Nat) (h : HardState) (hc : chainOk h recs) : chainOk h (recs.take k) := by
  have := (chainOk_append (recs.take k) (recs.drop k) h).mp (by rw [List.take_append_drop]; exact hc)
  exact this.1

/-- what is certainly on disk: the hard state of the synced records -/
def durable (s : State) : HardState := lastState s.disk.synced {}

/-- the disk effect of a statement -/
inductive DiskEff (s : State) (d' : Disk) : Prop
| same (h : d'.synced = s.disk.synced ∧ d'.buffered = s.disk.buffered)
| snapRec (i t : Nat) (h : d'.synced = s.disk.synced ∧ d'.buffered = s.disk.buffered ++ [.snap i t])
| flush (h : d'.synced = s.disk.synced ++ s.disk.buffered ∧ d'.buffered = [])

theorem exec_diskEff (c : Cfg) (s : State) (st : Stmt) : DiskEff s (exec c s st).disk ∨
    (st = .walWrite ∧ (exec c s st).disk.synced = s.disk.synced ∧
      (exec c s st).disk.buffered = s.disk.buffered ++ (s.rd.ents.map Rec.entry ++ (if s.rd.hs.isEmpty then [] else [Rec.state s.rd.hs]))) := by
  cases st with
  | snapFile => left; simp only [exec]; split <;> exact .same ⟨rfl, rfl⟩
  | snapWalWrite => left; simp only [exec]; split
                    · exact .same ⟨rfl, rfl⟩
                    · exact .snapRec _ _ ⟨rfl, rfl⟩
  | snapWalSync => left; simp only [exec]; split
                   · exact .same ⟨rfl, rfl⟩
                   · exact .flush ⟨rfl, rfl⟩
  | walWrite =>
    right
    refine ⟨rfl, ?_⟩
    simp only [exec]
    split
    · rename_i hb
      simp only [Bool.and_eq_true, List.isEmpty_iff] at hb
      refine ⟨rfl, ?_⟩
      show s.disk.buffered = _
      rw [hb.2, hb.1]; simp
    · exact ⟨rfl, rfl⟩
  | walFlush => left; simp only [exec]; split
                · exact .flush ⟨rfl, rfl⟩
                · exact .same ⟨rfl, rfl⟩
  | applySnap => left; simp only [exec]; split <;> exact .same ⟨rfl, rfl⟩
  | walSync => left; simp only [exec]; split
               · exact .same ⟨rfl, rfl⟩
               · exact .flush ⟨rfl, rfl⟩
  | publishSnap => left; simp only [exec]; split <;> exact .same ⟨rfl, rfl⟩
  | append => left; exact .same ⟨rfl, rfl⟩
  | send => left; exact .same ⟨rfl, rfl⟩
  | publish => left; simp only [exec]; split <;> exact .same ⟨rfl, rfl⟩
  | trigFile => left; simp only [exec]; split <;> exact .same ⟨rfl, rfl⟩
  | trigWalWrite => left; simp only [exec]; split
                    · exact .same ⟨rfl, rfl⟩
                    · exact .snapRec _ _ ⟨rfl, rfl⟩
  | trigWalSync => left; simp only [exec]; split
                   · exact .same ⟨rfl, rfl⟩
                   · exact .flush ⟨rfl, rfl⟩
  | trigCompact => left; simp only [exec]; split <;> exact .same ⟨rfl, rfl⟩
  | advance => left; exact .same ⟨rfl, rfl⟩

theorem lastState_entries (es : List Entry) (h : HardState) : lastState (es.map Rec.entry) h = h := by
  induction es with
  | nil => rfl
  | cons e es ih => simpa [lastState] using ih

theorem chainOk_entries (es : List Entry) (h : HardState) : chainOk h (es.map Rec.entry) := by
  induction es with
  | nil => trivial
  | cons e es ih => simpa [chainOk] using ih

/-- the hard-state records written so far never go back -/
def K (s : State) : Prop := chainOk {} s.disk.all

variable {c : Cfg} {s : State}

theorem full_hs (h : Inv c s) : lastState s.disk.all {} = s.node.hs := by
  obtain ⟨v, hv, hF⟩ := h.full
  rw [replay_full] at hv
  rw [← (replayRecs_some hv).1]; exact hF.1

/-- one event: the records stay a chain and what is certainly on disk does not go back -/
theorem mono_step (h : Inv c s) (hk : K s) (ev : Ev)
    (hconf : ∀ rd, ev = .ready rd → s.down = false ∧ s.todo = [] → ReadyOk c s.node rd) :
    K (step c s ev) ∧ HsMono (durable s) (durable (step c s ev)) := by
  have hsplit := (chainOk_append s.disk.synced s.disk.buffered {}).mp hk
  cases ev with
  | ready rd =>
    simp only [step]
    split
    · exact ⟨hk, HsMono.refl _⟩
    · exact ⟨hk, HsMono.refl _⟩
  | crash k =>
    simp only [step, h.down, Bool.false_eq_true, ↓reduceIte]
    have hd : (crashRestart s k).disk = s.disk.image k := by
      unfold crashRestart; split <;> rfl
    have hall : (crashRestart s k).disk.all = s.disk.synced ++ s.disk.buffered.take k := by rw [hd]; simp [Disk.all, Disk.image]
    refine ⟨?_, ?_⟩
    · show chainOk {} (crashRestart s k).disk.all
      rw [hall, chainOk_append]
      exact ⟨hsplit.1, chainOk_take _ _ _ hsplit.2⟩
    · show HsMono _ (lastState (crashRestart s k).disk.synced {})
      rw [hd]
      show HsMono _ (lastState (s.disk.synced ++ s.disk.buffered.take k) {})
      rw [lastState_append]
      exact chainOk_mono _ _ (chainOk_take _ _ _ hsplit.2)
  | stmt =>
    simp only [step, h.down, Bool.false_eq_true, ↓reduceIte]
    split
    · exact ⟨hk, HsMono.refl _⟩
    · rename_i st rest ht
      show chainOk {} (exec c s st).disk.all ∧ HsMono (durable s) (lastState (exec c s st).disk.synced {})
      rcases exec_diskEff c s st with heff | ⟨hst, hsy, hbu⟩
      · cases heff with
        | same h1 =>
          refine ⟨?_, by rw [h1.1]; exact HsMono.refl _⟩
          show chainOk {} ((exec c s st).disk.synced ++ (exec c s st).disk.buffered)
          rw [h1.1, h1.2]; exact hk
        | snapRec i t h1 =>
          refine ⟨?_, by rw [h1.1]; exact HsMono.refl _⟩
          show chainOk {} ((exec c s st).disk.synced ++ (exec c s st).disk.buffered)
          rw [h1.1, h1.2, ← List.append_assoc, chainOk_append]
          exact ⟨hk, by simp [chainOk]⟩
        | flush h1 =>
          refine ⟨?_, ?_⟩
          · show chainOk {} ((exec c s st).disk.synced ++ (exec c s st).disk.buffered)
            rw [h1.1, h1.2, List.append_nil]; exact hk
          · rw [h1.1, lastState_append]; exact chainOk_mono _ _ hsplit.2
      · subst hst
        refine ⟨?_, by rw [hsy]; exact HsMono.refl _⟩
        show chainOk {} ((exec c s .walWrite).disk.synced ++ (exec c s .walWrite).disk.buffered)
        rw [hsy, hbu, ← List.append_assoc, chainOk_append]
        refine ⟨hk, ?_⟩
        rw [chainOk_append, lastState_entries]
        refine ⟨chainOk_entries _ _, ?_⟩
        split
        · trivial
        · rename_i hne
          have hwin : Stmt.walWrite ∈ s.todo := by rw [ht]; exact List.mem_cons_self ..
          obtain ⟨c1, _⟩ := readyOk_parts (h.rdW hwin).1
          obtain ⟨a, b, cc⟩ := c1 (by simpa using hne)
          show HsMono (lastState (s.disk.synced ++ s.disk.buffered) {}) s.rd.hs ∧ True
          have := full_hs h
          rw [show s.disk.all = s.disk.synced ++ s.disk.buffered from rfl] at this
          rw [this]
          exact ⟨⟨a, b, cc⟩, trivial⟩

theorem conforms_append (c : Cfg) : ∀ (e1 e2 : List Ev) (s : State), Conforms c s (e1 ++ e2) → Conforms c s e1 ∧ Conforms c (run c s e1) e2 := by
  intro e1
  induction e1 with
  | nil => intro e2 s h; exact ⟨trivial, h⟩
  | cons ev e1 ih =>
    intro e2 s h
    cases ev with
    | ready rd =>
      obtain ⟨h1, h2⟩ := h
      obtain ⟨a, b⟩ := ih e2 _ h2
      exact ⟨⟨h1, a⟩, b⟩
    | stmt => exact ih e2 _ h
    | crash k => exact ih e2 _ h

theorem run_append (c : Cfg) (s : State) (e1 e2 : List Ev) : run c s (e1 ++ e2) = run c (run c s e1) e2 := by
  simp [run, List.foldl_append]

theorem mono_run (hc : c.arm = theArm) : ∀ (evs : List Ev) (s : State), Inv c s → K s → Conforms c s evs →
    Inv c (run c s evs) ∧ K (run c s evs) ∧ HsMono (durable s) (durable (run c s evs)) := by
  intro evs
  induction evs with
  | nil => intro s h hk _; exact ⟨h, hk, HsMono.refl _⟩
  | cons ev evs ih =>
    intro s h hk hconf
    have h1 : Inv c (step c s ev) := inv_run hc [ev] s h (by
      cases ev with
      | ready rd => exact ⟨hconf.1, trivial⟩
      | stmt => trivial
      | crash k => trivial)
    have hrest : Conforms c (step c s ev) evs := by
      cases ev with
      | ready rd => exact hconf.2
      | stmt => exact hconf
      | crash k => exact hconf
    obtain ⟨hk1, hm1⟩ := mono_step h hk ev (by
      intro rd he hcond
      subst he
      exact hconf.1 hcond)
    obtain ⟨a, b, cc⟩ := ih _ h1 hk1 hrest
    exact ⟨a, b, HsMono.trans hm1 cc⟩

end ReadyLoop
