import RedisGoModel.Props.C05FootBase
import RedisGoModel.Props.C06TSet
/-! C05 footprint theorems: set commands (`setTable`); the multi-key commands through `checkAll` / `collect` -/
namespace Exec.Foot
open Resp (Reply Bytes)
open Exec

theorem t_sadd : CmdFoot cmdSAdd (fpKge3 true) := by
  intro env args; unfold fpKge3; split
  · ft_keys_w cmdSAdd
  · unfold cmdSAdd; ft_none
theorem t_srem : CmdFoot cmdSRem (fpKge3 true) := by
  intro env args; unfold fpKge3; split
  · ft_keys_w cmdSRem
  · unfold cmdSRem; ft_none
theorem t_sismember : CmdFoot cmdSIsMember (fpK3 false) := by
  intro env args; unfold fpK3; split
  · ft_keys_r cmdSIsMember
  · unfold cmdSIsMember; ft_none
theorem t_scard : CmdFoot cmdSCard (fpK2 false) := by
  intro env args; unfold fpK2; split
  · ft_keys_r cmdSCard
  · unfold cmdSCard; ft_none
theorem t_smembers : CmdFoot cmdSMembers (fpK2 false) := by
  intro env args; unfold fpK2; split
  · ft_keys_r cmdSMembers
  · unfold cmdSMembers; ft_none
theorem t_spop : CmdFoot cmdSPop (fpK2or3 true) := by
  intro env args; unfold fpK2or3; split
  · ft_keys_w cmdSPop
  · ft_keys_w cmdSPop
  · unfold cmdSPop; ft_none
theorem t_srandmember : CmdFoot cmdSRandMember (fpK2or3 false) := by
  intro env args; unfold fpK2or3; split
  · ft_keys_r cmdSRandMember
  · ft_keys_r cmdSRandMember
  · unfold cmdSRandMember; ft_none

/-- the check of every key of a multi-key command keeps the agreement on the footprint -/
theorem checkAll_loc {ks₀ : List Bytes} (now : Int) : ∀ (keys : List Bytes) (a b : Db), (∀ k ∈ keys, k ∈ ks₀) → Agree ks₀ a b →
    Agree ks₀ (checkAll now a keys) (checkAll now b keys)
| [], _, _, _, hs => hs
| k :: keys, a, b, hsub, hs => by
  obtain ⟨a', b', x, hca, hcb, hs'⟩ := Agree.ttl hs now (hsub k List.mem_cons_self)
  have ea : checkAll now a (k :: keys) = checkAll now a' keys := by simp [checkAll, hca]
  have eb : checkAll now b (k :: keys) = checkAll now b' keys := by simp [checkAll, hcb]
  rw [ea, eb]
  exact checkAll_loc now keys a' b' (fun k' hk' => hsub k' (List.mem_cons_of_mem _ hk')) hs'

theorem collect_agree {ks₀ : List Bytes} {a b : Db} (hs : Agree ks₀ a b) (keys : List Bytes) (hsub : ∀ k ∈ keys, k ∈ ks₀) :
    collect a keys = collect b keys :=
  C06T.c_collect a b keys (fun k hk => hs k (hsub k hk))

theorem t_algebra (op : List SetOps.MSet → SetOps.MSet) : CmdFoot (algebra op) (fpAll false) := by
  intro env args; unfold fpAll; split
  · rename_i x k ks
    refine KeysOk.mk (fun a b hs => ?_) (fun a => ?_) (fun _ a => ?_) <;> unfold algebra <;> dsimp only
    · have hs' := checkAll_loc env.now (k :: ks) a b (fun _ h => h) hs
      rw [collect_agree hs' (k :: ks) (fun _ h => h)]
      split <;> ft_pair
    · ft_frm
    · ft_ro
  · unfold algebra; ft_none

theorem t_algebraStore (op : List SetOps.MSet → SetOps.MSet) : CmdFoot (algebraStore op) fpStore := by
  intro env args; unfold fpStore; split
  · rename_i x d k ks
    refine KeysOk.mk (fun a b hs => ?_) (fun a => ?_) (fun hw => Bool.noConfusion hw) <;> unfold algebraStore <;> dsimp only
    · have hs' := checkAll_loc env.now (d :: k :: ks) a b (fun _ h => h) hs
      rw [collect_agree hs' (k :: ks) (fun _ h => List.mem_cons_of_mem _ h)]
      split <;> ft_pair
    · ft_frm
  · unfold algebraStore; ft_none

theorem t_sunion : CmdFoot cmdSUnion (fpAll false) := t_algebra _
theorem t_sinter : CmdFoot cmdSInter (fpAll false) := t_algebra _
theorem t_sdiff : CmdFoot cmdSDiff (fpAll false) := t_algebra _
theorem t_sunionstore : CmdFoot cmdSUnionStore fpStore := t_algebraStore _
theorem t_sinterstore : CmdFoot cmdSInterStore fpStore := t_algebraStore _
theorem t_sdiffstore : CmdFoot cmdSDiffStore fpStore := t_algebraStore _

theorem t_smove : CmdFoot cmdSMove fpSMove := by
  intro env args; unfold fpSMove; split
  · rename_i x src dst m
    have hsub : ∀ k ∈ [dst, src], k ∈ [src, dst] := by
      intro k hk; simp only [List.mem_cons, List.mem_nil_iff, or_false] at hk ⊢; exact hk.symm
    refine KeysOk.mk (fun a b hs => ?_) (fun a => ?_) (fun hw => Bool.noConfusion hw) <;> unfold cmdSMove <;> dsimp only
    · have hs' := checkAll_loc env.now [dst, src] a b hsub hs
      simp only [getSet_agree hs' (k := src) (by ft_mem), getSet_agree hs' (k := dst) (by ft_mem)]
      repeat' (first | ft_pair | split)
    · have h0 := Frm.checkAll (a₀ := a) env.now [dst, src] hsub (Frm.refl [src, dst] a)
      ft_frm
  · unfold cmdSMove; ft_none

end Exec.Foot
