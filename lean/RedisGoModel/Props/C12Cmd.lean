import RedisGoModel.Props.C12
/-! C12, command level: ZADD / ZREM / ZRANGE / ZRANK of Exec/ZSet.lean (the functions the driver runs). -/
namespace Exec
open Resp (Reply Bytes)
open ZT (Inv)

/-! ### ZADD, one pair -/

/-- one ZADD pair either leaves the tree alone or re-scores exactly that member -/
theorem zaddOne_cases (o : ZAddOpts) (t : ZT.T) (s : Int) (m : Bytes) :
    (zaddOne o t s m).2 = t ∨ ∃ s', (zaddOne o t s m).2 = ZT.setScore t m s' := by
  unfold zaddOne
  split
  · split
    · left; rfl
    · right; exact ⟨s, rfl⟩
  · split
    · left; rfl
    · split
      · left; rfl
      · split
        · left; rfl
        · split
          · left; rfl
          · right; exact ⟨_, rfl⟩

theorem zaddOne_inv (o : ZAddOpts) {t : ZT.T} (hi : Inv t) (s : Int) (m : Bytes) : Inv (zaddOne o t s m).2 := by
  rcases zaddOne_cases o t s m with h | ⟨s', h⟩ <;> rw [h]
  · exact hi
  · exact ZT.inv_setScore hi m s'

/-- a pair never empties a non-empty tree, and a tree that changed is not empty -/
theorem zaddOne_ne_nil (o : ZAddOpts) {t : ZT.T} (hi : Inv t) (s : Int) (m : Bytes) (h : t ≠ .nil) : (zaddOne o t s m).2 ≠ .nil := by
  rcases zaddOne_cases o t s m with e | ⟨s', e⟩ <;> rw [e]
  · exact h
  · exact ZT.setScore_ne_nil hi m s'

/-- ZADD without options: afterwards the member has the given score; every other member keeps its score -/
theorem zadd_plain {t : ZT.T} (hi : Inv t) (s : Int) (m : Bytes) :
    ZT.lookup (zaddOne {} t s m).2 m = some s ∧ ∀ m', m' ≠ m → ZT.lookup (zaddOne {} t s m).2 m' = ZT.lookup t m' := by
  unfold zaddOne
  cases hl : ZT.lookup t m with
  | none => exact ⟨ZT.lookup_setScore_self hi m s, fun m' h => ZT.lookup_setScore_other hi m s m' h⟩
  | some cur =>
    by_cases hc : s = cur
    · subst hc
      simp [hl]
    · have : (s == cur) = false := by simp [hc]
      simp [this]
      exact ⟨ZT.lookup_setScore_self hi m s, fun m' h => ZT.lookup_setScore_other hi m s m' h⟩

/-- the reply counts a new member -/
theorem zadd_new (o : ZAddOpts) (t : ZT.T) (s : Int) (m : Bytes) (hx : o.xx = false) (hl : ZT.lookup t m = none) :
    zaddOne o t s m = (.added s, ZT.setScore t m s) := by
  unfold zaddOne; simp [hl, hx]

/-- XX never adds -/
theorem zadd_xx_missing (o : ZAddOpts) (t : ZT.T) (s : Int) (m : Bytes) (hx : o.xx = true) (hl : ZT.lookup t m = none) :
    zaddOne o t s m = (.nop, t) := by
  unfold zaddOne; simp [hl, hx]

/-- NX never touches an existing member -/
theorem zadd_nx_existing (o : ZAddOpts) (t : ZT.T) (s cur : Int) (m : Bytes) (hn : o.nx = true) (hl : ZT.lookup t m = some cur) :
    zaddOne o t s m = (.nop, t) := by
  unfold zaddOne; simp [hl, hn]

/-- the score an existing member would get: the argument, or with INCR the IEEE sum of the current score and the argument -/
def target (o : ZAddOpts) (cur s : Int) : Option Int := if o.incr then ZT.fadd cur s else some s

/-- GT refuses a target that is not greater, LT one that is not smaller -/
theorem zadd_gt_lt_refused (o : ZAddOpts) (t : ZT.T) (s cur s' : Int) (m : Bytes) (hn : o.nx = false)
    (hl : ZT.lookup t m = some cur) (ht : target o cur s = some s')
    (h : (o.lt = true ∧ s' ≥ cur) ∨ (o.gt = true ∧ s' ≤ cur)) : zaddOne o t s m = (.nop, t) := by
  unfold target at ht
  unfold zaddOne
  simp only [hl, hn]
  rw [ht]
  have : ((o.lt && decide (s' ≥ cur)) || (o.gt && decide (s' ≤ cur))) = true := by
    rcases h with ⟨h1, h2⟩ | ⟨h1, h2⟩ <;> simp [h1, h2]
  simp [this]

/-- otherwise an existing member moves to the target score (counted by CH only), or stays when the target is its score -/
theorem zadd_existing_updated (o : ZAddOpts) (t : ZT.T) (s cur s' : Int) (m : Bytes) (hn : o.nx = false)
    (hl : ZT.lookup t m = some cur) (ht : target o cur s = some s')
    (h1 : ¬ (o.lt = true ∧ s' ≥ cur)) (h2 : ¬ (o.gt = true ∧ s' ≤ cur)) :
    zaddOne o t s m = if s' = cur then (.same s', t) else (.updated s', ZT.setScore t m s') := by
  unfold target at ht
  unfold zaddOne
  simp only [hl, hn]
  rw [ht]
  have : ((o.lt && decide (s' ≥ cur)) || (o.gt && decide (s' ≤ cur))) = false := by
    cases hlt : o.lt <;> cases hgt : o.gt <;> simp_all
  simp [this]

/-- INCR whose sum is NaN changes nothing -/
theorem zadd_incr_nan (o : ZAddOpts) (t : ZT.T) (s cur : Int) (m : Bytes) (hn : o.nx = false)
    (hl : ZT.lookup t m = some cur) (ht : target o cur s = none) : zaddOne o t s m = (.nan, t) := by
  unfold target at ht
  unfold zaddOne
  simp only [hl, hn]
  rw [ht]
  simp

/-! ### ZADD, all pairs: every intermediate tree satisfies the invariant -/

theorem zaddLoop_inv (o : ZAddOpts) (ps : List (Int × Bytes)) : ∀ (a : ZAcc), Inv a.t → Inv (zaddLoop o a ps).t := by
  induction ps with
  | nil => intro a h; exact h
  | cons p ps ih =>
    intro a h
    obtain ⟨s, m⟩ := p
    have hone := zaddOne_inv o h s m
    simp only [zaddLoop]
    split
    · rename_i s' t' heq
      apply ih; rw [heq] at hone; exact hone
    · rename_i s' t' heq
      apply ih; rw [heq] at hone; exact hone
    · rename_i out t' _ _ heq
      apply ih; rw [heq] at hone; exact hone

theorem zaddLoop_ne_nil (o : ZAddOpts) (ps : List (Int × Bytes)) : ∀ (a : ZAcc), Inv a.t → a.t ≠ .nil → (zaddLoop o a ps).t ≠ .nil := by
  induction ps with
  | nil => intro a _ h; exact h
  | cons p ps ih =>
    intro a hi h
    obtain ⟨s, m⟩ := p
    have hone := zaddOne_inv o hi s m
    have hnn := zaddOne_ne_nil o hi s m h
    simp only [zaddLoop]
    split
    · rename_i s' t' heq
      rw [heq] at hone hnn; exact ih _ hone hnn
    · rename_i s' t' heq
      rw [heq] at hone hnn; exact ih _ hone hnn
    · rename_i out t' _ _ heq
      rw [heq] at hone hnn; exact ih _ hone hnn

/-! ### ZREM -/

theorem zremLoop_inv (ms : List Bytes) : ∀ (t : ZT.T) (n : Nat), Inv t → Inv (zremLoop t ms n).2 := by
  induction ms with
  | nil => intro t n h; exact h
  | cons m ms ih =>
    intro t n h
    simp only [zremLoop]
    split
    · exact ih _ _ (ZT.inv_remove h m)
    · exact ih _ _ h

/-- ZREM removes exactly the listed members: a pair survives iff its name is not listed -/
theorem zremLoop_mem (ms : List Bytes) : ∀ (t : ZT.T) (n : Nat), Inv t → ∀ p : Bytes × Int,
    p ∈ ZT.members (zremLoop t ms n).2 ↔ p ∈ ZT.members t ∧ p.1 ∉ ms := by
  induction ms with
  | nil => intro t n _ p; simp [zremLoop]
  | cons m ms ih =>
    intro t n h p
    simp only [zremLoop]
    split
    · rw [ih _ _ (ZT.inv_remove h m), ZT.mem_remove h]
      simp only [List.mem_cons, not_or]
      constructor
      · rintro ⟨⟨a, b⟩, c⟩; exact ⟨a, b, c⟩
      · rintro ⟨a, b, c⟩; exact ⟨⟨a, b⟩, c⟩
    · rename_i hl
      rw [ih _ _ h]
      simp only [List.mem_cons, not_or]
      constructor
      · rintro ⟨a, c⟩
        refine ⟨a, ?_, c⟩
        intro e; obtain ⟨pn, ps⟩ := p; simp at e; subst e
        exact ZT.lookup_none_not_mem hl ps a
      · rintro ⟨a, _, c⟩; exact ⟨a, c⟩

/-- the reply of ZREM counts the members removed: one per listed name that was present at its turn -/
theorem zremLoop_count_one (t : ZT.T) (m : Bytes) :
    (zremLoop t [m] 0).1 = if (ZT.lookup t m).isSome then 1 else 0 := by
  simp only [zremLoop]
  cases ZT.lookup t m <;> simp [zremLoop]

/-- the reply of ZREM is the number of members that disappeared -/
theorem zremLoop_count (ms : List Bytes) : ∀ (t : ZT.T) (n : Nat), Inv t →
    (zremLoop t ms n).1 + (ZT.members (zremLoop t ms n).2).length = n + (ZT.members t).length := by
  induction ms with
  | nil => intro t n _; simp [zremLoop]
  | cons m ms ih =>
    intro t n h
    simp only [zremLoop]
    split
    · rename_i old hl
      rw [ih _ _ (ZT.inv_remove h m)]
      have := ZT.length_remove h (ZT.lookup_some_mem hl)
      omega
    · exact ih _ _ h

/-! ### keyspace level: the four commands keep every stored sorted set valid and non-empty -/

/-- every sorted set physically present in the keyspace is a valid AVL tree with a consistent member index, and is not empty -/
def DbInv (db : Db) : Prop := ∀ p ∈ db, ∀ t, p.2.val = .zset t → Inv t ∧ t ≠ .nil

theorem dbInv_nil : DbInv [] := by intro p hp; cases hp

theorem dbInv_del {db : Db} (h : DbInv db) (k : Bytes) : DbInv (db.del k) := by
  intro p hp
  exact h p (List.mem_filter.mp hp).1

theorem dbInv_put {db : Db} (h : DbInv db) (k : Bytes) (e : Entry) (he : ∀ t, e.val = .zset t → Inv t ∧ t ≠ .nil) :
    DbInv (db.put k e) := by
  intro p hp
  rcases List.mem_cons.mp hp with rfl | hp
  · exact he
  · exact dbInv_del h k p hp

theorem dbInv_setVal {db : Db} (h : DbInv db) (k : Bytes) (t : ZT.T) (hi : Inv t) (hn : t ≠ .nil) :
    DbInv (db.setVal k (.zset t)) := by
  apply dbInv_put h
  intro t' e
  simp at e; subst e
  exact ⟨hi, hn⟩

theorem dbInv_checkTTL {db : Db} (h : DbInv db) (now : Int) (k : Bytes) : DbInv (checkTTL db now k).1 := by
  unfold checkTTL
  split
  · split
    · split
      · exact dbInv_del h k
      · exact h
    · exact h
  · exact h

theorem getZ_inv {db : Db} (h : DbInv db) {k : Bytes} {t : ZT.T} (hg : getZ db k = some (some t)) : Inv t ∧ t ≠ .nil := by
  unfold getZ at hg
  split at hg
  · cases hg
  · rename_i e he
    split at hg
    · rename_i t' hv
      simp at hg; subst hg
      unfold Db.get at he
      cases hf : db.find? (fun p => p.1 == k) with
      | none => rw [hf] at he; simp at he
      | some p =>
        rw [hf] at he; simp at he
        have := List.mem_of_find?_eq_some hf
        exact h p this t' (by rw [he]; exact hv)
    · simp at hg

theorem cmdZRange_inv (env : Env) {db : Db} (h : DbInv db) (args : List Bytes) : DbInv (cmdZRange env db args).2 := by
  unfold cmdZRange
  dsimp only
  repeat' split
  all_goals first | exact h | exact dbInv_checkTTL h _ _

theorem cmdZRank_inv (env : Env) {db : Db} (h : DbInv db) (args : List Bytes) : DbInv (cmdZRank env db args).2 := by
  unfold cmdZRank
  dsimp only
  repeat' split
  all_goals first | exact h | exact dbInv_checkTTL h _ _

theorem t0_inv {db : Db} (h : DbInv db) (k : Bytes) : Inv (((getZ db k).bind id).getD .nil) := by
  cases hg : getZ db k with
  | none => exact ZT.inv_nil
  | some o =>
    cases o with
    | none => exact ZT.inv_nil
    | some t => exact (getZ_inv h hg).1

theorem cmdZRem_inv (env : Env) {db : Db} (h : DbInv db) (args : List Bytes) : DbInv (cmdZRem env db args).2 := by
  unfold cmdZRem
  dsimp only
  repeat' split
  all_goals first
    | exact h
    | exact dbInv_checkTTL h _ _
    | exact dbInv_del (dbInv_checkTTL h _ _) _
    | (rename_i hg hne
       apply dbInv_setVal (dbInv_checkTTL h _ _)
       · exact zremLoop_inv _ _ _ (getZ_inv (dbInv_checkTTL h _ _) hg).1
       · simpa using hne)

theorem cmdZAdd_inv (env : Env) {db : Db} (h : DbInv db) (args : List Bytes) : DbInv (cmdZAdd env db args).2 := by
  unfold cmdZAdd
  dsimp only
  repeat' split
  all_goals first
    | exact h
    | exact dbInv_checkTTL h _ _
    | (rename_i hne
       apply dbInv_setVal (dbInv_checkTTL h _ _)
       · exact zaddLoop_inv _ _ _ (t0_inv (dbInv_checkTTL h _ _) _)
       · simpa using hne)

/-! ### programs -/

def zsetCmd (name : Bytes) : Option Cmd := (zsetTable.find? fun p => ofStr p.1 == name).map (·.2)

/-- one step of a program over the sorted-set commands: `Exec.exec`'s dispatch (lower-cased name, table lookup) with the family's own
    table `zsetTable`, which `Exec.cmdTable` includes; other command names leave the keyspace alone here -/
def zstep (db : Db) (c : Env × List Bytes) : Db :=
  match c.2 with
  | [] => db
  | name :: _ => match zsetCmd (lower name) with
    | some cmd => (cmd c.1 db c.2).2
    | none => db

theorem zsetCmd_inv {name : Bytes} {cmd : Cmd} (hc : zsetCmd name = some cmd) (env : Env) {db : Db} (h : DbInv db)
    (args : List Bytes) : DbInv (cmd env db args).2 := by
  unfold zsetCmd zsetTable at hc
  simp only [List.find?] at hc
  repeat' split at hc
  all_goals simp at hc
  all_goals subst hc
  · exact cmdZAdd_inv env h args
  · exact cmdZRem_inv env h args
  · exact cmdZRange_inv env h args
  · exact cmdZRank_inv env h args

theorem zstep_inv {db : Db} (h : DbInv db) (c : Env × List Bytes) : DbInv (zstep db c) := by
  unfold zstep
  split
  · exact h
  · split
    · rename_i cmd hc
      exact zsetCmd_inv hc _ h _
    · exact h

theorem run_inv (prog : List (Env × List Bytes)) : ∀ {db : Db}, DbInv db → DbInv (prog.foldl zstep db) := by
  induction prog with
  | nil => intro db h; exact h
  | cons c prog ih => intro db h; exact ih (zstep_inv h c)

/-- C12, invariant part: for every program over ZADD / ZREM / ZRANGE / ZRANK (any arguments, any clock readings), after every
    prefix of the program every sorted set in the keyspace is a height-balanced search tree with exact stored heights, without
    empty nodes, with every member name in exactly one node — and is not empty -/
theorem C12_invariant_every_state (prog : List (Env × List Bytes)) (n : Nat) : DbInv ((prog.take n).foldl zstep []) :=
  run_inv _ dbInv_nil

/-- `zset_never_empty`: no reachable keyspace holds a sorted set without members -/
theorem zset_never_empty (prog : List (Env × List Bytes)) (k : Bytes) (t : ZT.T)
    (h : getZ (prog.foldl zstep []) k = some (some t)) : t ≠ .nil ∧ ZT.members t ≠ [] := by
  have hi := getZ_inv (run_inv prog dbInv_nil) h
  exact ⟨hi.2, fun e => hi.2 (ZT.members_nil_iff t e hi.1)⟩

/-! ### ZRANGE -/

/-- the index window: with negative indexes counted from the end, position `i` of a sequence of `n` elements is selected iff it lies
    between the normalised start and stop -/
theorem zwindow_spec (n : Nat) (start stop : Int) (i : Nat) :
    ((zwindow n start stop).1 ≤ i ∧ i < (zwindow n start stop).1 + (zwindow n start stop).2) ↔
      ((if start < 0 then start + n else start) ≤ (i : Int) ∧ (i : Int) ≤ (if stop < 0 then stop + n else stop) ∧ i < n) := by
  unfold zwindow
  dsimp only
  repeat' split
  all_goals (simp only [Bool.or_eq_true, decide_eq_true_eq] at *; omega)

/-- ZRANGE answers exactly the window of the member sequence (REV: of the reversed sequence), in order -/
theorem zrange_window (t : ZT.T) (start stop : Int) (rev : Bool) (j : Nat) :
    (zrangeSel t start stop rev)[j]? =
      if j < (zwindow (ZT.members t).length start stop).2
      then (if rev then (ZT.members t).reverse else ZT.members t)[(zwindow (ZT.members t).length start stop).1 + j]?
      else none := by
  unfold zrangeSel
  cases rev <;> simp [List.getElem?_take, List.getElem?_drop]

theorem pairs_even {α β : Type} (f g : α → β) (sel : List α) : ∀ j, (sel.flatMap fun p => [f p, g p])[2 * j]? = sel[j]?.map f := by
  induction sel with
  | nil => intro j; simp
  | cons a sel ih =>
    intro j
    cases j with
    | zero => simp
    | succ j =>
      have : 2 * (j + 1) = (2 * j) + 1 + 1 := by omega
      rw [this]
      simp only [List.flatMap_cons, List.cons_append, List.nil_append, List.getElem?_cons_succ]
      exact ih j

theorem pairs_odd {α β : Type} (f g : α → β) (sel : List α) : ∀ j, (sel.flatMap fun p => [f p, g p])[2 * j + 1]? = sel[j]?.map g := by
  induction sel with
  | nil => intro j; simp
  | cons a sel ih =>
    intro j
    cases j with
    | zero => simp
    | succ j =>
      have : 2 * (j + 1) + 1 = (2 * j + 1) + 1 + 1 := by omega
      rw [this]
      simp only [List.flatMap_cons, List.cons_append, List.nil_append, List.getElem?_cons_succ]
      exact ih j

/-- WITHSCORES: element 2j of the reply is the j-th selected member, element 2j+1 the text of that member's own score -/
theorem zrange_withscores (sel : List (Bytes × Int)) (j : Nat) :
    ∃ l, zrangeReply sel true = .arr (some l) ∧
      l[2 * j]? = sel[j]?.map (fun p => bulk p.1) ∧ l[2 * j + 1]? = sel[j]?.map (fun p => bulk (scoreText p.2)) := by
  refine ⟨(sel.flatMap fun p => [p.1, scoreText p.2]).map bulk, by simp [zrangeReply, bulks, arrOf], ?_, ?_⟩
  · rw [List.getElem?_map, pairs_even]; cases sel[j]? <;> rfl
  · rw [List.getElem?_map, pairs_odd]; cases sel[j]? <;> rfl

theorem zrange_plain (sel : List (Bytes × Int)) : zrangeReply sel false = .arr (some (sel.map fun p => bulk p.1)) := by
  simp [zrangeReply, bulks, arrOf]

theorem zrangeSel_sub (t : ZT.T) (start stop : Int) (rev : Bool) (p : Bytes × Int) (h : p ∈ zrangeSel t start stop rev) :
    p ∈ ZT.members t := by
  unfold zrangeSel at h
  dsimp only at h
  have := List.mem_of_mem_drop (List.mem_of_mem_take h)
  cases rev <;> simpa using this

/-- every score in the reply is the score under which that member is held -/
theorem zrange_own_score {t : ZT.T} (hi : Inv t) (start stop : Int) (rev : Bool) (n : Bytes) (s : Int)
    (h : (n, s) ∈ zrangeSel t start stop rev) : ZT.lookup t n = some s :=
  ZT.lookup_of_mem hi.func (zrangeSel_sub t start stop rev _ h)

/-- the reply is ordered by (score, name): ascending without REV, descending with REV -/
theorem zrange_ordered {t : ZT.T} (hi : Inv t) (start stop : Int) :
    (zrangeSel t start stop false).Pairwise ZT.mlt ∧ (zrangeSel t start stop true).Pairwise (fun a b => ZT.mlt b a) := by
  unfold zrangeSel
  dsimp only
  constructor
  · exact List.Pairwise.sublist ((List.take_sublist _ _).trans (List.drop_sublist _ _)) (ZT.members_sorted hi)
  · exact List.Pairwise.sublist ((List.take_sublist _ _).trans (List.drop_sublist _ _))
      (List.pairwise_reverse.mpr (ZT.members_sorted hi))

/-! ### ZRANK -/

theorem members_names_distinct {t : ZT.T} (hi : Inv t) : (ZT.members t).Pairwise (fun a b => a.1 ≠ b.1) := by
  have := ZT.names_nodup hi
  unfold List.Nodup at this
  rwa [List.pairwise_map] at this

/-- ZRANK m = i exactly when m is the i-th element of the (score, name)-ordered member sequence -/
theorem rank_correct {t : ZT.T} (hi : Inv t) (m : Bytes) (i : Nat) :
    zrankOf t m = some i ↔ ∃ s, (ZT.members t)[i]? = some (m, s) := by
  unfold zrankOf
  rw [List.findIdx?_eq_some_iff_getElem]
  constructor
  · rintro ⟨hlt, hp, _⟩
    refine ⟨((ZT.members t)[i]).2, ?_⟩
    rw [List.getElem?_eq_getElem hlt]
    simp at hp
    rw [← hp]
  · rintro ⟨s, hs⟩
    obtain ⟨hlt, he⟩ := List.getElem?_eq_some_iff.mp hs
    refine ⟨hlt, by simp [he], ?_⟩
    intro j hji hp
    simp at hp
    have := (List.pairwise_iff_getElem.mp (members_names_distinct hi)) j i (by omega) hlt hji
    rw [he] at this
    exact this hp

/-- ZRANK answers nil exactly for names that are not members -/
theorem rank_none (t : ZT.T) (m : Bytes) : zrankOf t m = none ↔ ZT.lookup t m = none := by
  unfold zrankOf ZT.lookup
  rw [List.findIdx?_eq_none_iff]
  simp [List.find?_eq_none]

end Exec

/-! ### hypotheses are satisfiable; axioms -/
namespace Exec
example : DbInv (zstep [] ({ now := 0, fl := fun i => if i == 2 then some 0x3ff0000000000000 else none },
    [ofStr "ZADD", ofStr "k", ofStr "1", ofStr "a"])) := zstep_inv dbInv_nil _
example : ZT.Inv (ZT.setScore (ZT.setScore .nil [97] 3) [98] 3) := ZT.inv_setScore (ZT.inv_setScore ZT.inv_nil _ _) _ _
end Exec

#print axioms Exec.C12_invariant_every_state
#print axioms Exec.zset_never_empty
#print axioms Exec.rank_correct
#print axioms Exec.zrange_window
#print axioms ZT.mem_setScore
