import RedisGoModel.Exec.Dispatch
/-! # C03, model side — every reply the executable keyspace model can produce is well-framed

`Resp.WF r`: simple strings and error texts inside `r` contain neither CR nor LF (bulk payloads are unrestricted), which is the
hypothesis of the decoder round trip `Resp.decode_encode`.  Here: `Resp.WF (p.2 env db args).1` for every entry `p` of
`Exec.cmdTable` (77 commands), every keyspace, every argument vector, every clock reading and every `fl`, lifted to `Exec.exec`
(including the empty and the unknown command) in `Props/Global.lean`.

Why it holds: status and error texts are literals of the model (`ofStr "…"`, evaluated by the kernel: `decide +kernel`) or the
type names of `TYPE`; bytes that come from the client or from the keyspace (keys, values, members, fields, IDs, scores) only ever
appear inside `.bulk`, integers inside `.int`.

One hypothesis, `ObsErrWF env`: three checker-mode commands can *adopt an error text of the observed reply* (`env.obs`, what the
implementation answered, decoded by the verified decoder): HINCRBYFLOAT (overflow admitted for huge increments) and SRANDMEMBER
(huge negative count).  For those the error text must itself be free of CR/LF.  No other part of `env.obs` needs a hypothesis:
adopted bulk payloads are unrestricted, and an adopted HRANDFIELD reply has been checked to be a bulk or an array of bulks. -/
namespace Exec.Global
open Resp (Reply Bytes)
open Exec

/-- decidable form of "neither CR nor LF occurs" -/
def noCRLF (b : Bytes) : Bool := b.all fun c => c != Resp.LF && c != Resp.CR

theorem noCRLF_spec {b : Bytes} (h : noCRLF b = true) : Resp.LF ∉ b ∧ Resp.CR ∉ b := by
  unfold noCRLF at h
  rw [List.all_eq_true] at h
  constructor
  · intro hm; have := h _ hm; simp at this
  · intro hm; have := h _ hm; simp at this

theorem wf_err {b : Bytes} (h : noCRLF b = true) : Resp.WF (.err b) := by
  unfold Resp.WF; exact noCRLF_spec h
theorem wf_simple {b : Bytes} (h : noCRLF b = true) : Resp.WF (.simple b) := by
  unfold Resp.WF; exact noCRLF_spec h
theorem wf_bulk (b : Option Bytes) : Resp.WF (.bulk b) := by unfold Resp.WF; trivial
theorem wf_int (n : Int) : Resp.WF (.int n) := by unfold Resp.WF; trivial
theorem wf_arrNone : Resp.WF (.arr none) := by unfold Resp.WF; trivial
theorem wf_arr {l : List Reply} (h : Resp.WFL l) : Resp.WF (.arr (some l)) := by unfold Resp.WF; exact h
theorem wfl_nil : Resp.WFL [] := by unfold Resp.WFL; trivial
theorem wfl_cons {r : Reply} {rs : List Reply} (h : Resp.WF r) (hs : Resp.WFL rs) : Resp.WFL (r :: rs) := by
  unfold Resp.WFL; exact ⟨h, hs⟩
theorem wfl_cons_iff {r : Reply} {rs : List Reply} : Resp.WFL (r :: rs) ↔ Resp.WF r ∧ Resp.WFL rs := by
  constructor
  · intro h; unfold Resp.WFL at h; exact h
  · intro h; exact wfl_cons h.1 h.2

theorem wfl_of_forall : ∀ {l : List Reply}, (∀ r ∈ l, Resp.WF r) → Resp.WFL l
| [], _ => wfl_nil
| r :: _, h => wfl_cons (h r List.mem_cons_self) (wfl_of_forall fun x hx => h x (List.mem_cons_of_mem _ hx))

theorem wfl_forall : ∀ {l : List Reply}, Resp.WFL l → ∀ r ∈ l, Resp.WF r
| [], _, r, hr => nomatch hr
| x :: xs, h, r, hr => by
  rcases List.mem_cons.mp hr with rfl | hr
  · exact (wfl_cons_iff.mp h).1
  · exact wfl_forall (wfl_cons_iff.mp h).2 r hr

theorem wfl_map {α : Type} (f : α → Reply) (l : List α) (h : ∀ a, Resp.WF (f a)) : Resp.WFL (l.map f) :=
  wfl_of_forall fun r hr => by
    obtain ⟨a, _, rfl⟩ := List.mem_map.mp hr
    exact h a

theorem wfl_append {a b : List Reply} (ha : Resp.WFL a) (hb : Resp.WFL b) : Resp.WFL (a ++ b) :=
  wfl_of_forall fun r hr => by
    rcases List.mem_append.mp hr with h | h
    · exact wfl_forall ha r h
    · exact wfl_forall hb r h

theorem wfl_reverse {a : List Reply} (ha : Resp.WFL a) : Resp.WFL a.reverse :=
  wfl_of_forall fun r hr => wfl_forall ha r (List.mem_reverse.mp hr)

theorem wf_bulks (l : List Bytes) : Resp.WF (bulks l) := wf_arr (wfl_map _ l fun b => wf_bulk (some b))
theorem wf_arrOf {l : List Reply} (h : Resp.WFL l) : Resp.WF (arrOf l) := wf_arr h

theorem wf_typeName (v : Value) : Resp.WF (.simple (ofStr v.typeName)) := by
  cases v <;> exact wf_simple (by simp only [Value.typeName]; decide +kernel)

/-- the only part of the observed reply whose content matters: an error text the model may adopt -/
def ObsErrWF (env : Env) : Prop := ∀ e, env.obs = some (.err e) → Resp.WF (.err e)

/-- the hypothesis in the form "the observed reply is itself well-framed" (what the verified decoder hands over when the
    implementation's reply line holds no stray CR) -/
theorem ObsErrWF.of_wf {env : Env} (h : ∀ r, env.obs = some r → Resp.WF r) : ObsErrWF env := fun _ he => h _ he

theorem ObsErrWF.of_none {env : Env} (h : env.obs = none) : ObsErrWF env := fun _ he => by rw [h] at he; cases he

theorem wf_ok : Resp.WF ok := wf_simple (by decide +kernel)
theorem wf_nil : Resp.WF nil := wf_bulk _
theorem wf_wrongType : Resp.WF wrongType := wf_err (by decide +kernel)
theorem wf_errArgs : Resp.WF errArgs := wf_err (by decide +kernel)
theorem wf_errSyntax : Resp.WF errSyntax := wf_err (by decide +kernel)
theorem wf_errInt : Resp.WF errInt := wf_err (by decide +kernel)
theorem wf_errFloat : Resp.WF errFloat := wf_err (by decide +kernel)
theorem wf_errOverflow : Resp.WF errOverflow := wf_err (by decide +kernel)

theorem obs_err {env : Env} {e : Bytes} (ho : ObsErrWF env) (h : env.obs = some (.err e)) : Resp.WF (.err e) := ho e h

/-- leaves of a command's control flow: a named or literal status/error text, a bulk, an integer, a list of bulks, an adopted error -/
macro "wf_leaf" : tactic => `(tactic| first
  | with_reducible exact wf_errArgs
  | with_reducible exact wf_wrongType
  | with_reducible exact wf_ok
  | with_reducible exact wf_nil
  | with_reducible exact wf_errInt
  | with_reducible exact wf_errSyntax
  | with_reducible exact wf_errFloat
  | with_reducible exact wf_errOverflow
  | exact wf_bulk _
  | exact wf_int _
  | exact wf_arrNone
  | exact wf_bulks _
  | exact wf_err (by decide +kernel)
  | exact wf_simple (by decide +kernel)
  | exact wf_typeName _
  | exact wf_arrOf wfl_nil
  | exact wf_arrOf (wfl_map _ _ fun _ => wf_int _)
  | exact wf_arrOf (wfl_map _ _ fun _ => wf_bulk _)
  | assumption
  | exact obs_err ‹_› ‹_›)

macro "wf_cmd" : tactic => `(tactic| repeat' (first | wf_leaf | dsimp only | split))

abbrev CmdWF (c : Cmd) : Prop := ∀ (env : Env) (db : Db) (args : List Bytes), ObsErrWF env → Resp.WF (c env db args).1

/-! ### string and key commands -/

theorem w_set : CmdWF cmdSet := by intro env db args _; unfold cmdSet; wf_cmd
theorem w_get : CmdWF cmdGet := by intro env db args _; unfold cmdGet; wf_cmd
theorem w_getrange : CmdWF cmdGetRange := by intro env db args _; unfold cmdGetRange; wf_cmd
theorem w_setrange : CmdWF cmdSetRange := by intro env db args _; unfold cmdSetRange; wf_cmd
theorem w_strlen : CmdWF cmdStrLen := by intro env db args _; unfold cmdStrLen; wf_cmd
theorem w_append : CmdWF cmdAppend := by intro env db args _; unfold cmdAppend; wf_cmd

theorem wfl_mgetLoop (now : Int) : ∀ (ks : List Bytes) (db : Db) (acc : List Reply), Resp.WFL acc → Resp.WFL (mgetLoop now db ks acc).1
| [], db, acc, h => by unfold mgetLoop; exact wfl_reverse h
| k :: ks, db, acc, h => by
  unfold mgetLoop
  split
  apply wfl_mgetLoop now ks
  apply wfl_cons _ h
  split <;> exact wf_bulk _

theorem w_mget : CmdWF cmdMGet := by
  intro env db args _; unfold cmdMGet
  split
  · split
    rename_i k ks _ rs _ h
    have := wfl_mgetLoop env.now (k :: ks) db [] wfl_nil
    rw [h] at this
    exact wf_arrOf this
  · wf_leaf

theorem w_mset : CmdWF cmdMSet := by intro env db args _; unfold cmdMSet; wf_cmd
theorem w_setex : CmdWF cmdSetEx := by intro env db args _; unfold cmdSetEx; wf_cmd
theorem w_setnx : CmdWF cmdSetNx := by intro env db args _; unfold cmdSetNx; wf_cmd

theorem wf_incrBy (env : Env) (db : Db) (k : Bytes) (d : Int) : Resp.WF (incrBy env db k d).1 := by unfold incrBy; wf_cmd

theorem w_incr : CmdWF cmdIncr := by intro env db args _; unfold cmdIncr; split <;> first | exact wf_incrBy _ _ _ _ | wf_leaf
theorem w_decr : CmdWF cmdDecr := by intro env db args _; unfold cmdDecr; split <;> first | exact wf_incrBy _ _ _ _ | wf_leaf
theorem w_incrby : CmdWF cmdIncrBy := by
  intro env db args _; unfold cmdIncrBy; repeat' (first | exact wf_incrBy _ _ _ _ | wf_leaf | split)
theorem w_decrby : CmdWF cmdDecrBy := by
  intro env db args _; unfold cmdDecrBy; repeat' (first | exact wf_incrBy _ _ _ _ | wf_leaf | split)
theorem wf_rejectObs (obs : Option Reply) (why : String) (h : noCRLF (ofStr ("MODEL-REJECTS " ++ why)) = true)
    (h' : noCRLF (ofStr ("ERR MODEL-REJECTS " ++ why)) = true) : Resp.WF (rejectObs obs why) := by
  unfold rejectObs; split
  · exact wf_simple h
  · exact wf_err h'

theorem w_incrbyfloat : CmdWF cmdIncrByFloat := by
  intro env db args ho; unfold cmdIncrByFloat
  repeat' (first
    | exact wf_rejectObs _ _ (by decide +kernel) (by decide +kernel)
    | exact ho _ (by assumption)
    | wf_leaf | dsimp only | split)
theorem w_ping : CmdWF cmdPing := by intro env db args _; unfold cmdPing; wf_cmd
theorem w_del : CmdWF cmdDel := by intro env db args _; unfold cmdDel; wf_cmd
theorem w_exists : CmdWF cmdExists := by intro env db args _; unfold cmdExists; wf_cmd
theorem w_keys : CmdWF cmdKeys := by intro env db args _; unfold cmdKeys; wf_cmd
theorem w_expire : CmdWF cmdExpire := by intro env db args _; unfold cmdExpire; wf_cmd
theorem w_persist : CmdWF cmdPersist := by intro env db args _; unfold cmdPersist; wf_cmd
theorem w_ttl : CmdWF cmdTTL := by intro env db args _; unfold cmdTTL; wf_cmd
theorem w_type : CmdWF cmdType := by intro env db args _; unfold cmdType; wf_cmd
theorem w_rename : CmdWF cmdRename := by intro env db args _; unfold cmdRename; wf_cmd

theorem string_wf : ∀ p ∈ stringKeyTable, CmdWF p.2 :=
  List.forall_mem_cons.mpr ⟨w_set, List.forall_mem_cons.mpr ⟨w_get, List.forall_mem_cons.mpr ⟨w_getrange, List.forall_mem_cons.mpr ⟨w_setrange, List.forall_mem_cons.mpr ⟨w_mget, List.forall_mem_cons.mpr ⟨w_mset, List.forall_mem_cons.mpr ⟨w_setex, List.forall_mem_cons.mpr ⟨w_setnx, List.forall_mem_cons.mpr ⟨w_strlen, List.forall_mem_cons.mpr ⟨w_incr, List.forall_mem_cons.mpr ⟨w_incrby, List.forall_mem_cons.mpr ⟨w_decr, List.forall_mem_cons.mpr ⟨w_decrby, List.forall_mem_cons.mpr ⟨w_incrbyfloat, List.forall_mem_cons.mpr ⟨w_append, List.forall_mem_cons.mpr ⟨w_ping, List.forall_mem_cons.mpr ⟨w_del, List.forall_mem_cons.mpr ⟨w_exists, List.forall_mem_cons.mpr ⟨w_keys, List.forall_mem_cons.mpr ⟨w_expire, List.forall_mem_cons.mpr ⟨w_persist, List.forall_mem_cons.mpr ⟨w_ttl, List.forall_mem_cons.mpr ⟨w_type, List.forall_mem_cons.mpr ⟨w_rename, fun _ h => nomatch h⟩⟩⟩⟩⟩⟩⟩⟩⟩⟩⟩⟩⟩⟩⟩⟩⟩⟩⟩⟩⟩⟩⟩⟩

/-! ### misc -/

theorem w_publish : CmdWF cmdPublishNoSubs := by intro env db args _; unfold cmdPublishNoSubs; wf_cmd
theorem w_member : CmdWF cmdMemberStandalone := by intro env db args _; unfold cmdMemberStandalone; wf_cmd
theorem w_rconf : CmdWF cmdRconfStandalone := by intro env db args _; unfold cmdRconfStandalone; wf_cmd

theorem misc_wf : ∀ p ∈ miscTable, CmdWF p.2 :=
  List.forall_mem_cons.mpr ⟨w_publish, List.forall_mem_cons.mpr ⟨w_member, List.forall_mem_cons.mpr ⟨w_rconf, fun _ h => nomatch h⟩⟩⟩


/-! ### sets -/

theorem wf_reject (obs : Option Reply) : Resp.WF (reject obs) := by unfold reject; wf_cmd

macro "wf_set" : tactic => `(tactic| repeat' (first | exact wf_reject _ | wf_leaf | dsimp only | split))

theorem w_sadd : CmdWF cmdSAdd := by intro env db args _; unfold cmdSAdd; wf_cmd
theorem w_srem : CmdWF cmdSRem := by intro env db args _; unfold cmdSRem; wf_cmd
theorem w_sismember : CmdWF cmdSIsMember := by intro env db args _; unfold cmdSIsMember; wf_cmd
theorem w_scard : CmdWF cmdSCard := by intro env db args _; unfold cmdSCard; wf_cmd
theorem w_smembers : CmdWF cmdSMembers := by intro env db args _; unfold cmdSMembers; wf_cmd
theorem w_smove : CmdWF cmdSMove := by intro env db args _; unfold cmdSMove; wf_cmd
theorem w_spop : CmdWF cmdSPop := by intro env db args _; unfold cmdSPop; wf_set
theorem w_srandmember : CmdWF cmdSRandMember := by intro env db args ho; unfold cmdSRandMember; wf_set
theorem w_algebra (op : List SetOps.MSet → SetOps.MSet) : CmdWF (algebra op) := by intro env db args _; unfold algebra; wf_cmd
theorem w_algebraStore (op : List SetOps.MSet → SetOps.MSet) : CmdWF (algebraStore op) := by
  intro env db args _; unfold algebraStore; wf_cmd

theorem set_wf : ∀ p ∈ setTable, CmdWF p.2 :=
  List.forall_mem_cons.mpr ⟨w_sadd, List.forall_mem_cons.mpr ⟨w_srem, List.forall_mem_cons.mpr ⟨w_sismember, List.forall_mem_cons.mpr ⟨w_scard, List.forall_mem_cons.mpr ⟨w_smembers, List.forall_mem_cons.mpr ⟨w_smove, List.forall_mem_cons.mpr ⟨w_spop, List.forall_mem_cons.mpr ⟨w_srandmember, List.forall_mem_cons.mpr ⟨w_algebra _, List.forall_mem_cons.mpr ⟨w_algebra _, List.forall_mem_cons.mpr ⟨w_algebra _, List.forall_mem_cons.mpr ⟨w_algebraStore _, List.forall_mem_cons.mpr ⟨w_algebraStore _, List.forall_mem_cons.mpr ⟨w_algebraStore _, fun _ h => nomatch h⟩⟩⟩⟩⟩⟩⟩⟩⟩⟩⟩⟩⟩⟩

/-! ### hashes -/

theorem wf_hashRead (env : Env) (db : Db) (k : Bytes) (body : HashT → Reply) (h : ∀ x, Resp.WF (body x)) :
    Resp.WF (hashRead env db k body).1 := by
  unfold hashRead; repeat' (first | exact h _ | wf_leaf | dsimp only | split)

theorem wf_hashWrite (env : Env) (db : Db) (k : Bytes) (body : HashT → Reply × HashT) (h : ∀ x, Resp.WF (body x).1) :
    Resp.WF (hashWrite env db k body).1 := by
  unfold hashWrite; repeat' (first | exact h _ | wf_leaf | dsimp only | split)

theorem wf_hsetnx (h : HashT) (f v : Bytes) : Resp.WF (hsetnx h f v).1 := by unfold hsetnx; wf_cmd
theorem wf_hincrby (h : HashT) (f : Bytes) (d : Int) : Resp.WF (hincrby h f d).1 := by
  unfold hincrby errHashInt; wf_cmd

theorem wf_hincrbyfloat (obs : Option Reply) (bits : UInt64) (h : HashT) (f : Bytes)
    (ho : ∀ e, obs = some (.err e) → Resp.WF (.err e)) : Resp.WF (hincrbyfloat obs bits h f).1 := by
  unfold hincrbyfloat
  repeat' (first
    | exact wf_rejectObs _ _ (by decide +kernel) (by decide +kernel)
    | exact ho _ rfl
    | wf_leaf | dsimp only | split)

theorem wfl_hrandPlain (h : HashT) : ∀ (l : List Reply) (fs : List Bytes), hrandPlain h l = some fs → Resp.WFL l := by
  intro l
  fun_induction hrandPlain h l with
  | case1 => intro _ _; exact wfl_nil
  | case2 f rest _ ih =>
    intro fs hp
    obtain ⟨fs', hfs, _⟩ := Option.map_eq_some_iff.mp hp
    exact wfl_cons (wf_bulk _) (ih fs' hfs)
  | case3 => intro _ hp; cases hp
  | case4 => intro _ hp; cases hp

theorem wfl_hrandPairs (h : HashT) : ∀ (l : List Reply) (fs : List Bytes), hrandPairs h l = some fs → Resp.WFL l := by
  intro l
  fun_induction hrandPairs h l with
  | case1 => intro _ _; exact wfl_nil
  | case2 f v rest _ ih =>
    intro fs hp
    obtain ⟨fs', hfs, _⟩ := Option.map_eq_some_iff.mp hp
    exact wfl_cons (wf_bulk _) (wfl_cons (wf_bulk _) (ih fs' hfs))
  | case3 => intro _ hp; cases hp
  | case4 => intro _ hp; cases hp

/-- an accepted HRANDFIELD observation is a bulk or an array of bulks -/
theorem wf_hrandAccept (h : HashT) (count : Option Int) (wv : Bool) (o : Reply) (ha : hrandAccept h count wv o = true) : Resp.WF o := by
  unfold hrandAccept at ha
  split at ha
  · split at ha
    · exact wf_bulk _
    · exact wf_bulk _
    · cases ha
  · split at ha
    · rename_i l
      split at ha
      · cases ha
      · rename_i fs hfs
        apply wf_arr
        cases wv with
        | true => exact wfl_hrandPairs h l fs hfs
        | false => exact wfl_hrandPlain h l fs hfs
    · cases ha

theorem wf_hrandDefault (h : HashT) (count : Option Int) (wv : Bool) : Resp.WF (hrandDefault h count wv) := by
  unfold hrandDefault hrandFirst; wf_cmd

theorem wf_hrandReply (obs : Option Reply) (h : HashT) (count : Option Int) (wv : Bool) : Resp.WF (hrandReply obs h count wv) := by
  unfold hrandReply
  split
  · split
    · exact wf_hrandAccept _ _ _ _ ‹_›
    · exact wf_hrandDefault _ _ _
  · exact wf_hrandDefault _ _ _

theorem wf_hrandWithCount (env : Env) (db : Db) (k c : Bytes) (wv : Bool) : Resp.WF (hrandWithCount env db k c wv).1 := by
  unfold hrandWithCount
  repeat' (first | exact wf_hashRead _ _ _ _ (fun _ => wf_hrandReply _ _ _ _) | wf_leaf | dsimp only | split)

macro "wf_hash" : tactic => `(tactic| repeat' (first
  | exact wf_hashRead _ _ _ _ (fun _ => by first | exact wf_hrandReply _ _ _ _ | wf_leaf)
  | exact wf_hashWrite _ _ _ _ (fun _ => by first | exact wf_hsetnx _ _ _ | exact wf_hincrby _ _ _ | wf_leaf)
  | exact wf_hrandWithCount _ _ _ _ _
  | wf_leaf | dsimp only | split))

theorem w_hset : CmdWF cmdHSet := by intro env db args _; unfold cmdHSet; wf_hash
theorem w_hsetnx : CmdWF cmdHSetNx := by intro env db args _; unfold cmdHSetNx; wf_hash
theorem w_hget : CmdWF cmdHGet := by intro env db args _; unfold cmdHGet; wf_hash
theorem w_hmget : CmdWF cmdHMGet := by intro env db args _; unfold cmdHMGet; wf_hash
theorem w_hgetall : CmdWF cmdHGetAll := by intro env db args _; unfold cmdHGetAll; wf_hash
theorem w_hkeys : CmdWF cmdHKeys := by intro env db args _; unfold cmdHKeys; wf_hash
theorem w_hvals : CmdWF cmdHVals := by intro env db args _; unfold cmdHVals; wf_hash
theorem w_hlen : CmdWF cmdHLen := by intro env db args _; unfold cmdHLen; wf_hash
theorem w_hexists : CmdWF cmdHExists := by intro env db args _; unfold cmdHExists; wf_hash
theorem w_hstrlen : CmdWF cmdHStrLen := by intro env db args _; unfold cmdHStrLen; wf_hash
theorem w_hdel : CmdWF cmdHDel := by intro env db args _; unfold cmdHDel; wf_hash
theorem w_hincrby : CmdWF cmdHIncrBy := by intro env db args _; unfold cmdHIncrBy; wf_hash
theorem w_hincrbyfloat : CmdWF cmdHIncrByFloat := by
  intro env db args ho; unfold cmdHIncrByFloat
  repeat' (first | exact wf_hashWrite _ _ _ _ (fun _ => wf_hincrbyfloat _ _ _ _ ho) | wf_leaf | dsimp only | split)
theorem w_hrandfield : CmdWF cmdHRandField := by intro env db args _; unfold cmdHRandField; wf_hash

theorem hash_wf : ∀ p ∈ hashTable, CmdWF p.2 :=
  List.forall_mem_cons.mpr ⟨w_hset, List.forall_mem_cons.mpr ⟨w_hsetnx, List.forall_mem_cons.mpr ⟨w_hget, List.forall_mem_cons.mpr ⟨w_hmget, List.forall_mem_cons.mpr ⟨w_hgetall, List.forall_mem_cons.mpr ⟨w_hkeys, List.forall_mem_cons.mpr ⟨w_hvals, List.forall_mem_cons.mpr ⟨w_hlen, List.forall_mem_cons.mpr ⟨w_hexists, List.forall_mem_cons.mpr ⟨w_hstrlen, List.forall_mem_cons.mpr ⟨w_hdel, List.forall_mem_cons.mpr ⟨w_hincrby, List.forall_mem_cons.mpr ⟨w_hincrbyfloat, List.forall_mem_cons.mpr ⟨w_hrandfield, fun _ h => nomatch h⟩⟩⟩⟩⟩⟩⟩⟩⟩⟩⟩⟩⟩⟩


/-! ### lists -/

theorem wf_bpopScan (left : Bool) (now : Int) : ∀ (keys : List Bytes) (db : Db) (r : Reply),
    (bpopScan left now db keys).1 = some r → Resp.WF r
| [], db, r, h => by unfold bpopScan at h; cases h
| k :: ks, db, r, h => by
  unfold bpopScan at h
  dsimp only at h
  split at h
  · exact wf_bpopScan left now ks _ r h
  · cases h; exact wf_wrongType
  · split at h
    · exact wf_bpopScan left now ks _ r h
    · cases h; exact wf_arrOf (wfl_cons (wf_bulk _) (wfl_cons (wf_bulk _) wfl_nil))

theorem w_pushGen (l x : Bool) : CmdWF (pushGen l x) := by intro env db args _; unfold pushGen; wf_cmd
theorem w_popGen (l : Bool) : CmdWF (popGen l) := by intro env db args _; unfold popGen nilArr errPositive; wf_cmd
theorem w_llen : CmdWF cmdLLen := by intro env db args _; unfold cmdLLen; wf_cmd
theorem w_lindex : CmdWF cmdLIndex := by intro env db args _; unfold cmdLIndex; wf_cmd
theorem w_lset : CmdWF cmdLSet := by intro env db args _; unfold cmdLSet errNoKey errIndex; wf_cmd
theorem w_lrange : CmdWF cmdLRange := by intro env db args _; unfold cmdLRange; wf_cmd
theorem w_ltrim : CmdWF cmdLTrim := by intro env db args _; unfold cmdLTrim; wf_cmd
theorem w_lrem : CmdWF cmdLRem := by intro env db args _; unfold cmdLRem; wf_cmd
theorem w_lpos : CmdWF cmdLPos := by intro env db args _; unfold cmdLPos; wf_cmd
theorem w_lmove : CmdWF cmdLMove := by intro env db args _; unfold cmdLMove; wf_cmd
theorem w_bpopGen (l : Bool) : CmdWF (bpopGen l) := by
  intro env db args _; unfold bpopGen nilArr
  repeat' (first | exact wf_bpopScan _ _ _ _ _ (congrArg Prod.fst ‹bpopScan _ _ _ _ = _›) | wf_leaf | dsimp only | split)

theorem list_wf : ∀ p ∈ listTable, CmdWF p.2 :=
  List.forall_mem_cons.mpr ⟨w_llen, List.forall_mem_cons.mpr ⟨w_lindex, List.forall_mem_cons.mpr ⟨w_lpos, List.forall_mem_cons.mpr ⟨w_popGen _, List.forall_mem_cons.mpr ⟨w_popGen _, List.forall_mem_cons.mpr ⟨w_pushGen _ _, List.forall_mem_cons.mpr ⟨w_pushGen _ _, List.forall_mem_cons.mpr ⟨w_pushGen _ _, List.forall_mem_cons.mpr ⟨w_pushGen _ _, List.forall_mem_cons.mpr ⟨w_lset, List.forall_mem_cons.mpr ⟨w_lrem, List.forall_mem_cons.mpr ⟨w_ltrim, List.forall_mem_cons.mpr ⟨w_lrange, List.forall_mem_cons.mpr ⟨w_lmove, List.forall_mem_cons.mpr ⟨w_bpopGen _, List.forall_mem_cons.mpr ⟨w_bpopGen _, fun _ h => nomatch h⟩⟩⟩⟩⟩⟩⟩⟩⟩⟩⟩⟩⟩⟩⟩⟩

/-! ### sorted sets -/

theorem wf_zrangeReply (sel : List (Bytes × Int)) (ws : Bool) : Resp.WF (zrangeReply sel ws) := by unfold zrangeReply; wf_cmd

theorem w_zadd : CmdWF cmdZAdd := by intro env db args _; unfold cmdZAdd errNaN; wf_cmd
theorem w_zrem : CmdWF cmdZRem := by intro env db args _; unfold cmdZRem; wf_cmd
theorem w_zrange : CmdWF cmdZRange := by
  intro env db args _; unfold cmdZRange; repeat' (first | exact wf_zrangeReply _ _ | wf_leaf | dsimp only | split)
theorem w_zrank : CmdWF cmdZRank := by intro env db args _; unfold cmdZRank; wf_cmd

theorem zset_wf : ∀ p ∈ zsetTable, CmdWF p.2 :=
  List.forall_mem_cons.mpr ⟨w_zadd, List.forall_mem_cons.mpr ⟨w_zrem, List.forall_mem_cons.mpr ⟨w_zrange, List.forall_mem_cons.mpr ⟨w_zrank, fun _ h => nomatch h⟩⟩⟩⟩

/-! ### streams -/

theorem wf_entryReply (e : StreamEntry) : Resp.WF (entryReply e) :=
  wf_arrOf (wfl_cons (wf_bulk _) (wfl_cons (wf_bulks _) wfl_nil))

theorem wf_xaddTo (env : Env) (db : Db) (k : Bytes) (o : XaddOpts) (req : IdReq) (fields : List Bytes) (s : List StreamEntry)
    (last : StreamId) : Resp.WF (xaddTo env db k o req fields s last).1 := by
  unfold xaddTo errNotGreater; wf_cmd

theorem w_xadd : CmdWF cmdXAdd := by
  intro env db args _; unfold cmdXAdd; repeat' (first | exact wf_xaddTo _ _ _ _ _ _ _ _ | wf_leaf | dsimp only | split)
theorem w_xrange : CmdWF cmdXRange := by
  intro env db args _; unfold cmdXRange errStreamId
  repeat' (first | exact wf_arrOf (wfl_map _ _ wf_entryReply) | wf_leaf | dsimp only | split)

theorem stream_wf : ∀ p ∈ streamTable, CmdWF p.2 :=
  List.forall_mem_cons.mpr ⟨w_xadd, List.forall_mem_cons.mpr ⟨w_xrange, fun _ h => nomatch h⟩⟩

/-! ### the whole table -/

/-- every one of the 77 table entries answers a well-framed reply -/
theorem table_wf_obs : ∀ p ∈ cmdTable, CmdWF p.2 := by
  intro p hp
  unfold cmdTable at hp
  simp only [List.mem_append, or_assoc] at hp
  rcases hp with h | h | h | h | h | h | h
  · exact string_wf p h
  · exact misc_wf p h
  · exact set_wf p h
  · exact hash_wf p h
  · exact list_wf p h
  · exact zset_wf p h
  · exact stream_wf p h

end Exec.Global
