import RedisGoModel.Exec.StringKeys
import RedisGoModel.Exec.Misc
import RedisGoModel.Exec.Hash
import RedisGoModel.Exec.List
import RedisGoModel.Exec.Set
import RedisGoModel.Exec.Stream
import RedisGoModel.Exec.ZSet
/-! Command table and dispatch (`server.Manager.ExecCommand`: lower-cased command name, table lookup). -/
namespace Exec
open Resp (Reply Bytes)

def cmdTable : List (String × Cmd) := stringKeyTable
  ++ miscTable
  ++ setTable
  ++ hashTable
  ++ listTable
  ++ zsetTable
  ++ streamTable

/-- every command name the model knows: the table, plus SELECT (connection layer) and SUBSCRIBE (serve engine, needs a connection) -/
def modelledCommands : List String := cmdTable.map (·.1) ++ ["select", "subscribe"]

def lookupCmd (name : Bytes) : Option Cmd :=
  (cmdTable.find? fun p => ofStr p.1 == name).map (·.2)

def exec (env : Env) (db : Db) (args : List Bytes) : Reply × Db :=
  match args with
  | [] => (.err (ofStr "ERR empty command"), db)
  | name :: _ =>
    match lookupCmd (lower name) with
    | some c => c env db args
    | none => (.err (ofStr "ERR unknown command"), db)

/-- replies whose element order depends on Go map iteration are compared after sorting -/
def unorderedCmds : List String := ["keys"]
  ++ ["smembers", "sunion", "sinter", "sdiff"]
  ++ ["hkeys", "hvals"]

def sortReplies (l : List Reply) : List Reply :=
  sortBy (fun a b => bytesLt (Resp.encode a) (Resp.encode b)) l

/-- a flat field/value reply (HGETALL) is compared as a sorted list of pairs, not as a flat sort -/
def pairedCmds : List String := ["hgetall"]

def pairUp : List Reply → Option (List (Reply × Reply))
| [] => some []
| a :: b :: rest => (pairUp rest).map ((a, b) :: ·)
| [_] => none

def sortPairs (l : List Reply) : List Reply :=
  match pairUp l with
  | some ps => (sortBy (fun a b => bytesLt (Resp.encode a.1 ++ Resp.encode a.2) (Resp.encode b.1 ++ Resp.encode b.2)) ps).flatMap
      fun p => [p.1, p.2]
  | none => l

def canonReply (name : Bytes) (r : Reply) : Reply :=
  if pairedCmds.any (fun n => ofStr n == name) then
    match r with
    | .arr (some l) => .arr (some (sortPairs l))
    | r => r
  else
  if unorderedCmds.any (fun n => ofStr n == name) then
    match r with
    | .arr (some l) => .arr (some (sortReplies l))
    | r => r
  else r

end Exec
