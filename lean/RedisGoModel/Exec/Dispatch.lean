import RedisGoModel.Exec.StringKeys
import RedisGoModel.Exec.Stream
/-! Command table and dispatch (`server.Manager.ExecCommand`: lower-cased command name, table lookup). -/
namespace Exec
open Resp (Reply Bytes)

def cmdTable : List (String × Cmd) := stringKeyTable ++ streamTable

def lookupCmd (name : Bytes) : Option Cmd :=
  (cmdTable.find? fun p => ofStr p.1 == name).map (·.2)

def exec (env : Env) (db : Db) (args : List Bytes) : Reply × Db :=
  match args with
  | [] => (.err (ofStr "ERR empty command"), db)
  | name :: _ =>
    match lookupCmd (lower name) with
    | some c => c env db args
    | none => (.err (ofStr "ERR unknown command"), db)

/-- replies whose element order depends on Go map iteration are compared after sorting -/
def unorderedCmds : List String := ["keys"]

def sortReplies (l : List Reply) : List Reply :=
  sortBy (fun a b => bytesLt (Resp.encode a) (Resp.encode b)) l

def canonReply (name : Bytes) (r : Reply) : Reply :=
  if unorderedCmds.any (fun n => ofStr n == name) then
    match r with
    | .arr (some l) => .arr (some (sortReplies l))
    | r => r
  else r

end Exec
