import RedisGoModel.Exec.Core
/-! Sorted-set commands (memdb/sorted_set.go) on the shared keyspace model: ZADD (NX/XX/GT/LT/CH/INCR), ZREM, ZRANGE (by index,
    REV, WITHSCORES), ZRANK.  The value under a key is the AVL tree of Ds/ZTree itself; the member index (`dict`) and `len` of the
    Go structure are derived from it (`ZT.lookup`, `ZT.size`).  Structure follows the Go executors: arity test, argument
    parsing, `CheckTTL`, lookup, type test, effect. -/
namespace Exec
open Resp (Reply Bytes)

/-- the sorted set under `k`: `none` = missing, `some none` = another type -/
def getZ (db : Db) (k : Bytes) : Option (Option ZT.T) :=
  match db.get k with
  | none => none
  | some e => match e.val with | .zset t => some (some t) | _ => some none

/-! ### score text

    Replies never carry formatted floats in the model: a score position holds `inf`, `-inf` or `#` followed by the 16 hex digits of
    the double's bits; the driver rewrites the implementation's decimal text at those positions to the same form using
    `strconv.ParseFloat` of the reply element (shipped by the harness in `rf=`), so scores are compared by value. -/

def hexDigitB (n : Nat) : UInt8 := if n < 10 then UInt8.ofNat (n + 48) else UInt8.ofNat (n - 10 + 97)

def hex16B (x : UInt64) : Bytes := (List.range 16).map fun i => hexDigitB ((x.toNat >>> (60 - 4 * i)) % 16)

def scoreTextBits (b : UInt64) : Bytes :=
  if b == 0x7ff0000000000000 then ofStr "inf"
  else if b == 0xfff0000000000000 then ofStr "-inf"
  else 35 :: hex16B b

def scoreText (k : Int) : Bytes := scoreTextBits (ZT.unkey k)

/-- the score an argument denotes: `strconv.ParseFloat` succeeded and the value is not NaN -/
def scoreOfBits : Option UInt64 → Option Int
| some b => if ZT.isNaNBits b then none else some (ZT.skey b)
| none => none

/-! ### ZADD -/

structure ZAddOpts where
  nx : Bool := false
  xx : Bool := false
  gt : Bool := false
  lt : Bool := false
  ch : Bool := false
  incr : Bool := false

/-- the option scan: leading option words (any case) are consumed; answers the options, how many words were consumed, the rest -/
def parseZOpts : List Bytes → ZAddOpts → Nat → ZAddOpts × Nat × List Bytes
| [], o, n => (o, n, [])
| w :: rest, o, n =>
  let lw := lower w
  if lw == ofStr "nx" then parseZOpts rest { o with nx := true } (n + 1)
  else if lw == ofStr "xx" then parseZOpts rest { o with xx := true } (n + 1)
  else if lw == ofStr "gt" then parseZOpts rest { o with gt := true } (n + 1)
  else if lw == ofStr "lt" then parseZOpts rest { o with lt := true } (n + 1)
  else if lw == ofStr "ch" then parseZOpts rest { o with ch := true } (n + 1)
  else if lw == ofStr "incr" then parseZOpts rest { o with incr := true } (n + 1)
  else (o, n, w :: rest)

/-- score/member pairs; `i` is the argv index of the first score.  `none`: some score is not a valid float -/
def parsePairs (fl : Nat → Option UInt64) : Nat → List Bytes → Option (List (Int × Bytes))
| i, _ :: m :: rest =>
  match scoreOfBits (fl i), parsePairs fl (i + 2) rest with
  | some s, some ps => some ((s, m) :: ps)
  | _, _ => none
| _, _ => some []

/-- what one score/member pair did -/
inductive ZOut
| nop                 -- refused by NX/XX/GT/LT
| added (s : Int)
| updated (s : Int)
| same (s : Int)      -- member present with exactly this score
| nan                 -- INCR would produce NaN

/-- one pair of ZADD on the tree (`zsetAdd` of the command reference) -/
def zaddOne (o : ZAddOpts) (t : ZT.T) (s : Int) (m : Bytes) : ZOut × ZT.T :=
  match ZT.lookup t m with
  | none => if o.xx then (.nop, t) else (.added s, ZT.setScore t m s)
  | some cur =>
    if o.nx then (.nop, t) else
    match (if o.incr then ZT.fadd cur s else some s) with
    | none => (.nan, t)
    | some s' =>
      if (o.lt && s' ≥ cur) || (o.gt && s' ≤ cur) then (.nop, t)
      else if s' == cur then (.same s', t)
      else (.updated s', ZT.setScore t m s')

structure ZAcc where
  t : ZT.T
  added : Nat := 0
  updated : Nat := 0
  last : ZOut := .nop

def zaddLoop (o : ZAddOpts) : ZAcc → List (Int × Bytes) → ZAcc
| a, [] => a
| a, (s, m) :: rest =>
  match zaddOne o a.t s m with
  | (.added s', t') => zaddLoop o { t := t', added := a.added + 1, updated := a.updated, last := .added s' } rest
  | (.updated s', t') => zaddLoop o { t := t', added := a.added, updated := a.updated + 1, last := .updated s' } rest
  | (out, t') => zaddLoop o { a with t := t', last := out } rest

def errNaN : Reply := .err (ofStr "ERR resulting score is not a number (NaN)")

def cmdZAdd : Cmd := fun env db args =>
  match args with
  | _ :: k :: a1 :: a2 :: more =>
    let (o, nopt, rest) := parseZOpts (a1 :: a2 :: more) {} 0
    if rest.isEmpty || rest.length % 2 != 0 then (errSyntax, db)
    else if o.nx && o.xx then (.err (ofStr "ERR XX and NX options at the same time are not compatible"), db)
    else if (o.gt && o.lt) || (o.nx && o.gt) || (o.nx && o.lt) then
      (.err (ofStr "ERR GT, LT, and/or NX options at the same time are not compatible"), db)
    else if o.incr && rest.length != 2 then (.err (ofStr "ERR INCR option supports a single increment-element pair"), db)
    else match parsePairs env.fl (2 + nopt) rest with
    | none => (errFloat, db)
    | some pairs =>
      let db := (checkTTL db env.now k).1
      match getZ db k with
      | some none => (wrongType, db)
      | old =>
        let t0 := (old.bind id).getD .nil
        let acc := zaddLoop o { t := t0 } pairs
        let db' := if acc.t == .nil then db else db.setVal k (.zset acc.t)
        if o.incr then
          match acc.last with
          | .nan => (errNaN, db)
          | .nop => (nil, db')
          | .added s => (bulk (scoreText s), db')
          | .updated s => (bulk (scoreText s), db')
          | .same s => (bulk (scoreText s), db')
        else (.int (if o.ch then acc.added + acc.updated else acc.added), db')
  | _ => (errArgs, db)

/-! ### ZREM -/

def zremLoop : ZT.T → List Bytes → Nat → Nat × ZT.T
| t, [], n => (n, t)
| t, m :: ms, n =>
  match ZT.lookup t m with
  | some _ => zremLoop (ZT.remove t m) ms (n + 1)
  | none => zremLoop t ms n

def cmdZRem : Cmd := fun env db args =>
  match args with
  | _ :: k :: m :: ms =>
    let db := (checkTTL db env.now k).1
    match getZ db k with
    | none => (.int 0, db)
    | some none => (wrongType, db)
    | some (some t) =>
      let (n, t') := zremLoop t (m :: ms) 0
      (.int n, if t' == .nil then db.del k else db.setVal k (.zset t'))
  | _ => (errArgs, db)

/-! ### ZRANGE (by index) -/

/-- the index window of the command reference: negative indexes count from the end, out-of-range indexes are clamped;
    answers (offset, length) into a sequence of `n` elements -/
def zwindow (n : Nat) (start stop : Int) : Nat × Nat :=
  let start := if start < 0 then start + n else start
  let stop := if stop < 0 then stop + n else stop
  let start := if start < 0 then 0 else start
  if start > stop || start ≥ n then (0, 0)
  else
    let stop := if stop ≥ n then (n : Int) - 1 else stop
    (start.toNat, (stop - start + 1).toNat)

structure ZRangeOpts where
  withscores : Bool := false
  rev : Bool := false
  other : Bool := false        -- BYSCORE / BYLEX / LIMIT: outside the modelled fragment
  bad : Bool := false

def parseZRangeOpts : List Bytes → ZRangeOpts → ZRangeOpts
| [], o => o
| w :: rest, o =>
  let lw := lower w
  if lw == ofStr "withscores" then parseZRangeOpts rest { o with withscores := true }
  else if lw == ofStr "rev" then parseZRangeOpts rest { o with rev := true }
  else if lw == ofStr "byscore" || lw == ofStr "bylex" || lw == ofStr "limit" then { o with other := true }
  else { o with bad := true }

/-- the selected members in reply order -/
def zrangeSel (t : ZT.T) (start stop : Int) (rev : Bool) : List (Bytes × Int) :=
  let seq := if rev then (ZT.members t).reverse else ZT.members t
  let (off, len) := zwindow seq.length start stop
  (seq.drop off).take len

def zrangeReply (sel : List (Bytes × Int)) (withscores : Bool) : Reply :=
  if withscores then bulks (sel.flatMap fun p => [p.1, scoreText p.2]) else bulks (sel.map (·.1))

def cmdZRange : Cmd := fun env db args =>
  match args with
  | _ :: k :: start :: stop :: opts =>
    let o := parseZRangeOpts opts {}
    if o.other then (.err (ofStr "ERR MODEL-OUT-OF-SCOPE ZRANGE BYSCORE/BYLEX/LIMIT"), db)
    else if o.bad then (errSyntax, db)
    else match parseI64 start, parseI64 stop with
    | some start, some stop =>
      if !inI64 start || !inI64 stop then (errInt, db) else
      let db := (checkTTL db env.now k).1
      match getZ db k with
      | none => (arrOf [], db)
      | some none => (wrongType, db)
      | some (some t) => (zrangeReply (zrangeSel t start stop o.rev) o.withscores, db)
    | _, _ => (errInt, db)
  | _ => (errArgs, db)

/-! ### ZRANK -/

/-- position of `m` in the member sequence -/
def zrankOf (t : ZT.T) (m : Bytes) : Option Nat := (ZT.members t).findIdx? fun p => p.1 == m

def cmdZRank : Cmd := fun env db args =>
  match args with
  | [_, k, m] =>
    let db := (checkTTL db env.now k).1
    match getZ db k with
    | none => (nil, db)
    | some none => (wrongType, db)
    | some (some t) => (match zrankOf t m with | some i => (.int i, db) | none => (nil, db))
  | _ => (errArgs, db)

def zsetTable : List (String × Cmd) := [("zadd", cmdZAdd), ("zrem", cmdZRem), ("zrange", cmdZRange), ("zrank", cmdZRank)]

/-! ### comparison of score-carrying replies (used by the driver) -/

/-- positions (flattened bulk index) of the reply that carry a score -/
def scorePositions (name : Bytes) (args : List Bytes) (r : Reply) : List Nat :=
  if name == ofStr "zadd" then (match r with | .bulk (some _) => [0] | _ => [])
  else if name == ofStr "zrange" && args.any (fun a => lower a == ofStr "withscores") then
    (match r with | .arr (some l) => (List.range l.length).filter (· % 2 == 1) | _ => [])
  else []

/-- plain decimal float syntax: [-] digits [. digits] [e [sign] digits] -/
def isDecimalText (b : Bytes) : Bool :=
  let b := match b with | c :: r => if c == 45 then r else b | [] => []
  let isDig := fun (c : UInt8) => 48 ≤ c && c ≤ 57
  let ip := b.takeWhile isDig
  let rest := b.dropWhile isDig
  let (frOk, rest) := match rest with
    | c :: r => if c == 46 then (!(r.takeWhile isDig).isEmpty, r.dropWhile isDig) else (true, rest)
    | [] => (true, [])
  let mant := !ip.isEmpty && frOk
  match rest with
  | [] => mant
  | c :: ex =>
    if c == 101 then
      let ex := match ex with | s :: r => if s == 45 || s == 43 then r else ex | [] => []
      mant && !ex.isEmpty && ex.all isDig
    else false

/-- the implementation's text at a score position, rewritten to the model's form when it is a plain decimal rendering of a finite
    double (`bits` = ParseFloat of the text); anything else (`inf`, `-inf`, garbage) stays as written and is compared literally -/
def normScoreText (b : Bytes) (bits : Option UInt64) : Bytes :=
  match bits with
  | some x =>
    if x == 0x7ff0000000000000 || x == 0xfff0000000000000 || ZT.isNaNBits x then b
    else if isDecimalText b then 35 :: hex16B x else b
  | none => b

def normScores (pos : List Nat) (rf : Nat → Option UInt64) (obs : Reply) : Reply :=
  if pos.isEmpty then obs else
  match obs with
  | .bulk (some b) => if pos.contains 0 then .bulk (some (normScoreText b (rf 0))) else obs
  | .arr (some l) =>
    .arr (some (l.mapIdx fun i x =>
      if pos.contains i then (match x with | .bulk (some b) => Reply.bulk (some (normScoreText b (rf i))) | x => x) else x))
  | r => r

end Exec
