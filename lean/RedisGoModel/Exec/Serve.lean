import RedisGoModel.Exec.Dispatch
import RedisGoModel.Ds.PubSub
/-! The connection layer (server/db_manager.go `Handle` + `execOn`, memdb/pubsub.go): several connections against one
    manager; each connection owns its selected database; only array commands are executed, one reply each, in order;
    the first protocol error closes the connection and nothing after it is executed; SUBSCRIBE/PUBLISH deliver to the
    subscribed connections.  Core Lean only (the driver runs it). -/
namespace Exec
open Resp (Reply Bytes)

/-- command names as explicit byte lists (so that proofs can decide equalities between them): "select", "subscribe", "publish" -/
def nSelect : Bytes := [115, 101, 108, 101, 99, 116]
def nSubscribe : Bytes := [115, 117, 98, 115, 99, 114, 105, 98, 101]
def nPublish : Bytes := [112, 117, 98, 108, 105, 115, 104]

structure ConnSt where
  sel : Nat := 0
  closed : Bool := false

structure Server where
  dbs : List Db
  conns : List (Nat × ConnSt) := []
  subs : List (Bytes × Nat) := []             -- (channel, connection), subscription order
  outbox : List (Nat × Bytes) := []           -- pushes written to a connection and not yet drained, oldest first

def Server.init (ndb : Nat) : Server := { dbs := List.replicate ndb [] }

def Server.conn (s : Server) (c : Nat) : ConnSt := ((s.conns.find? (·.1 == c)).map (·.2)).getD {}
def Server.setConn (s : Server) (c : Nat) (st : ConnSt) : Server :=
  { s with conns := (c, st) :: s.conns.filter (·.1 != c) }

/-- `ArrayData.ToCommand`: the byte data of each element -/
def valBytes : Resp.Val → Bytes
| .bulk none => []
| .bulk (some b) => b
| .arr _ => []
| .line raw =>
  match raw.head? with
  | some 58 => (match parseI64 (raw.drop 1) with | some i => fmtInt i | none => raw.drop 1)
  | _ => raw.drop 1

def pushMsg (ch payload : Bytes) : Bytes :=
  Resp.encode (arrOf [bulk (ofStr "message"), bulk ch, bulk payload])

/-- SELECT: exactly the configured indexes -/
def selectReply (ndb : Nat) (args : List Bytes) : Reply × Option Nat :=
  match args with
  | [_, a] =>
    match parseI64 a with
    | some (.ofNat n) => if n < ndb then (ok, some n) else (.err (ofStr "ERR DB index is out of range"), none)
    | some _ => (.err (ofStr "ERR DB index is out of range"), none)
    | none => (errInt, none)
  | _ => (errArgs, none)

/-- one command of connection `c` (`Manager.execOn`): the reply, preceded by the Pub/Sub pushes the command wrote to `c` itself -/
def Server.execOn (s : Server) (env : Env) (c : Nat) (args : List Bytes) : (List Reply × Reply) × Server :=
  match args with
  | [] => (([], .err (ofStr "unknown error")), s)          -- `*0`: Handle answers "-unknown error"
  | name :: rest =>
    let lname := lower name
    let cs := s.conn c
    if lname == nSelect then
      match selectReply s.dbs.length args with
      | (r, some n) => (([], r), s.setConn c { cs with sel := n })
      | (r, none) => (([], r), s)
    else if lname == nSubscribe then
      if rest.isEmpty then (([], errArgs), s) else
      let subs := rest.foldl (fun subs ch => if subs.contains (ch, c) then subs else subs ++ [(ch, c)]) s.subs
      (([], arrOf (rest.flatMap fun ch => [bulk (ofStr "subscribe"), bulk ch, .int 1])), { s with subs := subs })
    else if lname == nPublish then
      match rest with
      | [ch, payload] =>
        let targets := (s.subs.filter (·.1 == ch)).map (·.2)
        let own := if targets.contains c then [arrOf [bulk (ofStr "message"), bulk ch, bulk payload]] else []
        ((own, .int targets.length),
         { s with outbox := s.outbox ++ (targets.filter (· != c)).map fun t => (t, pushMsg ch payload) })
      | _ => (([], errArgs), s)
    else
      match s.dbs[cs.sel]? with
      | none => (([], .err (ofStr "MODEL: selected database out of range")), s)
      | some db =>
        let (r, db') := exec env db args
        (([], r), { s with dbs := s.dbs.set cs.sel db' })

/-- one value written to the connection: a Pub/Sub push, or the reply to the command named `name` -/
structure Written where
  push : Bool
  name : Bytes
  reply : Reply

/-- the Handle loop over the parser's events: arrays are executed, other values ignored, the first error ends it -/
def Server.handleEvents (s : Server) (env : Env) (c : Nat) : List Resp.Event → List Written → Server × List Written × Bool
| [], acc => (s, acc.reverse, false)
| .eof :: _, acc => (s, acc.reverse, false)
| .err :: _, acc => (s, acc.reverse, true)
| .data (.arr (some vs)) :: evs, acc =>
  let args := vs.map valBytes
  let ((pushes, r), s') := s.execOn env c args
  Server.handleEvents s' env c evs (⟨false, lower (args.headD []), r⟩ :: (pushes.map fun p => ⟨true, [], p⟩).reverse ++ acc)
| .data _ :: evs, acc => Server.handleEvents s env c evs acc

/-- the client closed the connection: its subscriptions go, and a later use of the same number is a new connection -/
def Server.clientClose (s : Server) (c : Nat) : Server :=
  { s with conns := s.conns.filter (·.1 != c), subs := s.subs.filter (·.2 != c), outbox := s.outbox.filter (·.1 != c) }

def Server.disconnect (s : Server) (c : Nat) : Server :=
  { (s.setConn c { (s.conn c) with closed := true }) with subs := s.subs.filter (·.2 != c), outbox := s.outbox.filter (·.1 != c) }

end Exec
