import RedisGoModel.Exec.Dispatch
/-! # The lock footprint of every command of the table (C05 / C13) — model file, core Lean only, linked into the driver

`Exec.footprint args` = the keys whose stripes the Go executor of this argument vector locks, and whether it takes them in write
mode.  It is a function of the ARGUMENT VECTOR alone, like the Go code path that decides what to lock: the executors compute their
key list from `cmd[1..]` before they look at the keyspace.

* `keys ks w` — the stripes of `ks` (`w` = write mode).  Read from `/repo/memdb/*.go` (and the F2 skeletons in
  `expectations/facts.json`): a single-key executor is `CheckTTL(k)` (its own short blocks on `k`'s stripe: an `RLock` look and, only
  if the deadline has passed, a `Lock` re-check + delete) followed by ONE `Lock(k)`/`RLock(k)` block; RENAME, LMOVE, SMOVE, MSET and the
  S*STORE commands take `LockMulti` over all their keys (one block, sorted stripes); SUNION/SINTER/SDIFF `RLockMulti`.
* `whole` — KEYS: iterates the whole map (`CheckTTL` + `RLock`/`RUnLock` of every key it meets, no lock spanning the iteration).
* `none`  — no keyspace access: PING, PUBLISH, MEMBER, RCONF, an unknown or empty command, **and every malformed call: an arity error
  is answered before any lock is taken** (every executor starts with its `len(cmd)` test).

Unions.  Commands whose Go executor takes several SUCCESSIVE blocks get the union of the keys of those blocks, in argument order:
DEL / EXISTS / MGET (one `Lock`/`RLock` block per key, inside a loop), BLPOP / BRPOP (one polling block per key until one of them
serves).  For these the footprint is what the command may lock, not one lock scope; `Exec.multiBlock` names them.  The S*STORE
commands are one `LockMulti` block over destination and sources (after a `CheckTTL` of each).

`Exec.lockPlan env args` refines the footprint by the refusals that the executors issue AFTER the arity test and BEFORE any lock
(option / integer / float syntax: `SET k v EX x`, `INCRBY k x`, `LMOVE a b UP DOWN`, …): such a call locks nothing either.  These
depend on `strconv.ParseFloat` (`env.fl`) and, for the `now + seconds` range tests, on the clock — so `lockPlan` takes the
environment; it is always either `footprint args` or `none` (`lockPlan_cases`).  The theorems (`Props/C05Foot*.lean`) are stated for
`footprint` (the larger one) AND for `lockPlan` (`Foot.exec_lockPlan`: a refused call does not consult the keyspace, `Foot.table_refuse`);
the driver compares the Go lock trace of every command with `lockPlan`.

### Since `Exec/LockSeq.lean`: the tie compares lock SCOPES and ORDER (`checkLockOrder`), `checkFootprint` only words the message
The verdict of the tie is `LProg.accepts (lockProg …) observed-scopes`; it knows one more legitimate way of locking FEWER keys than the
footprint: **an executor that returns at once when `CheckTTL` finds its key expired** (`stopOnExpired`, RENAME/LMOVE/SMOVE on the source,
EXISTS per key, SUNION dropping the key) never reaches its own lock — `LMOVE src dst` with an expired `src` locks `src`'s stripe only.  The
footprint theorems are unaffected (a larger footprint is sound); the lock program models it exactly.

### Exceptions accepted by the tie (`Driver/Exec.lean` `checkFootprint`), each with its reason
* **mode**: a read footprint whose Go executor takes the WRITE lock — `zrange`, `zrank`, `xrange` (`Lock` instead of `RLock`;
  harmless: a stronger lock).  The tie accepts a superset in mode for every command (a write-mode footprint must be write-locked; a
  read-mode footprint may be locked either way).  `CheckTTL`'s write block on an expired key is such a superset, too.
* **fewer keys** (`lockedPrefix`): BLPOP / BRPOP stop at the first key that serves; the keys behind it are never looked at.  The tie
  requires the locked stripes to be the stripes of a PREFIX of the footprint keys.
* **KEYS** (`whole`): the stripes are those of the keys that exist, which the argument vector does not name; the tie only applies
  `TraceCheck.ok`. -/
namespace Exec
open Resp (Reply Bytes)

inductive Footprint
| keys (ks : List Bytes) (write : Bool)
| whole
| none
deriving DecidableEq

abbrev FP := List Bytes → Footprint

/-! ### arity shapes (the `len(cmd)` test of the executor decides; the key is `cmd[1]`) -/

def fpK2 (w : Bool) : FP := fun args => match args with | [_, k] => .keys [k] w | _ => .none
def fpK3 (w : Bool) : FP := fun args => match args with | [_, k, _] => .keys [k] w | _ => .none
def fpK4 (w : Bool) : FP := fun args => match args with | [_, k, _, _] => .keys [k] w | _ => .none
def fpK2or3 (w : Bool) : FP := fun args => match args with | [_, k] => .keys [k] w | [_, k, _] => .keys [k] w | _ => .none
def fpK2to4 (w : Bool) : FP := fun args =>
  match args with | [_, k] => .keys [k] w | [_, k, _] => .keys [k] w | [_, k, _, _] => .keys [k] w | _ => .none
/-- at least one argument after the key -/
def fpKge3 (w : Bool) : FP := fun args => match args with | _ :: k :: _ :: _ => .keys [k] w | _ => .none
/-- at least two arguments after the key -/
def fpKge4 (w : Bool) : FP := fun args => match args with | _ :: k :: _ :: _ :: _ => .keys [k] w | _ => .none
/-- every argument is a key (at least one) -/
def fpAll (w : Bool) : FP := fun args => match args with | _ :: k :: ks => .keys (k :: ks) w | _ => .none
/-- destination + at least one source -/
def fpStore : FP := fun args => match args with | _ :: d :: k :: ks => .keys (d :: k :: ks) true | _ => .none

/-- the keys of `MSET k1 v1 k2 v2 …` -/
def msetKeys : List Bytes → List Bytes
| k :: _ :: rest => k :: msetKeys rest
| _ => []

def fpMSet : FP := fun args =>
  match args with
  | _ :: rest => if rest.length < 2 || rest.length % 2 != 0 then .none else .keys (msetKeys rest) true
  | _ => .none

def fpExpire : FP := fun args =>
  match args with
  | _ :: k :: _ :: optl => if optl.length > 1 then .none else .keys [k] true
  | _ => .none

def fpHSet : FP := fun args =>
  match args with
  | _ :: k :: _ :: _ :: rest => if rest.length % 2 != 0 then .none else .keys [k] true
  | _ => .none

def fpKeys : FP := fun args => match args with | [_, _] => .whole | _ => .none
def fpRename : FP := fun args => match args with | [_, old, new] => .keys [old, new] true | _ => .none
def fpSMove : FP := fun args => match args with | [_, src, dst, _] => .keys [src, dst] true | _ => .none
def fpLMove : FP := fun args => match args with | [_, src, dst, _, _] => .keys [src, dst] true | _ => .none

/-- `BLPOP k1 … kn timeout`: every argument but the last -/
def fpBPop : FP := fun args =>
  match args with
  | _ :: k :: rest =>
    match (k :: rest).reverse with
    | _ :: k1 :: ksRev => .keys (k1 :: ksRev).reverse true
    | _ => .none
  | _ => .none

def fpXAdd : FP := fun args =>
  match args with
  | _ :: k :: rest => if rest.length < 3 then .none else .keys [k] true
  | _ => .none

def fpNone : FP := fun _ => .none

/-! ### refusals between the arity test and the first lock (`lockPlan`)

Each predicate repeats the argument parsing of the model executor up to its first `checkTTL` — which repeats the Go executor's
parsing up to its first `CheckTTL`/`Lock`.  `true` = the call is answered with an error and nothing is locked. -/

abbrev Refusal := Env → List Bytes → Bool

/-- no refusal between the arity test and the first lock -/
def rfNever : Refusal := fun _ _ => false

def rfSet : Refusal := fun env args =>
  match args with
  | _ :: _ :: _ :: opts =>
    match parseSetOpts opts {} with
    | none => true
    | some o => (o.nx && o.xx) || o.nexp > 1 || (o.keepttl && o.nexp > 0) || (setDeadline o env.now).isNone
  | _ => false

def rfSetRange : Refusal := fun _ args =>
  match args with
  | [_, _, off, _] => (match parseI64 off with | some (.ofNat _) => false | _ => true)
  | _ => false

def rfSetEx : Refusal := fun env args =>
  match args with
  | [_, _, secs, _] => (match parseI64 secs with | none => true | some s => s ≤ 0 || !inI64 (env.now + s))
  | _ => false

/-- the third word must be an int64 -/
def rfInt2 : Refusal := fun _ args => match args with | _ :: _ :: d :: _ => (parseI64 d).isNone | _ => false
/-- the fourth word must be an int64 -/
def rfInt3 : Refusal := fun _ args => match args with | _ :: _ :: _ :: d :: _ => (parseI64 d).isNone | _ => false
/-- third and fourth word must be int64 -/
def rfInt23 : Refusal := fun _ args =>
  match args with | _ :: _ :: s :: e :: _ => (parseI64 s).isNone || (parseI64 e).isNone | _ => false

def rfDecrBy : Refusal := fun _ args =>
  match args with | [_, _, d] => (match parseI64 d with | some d => d == minI64 | none => true) | _ => false

def rfIncrByFloat : Refusal := fun env args => match args with | [_, _, _] => (env.fl 2).isNone | _ => false

def rfExpire : Refusal := fun env args =>
  match args with
  | _ :: _ :: secs :: optl =>
    match parseI64 secs with
    | none => true
    | some s =>
      let opt := lower (optl.headD [])
      !(optl.isEmpty || opt == ofStr "nx" || opt == ofStr "xx" || opt == ofStr "gt" || opt == ofStr "lt") || !inI64 (env.now + s)
  | _ => false

/-- an optional count (third word) must be a non-negative int64 -/
def rfCountNat : Refusal := fun _ args =>
  match args with | [_, _, c] => (match parseI64 c with | some (.ofNat _) => false | _ => true) | _ => false

def rfSRandMember : Refusal := fun _ args =>
  match args with | [_, _, c] => (match parseI64 c with | none => true | some n => n == minI64) | _ => false

def rfHIncrByFloat : Refusal := fun env args =>
  match args with | [_, _, _, _] => (match env.fl 3 with | none => true | some bits => flExp bits == 2047) | _ => false

def rfHRandCount (c : Bytes) : Bool :=
  match parseI64 c with | none => true | some n => n < hrandMinCount || n > hrandMaxCount

def rfHRandField : Refusal := fun _ args =>
  match args with
  | [_, _, c] => rfHRandCount c
  | [_, _, c, o] => if lower o == ofStr "withvalues" then rfHRandCount c else true
  | _ => false

def rfLPos : Refusal := fun _ args => match args with | _ :: _ :: _ :: opts => (parsePosOpts opts {}).isNone | _ => false

def rfLMove : Refusal := fun _ args =>
  match args with | [_, _, _, wf, wt] => (parseDir wf).isNone || (parseDir wt).isNone | _ => false

def rfBPop : Refusal := fun env args =>
  match env.fl (args.length - 1) with
  | none => true
  | some t => !f64Finite t || f64Negative t

def rfZAdd : Refusal := fun env args =>
  match args with
  | _ :: _ :: a1 :: a2 :: more =>
    let (o, nopt, rest) := parseZOpts (a1 :: a2 :: more) {} 0
    rest.isEmpty || rest.length % 2 != 0 || (o.nx && o.xx) || ((o.gt && o.lt) || (o.nx && o.gt) || (o.nx && o.lt))
      || (o.incr && rest.length != 2) || (parsePairs env.fl (2 + nopt) rest).isNone
  | _ => false

def rfZRange : Refusal := fun _ args =>
  match args with
  | _ :: _ :: start :: stop :: opts =>
    let o := parseZRangeOpts opts {}
    o.other || o.bad ||
      (match parseI64 start, parseI64 stop with
       | some start, some stop => !inI64 start || !inI64 stop
       | _, _ => true)
  | _ => false

def rfXAdd : Refusal := fun _ args =>
  match args with
  | _ :: _ :: rest =>
    match parseXadd rest {} with
    | none => true
    | some (o, req, fields) =>
      (o.limit.isSome && !o.approx) || (fields.length < 2 || fields.length % 2 == 1) || req == .explicit idZero
  | _ => false

def rfXRange : Refusal := fun _ args =>
  match args with
  | _ :: _ :: sB :: eB :: opts =>
    match parseBound sB 0, parseBound eB maxU64 with
    | some (sx, lo), some (ex, hi) => (sx && lo == idMax) || (ex && hi == idZero) || (parseCount opts none).isNone
    | _, _ => true
  | _ => false

/-! ### the table: command, model executor, footprint, refusal — same names, same order as `cmdTable` (`footTable_cmds`) -/

def footTable : List (String × Cmd × FP × Refusal) := [
  ("set", cmdSet, fpKge3 true, rfSet), ("get", cmdGet, fpK2 false, rfNever), ("getrange", cmdGetRange, fpK4 false, rfNever),
  ("setrange", cmdSetRange, fpK4 true, rfSetRange), ("mget", cmdMGet, fpAll false, rfNever), ("mset", cmdMSet, fpMSet, rfNever),
  ("setex", cmdSetEx, fpK4 true, rfSetEx), ("setnx", cmdSetNx, fpK3 true, rfNever), ("strlen", cmdStrLen, fpK2 false, rfNever), ("incr", cmdIncr, fpK2 true, rfNever),
  ("incrby", cmdIncrBy, fpK3 true, rfInt2), ("decr", cmdDecr, fpK2 true, rfNever),
  ("decrby", cmdDecrBy, fpK3 true, rfDecrBy), ("incrbyfloat", cmdIncrByFloat, fpK3 true, rfIncrByFloat), ("append", cmdAppend, fpK3 true, rfNever),
  ("ping", cmdPing, fpNone, rfNever), ("del", cmdDel, fpAll true, rfNever), ("exists", cmdExists, fpAll false, rfNever), ("keys", cmdKeys, fpKeys, rfNever),
  ("expire", cmdExpire, fpExpire, rfExpire), ("persist", cmdPersist, fpK2 true, rfNever),
  ("ttl", cmdTTL, fpK2 false, rfNever), ("type", cmdType, fpK2 false, rfNever), ("rename", cmdRename, fpRename, rfNever),
  -- misc
  ("publish", cmdPublishNoSubs, fpNone, rfNever), ("member", cmdMemberStandalone, fpNone, rfNever), ("rconf", cmdRconfStandalone, fpNone, rfNever),
  -- sets
  ("sadd", cmdSAdd, fpKge3 true, rfNever), ("srem", cmdSRem, fpKge3 true, rfNever), ("sismember", cmdSIsMember, fpK3 false, rfNever), ("scard", cmdSCard, fpK2 false, rfNever),
  ("smembers", cmdSMembers, fpK2 false, rfNever),
  ("smove", cmdSMove, fpSMove, rfNever), ("spop", cmdSPop, fpK2or3 true, rfCountNat), ("srandmember", cmdSRandMember, fpK2or3 false, rfSRandMember),
  ("sunion", cmdSUnion, fpAll false, rfNever), ("sinter", cmdSInter, fpAll false, rfNever), ("sdiff", cmdSDiff, fpAll false, rfNever),
  ("sunionstore", cmdSUnionStore, fpStore, rfNever), ("sinterstore", cmdSInterStore, fpStore, rfNever), ("sdiffstore", cmdSDiffStore, fpStore, rfNever),
  -- hashes
  ("hset", cmdHSet, fpHSet, rfNever), ("hsetnx", cmdHSetNx, fpK4 true, rfNever), ("hget", cmdHGet, fpK3 false, rfNever), ("hmget", cmdHMGet, fpKge3 false, rfNever),
  ("hgetall", cmdHGetAll, fpK2 false, rfNever), ("hkeys", cmdHKeys, fpK2 false, rfNever),
  ("hvals", cmdHVals, fpK2 false, rfNever), ("hlen", cmdHLen, fpK2 false, rfNever), ("hexists", cmdHExists, fpK3 false, rfNever), ("hstrlen", cmdHStrLen, fpK3 false, rfNever),
  ("hdel", cmdHDel, fpKge3 true, rfNever),
  ("hincrby", cmdHIncrBy, fpK4 true, rfInt3), ("hincrbyfloat", cmdHIncrByFloat, fpK4 true, rfHIncrByFloat), ("hrandfield", cmdHRandField, fpK2to4 false, rfHRandField),
  -- lists
  ("llen", cmdLLen, fpK2 false, rfNever), ("lindex", cmdLIndex, fpK3 false, rfInt2), ("lpos", cmdLPos, fpKge3 false, rfLPos), ("lpop", cmdLPop, fpK2or3 true, rfCountNat),
  ("rpop", cmdRPop, fpK2or3 true, rfCountNat), ("lpush", cmdLPush, fpKge3 true, rfNever),
  ("lpushx", cmdLPushX, fpKge3 true, rfNever), ("rpush", cmdRPush, fpKge3 true, rfNever), ("rpushx", cmdRPushX, fpKge3 true, rfNever), ("lset", cmdLSet, fpK4 true, rfInt2),
  ("lrem", cmdLRem, fpK4 true, rfInt2), ("ltrim", cmdLTrim, fpK4 true, rfInt23),
  ("lrange", cmdLRange, fpK4 false, rfInt23), ("lmove", cmdLMove, fpLMove, rfLMove), ("blpop", cmdBLPop, fpBPop, rfBPop), ("brpop", cmdBRPop, fpBPop, rfBPop),
  -- sorted sets
  ("zadd", cmdZAdd, fpKge4 true, rfZAdd), ("zrem", cmdZRem, fpKge3 true, rfNever), ("zrange", cmdZRange, fpKge4 false, rfZRange), ("zrank", cmdZRank, fpK3 false, rfNever),
  -- streams
  ("xadd", cmdXAdd, fpXAdd, rfXAdd), ("xrange", cmdXRange, fpKge4 false, rfXRange)]

/-- the footprint table is the command table with one more column -/
theorem footTable_cmds : footTable.map (fun x => (x.1, x.2.1)) = cmdTable := rfl

def lookupFoot (name : Bytes) : Option (Cmd × FP × Refusal) :=
  (footTable.find? fun p => ofStr p.1 == name).map (·.2)

/-- **the footprint of an argument vector** (same dispatch as `Exec.exec`: lower-cased name, table lookup) -/
def footprint (args : List Bytes) : Footprint :=
  match args with
  | [] => .none
  | name :: _ =>
    match lookupFoot (lower name) with
    | some p => p.2.1 args
    | none => .none

/-- commands whose footprint is the union of several successive lock scopes of the Go executor (one block per key) -/
def multiBlock : List String := ["del", "exists", "mget", "blpop", "brpop"]

/-- commands that may stop before they have visited all their keys: the locked stripes are those of a prefix of the footprint -/
def lockedPrefix : List String := ["blpop", "brpop"]

/-- refused after the arity test, before any lock (same dispatch as `Exec.exec` and `footprint`) -/
def refused (env : Env) (args : List Bytes) : Bool :=
  match args with
  | [] => false
  | name :: _ =>
    match lookupFoot (lower name) with
    | some p => p.2.2 env args
    | none => false

/-- **what the Go executor locks for this call**: the footprint, or nothing when the call is refused before the first lock -/
def lockPlan (env : Env) (args : List Bytes) : Footprint :=
  if refused env args then .none else footprint args

theorem lockPlan_cases (env : Env) (args : List Bytes) : lockPlan env args = footprint args ∨ lockPlan env args = .none := by
  unfold lockPlan; split
  · exact Or.inr rfl
  · exact Or.inl rfl

end Exec
