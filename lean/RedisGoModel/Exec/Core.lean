import RedisGoModel.Resp.Reply
import RedisGoModel.Ds.ZTree
/-! The sequential keyspace model shared by every command family (core Lean only; executable — the driver runs it).

    One database is an association list `key ↦ (value, optional deadline)`.  Commands are total functions
    `Env → Db → argv → Reply × Db`; `Env` carries what the Go code obtains from outside the keyspace: the clock reading
    (`time.Now().Unix()`), the observed reply (for commands whose result depends on Go map iteration order or `rand`:
    the model *checks* the implementation's choice instead of predicting it) and `strconv.ParseFloat` of the arguments
    (shipped by the harness as IEEE-754 bit patterns). -/
namespace Exec
open Resp (Reply Bytes)

/-! ### bytes and small helpers -/

def ofStr (s : String) : Bytes := s.toUTF8.toList

/-- ASCII lower-casing (`strings.ToLower` on command and option words; non-ASCII words are outside the modelled domain) -/
def lowerByte (b : UInt8) : UInt8 := if 65 ≤ b && b ≤ 90 then b + 32 else b
def lower (b : Bytes) : Bytes := b.map lowerByte

/-- lexicographic order on byte strings (used only to canonicalise unordered output) -/
def bytesLt : Bytes → Bytes → Bool
| [], [] => false
| [], _ :: _ => true
| _ :: _, [] => false
| a :: as, b :: bs => if a < b then true else if b < a then false else bytesLt as bs

def insertSorted (lt : α → α → Bool) (x : α) : List α → List α
| [] => [x]
| y :: ys => if lt x y then x :: y :: ys else y :: insertSorted lt x ys

def sortBy (lt : α → α → Bool) (l : List α) : List α := l.foldr (insertSorted lt) []

def sortBytes (l : List Bytes) : List Bytes := sortBy bytesLt l

/-- `strconv.ParseInt(s, 10, 64)` / `strconv.Atoi` -/
def parseI64 (b : Bytes) : Option Int := Resp.parseInt b

/-- `strconv.FormatInt(n, 10)` -/
def fmtInt (n : Int) : Bytes := Resp.encInt n

def minI64 : Int := -9223372036854775808
def maxI64 : Int := 9223372036854775807
def inI64 (x : Int) : Bool := minI64 ≤ x && x ≤ maxI64

/-! ### values -/

structure StreamId where
  ms : Nat
  seq : Nat
deriving DecidableEq, Repr

structure StreamEntry where
  id : StreamId
  fields : List Bytes
deriving DecidableEq

/-- a sorted-set member with the IEEE-754 bit pattern of its score -/
structure ZMember where
  name : Bytes
  score : UInt64
deriving DecidableEq

inductive Value
| str (b : Bytes)
| list (l : List Bytes)                    -- head first
| set (s : List Bytes)                     -- duplicate-free; order irrelevant (a Go map)
| hash (h : List (Bytes × Bytes))          -- fields unique; order irrelevant
| zset (z : ZT.T)                          -- the AVL tree of memdb/btree.go itself (Ds/ZTree): shape and stored heights are part of the state
| stream (s : List StreamEntry) (last : StreamId)   -- oldest first; `last` = the greatest ID ever appended (survives trimming)
deriving DecidableEq

def Value.typeName : Value → String
| .str _ => "string" | .list _ => "list" | .set _ => "set" | .hash _ => "hash" | .zset _ => "zset" | .stream _ _ => "stream"

structure Entry where
  val : Value
  exp : Option Int := none    -- deadline, unix seconds
deriving DecidableEq

abbrev Db := List (Bytes × Entry)

def Db.get (db : Db) (k : Bytes) : Option Entry := (db.find? (fun p => p.1 == k)).map (·.2)
def Db.del (db : Db) (k : Bytes) : Db := db.filter (fun p => p.1 != k)
def Db.put (db : Db) (k : Bytes) (e : Entry) : Db := (k, e) :: db.del k
def Db.has (db : Db) (k : Bytes) : Bool := (db.get k).isSome
def Db.keys (db : Db) : List Bytes := db.map (·.1)

/-- set the value and keep the deadline (`m.db.Set` alone) -/
def Db.setVal (db : Db) (k : Bytes) (v : Value) : Db :=
  db.put k { val := v, exp := (db.get k).bind (·.exp) }

/-- set the value and clear the deadline (`m.db.Set` + `DelTTL`) -/
def Db.setFresh (db : Db) (k : Bytes) (v : Value) : Db := db.put k { val := v, exp := none }

/-- `MemDb.CheckTTL`: an entry whose deadline has been reached is deleted, answer `false`; otherwise `true` -/
def checkTTL (db : Db) (now : Int) (k : Bytes) : Db × Bool :=
  match db.get k with
  | some e => (match e.exp with
    | some d => if d ≤ now then (db.del k, false) else (db, true)
    | none => (db, true))
  | none => (db, true)

/-- the keyspace with every expired entry removed: what any command may observe at time `now` -/
def live (db : Db) (now : Int) : Db := db.filter fun p => match p.2.exp with | some d => now < d | none => true

/-! ### environment, replies -/

structure Env where
  now : Int
  obs : Option Reply := none          -- the implementation's reply, decoded (checker mode)
  fl  : Nat → Option UInt64 := fun _ => none   -- strconv.ParseFloat of argv[i] as bits

abbrev Cmd := Env → Db → List Bytes → Reply × Db

def ok : Reply := .simple (ofStr "OK")
def nil : Reply := .bulk none
def wrongType : Reply := .err (ofStr "WRONGTYPE Operation against a key holding the wrong kind of value")
def errArgs : Reply := .err (ofStr "ERR wrong number of arguments")
def errSyntax : Reply := .err (ofStr "ERR syntax error")
def errInt : Reply := .err (ofStr "ERR value is not an integer or out of range")
def errFloat : Reply := .err (ofStr "ERR value is not a valid float")
def errOverflow : Reply := .err (ofStr "ERR increment or decrement would overflow")
def bulk (b : Bytes) : Reply := .bulk (some b)
def arrOf (l : List Reply) : Reply := .arr (some l)
def bulks (l : List Bytes) : Reply := arrOf (l.map bulk)

def _root_.Resp.Reply.isErr : Reply → Bool | .err _ => true | _ => false

mutual
def replyEq : Reply → Reply → Bool
| .simple a, .simple b => a == b
| .err a, .err b => a == b
| .int a, .int b => a == b
| .bulk a, .bulk b => a == b
| .arr none, .arr none => true
| .arr (some a), .arr (some b) => replyListEq a b
| _, _ => false
def replyListEq : List Reply → List Reply → Bool
| [], [] => true
| a :: as, b :: bs => replyEq a b && replyListEq as bs
| _, _ => false
end
def isWrongType (b : Bytes) : Bool := (ofStr "WRONGTYPE").isPrefixOf b

/-- error replies are compared by class: WRONGTYPE, other error; everything else must be equal -/
def replyAgrees (expected observed : Reply) : Bool :=
  match expected, observed with
  | .err a, .err b => isWrongType a == isWrongType b
  | a, b => replyEq a b

end Exec
