/-! Prototype for C06: no command can tell a physically present expired key from an absent one.
    Proved once over the block-program type from two per-executor obligations. Core Lean only. -/
namespace Ttl
abbrev Key := List UInt8
/-- the value kinds (only what the sketches need; the framework has all six) -/
inductive Val
| str  (b : List UInt8)
| list (l : List (List UInt8))
| other (tag : Nat)
deriving DecidableEq

structure Db where
  kv  : Key → Option Val
  ttl : Key → Option Nat   -- absolute deadline (seconds)

inductive Write | set (k : Key) (v : Val) | del (k : Key) | setTTL (k : Key) (d : Nat) | delTTL (k : Key)

def Write.key : Write → Key
| .set k _ => k | .del k => k | .setTTL k _ => k | .delTTL k => k

def Write.apply (db : Db) : Write → Db
| .set k v => { db with kv := fun k' => if k' = k then some v else db.kv k' }
| .del k => { db with kv := fun k' => if k' = k then none else db.kv k' }
| .setTTL k d => { db with ttl := fun k' => if k' = k then some d else db.ttl k' }
| .delTTL k => { db with ttl := fun k' => if k' = k then none else db.ttl k' }

/-- what a block sees of the keys it locked -/
abbrev View := Key → Option Val × Option Nat
def viewOf (db : Db) (keys : List Key) : View := fun k => if k ∈ keys then (db.kv k, db.ttl k) else (none, none)

inductive Exec (ρ : Type)
| done     (r : ρ)
| checkTTL (k : Key) (cont : Bool → Exec ρ)
| block    (keys : List Key) (writes : View → Nat → List Write) (next : View → Nat → Exec ρ)

def expired (db : Db) (now : Nat) (k : Key) : Bool :=
  match db.ttl k with | some d => decide (d ≤ now) | none => false

def doCheck (db : Db) (k : Key) : Db :=
  { kv := fun k' => if k' = k then none else db.kv k', ttl := fun k' => if k' = k then none else db.ttl k' }

def run {ρ} (now : Nat) : Exec ρ → Db → ρ × Db
| .done r, db => (r, db)
| .checkTTL k cont, db => if expired db now k then run now (cont false) (doCheck db k) else run now (cont true) db
| .block keys writes next, db =>
    run now (next (viewOf db keys) now) ((writes (viewOf db keys) now).foldl Write.apply db)

/-- the logical content: a key past its deadline is absent, and so is its deadline -/
def live (db : Db) (now : Nat) (k : Key) : Option Val × Option Nat :=
  if expired db now k then (none, none) else (db.kv k, db.ttl k)

def Equiv (now : Nat) (a b : Db) : Prop := ∀ k, live a now k = live b now k

/-- obligation (i): blocks read only keys that were checked since the last writing block; writes stay inside the block's keys -/
inductive TTLChecked {ρ} : List Key → Exec ρ → Prop
| done (c r) : TTLChecked c (.done r)
| check (c k cont) : (∀ b, TTLChecked (k :: c) (cont b)) → TTLChecked c (.checkTTL k cont)
| block (c keys writes next) : (∀ k ∈ keys, k ∈ c) → (∀ v now, ∀ w ∈ writes v now, w.key ∈ keys) →
    (∀ v now, TTLChecked [] (next v now)) → TTLChecked c (.block keys writes next)

/-- obligation (ii): answering "expired" is indistinguishable from answering "fine" on a state where the key is absent -/
inductive FalseIsMissing {ρ} : Exec ρ → Prop
| done (r) : FalseIsMissing (.done r)
| check (k cont) : (∀ now db, db.kv k = none → db.ttl k = none → run now (cont false) db = run now (cont true) db) →
    (∀ b, FalseIsMissing (cont b)) → FalseIsMissing (.checkTTL k cont)
| block (keys writes next) : (∀ v now, FalseIsMissing (next v now)) → FalseIsMissing (.block keys writes next)

theorem apply_other (db : Db) (w : Write) {k : Key} (h : k ≠ w.key) :
    (w.apply db).kv k = db.kv k ∧ (w.apply db).ttl k = db.ttl k := by
  cases w <;> simp [Write.apply, Write.key] at h ⊢ <;> simp [h]

theorem foldl_other (ws : List Write) (db : Db) {k : Key} (h : ∀ w ∈ ws, k ≠ w.key) :
    (ws.foldl Write.apply db).kv k = db.kv k ∧ (ws.foldl Write.apply db).ttl k = db.ttl k := by
  induction ws generalizing db with
  | nil => exact ⟨rfl, rfl⟩
  | cons w r ih =>
    have h1 := apply_other db w (h w (by simp))
    have h2 := ih (w.apply db) (fun w' hw' => h w' (by simp [hw']))
    simp only [List.foldl_cons]
    exact ⟨h2.1.trans h1.1, h2.2.trans h1.2⟩

/-- on locked keys, the result of a write list depends only on the writes -/
theorem foldl_same (ws : List Write) (a b : Db) {k : Key} (h : a.kv k = b.kv k ∧ a.ttl k = b.ttl k) :
    (ws.foldl Write.apply a).kv k = (ws.foldl Write.apply b).kv k ∧
    (ws.foldl Write.apply a).ttl k = (ws.foldl Write.apply b).ttl k := by
  induction ws generalizing a b with
  | nil => exact h
  | cons w r ih =>
    simp only [List.foldl_cons]
    apply ih
    cases w <;> simp [Write.apply] <;> (try split) <;> simp_all

def phys (db : Db) (k : Key) : Option Val × Option Nat := (db.kv k, db.ttl k)

theorem live_of_phys {a b : Db} {now : Nat} {k : Key} (h : phys a k = phys b k) : live a now k = live b now k := by
  simp only [phys, Prod.mk.injEq] at h
  unfold live expired
  rw [h.1, h.2]

/-- the state after `CheckTTL k` and the boolean it returns -/
def afterCheck (db : Db) (now : Nat) (k : Key) : Db := if expired db now k then doCheck db k else db

theorem afterCheck_spec (db : Db) (now : Nat) (k : Key) :
    phys (afterCheck db now k) k = live db now k ∧
    (∀ k', k' ≠ k → phys (afterCheck db now k) k' = phys db k') ∧
    (expired db now k = true → (afterCheck db now k).kv k = none ∧ (afterCheck db now k).ttl k = none) := by
  unfold afterCheck
  by_cases hx : expired db now k = true
  · simp [hx, doCheck, live, phys]
    intro k' hk'; simp [hk']
  · simp [hx, live, phys]

theorem afterCheck_equiv (db : Db) (now : Nat) (k : Key) : Equiv now (afterCheck db now k) db := by
  obtain ⟨h1, h2, _⟩ := afterCheck_spec db now k
  intro k'
  by_cases hk : k' = k
  · subst hk
    -- live of the new state at k' : not expired there, phys = live db
    have hne : expired (afterCheck db now k') now k' = false := by
      unfold afterCheck
      by_cases hx : expired db now k' = true
      · rw [if_pos hx]; simp [doCheck, expired]
      · rw [if_neg hx]; simpa using hx
    have : live (afterCheck db now k') now k' = phys (afterCheck db now k') k' := by simp [live, hne, phys]
    rw [this, h1]
  · exact live_of_phys (h2 k' hk)

theorem run_check {ρ} (now : Nat) (k : Key) (cont : Bool → Exec ρ) (db : Db) :
    run now (.checkTTL k cont) db = run now (cont (!expired db now k)) (afterCheck db now k) := by
  unfold afterCheck
  by_cases hx : expired db now k = true <;> simp [run, hx]

theorem congruence {ρ} (now : Nat) (e : Exec ρ) (c : List Key) (hc : TTLChecked c e) (hf : FalseIsMissing e)
    (a b : Db) (heq : Equiv now a b)
    (hphys : ∀ k ∈ c, phys a k = phys b k) :
    (run now e a).1 = (run now e b).1 ∧ Equiv now (run now e a).2 (run now e b).2 := by
  induction e generalizing c a b with
  | done r => exact ⟨rfl, heq⟩
  | checkTTL k cont ih =>
    cases hc with
    | check _ _ _ hc' =>
    cases hf with
    | check _ _ hmiss hf' =>
    rw [run_check, run_check]
    obtain ⟨a1, a2, a3⟩ := afterCheck_spec a now k
    obtain ⟨b1, b2, b3⟩ := afterCheck_spec b now k
    have heq' : Equiv now (afterCheck a now k) (afterCheck b now k) := by
      intro k'
      rw [afterCheck_equiv a now k k', afterCheck_equiv b now k k']; exact heq k'
    have hphys' : ∀ k' ∈ k :: c, phys (afterCheck a now k) k' = phys (afterCheck b now k) k' := by
      intro k' hk'
      by_cases hkk : k' = k
      · subst hkk; rw [a1, b1]; exact heq k'
      · rw [a2 k' hkk, b2 k' hkk]
        rcases List.mem_cons.1 hk' with h | h
        · exact absurd h hkk
        · exact hphys k' h
    cases ha : expired a now k <;> cases hb : expired b now k
    · simpa using ih true _ (hc' true) (hf' true) _ _ heq' hphys'
    · -- a says "fine", b says "expired": on b's side the key is now absent, so `false` may be read as `true`
      have hb' := b3 hb
      have := hmiss now (afterCheck b now k) hb'.1 hb'.2
      simp only [Bool.not_false, Bool.not_true]
      rw [this]
      exact ih true _ (hc' true) (hf' true) _ _ heq' hphys'
    · have ha' := a3 ha
      have := hmiss now (afterCheck a now k) ha'.1 ha'.2
      simp only [Bool.not_false, Bool.not_true]
      rw [this]
      exact ih true _ (hc' true) (hf' true) _ _ heq' hphys'
    · simpa using ih false _ (hc' false) (hf' false) _ _ heq' hphys'
  | block keys writes next ih =>
    cases hc with
    | block _ _ _ _ hsub hw hn =>
    cases hf with
    | block _ _ _ hf' =>
    have hview : viewOf a keys = viewOf b keys := by
      funext k
      by_cases hk : k ∈ keys
      · have := hphys k (hsub k hk)
        simp only [phys, Prod.mk.injEq] at this
        simp [viewOf, hk, this.1, this.2]
      · simp [viewOf, hk]
    simp only [run]
    rw [hview]
    apply ih _ _ [] (hn _ _) (hf' _ _)
    · intro k
      by_cases hk : k ∈ keys
      · apply live_of_phys
        have := hphys k (hsub k hk)
        simp only [phys, Prod.mk.injEq] at this
        have := foldl_same (writes (viewOf b keys) now) a b this
        simp [phys, this.1, this.2]
      · have hno : ∀ w ∈ writes (viewOf b keys) now, k ≠ w.key := by
          intro w hw' e; exact hk (e ▸ hw _ _ w hw')
        have ha := foldl_other (writes (viewOf b keys) now) a hno
        have hb := foldl_other (writes (viewOf b keys) now) b hno
        have h1 : live (List.foldl Write.apply a (writes (viewOf b keys) now)) now k = live a now k :=
          live_of_phys (by simp [phys, ha.1, ha.2])
        have h2 : live (List.foldl Write.apply b (writes (viewOf b keys) now)) now k = live b now k :=
          live_of_phys (by simp [phys, hb.1, hb.2])
        rw [h1, h2]; exact heq k
    · intro k hk; cases hk

#print axioms congruence

/-! non-vacuity: the (repaired) GET satisfies both obligations; the pinned GET, which has no `checkTTL`, does not satisfy (i) -/
def getCmd (k : Key) : Exec (Option Val) :=
  .checkTTL k fun ok => if ok then .block [k] (fun _ _ => []) (fun v _ => .done (v k).1) else .done none

example (k : Key) : TTLChecked [] (getCmd k) := by
  unfold getCmd
  refine .check _ _ _ (fun b => ?_)
  cases b
  · exact .done _ _
  · refine .block _ _ _ _ (by simp) (by simp) (fun v now => .done _ _)

example (k : Key) : FalseIsMissing (getCmd k) := by
  unfold getCmd
  refine .check _ _ (fun now db h1 h2 => ?_) (fun b => ?_)
  · simp [run, viewOf, h1]
  · cases b
    · exact .done _
    · exact .block _ _ _ (fun v now => .done _)

def getPinned (k : Key) : Exec (Option Val) := .block [k] (fun _ _ => []) (fun v _ => .done (v k).1)
example (k : Key) : ¬ TTLChecked [] (getPinned k) := by
  intro h; cases h with
  | block _ _ _ _ hsub _ _ => exact absurd (hsub k (by simp)) (by simp)
end Ttl
