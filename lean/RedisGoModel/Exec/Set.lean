import RedisGoModel.Exec.Core
import RedisGoModel.Ds.SetOps
/-! Set commands (memdb/sets.go, memdb/sets_struct.go) on the shared keyspace model, with the semantics of the Redis command
    reference.  A set value is a duplicate-free list in arbitrary order (what a Go map is to its reader); the algebra is
    `SetOps.sunion/sinter/sdiff` (the Go folds, proved equal to the mathematical operations in Ds/SetOps.lean).
    Structure follows the Go executors: arity test, argument parsing, `CheckTTL` of every key, lookup, type test, effect.

    Rules taken from the command reference:
    * a missing key is the empty set; an emptied set ceases to exist (`putSet`), and its deadline goes with it;
    * a wrong-typed *source* anywhere in a multi-key command gives WRONGTYPE and changes nothing;
    * `S*STORE` replaces the destination whatever it held (any type), clears its deadline, deletes it when the result is empty
      (`storeSet`) and answers the cardinality;
    * SPOP / SRANDMEMBER pick members at random: *checker mode* (`env.obs`) — the implementation's choice is validated against the
      state (`popAccept`, `randAccept`) and adopted; a choice that is not acceptable yields a reply that cannot agree (`reject`). -/
namespace Exec
open Resp (Reply Bytes)
open SetOps (MSet)

/-- the set under `k`: `none` = missing (the empty set), `some none` = another type -/
def getSet (db : Db) (k : Bytes) : Option (Option MSet) :=
  match db.get k with
  | none => none
  | some e => match e.val with | .set s => some (some s) | _ => some none

/-- the operand a (non-wrong-typed) lookup stands for: a missing key is the empty set -/
def setOf (r : Option (Option MSet)) : MSet := (r.bind id).getD []

/-- write a set back under `k` keeping the deadline; an emptied set ceases to exist (the deadline lives in the entry and goes with it) -/
def putSet (db : Db) (k : Bytes) (s : MSet) : Db := if s.isEmpty then db.del k else db.setVal k (.set s)

/-- the destination write of the STORE forms: replace whatever was there, no deadline; an empty result deletes the key -/
def storeSet (db : Db) (k : Bytes) (s : MSet) : Db := if s.isEmpty then db.del k else db.setFresh k (.set s)

/-- `CheckTTL` of every key of a multi-key command, before any lock is taken -/
def checkAll (now : Int) (db : Db) (keys : List Bytes) : Db := keys.foldl (fun db k => (checkTTL db now k).1) db

/-- operand collection of the multi-key commands: `none` when any key holds another type -/
def collect (db : Db) : List Bytes → Option (List MSet)
| [] => some []
| k :: ks =>
  match getSet db k, collect db ks with
  | some none, _ => none
  | _, none => none
  | r, some rest => some (setOf r :: rest)

/-- `for i := 2; i < len(cmd); i++ { res += set.Add(cmd[i]) }` -/
def saddAll (s : MSet) (ms : List Bytes) : MSet × Nat :=
  ms.foldl (fun (acc : MSet × Nat) m => let r := SetOps.sadd acc.1 m; (r.1, acc.2 + r.2)) (s, 0)

/-- `for i := 2; i < len(cmd); i++ { res += set.Remove(cmd[i]) }` -/
def sremAll (s : MSet) (ms : List Bytes) : MSet × Nat :=
  ms.foldl (fun (acc : MSet × Nat) m => let r := SetOps.srem acc.1 m; (r.1, acc.2 + r.2)) (s, 0)

/-- a reply that cannot agree with the observed one (errors are compared by class, so an observed error is answered by a non-error) -/
def reject (obs : Option Reply) : Reply :=
  match obs with
  | some (.err _) => .simple (ofStr "MODEL-REJECTS")
  | _ => .err (ofStr "MODEL-REJECTS the implementation's choice")

/-! ### SADD, SREM, SISMEMBER, SCARD, SMEMBERS -/

def cmdSAdd : Cmd := fun env db args =>
  match args with
  | _ :: k :: m :: ms =>
    let (db, _) := checkTTL db env.now k
    match getSet db k with
    | some none => (wrongType, db)
    | r =>
      let (s, n) := saddAll (setOf r) (m :: ms)
      (.int n, db.setVal k (.set s))
  | _ => (errArgs, db)

def cmdSRem : Cmd := fun env db args =>
  match args with
  | _ :: k :: m :: ms =>
    let (db, _) := checkTTL db env.now k
    match getSet db k with
    | none => (.int 0, db)
    | some none => (wrongType, db)
    | some (some s) =>
      let (s, n) := sremAll s (m :: ms)
      (.int n, putSet db k s)
  | _ => (errArgs, db)

def cmdSIsMember : Cmd := fun env db args =>
  match args with
  | [_, k, m] =>
    let (db, _) := checkTTL db env.now k
    match getSet db k with
    | none => (.int 0, db)
    | some none => (wrongType, db)
    | some (some s) => (.int (if m ∈ s then 1 else 0), db)
  | _ => (errArgs, db)

def cmdSCard : Cmd := fun env db args =>
  match args with
  | [_, k] =>
    let (db, _) := checkTTL db env.now k
    match getSet db k with
    | none => (.int 0, db)
    | some none => (wrongType, db)
    | some (some s) => (.int s.length, db)
  | _ => (errArgs, db)

/-- reply order is Go map order: compared after sorting (`Dispatch.canonReply`) -/
def cmdSMembers : Cmd := fun env db args =>
  match args with
  | [_, k] =>
    let (db, _) := checkTTL db env.now k
    match getSet db k with
    | none => (bulks [], db)
    | some none => (wrongType, db)
    | some (some s) => (bulks s, db)
  | _ => (errArgs, db)

/-! ### SMOVE -/

def cmdSMove : Cmd := fun env db args =>
  match args with
  | [_, src, dst, m] =>
    let db := checkAll env.now db [dst, src]
    match getSet db src with
    | none => (.int 0, db)
    | some none => (wrongType, db)
    | some (some s) =>
      match getSet db dst with
      | some none => (wrongType, db)
      | d =>
        if src == dst then (.int (if m ∈ s then 1 else 0), db)
        else if m ∈ s then
          let db := putSet db src (s.erase m)
          (.int 1, db.setVal dst (.set (SetOps.sadd (setOf d) m).1))
        else (.int 0, db)
  | _ => (errArgs, db)

/-! ### SUNION, SINTER, SDIFF and their STORE forms -/

def algebra (op : List MSet → MSet) : Cmd := fun env db args =>
  match args with
  | _ :: k :: ks =>
    let db := checkAll env.now db (k :: ks)
    match collect db (k :: ks) with
    | none => (wrongType, db)
    | some sets => (bulks (op sets), db)
  | _ => (errArgs, db)

def algebraStore (op : List MSet → MSet) : Cmd := fun env db args =>
  match args with
  | _ :: d :: k :: ks =>
    let db := checkAll env.now db (d :: k :: ks)
    match collect db (k :: ks) with
    | none => (wrongType, db)
    | some sets =>
      let r := op sets
      (.int r.length, storeSet db d r)
  | _ => (errArgs, db)

def cmdSUnion : Cmd := algebra SetOps.sunion
def cmdSInter : Cmd := algebra SetOps.sinter
def cmdSDiff : Cmd := algebra SetOps.sdiff
def cmdSUnionStore : Cmd := algebraStore SetOps.sunion
def cmdSInterStore : Cmd := algebraStore SetOps.sinter
def cmdSDiffStore : Cmd := algebraStore SetOps.sdiff

/-! ### SPOP, SRANDMEMBER (checker mode) -/

/-- the members of an array-of-bulks reply; `none` for any other shape -/
def bulkMembers : List Reply → Option (List Bytes)
| [] => some []
| .bulk (some m) :: rest => (bulkMembers rest).map (m :: ·)
| _ => none

def allMem (ms : List Bytes) (s : MSet) : Bool := ms.all fun m => decide (m ∈ s)

def nodupB : List Bytes → Bool
| [] => true
| m :: ms => !decide (m ∈ ms) && nodupB ms

/-- SPOP with a count: the reported members are accepted when they are current members, pairwise distinct and
    `min count |s|` many -/
def popAccept (s : MSet) (count : Nat) (ms : List Bytes) : Bool :=
  allMem ms s && nodupB ms && ms.length == min count s.length

/-- the set after popping `ms` -/
def popRemove (s : MSet) (ms : List Bytes) : MSet := s.filter fun x => !decide (x ∈ ms)

/-- beyond this many repetitions a negative SRANDMEMBER count may also be refused (named grey clause: Redis itself has no bound and
    would build the reply; an implementation that answers "value is out of range" returns no non-member either) -/
def srandLimit : Int := 1048576

/-- SRANDMEMBER with a count: positive = distinct members, `min count |s|` many; negative = exactly `|count|` members, repeats allowed -/
def randAccept (s : MSet) (count : Int) (ms : List Bytes) : Bool :=
  if count ≥ 0 then allMem ms s && nodupB ms && ms.length == min count.toNat s.length
  else allMem ms s && ms.length == (-count).toNat

def cmdSPop : Cmd := fun env db args =>
  match args with
  | [_, k] =>
    let (db, _) := checkTTL db env.now k
    match getSet db k with
    | none => (nil, db)
    | some none => (wrongType, db)
    | some (some s) =>
      match env.obs with
      | some (.bulk (some m)) => if m ∈ s then (bulk m, putSet db k (s.erase m)) else (reject env.obs, db)
      | _ => (reject env.obs, db)
  | [_, k, c] =>
    match parseI64 c with
    | some (.ofNat count) =>
      let (db, _) := checkTTL db env.now k
      match getSet db k with
      | none => (bulks [], db)
      | some none => (wrongType, db)
      | some (some s) =>
        if count == 0 then (bulks [], db) else
        match env.obs with
        | some (.arr (some l)) =>
          match bulkMembers l with
          | some ms => if popAccept s count ms then (bulks ms, putSet db k (popRemove s ms)) else (reject env.obs, db)
          | none => (reject env.obs, db)
        | _ => (reject env.obs, db)
    | _ => (.err (ofStr "ERR value is out of range, must be positive"), db)
  | _ => (errArgs, db)

def cmdSRandMember : Cmd := fun env db args =>
  match args with
  | [_, k] =>
    let (db, _) := checkTTL db env.now k
    match getSet db k with
    | none => (nil, db)
    | some none => (wrongType, db)
    | some (some s) =>
      match env.obs with
      | some (.bulk (some m)) => if m ∈ s then (bulk m, db) else (reject env.obs, db)
      | _ => (reject env.obs, db)
  | [_, k, c] =>
    match parseI64 c with
    | none => (errInt, db)
    | some count =>
      if count == minI64 then (.err (ofStr "ERR value is out of range"), db) else
      let (db, _) := checkTTL db env.now k
      match getSet db k with
      | none => (bulks [], db)
      | some none => (wrongType, db)
      | some (some s) =>
        if count == 0 then (bulks [], db) else
        match env.obs with
        | some (.arr (some l)) =>
          match bulkMembers l with
          | some ms => if randAccept s count ms then (bulks ms, db) else (reject env.obs, db)
          | none => (reject env.obs, db)
        | some (.err e) =>
          if count < -srandLimit && !isWrongType e then (.err e, db) else (reject env.obs, db)
        | _ => (reject env.obs, db)
  | _ => (errArgs, db)

def setTable : List (String × Cmd) := [
  ("sadd", cmdSAdd), ("srem", cmdSRem), ("sismember", cmdSIsMember), ("scard", cmdSCard), ("smembers", cmdSMembers),
  ("smove", cmdSMove), ("spop", cmdSPop), ("srandmember", cmdSRandMember),
  ("sunion", cmdSUnion), ("sinter", cmdSInter), ("sdiff", cmdSDiff),
  ("sunionstore", cmdSUnionStore), ("sinterstore", cmdSInterStore), ("sdiffstore", cmdSDiffStore)]

end Exec
