import RedisGoModel.Exec.Ttl
/-! Prototype: a vertical slice of the sequential design. Six commands (GET, SET, APPEND, DEL, EXPIRE, TTL) as block
    programs; an independent specification that reads the keyspace only through the time-aware `live` view; per
    command the three obligations of the design (`TTLChecked`, `FalseIsMissing`, refinement of the specification);
    and the program-level theorem for every command sequence with non-decreasing clock readings, which is assembled
    from the per-command refinements and the generic C06 congruence. Core Lean only. -/
namespace Ttl
abbrev Bytes := List UInt8

inductive Reply
| ok | nil | int (n : Int) | bulk (b : Bytes) | wrongType
deriving DecidableEq

inductive Cmd
| get (k : Key) | set (k : Key) (v : Bytes) | append (k : Key) (v : Bytes) | del (k : Key)
| expire (k : Key) (secs : Nat) | ttl (k : Key)

abbrev Cell := Option Val × Option Nat

/-- the common shape of a single-key executor: `CheckTTL(k)`, then one locked block on `k` -/
def single (k : Key) (w : Cell → Nat → List Write) (r : Cell → Nat → Reply) : Exec Reply :=
  .checkTTL k fun _ => .block [k] (fun vw now => w (vw k) now) (fun vw now => .done (r (vw k) now))

/-! ### the executors, shaped like memdb's (repaired) functions -/

def getW : Cell → Nat → List Write := fun _ _ => []
def getR : Cell → Nat → Reply := fun c _ => match c.1 with | none => .nil | some (.str b) => .bulk b | some _ => .wrongType

def setW (k : Key) (v : Bytes) : Cell → Nat → List Write := fun _ _ => [.set k (.str v), .delTTL k]
def setR : Cell → Nat → Reply := fun _ _ => .ok

def appendW (k : Key) (v : Bytes) : Cell → Nat → List Write := fun c _ =>
  match c.1 with | none => [.set k (.str v)] | some (.str b) => [.set k (.str (b ++ v))] | some _ => []
def appendR (v : Bytes) : Cell → Nat → Reply := fun c _ =>
  match c.1 with | none => .int v.length | some (.str b) => .int (b ++ v).length | some _ => .wrongType

def delW (k : Key) : Cell → Nat → List Write := fun c _ => match c.1 with | none => [] | some _ => [.del k, .delTTL k]
def delR : Cell → Nat → Reply := fun c _ => match c.1 with | none => .int 0 | some _ => .int 1

def expireW (k : Key) (secs : Nat) : Cell → Nat → List Write := fun c now =>
  match c.1 with | none => [] | some _ => [.setTTL k (now + secs)]
def expireR : Cell → Nat → Reply := fun c _ => match c.1 with | none => .int 0 | some _ => .int 1

def ttlR : Cell → Nat → Reply := fun c now =>
  match c with | (none, _) => .int (-2) | (some _, none) => .int (-1) | (some _, some d) => .int ((d : Int) - now)

def exec : Cmd → Exec Reply
| .get k => single k getW getR
| .set k v => single k (setW k v) setR
| .append k v => single k (appendW k v) (appendR v)
| .del k => single k (delW k) delR
| .expire k s => single k (expireW k s) expireR
| .ttl k => single k getW ttlR

/-! ### the specification: replies and new cells as functions of the *live* cell only -/

def putCell (db : Db) (k : Key) (c : Cell) : Db :=
  { kv := fun k' => if k' = k then c.1 else db.kv k', ttl := fun k' => if k' = k then c.2 else db.ttl k' }

def Cmd.key : Cmd → Key
| .get k => k | .set k _ => k | .append k _ => k | .del k => k | .expire k _ => k | .ttl k => k

/-- reply and new cell, given the live cell `(value, deadline)` of the command's key -/
def specCell : Cmd → Cell → Nat → Reply × Cell
| .get _, c, _ => (match c.1 with | none => .nil | some (.str b) => .bulk b | some _ => .wrongType, c)
| .set _ v, _, _ => (.ok, (some (.str v), none))
| .append _ v, c, _ =>
    (match c.1 with
     | none => (.int v.length, (some (.str v), c.2))
     | some (.str b) => (.int (b.length + v.length), (some (.str (b ++ v)), c.2))
     | some _ => (.wrongType, c))
| .del _, c, _ => (match c.1 with | none => (.int 0, c) | some _ => (.int 1, (none, none)))
| .expire _ s, c, now => (match c.1 with | none => (.int 0, c) | some _ => (.int 1, (c.1, some (now + s))))
| .ttl _, c, now =>
    (match c with | (none, _) => .int (-2) | (some _, none) => .int (-1) | (some _, some d) => .int ((d : Int) - now), c)

def spec (c : Cmd) (db : Db) (now : Nat) : Reply × Db :=
  ((specCell c (live db now c.key) now).1, putCell db c.key (specCell c (live db now c.key) now).2)

/-! ### generic facts about `single` -/

theorem single_checked (k : Key) (w r) (hw : ∀ c now, ∀ x ∈ w c now, x.key = k) : TTLChecked [] (single k w r) := by
  refine .check _ _ _ (fun _ => .block _ _ _ _ (by simp) ?_ (fun _ _ => .done _ _))
  intro v now x hx
  simp [hw _ _ x hx]

theorem single_fim (k : Key) (w r) : FalseIsMissing (single k w r) :=
  .check _ _ (fun _ _ _ _ => rfl) (fun _ => .block _ _ _ (fun _ _ => .done _))

theorem viewOf_self (db : Db) (k : Key) : viewOf db [k] k = phys db k := by simp [viewOf, phys]

/-- what a `single` executor computes: reply and writes are taken at the live cell of `k` -/
theorem single_run (k : Key) (w r) (now : Nat) (db : Db) :
    run now (single k w r) db =
      (r (live db now k) now, (w (live db now k) now).foldl Write.apply (afterCheck db now k)) := by
  unfold single
  rw [run_check]
  simp only [run]
  rw [viewOf_self, (afterCheck_spec db now k).1]

theorem putCell_phys_same (db : Db) (k : Key) (c : Cell) : phys (putCell db k c) k = c := by simp [phys, putCell]
theorem putCell_phys_other (db : Db) (k : Key) (c : Cell) {k' : Key} (h : k' ≠ k) : phys (putCell db k c) k' = phys db k' := by
  simp [phys, putCell, h]

/-- two states agree as far as any later command can tell when they agree physically at `k` and are equivalent elsewhere -/
theorem equiv_of_cell {now : Nat} {a b : Db} {k : Key} (hk : phys a k = phys b k)
    (ho : ∀ k', k' ≠ k → live a now k' = live b now k') : Equiv now a b := by
  intro k'
  by_cases h : k' = k
  · subst h; exact live_of_phys hk
  · exact ho k' h

/-- the physical cell after a list of writes that all address `k`, from a state whose cell at `k` is `c` -/
def applyCell (c : Cell) : Write → Cell
| .set _ v => (some v, c.2) | .del _ => (none, c.2) | .setTTL _ d => (c.1, some d) | .delTTL _ => (c.1, none)

theorem foldl_cell (ws : List Write) (k : Key) (hw : ∀ x ∈ ws, x.key = k) :
    ∀ db, phys (ws.foldl Write.apply db) k = ws.foldl applyCell (phys db k) := by
  induction ws with
  | nil => intro db; rfl
  | cons x r ih =>
    intro db
    simp only [List.foldl_cons]
    rw [ih (fun y hy => hw y (by simp [hy]))]
    congr 1
    have hx := hw x (by simp)
    cases x <;> simp [Write.key] at hx <;> subst hx <;> simp [Write.apply, applyCell, phys]

/-- **per-command refinement**: the executor's reply is the specification's, and the resulting states are equivalent -/
theorem refines (c : Cmd) (db : Db) (now : Nat) :
    (run now (exec c) db).1 = (spec c db now).1 ∧ Equiv now (run now (exec c) db).2 (spec c db now).2 := by
  -- all six have the `single` shape on `c.key`
  have key : ∀ (w : Cell → Nat → List Write) (r : Cell → Nat → Reply), exec c = single c.key w r →
      (∀ cl n, ∀ x ∈ w cl n, x.key = c.key) →
      (∀ cl, r cl now = (specCell c cl now).1) →
      (∀ cl, (w cl now).foldl applyCell cl = (specCell c cl now).2) →
      (run now (exec c) db).1 = (spec c db now).1 ∧ Equiv now (run now (exec c) db).2 (spec c db now).2 := by
    intro w r he hw hr hc
    rw [he, single_run]
    refine ⟨hr _, equiv_of_cell (k := c.key) ?_ ?_⟩
    · rw [foldl_cell _ _ (hw _ _), (afterCheck_spec db now c.key).1, hc]
      exact (putCell_phys_same _ _ _).symm
    · intro k' hk'
      have h1 := foldl_other (w (live db now c.key) now) (afterCheck db now c.key)
        (k := k') (fun x hx e => hk' (e.trans (hw _ _ x hx)))
      have h2 : live (List.foldl Write.apply (afterCheck db now c.key) (w (live db now c.key) now)) now k' =
          live (afterCheck db now c.key) now k' := live_of_phys (by simp [phys, h1.1, h1.2])
      rw [h2, afterCheck_equiv db now c.key k']
      exact (live_of_phys (putCell_phys_other _ _ _ hk')).symm
  cases c with
  | get k =>
    refine key getW getR rfl (by simp [getW]) (fun cl => rfl) (fun cl => rfl)
  | set k v =>
    refine key (setW k v) setR rfl ?_ (fun cl => rfl) (fun cl => rfl)
    intro cl n x hx
    simp [setW] at hx
    rcases hx with rfl | rfl <;> rfl
  | append k v =>
    refine key (appendW k v) (appendR v) rfl ?_ ?_ ?_
    · intro cl n x hx
      simp only [appendW] at hx
      split at hx <;> simp at hx <;> subst hx <;> rfl
    · intro cl
      simp only [appendR, specCell]
      split <;> simp
    · intro cl
      obtain ⟨v0, t0⟩ := cl
      simp only [appendW, specCell]
      split <;> simp [applyCell]
  | del k =>
    refine key (delW k) delR rfl ?_ ?_ ?_
    · intro cl n x hx
      simp only [delW] at hx
      split at hx <;> simp at hx
      rcases hx with rfl | rfl <;> rfl
    · intro cl; simp only [delR, specCell]; split <;> rfl
    · intro cl
      obtain ⟨v0, t0⟩ := cl
      simp only [delW, specCell]
      split <;> simp [applyCell]
  | expire k s =>
    refine key (expireW k s) expireR rfl ?_ ?_ ?_
    · intro cl n x hx
      simp only [expireW] at hx
      split at hx <;> simp at hx
      subst hx; rfl
    · intro cl; simp only [expireR, specCell]; split <;> rfl
    · intro cl
      obtain ⟨v0, t0⟩ := cl
      simp only [expireW, specCell]
      split <;> simp_all [applyCell]
  | ttl k =>
    refine key getW ttlR rfl (by simp [getW]) (fun cl => rfl) (fun cl => rfl)

theorem exec_checked (c : Cmd) : TTLChecked [] (exec c) := by
  cases c <;> (apply single_checked; intro cl n x hx)
  · simp [getW] at hx
  · simp [setW] at hx; rcases hx with rfl | rfl <;> rfl
  · simp only [appendW] at hx; split at hx <;> simp at hx <;> subst hx <;> rfl
  · simp only [delW] at hx; split at hx <;> simp at hx; rcases hx with rfl | rfl <;> rfl
  · simp only [expireW] at hx; split at hx <;> simp at hx; subst hx; rfl
  · simp [getW] at hx

theorem exec_fim (c : Cmd) : FalseIsMissing (exec c) := by
  cases c <;> exact single_fim _ _ _

/-! ### programs -/

theorem Equiv.trans {now : Nat} {a b c : Db} (h1 : Equiv now a b) (h2 : Equiv now b c) : Equiv now a c :=
  fun k => (h1 k).trans (h2 k)

/-- equivalence survives the passage of time -/
theorem Equiv.mono {now now' : Nat} {a b : Db} (h : Equiv now a b) (hle : now ≤ now') : Equiv now' a b := by
  intro k
  have hk := h k
  unfold live expired at hk ⊢
  cases ha : a.ttl k <;> cases hb : b.ttl k <;> simp only [ha, hb] at hk ⊢
  · exact hk
  · rename_i d
    by_cases h1 : d ≤ now
    · have h2 : d ≤ now' := Nat.le_trans h1 hle
      simp [h1, h2] at hk ⊢
      simp [hk]
    · simp [h1] at hk
  · rename_i d
    by_cases h1 : d ≤ now
    · have h2 : d ≤ now' := Nat.le_trans h1 hle
      simp [h1, h2] at hk ⊢
      simp [← hk]
    · simp [h1] at hk
  · rename_i d e
    by_cases h1 : d ≤ now <;> by_cases h2 : e ≤ now
    · have h1' : d ≤ now' := Nat.le_trans h1 hle
      have h2' : e ≤ now' := Nat.le_trans h2 hle
      simp [h1', h2']
    · simp [h1, h2] at hk
    · simp [h1, h2] at hk
    · simp [h1, h2] at hk
      obtain ⟨hv, hd⟩ := hk
      subst hd
      by_cases h3 : d ≤ now' <;> simp [h3, hv]

def runProg : List (Nat × Cmd) → Db → List Reply × Db
| [], db => ([], db)
| (now, c) :: p, db => let r := run now (exec c) db; let rest := runProg p r.2; (r.1 :: rest.1, rest.2)

def specProg : List (Nat × Cmd) → Db → List Reply × Db
| [], db => ([], db)
| (now, c) :: p, db => let r := spec c db now; let rest := specProg p r.2; (r.1 :: rest.1, rest.2)

def lastTime (t : Nat) : List (Nat × Cmd) → Nat
| [] => t
| (now, _) :: p => lastTime now p

/-- clock readings never go backwards -/
def Monotone (t : Nat) : List (Nat × Cmd) → Prop
| [] => True
| (now, _) :: p => t ≤ now ∧ Monotone now p

/-- **every command sequence**: same replies as the specification, and a final state no later command can tell from
    the specification's — from any pair of equivalent starting states (so lazily and eagerly expired keyspaces,
    or keyspaces with and without the active-expiry timer having run, behave the same) -/
theorem program_refines : ∀ (p : List (Nat × Cmd)) (t : Nat) (a b : Db), Monotone t p → Equiv t a b →
    (runProg p a).1 = (specProg p b).1 ∧ Equiv (lastTime t p) (runProg p a).2 (specProg p b).2 := by
  intro p
  induction p with
  | nil => intro t a b _ h; exact ⟨rfl, h⟩
  | cons x p ih =>
    obtain ⟨now, c⟩ := x
    intro t a b hm h
    have h' : Equiv now a b := h.mono hm.1
    -- executor on a ≈ executor on b (C06 congruence) ≈ specification on b (refinement)
    have hcong := congruence now (exec c) [] (exec_checked c) (exec_fim c) a b h' (fun _ hk => by cases hk)
    have href := refines c b now
    have hstep : Equiv now (run now (exec c) a).2 (spec c b now).2 := hcong.2.trans href.2
    obtain ⟨hr, he⟩ := ih now _ _ hm.2 hstep
    refine ⟨?_, he⟩
    simp only [runProg, specProg]
    rw [hcong.1, href.1, hr]

/-- the premises are satisfiable, and the statement has content: an expired key reads as missing -/
example : (runProg [(10, .set [1] [65]), (10, .expire [1] 5), (14, .ttl [1]), (15, .get [1]), (16, .append [1] [66]), (16, .ttl [1])]
    ⟨fun _ => none, fun _ => none⟩).1 = [.ok, .int 1, .int 1, .nil, .int 1, .int (-1)] := by
  decide

#print axioms refines
#print axioms program_refines
end Ttl
