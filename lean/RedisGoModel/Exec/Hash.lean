import RedisGoModel.Exec.StringKeys
import RedisGoModel.Ds.HashSel
/-! Hash commands (memdb/hash.go, memdb/hash_struct.go) on the shared keyspace model, with the semantics of the Redis command
    reference.  A hash is a field table without duplicate fields (`Ds/HashSel`: `hget`, `hset`, `hdel` and their laws); a value is any
    byte string, the empty one included (presence is `Option`, never a length test).

    Every executor has the shape of the Go code: arity test → argument parsing → `CheckTTL` → lookup → type test → effect.  The last
    four steps are shared (`hashRead`, `hashWrite`).  For every hash command the reference treats a missing key as the empty hash, and
    a hash that becomes empty ceases to exist (`putHash`), so the keyspace never holds an empty hash.

    Checker mode: HRANDFIELD (Go map iteration order decides the selection) and HINCRBYFLOAT (IEEE arithmetic and `FormatFloat` are the
    implementation's; the model decides error/non-error and adopts the reported value).
    Order-only nondeterminism (HGETALL, HKEYS, HVALS) goes through `canonReply` in `Exec/Dispatch`. -/
namespace Exec
open Resp (Reply Bytes)
open HashSel (hget hset hdel)

abbrev HashT := List (Bytes × Bytes)

/-- the hash under `k`, after the expiry check: `none` = missing, `some none` = another type -/
def getHash (db : Db) (k : Bytes) : Option (Option HashT) :=
  match db.get k with
  | none => none
  | some e => match e.val with | .hash h => some (some h) | _ => some none

/-- store the hash under `k` keeping the key's deadline; a hash without fields ceases to exist (value and deadline) -/
def putHash (db : Db) (k : Bytes) (h : HashT) : Db :=
  if h.isEmpty then db.del k else db.setVal k (.hash h)

/-- `CheckTTL`, lookup, type test of a reading executor; a missing key reads as the empty hash -/
def hashRead (env : Env) (db : Db) (k : Bytes) (body : HashT → Reply) : Reply × Db :=
  let (db, _) := checkTTL db env.now k
  match getHash db k with
  | some none => (wrongType, db)
  | some (some h) => (body h, db)
  | none => (body [], db)

/-- `CheckTTL`, lookup, type test of a writing executor; `body` returns the reply and the hash to store -/
def hashWrite (env : Env) (db : Db) (k : Bytes) (body : HashT → Reply × HashT) : Reply × Db :=
  let (db, _) := checkTTL db env.now k
  match getHash db k with
  | some none => (wrongType, db)
  | some (some h) => ((body h).1, putHash db k (body h).2)
  | none => ((body []).1, putHash db k (body []).2)

/-! ### HSET, HSETNX -/

/-- the field/value loop of HSET: later pairs win, the count is the number of fields that were new -/
def hsetMany : HashT → List Bytes → Nat → HashT × Nat
| h, f :: v :: rest, n => hsetMany (hset h f v).1 rest (n + (hset h f v).2)
| h, _, n => (h, n)

def cmdHSet : Cmd := fun env db args =>
  match args with
  | _ :: k :: f :: v :: rest =>
    if rest.length % 2 != 0 then (errArgs, db) else
    hashWrite env db k fun h => (.int (hsetMany h (f :: v :: rest) 0).2, (hsetMany h (f :: v :: rest) 0).1)
  | _ => (errArgs, db)

def hsetnx (h : HashT) (f v : Bytes) : Reply × HashT :=
  if (hget h f).isSome then (.int 0, h) else (.int 1, (hset h f v).1)

def cmdHSetNx : Cmd := fun env db args =>
  match args with
  | [_, k, f, v] => hashWrite env db k fun h => hsetnx h f v
  | _ => (errArgs, db)

/-! ### HGET, HMGET, HGETALL, HKEYS, HVALS, HLEN, HEXISTS, HSTRLEN -/

def cmdHGet : Cmd := fun env db args =>
  match args with
  | [_, k, f] => hashRead env db k fun h => .bulk (hget h f)
  | _ => (errArgs, db)

def cmdHMGet : Cmd := fun env db args =>
  match args with
  | _ :: k :: f :: fs => hashRead env db k fun h => arrOf ((f :: fs).map fun f => .bulk (hget h f))
  | _ => (errArgs, db)

def flatPairs (h : HashT) : List Bytes := h.flatMap fun p => [p.1, p.2]

def cmdHGetAll : Cmd := fun env db args =>
  match args with
  | [_, k] => hashRead env db k fun h => bulks (flatPairs h)
  | _ => (errArgs, db)

def cmdHKeys : Cmd := fun env db args =>
  match args with
  | [_, k] => hashRead env db k fun h => bulks (h.map Prod.fst)
  | _ => (errArgs, db)

def cmdHVals : Cmd := fun env db args =>
  match args with
  | [_, k] => hashRead env db k fun h => bulks (h.map Prod.snd)
  | _ => (errArgs, db)

def cmdHLen : Cmd := fun env db args =>
  match args with
  | [_, k] => hashRead env db k fun h => .int h.length
  | _ => (errArgs, db)

def cmdHExists : Cmd := fun env db args =>
  match args with
  | [_, k, f] => hashRead env db k fun h => .int (if (hget h f).isSome then 1 else 0)
  | _ => (errArgs, db)

def hstrlen (h : HashT) (f : Bytes) : Nat := match hget h f with | some v => v.length | none => 0

def cmdHStrLen : Cmd := fun env db args =>
  match args with
  | [_, k, f] => hashRead env db k fun h => .int (hstrlen h f)
  | _ => (errArgs, db)

/-! ### HDEL -/

def hdelMany : HashT → List Bytes → Nat → HashT × Nat
| h, [], n => (h, n)
| h, f :: fs, n => hdelMany (hdel h f).1 fs (n + (hdel h f).2)

def cmdHDel : Cmd := fun env db args =>
  match args with
  | _ :: k :: f :: fs => hashWrite env db k fun h => (.int (hdelMany h (f :: fs) 0).2, (hdelMany h (f :: fs) 0).1)
  | _ => (errArgs, db)

/-! ### HINCRBY, HINCRBYFLOAT -/

def errHashInt : Reply := .err (ofStr "ERR hash value is not an integer")

/-- the integer HINCRBY starts from: a missing field counts as 0, a value that is not an int64 numeral has none -/
def hcur (h : HashT) (f : Bytes) : Option Int := match hget h f with | none => some 0 | some b => parseI64 b

/-- add `delta` to the integer stored under `f` (missing field = 0): the exact sum is stored and reported, or the command is
    rejected and the hash is unchanged — never wrapped -/
def hincrby (h : HashT) (f : Bytes) (delta : Int) : Reply × HashT :=
  match hcur h f with
  | none => (errHashInt, h)
  | some cur =>
    match StrOps.goIncrBy cur delta with
    | none => (errOverflow, h)
    | some n => (.int n, (hset h f (fmtInt n)).1)

def cmdHIncrBy : Cmd := fun env db args =>
  match args with
  | [_, k, f, d] =>
    match parseI64 d with
    | none => (errInt, db)
    | some delta => hashWrite env db k fun h => hincrby h f delta
  | _ => (errArgs, db)

/-- HINCRBYFLOAT in checker mode.  The model decides: the increment must be a finite float (`strconv.ParseFloat` bits shipped by the
    harness), the stored value must read as a decimal number; then the implementation's sum is adopted if it is a finite decimal.
    An overflow error is admitted only when the increment is at least 2^1022 in magnitude or the stored value is `hugeDecimal`. -/
def hincrbyfloat (obs : Option Reply) (bits : UInt64) (h : HashT) (f : Bytes) : Reply × HashT :=
  let curOk := match hget h f with | none => true | some b => looksDecimal b
  if !curOk then (errFloat, h)
  else match obs with
    | some (.bulk (some r)) =>
      if looksDecimal r then (bulk r, (hset h f r).1) else (rejectObs obs "HINCRBYFLOAT result is not a finite decimal", h)
    | some (.err e) =>
      let curHuge := match hget h f with | none => false | some b => hugeDecimal b
      if (flExp bits ≥ 2045 || curHuge) && !isWrongType e then (.err e, h) else (rejectObs obs "HINCRBYFLOAT must succeed", h)
    | _ => (rejectObs obs "HINCRBYFLOAT answers a bulk string", h)

def cmdHIncrByFloat : Cmd := fun env db args =>
  match args with
  | [_, k, f, _d] =>
    match env.fl 3 with
    | none => (errFloat, db)
    | some bits =>
      if flExp bits == 2047 then (.err (ofStr "ERR increment would produce NaN or Infinity"), db)
      else hashWrite env db k fun h => hincrbyfloat env.obs bits h f
  | _ => (errArgs, db)

/-! ### HRANDFIELD (checker mode) -/

/-- `LONG_MAX/2`: Redis answers "value is out of range" beyond it -/
def hrandMaxCount : Int := 4611686018427387903
/-- stated bound of this model: a reply of more than 2^31-1 elements is refused (Redis would start producing it) -/
def hrandMinCount : Int := -2147483647

def allDistinct : List Bytes → Bool
| [] => true
| x :: xs => !xs.contains x && allDistinct xs

/-- a reply list without values: every element is a bulk naming an existing field; returns the fields -/
def hrandPlain (h : HashT) : List Reply → Option (List Bytes)
| [] => some []
| .bulk (some f) :: rest => if (hget h f).isSome then (hrandPlain h rest).map (f :: ·) else none
| _ :: _ => none

/-- a flat reply list with values: field, its current value, field, value, …; returns the fields -/
def hrandPairs (h : HashT) : List Reply → Option (List Bytes)
| [] => some []
| .bulk (some f) :: .bulk (some v) :: rest => if hget h f == some v then (hrandPairs h rest).map (f :: ·) else none
| _ :: _ => none

/-- how many fields `HRANDFIELD k count` returns from a hash with `len` fields -/
def hrandLen (len : Nat) (c : Int) : Nat :=
  if c ≥ 0 then min c.toNat len else if len == 0 then 0 else (-c).toNat

/-- the relational specification, decided: is `obs` an answer the command reference allows for hash `h`?
    `count = none`: one existing field as a bulk (nil iff the hash is missing/empty); `count ≥ 0`: `min count len` distinct existing
    fields; `count < 0`: exactly `|count|` existing fields, repeats allowed (none when the hash is missing);
    WITHVALUES: each field is followed by its current value. -/
def hrandAccept (h : HashT) (count : Option Int) (wv : Bool) (obs : Reply) : Bool :=
  match count with
  | none =>
    match obs with
    | .bulk none => h.isEmpty
    | .bulk (some f) => (hget h f).isSome
    | _ => false
  | some c =>
    match obs with
    | .arr (some l) =>
      match (if wv then hrandPairs h l else hrandPlain h l) with
      | none => false
      | some fs => fs.length == hrandLen h.length c && (c < 0 || allDistinct fs)
    | _ => false

/-- the canonical presentation of a hash: the fields in bytewise order (the insertion sort `canonReply` and the snapshot writer
    use).  The stored order of the association list is representation detail (Go map iteration order); nothing the model answers
    may depend on it. -/
def hrandCanon (h : HashT) : HashT := sortBy (fun a b => bytesLt a.1 b.1) h

/-- the answer that takes the leading fields of the list it is given: the first field; the first `min count len` fields; `|count|`
    copies of the first field -/
def hrandFirst (h : HashT) (count : Option Int) (wv : Bool) : Reply :=
  match count with
  | none => (match h with | [] => nil | p :: _ => bulk p.1)
  | some c =>
    let sel : HashT := if c ≥ 0 then h.take (hrandLen h.length c) else
      match h with | [] => [] | p :: _ => List.replicate (hrandLen h.length c) p
    bulks (if wv then flatPairs sel else sel.map Prod.fst)

/-- one allowed answer (the prediction when there is no observation, and what is reported as expected when the observed reply is
    refused): the bytewise SMALLEST fields.  Chosen from the canonical presentation, so that two presentations of the same hash
    give the same answer (`Exec.Equiv.hrandDefault_perm`); the first version of the model took a prefix of the stored list, which
    leaked the representation. -/
def hrandDefault (h : HashT) (count : Option Int) (wv : Bool) : Reply := hrandFirst (hrandCanon h) count wv

def hrandReply (obs : Option Reply) (h : HashT) (count : Option Int) (wv : Bool) : Reply :=
  match obs with
  | some o => if hrandAccept h count wv o then o else hrandDefault h count wv
  | none => hrandDefault h count wv

def hrandWithCount (env : Env) (db : Db) (k c : Bytes) (wv : Bool) : Reply × Db :=
  match parseI64 c with
  | none => (errInt, db)
  | some n =>
    if n < hrandMinCount || n > hrandMaxCount then (.err (ofStr "ERR value is out of range"), db)
    else hashRead env db k fun h => hrandReply env.obs h (some n) wv

def cmdHRandField : Cmd := fun env db args =>
  match args with
  | [_, k] => hashRead env db k fun h => hrandReply env.obs h none false
  | [_, k, c] => hrandWithCount env db k c false
  | [_, k, c, o] => if lower o == ofStr "withvalues" then hrandWithCount env db k c true else (errSyntax, db)
  | _ => (errArgs, db)

def hashTable : List (String × Cmd) := [
  ("hset", cmdHSet), ("hsetnx", cmdHSetNx), ("hget", cmdHGet), ("hmget", cmdHMGet), ("hgetall", cmdHGetAll), ("hkeys", cmdHKeys),
  ("hvals", cmdHVals), ("hlen", cmdHLen), ("hexists", cmdHExists), ("hstrlen", cmdHStrLen), ("hdel", cmdHDel),
  ("hincrby", cmdHIncrBy), ("hincrbyfloat", cmdHIncrByFloat), ("hrandfield", cmdHRandField)]

end Exec
