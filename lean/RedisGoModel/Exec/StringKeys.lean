import RedisGoModel.Exec.Core
import RedisGoModel.Ds.StrOps
import RedisGoModel.Glob.GlobEq
/-! String and generic key commands (memdb/string.go, memdb/keys.go) on the shared keyspace model.
    Structure follows the Go executors: arity test, argument parsing, `CheckTTL`, lookup, type test, effect. -/
namespace Exec
open Resp (Reply Bytes)

/-- the string under `k`, after the expiry check: `none` = missing, `some none` = another type -/
def getStr (db : Db) (k : Bytes) : Option (Option Bytes) :=
  match db.get k with
  | none => none
  | some e => match e.val with | .str b => some (some b) | _ => some none

/-! ### SET -/

structure SetOpts where
  nx : Bool := false
  xx : Bool := false
  get : Bool := false
  keepttl : Bool := false
  ex : Option Int := none      -- seconds
  px : Option Int := none      -- milliseconds
  exat : Option Int := none    -- absolute unix seconds
  nexp : Nat := 0              -- how many expiry options were given

/-- the option scan of `setString` (`for i := 3; …` with `i++` for option values) -/
def parseSetOpts : List Bytes → SetOpts → Option SetOpts
| [], o => some o
| w :: rest, o =>
  let lw := lower w
  if lw == ofStr "nx" then parseSetOpts rest { o with nx := true }
  else if lw == ofStr "xx" then parseSetOpts rest { o with xx := true }
  else if lw == ofStr "get" then parseSetOpts rest { o with get := true }
  else if lw == ofStr "keepttl" then parseSetOpts rest { o with keepttl := true }
  else if lw == ofStr "ex" || lw == ofStr "px" || lw == ofStr "exat" then
    match rest with
    | [] => none
    | v :: rest' =>
      match parseI64 v with
      | none => none
      | some n =>
        if lw == ofStr "ex" then parseSetOpts rest' { o with ex := some n, nexp := o.nexp + 1 }
        else if lw == ofStr "px" then parseSetOpts rest' { o with px := some n, nexp := o.nexp + 1 }
        else parseSetOpts rest' { o with exat := some n, nexp := o.nexp + 1 }
  else none

/-- the deadline a SET installs: `none` = invalid expire time -/
def setDeadline (o : SetOpts) (now : Int) : Option (Option Int) :=
  match o.ex, o.px, o.exat with
  | some s, _, _ => if s ≤ 0 || !inI64 (now + s) then none else some (some (now + s))
  | _, some ms, _ => if ms ≤ 0 then none else some (some (now + ms / 1000))
  | _, _, some t => if t ≤ 0 then none else some (some t)
  | none, none, none => some none

def cmdSet : Cmd := fun env db args =>
  match args with
  | _ :: k :: v :: opts =>
    match parseSetOpts opts {} with
    | none => (errSyntax, db)
    | some o =>
      if (o.nx && o.xx) || o.nexp > 1 || (o.keepttl && o.nexp > 0) then (errSyntax, db) else
      match setDeadline o env.now with
      | none => (.err (ofStr "ERR invalid expire time in 'set' command"), db)
      | some dl =>
        let (db, _) := checkTTL db env.now k
        match getStr db k with
        | some none => (wrongType, db)
        | old =>
          let exists_ := old.isSome
          let oldVal : Option Bytes := old.bind id
          let blocked := (o.nx && exists_) || (o.xx && !exists_)
          let reply := if o.get then .bulk oldVal else if blocked then nil else ok
          if blocked then (reply, db)
          else
            let exp := if o.keepttl then (db.get k).bind (·.exp) else dl
            (reply, db.put k { val := .str v, exp := exp })
  | _ => (errArgs, db)

/-! ### GET, GETRANGE, SETRANGE, STRLEN, APPEND -/

def cmdGet : Cmd := fun env db args =>
  match args with
  | [_, k] =>
    let (db, _) := checkTTL db env.now k
    match getStr db k with
    | none => (nil, db)
    | some none => (wrongType, db)
    | some (some b) => (bulk b, db)
  | _ => (errArgs, db)

def cmdGetRange : Cmd := fun env db args =>
  match args with
  | [_, k, s, e] =>
    let (db, _) := checkTTL db env.now k
    match getStr db k with
    | some none => (wrongType, db)
    | old =>
      match parseI64 s, parseI64 e with
      | some s, some e =>
        match StrOps.goGetRange ((old.bind id).getD []) s e with
        | .ok r => (bulk r, db)
        | .panic _ => (.err (ofStr "PANIC"), db)       -- unreachable: StrOps.getrange_spec
      | _, _ => (errInt, db)
  | _ => (errArgs, db)

def maxStrLen : Nat := 512 * 1024 * 1024

def cmdSetRange : Cmd := fun env db args =>
  match args with
  | [_, k, off, v] =>
    match parseI64 off with
    | some (.ofNat offset) =>
      let (db, _) := checkTTL db env.now k
      match getStr db k with
      | some none => (wrongType, db)
      | old =>
        let oldVal := (old.bind id).getD []
        if v.isEmpty then (.int oldVal.length, db)
        else if offset + v.length > maxStrLen then (.err (ofStr "ERR string exceeds maximum allowed size (512MB)"), db)
        else
          let newVal := StrOps.specSetRange oldVal offset v
          (.int newVal.length, db.setVal k (.str newVal))
    | _ => (.err (ofStr "ERR offset is out of range"), db)
  | _ => (errArgs, db)

def cmdStrLen : Cmd := fun env db args =>
  match args with
  | [_, k] =>
    let (db, _) := checkTTL db env.now k
    match getStr db k with
    | none => (.int 0, db)
    | some none => (wrongType, db)
    | some (some b) => (.int b.length, db)
  | _ => (errArgs, db)

def cmdAppend : Cmd := fun env db args =>
  match args with
  | [_, k, v] =>
    let (db, _) := checkTTL db env.now k
    match getStr db k with
    | some none => (wrongType, db)
    | old =>
      let newVal := (old.bind id).getD [] ++ v
      (.int newVal.length, db.setVal k (.str newVal))
  | _ => (errArgs, db)

/-! ### MGET, MSET, SETEX, SETNX -/

def mgetLoop (now : Int) : Db → List Bytes → List Reply → List Reply × Db
| db, [], acc => (acc.reverse, db)
| db, k :: ks, acc =>
  let (db, _) := checkTTL db now k
  let r := match getStr db k with | some (some b) => bulk b | _ => nil
  mgetLoop now db ks (r :: acc)

def cmdMGet : Cmd := fun env db args =>
  match args with
  | _ :: k :: ks =>
    let (rs, db) := mgetLoop env.now db (k :: ks) []
    (arrOf rs, db)
  | _ => (errArgs, db)

def msetLoop : Db → List Bytes → Db
| db, k :: v :: rest => msetLoop (db.setFresh k (.str v)) rest
| db, _ => db

def cmdMSet : Cmd := fun _ db args =>
  match args with
  | _ :: rest => if rest.length < 2 || rest.length % 2 != 0 then (errArgs, db) else (ok, msetLoop db rest)
  | _ => (errArgs, db)

def cmdSetEx : Cmd := fun env db args =>
  match args with
  | [_, k, secs, v] =>
    match parseI64 secs with
    | none => (errInt, db)
    | some s =>
      if s ≤ 0 || !inI64 (env.now + s) then (.err (ofStr "ERR invalid expire time in 'setex' command"), db)
      else (ok, db.put k { val := .str v, exp := some (env.now + s) })
  | _ => (errArgs, db)

def cmdSetNx : Cmd := fun env db args =>
  match args with
  | [_, k, v] =>
    let (db, _) := checkTTL db env.now k
    if db.has k then (.int 0, db) else (.int 1, db.setFresh k (.str v))
  | _ => (errArgs, db)

/-! ### INCR family -/

/-- add `delta` to the integer stored under `k` (missing = 0): exact result or rejected, never wrapped -/
def incrBy (env : Env) (db : Db) (k : Bytes) (delta : Int) : Reply × Db :=
  let (db, _) := checkTTL db env.now k
  match getStr db k with
  | some none => (wrongType, db)
  | old =>
    match (match old.bind id with | none => some 0 | some b => parseI64 b) with
    | none => (errInt, db)
    | some cur =>
      match StrOps.goIncrBy cur delta with
      | none => (errOverflow, db)
      | some n => (.int n, db.setVal k (.str (fmtInt n)))

def cmdIncr : Cmd := fun env db args => match args with | [_, k] => incrBy env db k 1 | _ => (errArgs, db)
def cmdDecr : Cmd := fun env db args => match args with | [_, k] => incrBy env db k (-1) | _ => (errArgs, db)
def cmdIncrBy : Cmd := fun env db args =>
  match args with
  | [_, k, d] => (match parseI64 d with | some d => incrBy env db k d | none => (errInt, db))
  | _ => (errArgs, db)
def cmdDecrBy : Cmd := fun env db args =>
  match args with
  | [_, k, d] =>
    match parseI64 d with
    | some d => if d == minI64 then (errOverflow, db) else incrBy env db k (-d)
    | none => (errInt, db)
  | _ => (errArgs, db)

/-- float syntax the checker accepts for a stored value: [sign] digits [. digits] [e [sign] digits] -/
def looksDecimal (b : Bytes) : Bool :=
  let b := match b with | c :: r => if c == 45 || c == 43 then r else b | [] => []
  let isDig := fun (c : UInt8) => 48 ≤ c && c ≤ 57
  let ip := b.takeWhile isDig
  let rest := b.dropWhile isDig
  let (fr, rest) := match rest with
    | c :: r => if c == 46 then (r.takeWhile isDig, r.dropWhile isDig) else ([], rest)
    | [] => ([], [])
  let mant := !ip.isEmpty || !fr.isEmpty
  match rest with
  | [] => mant
  | c :: ex =>
    if c == 101 || c == 69 then
      let ex := match ex with | s :: r => if s == 45 || s == 43 then r else ex | [] => []
      mant && !ex.isEmpty && ex.all isDig
    else false

/-- IEEE-754 double: biased exponent field -/
def flExp (bits : UInt64) : Nat := ((bits >>> 52) &&& 0x7ff).toNat

/-- a reply the implementation cannot have produced when it agrees with the model (checker mode: the observed reply was refused) -/
def rejectObs (obs : Option Reply) (why : String) : Reply :=
  match obs with
  | some (.err _) => .simple (ofStr ("MODEL-REJECTS " ++ why))
  | _ => .err (ofStr ("ERR MODEL-REJECTS " ++ why))

/-- a stored decimal whose magnitude may be within a factor 2^-3 of the double range: ≥ 300 integer digits or a decimal exponent ≥ 300
    (coarse on purpose: it only widens the cases in which an overflow error is admitted) -/
def hugeDecimal (b : Bytes) : Bool :=
  let b := match b with | c :: r => if c == 45 || c == 43 then r else b | [] => []
  let isDig := fun (c : UInt8) => 48 ≤ c && c ≤ 57
  let ip := b.takeWhile isDig
  let rest := (b.dropWhile isDig)
  let rest := match rest with | c :: r => if c == 46 then r.dropWhile isDig else rest | [] => []
  let ex := match rest with
    | c :: e => if c == 101 || c == 69 then (match e with | s :: r => if s == 43 then r else if s == 45 then [] else e | [] => []) else []
    | [] => []
  ip.length ≥ 300 || ex.length ≥ 4 || (ex.foldl (fun n c => n * 10 + (c.toNat - 48)) 0) + ip.length ≥ 300

/-- INCRBYFLOAT in checker mode: the arithmetic and the formatting are the implementation's (IEEE double, `FormatFloat`).  The model
    decides: the increment must be a finite float (`strconv.ParseFloat` bits shipped by the harness), the stored value must read as a
    decimal number; then the implementation's sum is adopted if it is a finite decimal.  An overflow error is admitted only when the
    increment is at least 2^1022 in magnitude or the stored value is `hugeDecimal` (the sum can then leave the double range). -/
def cmdIncrByFloat : Cmd := fun env db args =>
  match args with
  | [_, k, _d] =>
    match env.fl 2 with
    | none => (errFloat, db)
    | some bits =>
      let (db, _) := checkTTL db env.now k
      match getStr db k with
      | some none => (wrongType, db)
      | old =>
        let curOk := match old.bind id with | none => true | some b => looksDecimal b
        if !curOk then (errFloat, db)
        else if flExp bits == 2047 then (.err (ofStr "ERR increment would produce NaN or Infinity"), db)
        else match env.obs with
          | some (.bulk (some r)) =>
            if looksDecimal r then (bulk r, db.setVal k (.str r)) else (rejectObs env.obs "INCRBYFLOAT result is not a finite decimal", db)
          | some (.err e) =>
            let curHuge := match old.bind id with | none => false | some b => hugeDecimal b
            if (flExp bits ≥ 2045 || curHuge) && !isWrongType e then (.err e, db) else (rejectObs env.obs "INCRBYFLOAT must succeed", db)
          | _ => (rejectObs env.obs "INCRBYFLOAT answers a bulk string", db)
  | _ => (errArgs, db)

/-! ### keys.go -/

def delLoop (now : Int) : Db → List Bytes → Nat → Nat × Db
| db, [], n => (n, db)
| db, k :: ks, n =>
  let (db, _) := checkTTL db now k
  if db.has k then delLoop now (db.del k) ks (n + 1) else delLoop now db ks n

def cmdDel : Cmd := fun env db args =>
  match args with
  | _ :: k :: ks => let (n, db) := delLoop env.now db (k :: ks) 0; (.int n, db)
  | _ => (errArgs, db)

def existsLoop (now : Int) : Db → List Bytes → Nat → Nat × Db
| db, [], n => (n, db)
| db, k :: ks, n =>
  let (db, _) := checkTTL db now k
  existsLoop now db ks (if db.has k then n + 1 else n)

def cmdExists : Cmd := fun env db args =>
  match args with
  | _ :: k :: ks => let (n, db) := existsLoop env.now db (k :: ks) 0; (.int n, db)
  | _ => (errArgs, db)

def cmdKeys : Cmd := fun env db args =>
  match args with
  | [_, pat] =>
    let db := live db env.now
    (bulks (sortBytes (db.keys.filter fun k => GlobEq.m pat k)), db)
  | _ => (errArgs, db)

def cmdExpire : Cmd := fun env db args =>
  match args with
  | _ :: k :: secs :: optl =>
    if optl.length > 1 then (errArgs, db) else
    match parseI64 secs with
    | none => (errInt, db)
    | some s =>
      let opt := lower (optl.headD [])
      if !(optl.isEmpty || opt == ofStr "nx" || opt == ofStr "xx" || opt == ofStr "gt" || opt == ofStr "lt") then
        (.err (ofStr "ERR Unsupported option"), db) else
      if !inI64 (env.now + s) then (.err (ofStr "ERR invalid expire time in 'expire' command"), db) else
      let (db, _) := checkTTL db env.now k
      match db.get k with
      | none => (.int 0, db)
      | some e =>
        let ttl := env.now + s
        let go : Bool :=
          if opt == ofStr "nx" then e.exp.isNone
          else if opt == ofStr "xx" then e.exp.isSome
          else if opt == ofStr "gt" then (match e.exp with | some d => ttl > d | none => false)
          else if opt == ofStr "lt" then (match e.exp with | some d => ttl < d | none => true)
          else true
        if go then (.int 1, db.put k { e with exp := some ttl }) else (.int 0, db)
  | _ => (errArgs, db)

def cmdPersist : Cmd := fun env db args =>
  match args with
  | [_, k] =>
    let (db, _) := checkTTL db env.now k
    match db.get k with
    | some e => if e.exp.isSome then (.int 1, db.put k { e with exp := none }) else (.int 0, db)
    | none => (.int 0, db)
  | _ => (errArgs, db)

def cmdTTL : Cmd := fun env db args =>
  match args with
  | [_, k] =>
    let (db, _) := checkTTL db env.now k
    match db.get k with
    | none => (.int (-2), db)
    | some e => (match e.exp with | none => (.int (-1), db) | some d => (.int (d - env.now), db))
  | _ => (errArgs, db)

def cmdType : Cmd := fun env db args =>
  match args with
  | [_, k] =>
    let (db, _) := checkTTL db env.now k
    match db.get k with
    | none => (.simple (ofStr "none"), db)
    | some e => (.simple (ofStr e.val.typeName), db)
  | _ => (errArgs, db)

def cmdRename : Cmd := fun env db args =>
  match args with
  | [_, old, new] =>
    let (db, _) := checkTTL db env.now old
    match db.get old with
    | none => (.err (ofStr "ERR no such key"), db)
    | some e => if old == new then (ok, db) else (ok, ((db.del old).del new).put new e)
  | _ => (errArgs, db)

def cmdPing : Cmd := fun _ db args =>
  match args with
  | [_] => (.simple (ofStr "PONG"), db)
  | [_, m] => (bulk m, db)
  | _ => (errArgs, db)

def stringKeyTable : List (String × Cmd) := [
  ("set", cmdSet), ("get", cmdGet), ("getrange", cmdGetRange), ("setrange", cmdSetRange), ("mget", cmdMGet), ("mset", cmdMSet),
  ("setex", cmdSetEx), ("setnx", cmdSetNx), ("strlen", cmdStrLen), ("incr", cmdIncr), ("incrby", cmdIncrBy), ("decr", cmdDecr),
  ("decrby", cmdDecrBy), ("incrbyfloat", cmdIncrByFloat), ("append", cmdAppend),
  ("ping", cmdPing), ("del", cmdDel), ("exists", cmdExists), ("keys", cmdKeys), ("expire", cmdExpire), ("persist", cmdPersist),
  ("ttl", cmdTTL), ("type", cmdType), ("rename", cmdRename)]

end Exec
