import RedisGoModel.Exec.Footprint
/-! # The lock ACQUISITION ORDER of every command of the table (C13 / C05) — model file, core Lean only, linked into the driver

`Exec.footprint` / `Exec.lockPlan` say WHICH stripes a command locks.  This file says in which BLOCKS and in which ORDER, derived from the
lock plan exactly as `memdb/dblock.go` and the executors derive it, for an arbitrary stripe function `stripe : Bytes → Nat`
(`Locks.GetKeyPos`; keys may collide):

* `Lock(k)` / `RLock(k)` — one block holding the single stripe `stripe k`;
* `LockMulti(keys)` / `RLockMulti(keys)` — ONE block: the stripe positions are collected in a set (duplicates and colliding keys
  collapse), sorted ascending (`sortedLockPoses` = `SetOps.lockPoses`), acquired in that order, released together;
* `CheckTTL(k)` — its own short blocks BEFORE the executor's block: a read-locked look at the deadline and, only if it has passed, a
  write-locked re-check + delete (`ttl`).  Many executors return at once when `CheckTTL` answers "expired" (`ttlStop`; the list is
  `stopOnExpired`, read off the `if !m.CheckTTL(key) { return … }` lines), the others go on to their block whatever it answers;
* the per-key loops take and release one stripe at a time: DEL `Lock(k)…UnLock(k)` per key (no `CheckTTL`), MGET `CheckTTL(k); RLock(k)…`
  per key, EXISTS the same but skipping the read block of a key `CheckTTL` found expired, BLPOP/BRPOP polling rounds
  (`CheckTTL(k); Lock(k)…UnLock(k)` key after key, stopping at the first key that serves or holds another type, repeated every 100 ms
  until the timeout) — successive single-stripe blocks, NOT one multi-block;
* RENAME: `CheckTTL(old)` (stop if expired), `LockMulti[old,new]`; LMOVE: `CheckTTL(src)` (stop), `CheckTTL(dst)`, `LockMulti`; SMOVE:
  `CheckTTL(dst)`, `CheckTTL(src)` (stop), `LockMulti`; S*STORE: `CheckTTL` of destination and every source, `LockMulti` of all;
  SDIFF/SINTER: `CheckTTL` of every key, `RLockMulti` of all; SUNION: `CheckTTL` of every key, `RLockMulti` of those it found live (no
  block at all if none); MSET: `LockMulti` only; SETEX: `Lock` only;
* `zrange`, `zrank`, `xrange` have a read footprint but their executors take the WRITE lock: the program says W (it is the code's order
  that is modelled here).

What depends on the keyspace (did `CheckTTL` find the deadline passed? which BLPOP key served?) is a CHOICE in the program (`LProg.alt`):
`lockProg stripe env args rounds` is the regular expression of all block sequences the executor can produce; `LProg.runs` enumerates
them, `LProg.accepts` decides membership (`accepts_iff_mem_runs`, Props/C13Table.lean) — the driver evaluates it on the blocks of every
traced command under the observed stripe table.  After `CheckTTL`'s write block both continuations are allowed (deleted ⇒ "expired";
rewritten by another client in between ⇒ "live").  `rounds` bounds the number of FULL polling rounds of BLPOP/BRPOP before the last
one (irrelevant for every other command).  KEYS (`whole`) has no program here: its blocks are single-stripe blocks of the keys that
exist, which the argument vector does not name (`Props/C13Table.lean` `CmdRun` treats it separately).

`lockSeq` is the acquisition sequence (stripe, write mode) along the path on which no deadline has passed and the first key serves. -/
namespace Exec
open Resp (Reply Bytes)

/-- one lock scope: write mode, the stripes in acquisition order -/
abbrev LBlock := Bool × List Nat

/-- the block sequences a command can produce, as a regular expression over blocks -/
inductive LProg
| eps
| blk (w : Bool) (ps : List Nat)
| alt (a b : LProg)
| seq (a b : LProg)

/-- every block sequence of the program -/
def LProg.runs : LProg → List (List LBlock)
| .eps => [[]]
| .blk w ps => [[(w, ps)]]
| .alt a b => a.runs ++ b.runs
| .seq a b => a.runs.flatMap fun x => b.runs.map fun y => x ++ y

/-- what can remain of `l` after the program has consumed one of its runs from the front -/
def LProg.rem : LProg → List LBlock → List (List LBlock)
| .eps, l => [l]
| .blk _ _, [] => []
| .blk w ps, b :: r => if b == (w, ps) then [r] else []
| .alt a b, l => a.rem l ++ b.rem l
| .seq a b, l => (a.rem l).flatMap b.rem

/-- is `l` one of the program's block sequences? -/
def LProg.accepts (p : LProg) (l : List LBlock) : Bool := (p.rem l).any List.isEmpty

/-- the leftmost run: no deadline has passed, the first alternative everywhere -/
def LProg.main : LProg → List LBlock
| .eps => []
| .blk w ps => [(w, ps)]
| .alt a _ => a.main
| .seq a b => a.main ++ b.main

/-! ### the building blocks -/

/-- `CheckTTL(k)` whose answer the executor ignores: the look, and perhaps the delete block -/
def ttl (p : Nat) : LProg := .seq (.blk false [p]) (.alt .eps (.blk true [p]))

/-- `if !CheckTTL(k) { return }` followed by `main`: after the delete block the executor returns (deleted) or goes on (the key was
    rewritten between the look and the re-check) -/
def ttlStop (p : Nat) (main : LProg) : LProg := .seq (.blk false [p]) (.alt main (.seq (.blk true [p]) (.alt .eps main)))

/-- `LockMulti` / `RLockMulti`: the sorted set of stripe positions; no block when there is no key -/
def multi (w : Bool) (stripe : Bytes → Nat) (keys : List Bytes) : LProg :=
  match SetOps.lockPoses stripe keys with
  | [] => .eps
  | p :: ps => .blk w (p :: ps)

def seqAll : List LProg → LProg
| [] => .eps
| p :: ps => .seq p (seqAll ps)

/-- SUNION: `CheckTTL` of every key, then `RLockMulti` of the keys found live (`acc`, newest first) -/
def unionProg (stripe : Bytes → Nat) : List Bytes → List Bytes → LProg
| [], acc => multi false stripe acc.reverse
| k :: ks, acc =>
  .seq (.blk false [stripe k])
    (.alt (unionProg stripe ks (k :: acc))
      (.seq (.blk true [stripe k]) (.alt (unionProg stripe ks acc) (unionProg stripe ks (k :: acc)))))

/-- one polling visit of BLPOP/BRPOP to a key -/
def bpopItem (stripe : Bytes → Nat) (k : Bytes) : LProg := .seq (ttl (stripe k)) (.blk true [stripe k])

/-- the visits of a round that stops at some key: every non-empty prefix of the keys -/
def bpopPrefixes (stripe : Bytes → Nat) : List Bytes → LProg
| [] => .eps
| [k] => bpopItem stripe k
| k :: k' :: ks => .seq (bpopItem stripe k) (.alt .eps (bpopPrefixes stripe (k' :: ks)))

/-- at most `rounds` full rounds, then a last round that may stop early -/
def bpopProg (stripe : Bytes → Nat) (ks : List Bytes) : Nat → LProg
| 0 => bpopPrefixes stripe ks
| r + 1 => .alt (bpopPrefixes stripe ks) (.seq (seqAll (ks.map (bpopItem stripe))) (bpopProg stripe ks r))

/-! ### which executor has which shape (read off `/repo/memdb/*.go`; the tie compares every traced command with the result) -/

/-- executors that return at once when `CheckTTL` of their key answers "expired" -/
def stopOnExpired : List String := ["expire", "persist", "ttl", "type",
  "hexists", "hget", "hgetall", "hkeys", "hlen", "hmget", "hrandfield", "hstrlen", "hvals",
  "lindex", "llen", "lpop", "rpop", "lpos", "lrange", "lrem", "lset", "ltrim",
  "scard", "sismember", "smembers", "spop", "srandmember", "srem"]

/-- read footprint, but the executor takes the write lock -/
def writeLocksForRead : List String := ["zrange", "zrank", "xrange"]

def isCmd (name : Bytes) (l : List String) : Bool := l.any fun n => ofStr n == name

/-- **the lock program of a call**: all block sequences the Go executor of this argument vector can produce under `stripe` -/
def lockProg (stripe : Bytes → Nat) (env : Env) (args : List Bytes) (rounds : Nat := 0) : LProg :=
  let name := lower (args.headD [])
  match lockPlan env args with
  | .none => .eps
  | .whole => .eps
  | .keys ks w =>
    if isCmd name ["del"] then seqAll (ks.map fun k => .blk true [stripe k])
    else if isCmd name ["mget"] then seqAll (ks.map fun k => .seq (ttl (stripe k)) (.blk false [stripe k]))
    else if isCmd name ["exists"] then seqAll (ks.map fun k => ttlStop (stripe k) (.blk false [stripe k]))
    else if isCmd name ["blpop", "brpop"] then bpopProg stripe ks rounds
    else if isCmd name ["mset"] then multi true stripe ks
    else if isCmd name ["setex"] then seqAll (ks.map fun k => .blk true [stripe k])
    else if isCmd name ["rename"] then
      (match ks with | old :: _ => ttlStop (stripe old) (multi true stripe ks) | [] => .eps)
    else if isCmd name ["lmove"] then
      (match ks with | [src, dst] => ttlStop (stripe src) (.seq (ttl (stripe dst)) (multi true stripe ks)) | _ => .eps)
    else if isCmd name ["smove"] then
      (match ks with | [src, dst] => .seq (ttl (stripe dst)) (ttlStop (stripe src) (multi true stripe ks)) | _ => .eps)
    else if isCmd name ["sunionstore", "sinterstore", "sdiffstore"] then .seq (seqAll (ks.map fun k => ttl (stripe k))) (multi true stripe ks)
    else if isCmd name ["sinter", "sdiff"] then .seq (seqAll (ks.map fun k => ttl (stripe k))) (multi false stripe ks)
    else if isCmd name ["sunion"] then unionProg stripe ks []
    else
      -- the single-key executors: CheckTTL(k), then one Lock(k) / RLock(k) block
      let mode := w || isCmd name writeLocksForRead
      match ks with
      | [k] => if isCmd name stopOnExpired then ttlStop (stripe k) (.blk mode [stripe k]) else .seq (ttl (stripe k)) (.blk mode [stripe k])
      | _ => .eps

/-- **the acquisition sequence of a call** (stripe, write mode), block after block, on the path on which no deadline has passed and the
    first BLPOP key serves -/
def lockSeq (stripe : Bytes → Nat) (env : Env) (args : List Bytes) : List (Nat × Bool) :=
  (lockProg stripe env args).main.flatMap fun b => b.2.map fun p => (p, b.1)

end Exec
