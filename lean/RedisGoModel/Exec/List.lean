import RedisGoModel.Exec.Core
import RedisGoModel.Ds.ListOps
/-! List commands (memdb/list.go, memdb/list_struct.go) on the shared keyspace model, with the semantics of the Redis command
    reference.  A list value is its element sequence, head first; the cached `Len` of the Go structure does not exist here (the
    dump hook's self-check ties `Len` and both link directions to the sequence).  Structure follows the Go executors: arity test,
    argument parsing, `CheckTTL`, lookup, type test, effect.  A list that becomes empty ceases to exist (`putList`). -/
namespace Exec
open Resp (Reply Bytes)

/-- the list under `k`, after the expiry check: `none` = missing, `some none` = another type -/
def getList (db : Db) (k : Bytes) : Option (Option (List Bytes)) :=
  match db.get k with
  | none => none
  | some e => match e.val with | .list l => some (some l) | _ => some none

/-- store the new element sequence (deadline kept); the empty sequence deletes the key together with its deadline -/
def putList (db : Db) (k : Bytes) (l : List Bytes) : Db :=
  match l with
  | [] => db.del k
  | _ :: _ => db.setVal k (.list l)

def errNoKey : Reply := .err (ofStr "ERR no such key")
def errIndex : Reply := .err (ofStr "ERR index out of range")
def errPositive : Reply := .err (ofStr "ERR value is out of range, must be positive")
def nilArr : Reply := .arr none

/-! ### LPUSH, RPUSH, LPUSHX, RPUSHX -/

/-- LPUSH inserts the arguments one after the other at the head, so the last argument ends up first -/
def pushed (left : Bool) (old vs : List Bytes) : List Bytes := if left then vs.reverse ++ old else old ++ vs

def pushGen (left xOnly : Bool) : Cmd := fun env db args =>
  match args with
  | _ :: k :: v :: vs =>
    let db := (checkTTL db env.now k).1
    match getList db k with
    | some none => (wrongType, db)
    | none =>
      if xOnly then (.int 0, db)
      else let l := pushed left [] (v :: vs); (.int l.length, db.setVal k (.list l))
    | some (some old) => let l := pushed left old (v :: vs); (.int l.length, db.setVal k (.list l))
  | _ => (errArgs, db)

def cmdLPush : Cmd := pushGen true false
def cmdRPush : Cmd := pushGen false false
def cmdLPushX : Cmd := pushGen true true
def cmdRPushX : Cmd := pushGen false true

/-! ### LPOP, RPOP -/

/-- the `n` elements popped (in the order they are popped and replied) and what remains -/
def popN (left : Bool) (n : Nat) (l : List Bytes) : List Bytes × List Bytes :=
  if left then (l.take n, l.drop n) else ((l.reverse.take n), l.take (l.length - n))

def popGen (left : Bool) : Cmd := fun env db args =>
  let run (k : Bytes) (cnt : Option Nat) : Reply × Db :=
    let db := (checkTTL db env.now k).1
    match getList db k with
    | none => ((match cnt with | none => nil | some _ => nilArr), db)
    | some none => (wrongType, db)
    | some (some l) =>
      match cnt with
      | none =>
        let (out, rest) := popN left 1 l
        ((match out with | x :: _ => bulk x | [] => nil), putList db k rest)
      | some n =>
        let (out, rest) := popN left n l
        (bulks out, putList db k rest)
  match args with
  | [_, k] => run k none
  | [_, k, c] =>
    match parseI64 c with
    | some (.ofNat n) => run k (some n)
    | _ => (errPositive, db)
  | _ => (errArgs, db)

def cmdLPop : Cmd := popGen true
def cmdRPop : Cmd := popGen false

/-! ### LLEN, LINDEX, LSET, LRANGE, LTRIM, LREM -/

def cmdLLen : Cmd := fun env db args =>
  match args with
  | [_, k] =>
    let db := (checkTTL db env.now k).1
    match getList db k with
    | none => (.int 0, db)
    | some none => (wrongType, db)
    | some (some l) => (.int l.length, db)
  | _ => (errArgs, db)

def cmdLIndex : Cmd := fun env db args =>
  match args with
  | [_, k, i] =>
    match parseI64 i with
    | none => (errInt, db)
    | some i =>
      let db := (checkTTL db env.now k).1
      match getList db k with
      | none => (nil, db)
      | some none => (wrongType, db)
      | some (some l) => (.bulk (ListOps.specIndex l i), db)
  | _ => (errArgs, db)

/-- the position LSET/LINDEX address: negative indexes count from the tail; `none` = out of range -/
def normIndex (n : Nat) (i : Int) : Option Nat :=
  let j := if i < 0 then (n : Int) + i else i
  if j < 0 ∨ j ≥ n then none else some j.toNat

def cmdLSet : Cmd := fun env db args =>
  match args with
  | [_, k, i, v] =>
    match parseI64 i with
    | none => (errInt, db)
    | some i =>
      let db := (checkTTL db env.now k).1
      match getList db k with
      | none => (errNoKey, db)
      | some none => (wrongType, db)
      | some (some l) =>
        match normIndex l.length i with
        | none => (errIndex, db)
        | some j => (ok, db.setVal k (.list (l.set j v)))
  | _ => (errArgs, db)

def cmdLRange : Cmd := fun env db args =>
  match args with
  | [_, k, s, e] =>
    match parseI64 s, parseI64 e with
    | some s, some e =>
      let db := (checkTTL db env.now k).1
      match getList db k with
      | none => (bulks [], db)
      | some none => (wrongType, db)
      | some (some l) => (bulks (ListOps.specRange l s e), db)
    | _, _ => (errInt, db)
  | _ => (errArgs, db)

def cmdLTrim : Cmd := fun env db args =>
  match args with
  | [_, k, s, e] =>
    match parseI64 s, parseI64 e with
    | some s, some e =>
      let db := (checkTTL db env.now k).1
      match getList db k with
      | none => (ok, db)
      | some none => (wrongType, db)
      | some (some l) => (ok, putList db k (ListOps.specRange l s e))
    | _, _ => (errInt, db)
  | _ => (errArgs, db)

/-- LREM: `count > 0` removes the first `count` occurrences walking from the head, `count < 0` the first `-count` walking from
    the tail, `0` all of them -/
def lrem (l : List Bytes) (v : Bytes) (count : Int) : List Bytes :=
  if count = 0 then l.filter (· ≠ v)
  else if count > 0 then ListOps.remFirst v count.toNat l
  else (ListOps.remFirst v (-count).toNat l.reverse).reverse

def cmdLRem : Cmd := fun env db args =>
  match args with
  | [_, k, c, v] =>
    match parseI64 c with
    | none => (errInt, db)
    | some c =>
      let db := (checkTTL db env.now k).1
      match getList db k with
      | none => (.int 0, db)
      | some none => (wrongType, db)
      | some (some l) =>
        let l' := lrem l v c
        (.int (l.length - l'.length : Nat), putList db k l')
  | _ => (errArgs, db)

/-! ### LPOS -/

structure PosOpts where
  rank : Int := 1
  count : Option Nat := none     -- `some 0` = all matches
  maxlen : Nat := 0              -- 0 = no limit

/-- the option scan (`for i := 3; i < len(cmd); i += 2`); a repeated option overrides the earlier one -/
def parsePosOpts : List Bytes → PosOpts → Option PosOpts
| [], o => some o
| [_], _ => none
| w :: v :: rest, o =>
  let lw := lower w
  match parseI64 v with
  | none => none
  | some n =>
    if lw == ofStr "rank" then (if n == 0 then none else parsePosOpts rest { o with rank := n })
    else if lw == ofStr "count" then (if n < 0 then none else parsePosOpts rest { o with count := some n.toNat })
    else if lw == ofStr "maxlen" then (if n < 0 then none else parsePosOpts rest { o with maxlen := n.toNat })
    else none

/-- one pass over the scanned elements as the Redis loop does it: `idx` = position of the current element in scan order,
    `m` = matches seen so far; a match is reported once `m ≥ rank`; stop when `limit` (0 = none) matches were reported -/
def lposLoop (v : Bytes) (rank limit : Nat) : List Bytes → Nat → Nat → List Nat → List Nat
| [], _, _, acc => acc.reverse
| x :: xs, idx, m, acc =>
  if x == v then
    if m + 1 ≥ rank then
      if limit != 0 && (m + 1) - rank + 1 ≥ limit then (idx :: acc).reverse
      else lposLoop v rank limit xs (idx + 1) (m + 1) (idx :: acc)
    else lposLoop v rank limit xs (idx + 1) (m + 1) acc
  else lposLoop v rank limit xs (idx + 1) m acc

/-- head-based positions reported by LPOS: `rank < 0` scans from the tail, MAXLEN bounds the number of elements compared,
    `limit` = how many matches are wanted (0 = all) -/
def lposScan (l : List Bytes) (v : Bytes) (rank : Int) (maxlen limit : Nat) : List Nat :=
  let scanned := if rank < 0 then l.reverse else l
  let scanned := if maxlen == 0 then scanned else scanned.take maxlen
  let hits := lposLoop v rank.natAbs limit scanned 0 0 []
  if rank < 0 then hits.map (fun i => l.length - 1 - i) else hits

def cmdLPos : Cmd := fun env db args =>
  match args with
  | _ :: k :: v :: opts =>
    match parsePosOpts opts {} with
    | none => (errSyntax, db)
    | some o =>
      let db := (checkTTL db env.now k).1
      match getList db k with
      | none => ((match o.count with | none => nil | some _ => bulks []), db)
      | some none => (wrongType, db)
      | some (some l) =>
        match o.count with
        | none =>
          ((match lposScan l v o.rank o.maxlen 1 with | i :: _ => .int i | [] => nil), db)
        | some c => (arrOf ((lposScan l v o.rank o.maxlen c).map fun (i : Nat) => .int i), db)
  | _ => (errArgs, db)

/-! ### LMOVE -/

def parseDir (w : Bytes) : Option Bool :=
  let lw := lower w
  if lw == ofStr "left" then some true else if lw == ofStr "right" then some false else none

def popOne (left : Bool) (l : List Bytes) : Option (Bytes × List Bytes) :=
  if left then (match l with | x :: r => some (x, r) | [] => none)
  else (match l.reverse with | x :: r => some (x, r.reverse) | [] => none)

def pushOne (left : Bool) (l : List Bytes) (x : Bytes) : List Bytes := if left then x :: l else l ++ [x]

def cmdLMove : Cmd := fun env db args =>
  match args with
  | [_, src, dst, wf, wt] =>
    match parseDir wf, parseDir wt with
    | some fromLeft, some toLeft =>
      let db := (checkTTL db env.now src).1
      let db := (checkTTL db env.now dst).1
      match getList db src with
      | none => (nil, db)
      | some none => (wrongType, db)
      | some (some ls) =>
        match getList db dst with
        | some none => (wrongType, db)
        | od =>
          match popOne fromLeft ls with
          | none => (nil, db)                      -- an empty list is never stored (`list_never_empty`)
          | some (x, rest) =>
            if src == dst then
              -- rotation: the element is pushed back before the emptiness test, so key and deadline survive
              (bulk x, db.setVal dst (.list (pushOne toLeft rest x)))
            else
              let db := putList db src rest
              let ld := match od with | some (some l) => l | _ => []
              (bulk x, db.setVal dst (.list (pushOne toLeft ld x)))
    | _, _ => (errSyntax, db)
  | _ => (errArgs, db)

/-! ### BLPOP, BRPOP (sequential reading: served at once if an element is available, otherwise nil at the timeout) -/

/-- the keys are inspected in argument order; the first one holding a list serves the pop; a key of another type is an error -/
def bpopScan (left : Bool) (now : Int) : Db → List Bytes → Option Reply × Db
| db, [] => (none, db)
| db, k :: ks =>
  let db := (checkTTL db now k).1
  match getList db k with
  | none => bpopScan left now db ks
  | some none => (some wrongType, db)
  | some (some l) =>
    match popOne left l with
    | none => bpopScan left now db ks
    | some (x, rest) => (some (arrOf [bulk k, bulk x]), putList db k rest)

/-- sign and zero tests on the IEEE-754 bit pattern of the timeout argument -/
def f64Negative (bits : UInt64) : Bool := bits > 0x8000000000000000
def f64Zero (bits : UInt64) : Bool := bits == 0 || bits == 0x8000000000000000
def f64Finite (bits : UInt64) : Bool := (bits >>> 52) &&& 0x7ff != 0x7ff

def bpopGen (left : Bool) : Cmd := fun env db args =>
  match args with
  | _ :: k :: rest =>
    match (k :: rest).reverse with
    | _ :: k1 :: ksRev =>
      match env.fl (args.length - 1) with
      | none => (.err (ofStr "ERR timeout is not a float or out of range"), db)
      | some t =>
        if !f64Finite t then (.err (ofStr "ERR timeout is not a float or out of range"), db)
        else if f64Negative t then (.err (ofStr "ERR timeout is negative"), db)
        else
          match bpopScan left env.now db (k1 :: ksRev).reverse with
          | (some r, db) => (r, db)
          | (none, db) =>
            -- nothing to pop: with a positive timeout the reply is the nil array once it has elapsed; timeout 0 waits for a
            -- producer, which a sequential program does not have (no reply can match)
            if f64Zero t then (.err (ofStr "MODEL-REJECTS a reply: BLPOP/BRPOP with timeout 0 and nothing to pop blocks forever"), db)
            else (nilArr, db)
    | _ => (errArgs, db)
  | _ => (errArgs, db)

def cmdBLPop : Cmd := bpopGen true
def cmdBRPop : Cmd := bpopGen false

def listTable : List (String × Cmd) := [
  ("llen", cmdLLen), ("lindex", cmdLIndex), ("lpos", cmdLPos), ("lpop", cmdLPop), ("rpop", cmdRPop), ("lpush", cmdLPush),
  ("lpushx", cmdLPushX), ("rpush", cmdRPush), ("rpushx", cmdRPushX), ("lset", cmdLSet), ("lrem", cmdLRem), ("ltrim", cmdLTrim),
  ("lrange", cmdLRange), ("lmove", cmdLMove), ("blpop", cmdBLPop), ("brpop", cmdBRPop)]

end Exec
