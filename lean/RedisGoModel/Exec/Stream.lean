import RedisGoModel.Exec.Core
/-! Stream commands (memdb/stream.go, memdb/stream_struct.go) on the shared keyspace model: XADD and XRANGE with the
    semantics of the Redis command reference.  Structure follows the Go executors: arity test, option/ID scan,
    `CheckTTL`, lookup, type test, effect.

    A stream is `Value.stream entries last`: the entries oldest first and the greatest ID ever appended (`last`, Redis'
    `last_id`; `0-0` for a stream that never held an entry).  `last` survives trimming, so IDs stay strictly increasing
    over the whole life of the key even when MAXLEN 0 / MINID empties it.  IDs are pairs of unsigned 64-bit numbers.

    `XADD key *`: the clock is read in milliseconds by the implementation, the harness only brackets it in seconds, so the
    auto ID is handled in checker mode (`autoOk`): the reported ID is adopted if it is the one the rule of the command
    reference produces for *some* clock reading in the bracket.  `ms-*` and explicit IDs are deterministic.

    `~` (approximate trimming) lets Redis trim less than asked; trimming exactly is one of the permitted outcomes and is
    what the model prescribes.  `LIMIT n` (only with `~`, n > 0) caps the number of evicted entries. -/
namespace Exec
open Resp (Reply Bytes)

def maxU64 : Nat := 18446744073709551615

/-! ### IDs -/

def StreamId.lt (a b : StreamId) : Prop := a.ms < b.ms ∨ (a.ms = b.ms ∧ a.seq < b.seq)
def StreamId.le (a b : StreamId) : Prop := a.ms < b.ms ∨ (a.ms = b.ms ∧ a.seq ≤ b.seq)
instance (a b : StreamId) : Decidable (a.lt b) := by unfold StreamId.lt; infer_instance
instance (a b : StreamId) : Decidable (a.le b) := by unfold StreamId.le; infer_instance

def idZero : StreamId := ⟨0, 0⟩
def idMax : StreamId := ⟨maxU64, maxU64⟩

/-- `strconv.ParseUint(s, 10, 64)`: one or more decimal digits, value below 2^64 -/
def parseU64 (b : Bytes) : Option Nat := (Resp.parseNat b).bind fun n => if n ≤ maxU64 then some n else none

/-- `fmt.Sprintf("%d-%d", ms, seq)` -/
def fmtId (i : StreamId) : Bytes := Resp.dec i.ms ++ 45 :: Resp.dec i.seq

/-- split at the first `-` -/
def splitDash : Bytes → Bytes × Option Bytes
| [] => ([], none)
| c :: r => if c == 45 then ([], some r) else let (a, t) := splitDash r; (c :: a, t)

inductive IdReq
| auto                      -- `*`
| autoSeq (ms : Nat)        -- `ms-*`
| explicit (id : StreamId)  -- `ms-seq`, or `ms` (= `ms-0`)
deriving DecidableEq

/-- the ID argument of XADD -/
def parseAddId (b : Bytes) : Option IdReq :=
  if b == [42] then some .auto else
  match splitDash b with
  | (m, none) => (parseU64 m).map fun ms => .explicit ⟨ms, 0⟩
  | (m, some s) =>
    match parseU64 m with
    | none => none
    | some ms => if s == [42] then some (.autoSeq ms) else (parseU64 s).map fun q => .explicit ⟨ms, q⟩

/-- a complete or sequence-less ID (`missing` stands for an absent sequence part); no `*`, no `-`/`+` -/
def parseStrictId (b : Bytes) (missing : Nat) : Option StreamId :=
  match splitDash b with
  | (m, none) => (parseU64 m).map fun ms => ⟨ms, missing⟩
  | (m, some s) => match parseU64 m, parseU64 s with | some ms, some q => some ⟨ms, q⟩ | _, _ => none

/-- an interval bound of XRANGE: `(exclusive, id)`; `-` = 0-0, `+` = max-max, `(id` = exclusive (also `(-` and `(+`) -/
def parseBound (b : Bytes) (missing : Nat) : Option (Bool × StreamId) :=
  match b with
  | 40 :: r =>
    if r.isEmpty then none
    else if r == [45] then some (true, idZero)
    else if r == [43] then some (true, idMax)
    else (parseStrictId r missing).map fun i => (true, i)
  | _ =>
    if b == [45] then some (false, idZero)
    else if b == [43] then some (false, idMax)
    else (parseStrictId b missing).map fun i => (false, i)

/-! ### XADD: option scan -/

inductive Trim
| maxlen (n : Nat)
| minid (t : StreamId)

structure XaddOpts where
  nomk : Bool := false
  trim : Option Trim := none
  approx : Bool := false
  limit : Option Nat := none

/-- `[= | ~] threshold` after MAXLEN/MINID: `(approximate, threshold, remaining arguments)`; the modifier is only taken as
    such when a threshold can still follow -/
def takeThreshold (rest : List Bytes) : Option (Bool × Bytes × List Bytes) :=
  match rest with
  | [] => none
  | [v] => some (false, v, [])
  | m :: v :: rest' =>
    if m == [126] then some (true, v, rest') else if m == [61] then some (false, v, rest') else some (false, m, v :: rest')

theorem takeThreshold_lt {rest : List Bytes} {a : Bool} {v : Bytes} {r : List Bytes}
    (h : takeThreshold rest = some (a, v, r)) : r.length < rest.length := by
  unfold takeThreshold at h
  split at h
  · cases h
  · simp only [Option.some.injEq, Prod.mk.injEq] at h; obtain ⟨_, _, rfl⟩ := h; simp
  · split at h
    · simp only [Option.some.injEq, Prod.mk.injEq] at h; obtain ⟨_, _, rfl⟩ := h; simp; omega
    · split at h <;> (simp only [Option.some.injEq, Prod.mk.injEq] at h; obtain ⟨_, _, rfl⟩ := h; simp <;> omega)

/-- the scan of the arguments after the key: options in any order up to the ID, then the field/value list.
    `none` = an error reply (option without value, bad number, bad ID, two trimming strategies, …) -/
def parseXadd : List Bytes → XaddOpts → Option (XaddOpts × IdReq × List Bytes)
| [], _ => none
| w :: rest, o =>
  let lw := lower w
  if w == [42] then some (o, .auto, rest)
  else if lw == ofStr "maxlen" || lw == ofStr "minid" then
    if o.trim.isSome then none else
    match h : takeThreshold rest with
    | none => none
    | some (approx, v, rest') =>
      have : rest'.length < rest.length := takeThreshold_lt h
      if lw == ofStr "maxlen" then
        match parseI64 v with
        | some (.ofNat n) => parseXadd rest' { o with trim := some (.maxlen n), approx := approx }
        | _ => none
      else
        match parseStrictId v 0 with
        | some t => parseXadd rest' { o with trim := some (.minid t), approx := approx }
        | none => none
  else if lw == ofStr "limit" then
    match rest with
    | v :: rest' =>
      match parseI64 v with
      | some (.ofNat n) => if n ≤ 1000000 then parseXadd rest' { o with limit := some n } else none
      | _ => none
    | [] => none
  else if lw == ofStr "nomkstream" then parseXadd rest { o with nomk := true }
  else (parseAddId w).map fun r => (o, r, rest)
termination_by l => l.length
decreasing_by all_goals (simp_wf; try omega)

/-! ### XADD: ID assignment -/

/-- successor in the ID order -/
def incrId (i : StreamId) : Option StreamId :=
  if i.seq < maxU64 then some ⟨i.ms, i.seq + 1⟩ else if i.ms < maxU64 then some ⟨i.ms + 1, 0⟩ else none

/-- checker for an auto-generated ID reported by the implementation.  The clock reading `t` (ms) lies in
    `[now·1000 − 1000, (now+2)·1000)`.  Rule of the reference: `t > last.ms` ⇒ `t-0`; otherwise the successor of `last`. -/
def autoOk (now : Int) (last id : StreamId) : Bool :=
  let lo : Int := now * 1000 - 1000
  let hi : Int := (now + 2) * 1000
  (decide (last.ms < id.ms) && id.seq == 0 && decide (lo ≤ (id.ms : Int)) && decide ((id.ms : Int) < hi) && decide (id.ms ≤ maxU64))
  || (decide (lo ≤ (last.ms : Int)) && incrId last == some id)

/-- the ID an XADD gets on a stream whose greatest ID so far is `last`; `none` = rejected -/
def nextId (env : Env) (last : StreamId) : IdReq → Option StreamId
| .explicit id => if last.lt id then some id else none
| .autoSeq ms =>
  if ms < last.ms then none
  else if ms = last.ms then (if last.seq < maxU64 then some ⟨ms, last.seq + 1⟩ else none)
  else some ⟨ms, 0⟩
| .auto =>
  match env.obs with
  | some (.bulk (some b)) =>
    match parseStrictId b 0 with
    | some id => if fmtId id == b && autoOk env.now last id then some id else none
    | none => none
  | _ => none

/-! ### trimming -/

/-- how many of the oldest entries lie beyond the bound -/
def trimNeed (s : List StreamEntry) : Trim → Nat
| .maxlen n => s.length - n
| .minid t => (s.takeWhile fun e => decide (e.id.lt t)).length

/-- the eviction cap: only `~ … LIMIT n` with n > 0 limits -/
def evictCap (o : XaddOpts) : Option Nat :=
  match o.limit with
  | some n => if o.approx && n > 0 then some n else none
  | none => none

def applyTrim (o : XaddOpts) (s : List StreamEntry) : List StreamEntry :=
  match o.trim with
  | none => s
  | some t =>
    let need := trimNeed s t
    s.drop (match evictCap o with | some c => min need c | none => need)

/-! ### XADD -/

/-- the stream under `k`: `none` = missing, `some none` = another type -/
def getStream (db : Db) (k : Bytes) : Option (Option (List StreamEntry × StreamId)) :=
  match db.get k with
  | none => none
  | some e => match e.val with | .stream s last => some (some (s, last)) | _ => some none

def errStreamId : Reply := .err (ofStr "ERR Invalid stream ID specified as stream command argument")
def errNotGreater : Reply := .err (ofStr "ERR The ID specified in XADD is equal or smaller than the target stream top item")

/-- append to the stream `(s, last)` (for a missing key: `([], 0-0)`), trim, store, answer the ID -/
def xaddTo (env : Env) (db : Db) (k : Bytes) (o : XaddOpts) (req : IdReq) (fields : List Bytes)
    (s : List StreamEntry) (last : StreamId) : Reply × Db :=
  if last == idMax then (.err (ofStr "ERR The stream has exhausted the last possible ID, unable to add more items"), db) else
  match nextId env last req with
  | none =>
    if req == .auto then (.simple (ofStr "MODEL-REJECTS the auto-generated ID"), db) else (errNotGreater, db)
  | some id => (bulk (fmtId id), db.setVal k (.stream (applyTrim o (s ++ [⟨id, fields⟩])) id))

def cmdXAdd : Cmd := fun env db args =>
  match args with
  | _ :: k :: rest =>
    if rest.length < 3 then (errArgs, db) else
    match parseXadd rest {} with
    | none => (errSyntax, db)
    | some (o, req, fields) =>
      if o.limit.isSome && !o.approx then (errSyntax, db) else
      if fields.length < 2 || fields.length % 2 == 1 then (errArgs, db) else
      if req == .explicit idZero then (.err (ofStr "ERR The ID specified in XADD must be greater than 0-0"), db) else
      let (db, _) := checkTTL db env.now k
      match getStream db k with
      | some none => (wrongType, db)
      | none => if o.nomk then (nil, db) else xaddTo env db k o req fields [] idZero
      | some (some (s, last)) => xaddTo env db k o req fields s last
  | _ => (errArgs, db)

/-! ### XRANGE -/

structure Range where
  loEx : Bool
  lo : StreamId
  hiEx : Bool
  hi : StreamId

def Range.aboveLo (r : Range) (i : StreamId) : Bool := if r.loEx then decide (r.lo.lt i) else decide (r.lo.le i)
def Range.belowHi (r : Range) (i : StreamId) : Bool := if r.hiEx then decide (i.lt r.hi) else decide (i.le r.hi)
def Range.mem (r : Range) (i : StreamId) : Bool := r.aboveLo i && r.belowHi i

/-- `Stream.Range`: one pass over the ordered entries — skip up to the first entry not below the start, stop at the first
    entry beyond the end -/
def rangeScan (r : Range) (s : List StreamEntry) : List StreamEntry :=
  (s.dropWhile fun e => !r.aboveLo e.id).takeWhile fun e => r.belowHi e.id

/-- `[COUNT n]…` after the bounds: `none` = syntax error; a negative count is 0 -/
def parseCount : List Bytes → Option Nat → Option (Option Nat)
| [], c => some c
| [_], _ => none
| w :: v :: rest, _ =>
  if lower w == ofStr "count" then
    match parseI64 v with
    | some n => parseCount rest (some n.toNat)
    | none => none
  else none

def entryReply (e : StreamEntry) : Reply := arrOf [bulk (fmtId e.id), bulks e.fields]

def cmdXRange : Cmd := fun env db args =>
  match args with
  | _ :: k :: sB :: eB :: opts =>
    match parseBound sB 0, parseBound eB maxU64 with
    | some (sx, lo), some (ex, hi) =>
      if sx && lo == idMax then (.err (ofStr "ERR invalid start ID for the interval"), db) else
      if ex && hi == idZero then (.err (ofStr "ERR invalid end ID for the interval"), db) else
      match parseCount opts none with
      | none => (errSyntax, db)
      | some cnt =>
        let (db, _) := checkTTL db env.now k
        match getStream db k with
        | none => (arrOf [], db)
        | some none => (wrongType, db)
        | some (some (s, _)) =>
          let hits := rangeScan ⟨sx, lo, ex, hi⟩ s
          match cnt with
          | some 0 => (.arr none, db)
          | some n => (arrOf ((hits.take n).map entryReply), db)
          | none => (arrOf (hits.map entryReply), db)
    | _, _ => (errStreamId, db)
  | _ => (errArgs, db)

def streamTable : List (String × Cmd) := [("xadd", cmdXAdd), ("xrange", cmdXRange)]

end Exec
