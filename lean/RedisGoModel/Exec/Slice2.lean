import RedisGoModel.Exec.Slice
/-! The vertical slice extended to a two-key command: RENAME as one block on both keys after both TTL checks, with the
    source's deadline moving to the destination (the pinned code loses it), against a specification over the two
    live cells; the same three obligations, and the program theorem re-assembled with it. -/
namespace Ttl

/-- the common shape of a two-key executor: both `CheckTTL`s, then one block that locks both keys -/
def double (k1 k2 : Key) (w : Cell → Cell → Nat → List Write) (r : Cell → Cell → Nat → Reply) : Exec Reply :=
  .checkTTL k1 fun _ => .checkTTL k2 fun _ =>
    .block [k1, k2] (fun vw now => w (vw k1) (vw k2) now) (fun vw now => .done (r (vw k1) (vw k2) now))

theorem double_run (k1 k2 : Key) (hne : k1 ≠ k2) (w r) (now : Nat) (db : Db) :
    run now (double k1 k2 w r) db =
      (r (live db now k1) (live db now k2) now,
       (w (live db now k1) (live db now k2) now).foldl Write.apply (afterCheck (afterCheck db now k1) now k2)) := by
  unfold double
  rw [run_check, run_check]
  simp only [run]
  have v1 : viewOf (afterCheck (afterCheck db now k1) now k2) [k1, k2] k1 = live db now k1 := by
    have : viewOf (afterCheck (afterCheck db now k1) now k2) [k1, k2] k1 = phys (afterCheck (afterCheck db now k1) now k2) k1 := by
      simp [viewOf, phys]
    rw [this, (afterCheck_spec (afterCheck db now k1) now k2).2.1 k1 hne, (afterCheck_spec db now k1).1]
  have v2 : viewOf (afterCheck (afterCheck db now k1) now k2) [k1, k2] k2 = live db now k2 := by
    have : viewOf (afterCheck (afterCheck db now k1) now k2) [k1, k2] k2 = phys (afterCheck (afterCheck db now k1) now k2) k2 := by
      simp [viewOf, phys]
    rw [this, (afterCheck_spec (afterCheck db now k1) now k2).1, afterCheck_equiv db now k1 k2]
  rw [v1, v2]

theorem double_checked (k1 k2 : Key) (w r) (hw : ∀ c1 c2 now, ∀ x ∈ w c1 c2 now, x.key = k1 ∨ x.key = k2) :
    TTLChecked [] (double k1 k2 w r) := by
  refine .check _ _ _ (fun _ => .check _ _ _ (fun _ => .block _ _ _ _ ?_ ?_ (fun _ _ => .done _ _)))
  · intro k hk; simp at hk ⊢; rcases hk with rfl | rfl <;> simp
  · intro v now x hx
    rcases hw _ _ _ x hx with h | h <;> simp [h]

theorem double_fim (k1 k2 : Key) (w r) : FalseIsMissing (double k1 k2 w r) :=
  .check _ _ (fun _ _ _ _ => rfl) (fun _ => .check _ _ (fun _ _ _ _ => rfl) (fun _ => .block _ _ _ (fun _ _ => .done _)))

/-- move a deadline: set it on `k`, or clear `k`'s -/
def ttlWrite (k : Key) : Option Nat → Write
| some d => .setTTL k d
| none => .delTTL k
theorem ttlWrite_key (k : Key) (t : Option Nat) : (ttlWrite k t).key = k := by cases t <;> rfl

/-- RENAME src dst, `src ≠ dst` -/
def renameW (src dst : Key) : Cell → Cell → Nat → List Write := fun cs _ _ =>
  match cs.1 with
  | none => []
  | some v => [.set dst v, ttlWrite dst cs.2, .del src, .delTTL src]
def renameR : Cell → Cell → Nat → Reply := fun cs _ _ => match cs.1 with | none => .wrongType | some _ => .ok
-- (`.wrongType` stands in for "ERR no such key": the slice's reply type has a single error constructor)

def renameExec (src dst : Key) : Exec Reply := double src dst (renameW src dst) renameR

/-- specification on the two live cells: the source must exist; the destination becomes the source's cell, deadline
    included; the source disappears -/
def renameSpec (src dst : Key) (db : Db) (now : Nat) : Reply × Db :=
  match (live db now src).1 with
  | none => (.wrongType, db)
  | some _ => (.ok, putCell (putCell db dst (live db now src)) src (none, none))

/-- the physical cell of `k` after any write list: only the writes addressed to `k` matter -/
theorem foldl_cell_filter (ws : List Write) (k : Key) :
    ∀ db, phys (ws.foldl Write.apply db) k = (ws.filter (fun x => decide (x.key = k))).foldl applyCell (phys db k) := by
  induction ws with
  | nil => intro db; rfl
  | cons x r ih =>
    intro db
    simp only [List.foldl_cons]
    rw [ih]
    by_cases hx : x.key = k
    · simp only [List.filter_cons, hx, decide_true, if_true, List.foldl_cons]
      congr 1
      cases x <;> simp [Write.key] at hx <;> subst hx <;> simp [Write.apply, applyCell, phys]
    · simp only [List.filter_cons, hx, decide_false, Bool.false_eq_true, if_false]
      congr 1
      have := apply_other db x (k := k) (fun e => hx e.symm)
      simp [phys, this.1, this.2]

theorem equiv_of_cells {now : Nat} {a b : Db} {k1 k2 : Key} (h1 : phys a k1 = phys b k1) (h2 : phys a k2 = phys b k2)
    (ho : ∀ k', k' ≠ k1 → k' ≠ k2 → live a now k' = live b now k') : Equiv now a b := by
  intro k'
  by_cases e1 : k' = k1
  · subst e1; exact live_of_phys h1
  · by_cases e2 : k' = k2
    · subst e2; exact live_of_phys h2
    · exact ho k' e1 e2

theorem rename_refines (src dst : Key) (hne : src ≠ dst) (db : Db) (now : Nat) :
    (run now (renameExec src dst) db).1 = (renameSpec src dst db now).1 ∧
    Equiv now (run now (renameExec src dst) db).2 (renameSpec src dst db now).2 := by
  unfold renameExec
  rw [double_run src dst hne]
  unfold renameSpec renameR renameW
  have eqv : Equiv now (afterCheck (afterCheck db now src) now dst) db :=
    (afterCheck_equiv (afterCheck db now src) now dst).trans (afterCheck_equiv db now src)
  have hds : dst ≠ src := Ne.symm hne
  generalize live db now src = cs
  obtain ⟨v0, t0⟩ := cs
  cases v0 with
  | none => exact ⟨rfl, by simpa using eqv⟩
  | some v =>
    refine ⟨rfl, ?_⟩
    simp only
    -- the write list, whichever deadline case
    have hkeys : ∀ x ∈ [Write.set dst v, ttlWrite dst t0,
        Write.del src, Write.delTTL src], x.key = src ∨ x.key = dst := by
      intro x hx
      simp only [List.mem_cons, List.mem_nil_iff, or_false] at hx
      rcases hx with rfl | rfl | rfl | rfl
      · right; rfl
      · right; exact ttlWrite_key _ _
      · left; rfl
      · left; rfl
    apply equiv_of_cells (k1 := src) (k2 := dst)
    · rw [foldl_cell_filter, putCell_phys_same]
      cases t0 <;> simp [List.filter_cons, Write.key, ttlWrite, hne, hds, applyCell]
    · rw [foldl_cell_filter, putCell_phys_other _ _ _ hds, putCell_phys_same]
      cases t0 <;> simp [List.filter_cons, Write.key, ttlWrite, hne, hds, applyCell]
    · intro k' e1 e2
      have hother : ∀ x ∈ [Write.set dst v, ttlWrite dst t0,
          Write.del src, Write.delTTL src], k' ≠ x.key := by
        intro x hx e
        rcases hkeys x hx with h | h
        · exact e1 (e.trans h)
        · exact e2 (e.trans h)
      have h1 := foldl_other _ (afterCheck (afterCheck db now src) now dst) hother
      have h2 : live (List.foldl Write.apply (afterCheck (afterCheck db now src) now dst)
            [Write.set dst v, ttlWrite dst t0,
              Write.del src, Write.delTTL src]) now k' =
          live (afterCheck (afterCheck db now src) now dst) now k' :=
        live_of_phys (by simp only [phys]; rw [h1.1, h1.2])
      rw [h2, eqv k']
      apply Eq.symm
      apply live_of_phys
      rw [putCell_phys_other _ _ _ e1, putCell_phys_other _ _ _ e2]

theorem rename_checked (src dst : Key) : TTLChecked [] (renameExec src dst) := by
  apply double_checked
  intro c1 c2 now x hx
  simp only [renameW] at hx
  split at hx
  · simp at hx
  · simp at hx
    rcases hx with rfl | rfl | rfl | rfl
    · right; rfl
    · right; exact ttlWrite_key _ _
    · left; rfl
    · left; rfl

theorem rename_fim (src dst : Key) : FalseIsMissing (renameExec src dst) := double_fim _ _ _ _

/-- RENAME keeps the deadline: after `SET a x; EXPIRE a 5; RENAME a b`, `TTL b` counts down and `b` expires -/
example : let db0 : Db := ⟨fun _ => none, fun _ => none⟩
    let s1 := (run 10 (exec (.set [1] [65])) db0).2
    let s2 := (run 10 (exec (.expire [1] 5)) s1).2
    let s3 := (run 11 (renameExec [1] [2]) s2).2
    ((run 12 (exec (.ttl [2])) s3).1, (run 15 (exec (.get [2])) s3).1, (run 12 (exec (.get [1])) s3).1)
      = (.int 3, .nil, .nil) := by
  decide

#print axioms rename_refines
end Ttl
