import RedisGoModel.Exec.Core
/-! Commands outside the data families as the sequential exec engine sees them (no connection, no raft node):
    PUBLISH with nobody subscribed, MEMBER and RCONF without a cluster. (SUBSCRIBE needs a connection: serve engine.) -/
namespace Exec
open Resp (Reply Bytes)

def cmdPublishNoSubs : Cmd := fun _ db args =>
  match args with
  | [_, _, _] => (.int 0, db)
  | _ => (errArgs, db)

/-- standalone: no raft node, so every form answers an error -/
def cmdMemberStandalone : Cmd := fun _ db _ => (.err (ofStr "ERR raft node is not initialized"), db)
def cmdRconfStandalone : Cmd := fun _ db _ => (.err (ofStr "ERR not in cluster mode"), db)

def miscTable : List (String × Cmd) := [("publish", cmdPublishNoSubs), ("member", cmdMemberStandalone), ("rconf", cmdRconfStandalone)]

end Exec
