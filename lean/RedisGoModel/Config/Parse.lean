import RedisGoModel.Cluster.Codec
/-! # The configuration layer (`/repo/config/config.go`) — core Lean only, linked into the compiled driver

Where the database count of C20 comes from.  Modelled, statement by statement:

* `Config` and the literal `Setup` starts from (`defaults`; regenerated from the source by the `config` harness engine, line `CD`);
* `(*Config).Parse` (`parse`): `bufio.Reader.ReadString('\n')` until EOF (`splitLines`: the last line needs no newline), a line whose
  FIRST byte is `#` is skipped, `strings.Fields` (`fields`: Go's `unicode.IsSpace` — the six ASCII white-space bytes and the UTF-8
  forms of U+0085, U+00A0, U+1680, U+2000–U+200A, U+2028, U+2029, U+202F, U+205F, U+3000; every other byte, including bytes of
  malformed UTF-8, belongs to a field), `len(fields) >= 2`, `strings.ToLower` of the name (`goToLower`: UTF-8 decoding exactly as
  `strings.Map` does it — a byte that starts no well-formed sequence becomes U+FFFD — and `unicode.ToLower` of a code point ≥ 0x80
  taken from the oracle), the per-directive validation (`applyDir`), last directive wins (`parseLines` threads the state);
* `strconv.Atoi` (`atoi`): optional sign, decimal digits, the FIRST offence decides (a non-digit → syntax error; the digit that
  pushes the magnitude past 2^64−1 → range error), then the int64 bounds → range error;
* `net.ParseIP` (`parseIP`): the first of `.`, `:`, `%` decides the family as in `netip.ParseAddr`; dotted IPv4 is modelled exactly
  (`ipv4`: four fields, at most 255, no leading zero, no empty field); the IPv6 grammar is NOT modelled: `Oracle.ip6` answers for
  strings whose first such byte is `:`;
* `ParseConfigJson` AFTER `json.Unmarshal` (`clusterPost`): the input is the `Config` as `encoding/json` left it and whether
  `Unmarshal` returned an error (encoding/json itself is not modelled); `NodeID <= 0` → panic (tested BEFORE the error), error →
  `Invalid config file fields. `, `RaftAddr == ""` → `strings.Split(PeerAddrs, ",")[NodeID-1]` (out of range → panic), `Databases = 1`;
* the part of `Setup` after `flag.Parse` (`startup`): `Parse` of the file, then — in cluster mode — `ParseConfigJson`.

Outcomes: `ok cfg | error e | panic why | fatal why` (`log.Fatal` = the process exits with status 1).  Not modelled: I/O errors of
`os.Open` / `ReadString` / `os.ReadFile` (the file is taken as read), command-line flags, the text of `strconv` error values (their
kind — syntax / range — is), `Others` as a Go map (an association list, newest first, `lookupOther` = the map's content). -/
namespace Config
abbrev Bytes := List UInt8

def ofStr (s : String) : Bytes := s.toUTF8.toList

open Lean in
/-- `b!"text"`: the UTF-8 bytes of a string literal as an explicit list literal (the kernel can compute with it; `ofStr` it cannot unfold) -/
macro:max "b!" s:str : term => do
  let elems := s.getString.toUTF8.toList.toArray.map fun b => Syntax.mkNumLit (toString b.toNat)
  `(([$elems,*] : List UInt8))

/-! ## strconv.Atoi -/

inductive AtoiRes where
  | ok (v : Int)
  | syntaxErr
  | rangeErr
deriving DecidableEq, Repr

inductive UintRes where
  | ok (n : Nat)
  | syntaxErr
  | rangeErr
deriving DecidableEq, Repr

/-- `strconv.ParseUint(s, 10, 64)` on a non-empty string: the magnitude, or the first offence -/
def parseUint : Nat → Bytes → UintRes
| acc, [] => .ok acc
| acc, c :: r =>
  if 48 ≤ c.toNat ∧ c.toNat ≤ 57 then
    let n := acc * 10 + (c.toNat - 48)
    if n ≥ 2 ^ 64 then .rangeErr else parseUint n r
  else .syntaxErr

/-- `strconv.Atoi` on a 64-bit platform -/
def atoi (s : Bytes) : AtoiRes :=
  match s with
  | [] => .syntaxErr
  | c :: r =>
    let neg := c == 45
    let body := if c == 43 || c == 45 then r else s
    if body.isEmpty then .syntaxErr else
    match parseUint 0 body with
    | .ok n =>
      if neg then (if n > 2 ^ 63 then .rangeErr else .ok (-(n : Int)))
      else (if n ≥ 2 ^ 63 then .rangeErr else .ok (n : Int))
    | .syntaxErr => .syntaxErr
    | .rangeErr => .rangeErr

/-! ## strings.Fields -/

/-- number of bytes of the white-space rune (`unicode.IsSpace`) at the head of the input, `0` if there is none -/
def spaceLen : Bytes → Nat
| [] => 0
| c :: r =>
  if c == 9 || c == 10 || c == 11 || c == 12 || c == 13 || c == 32 then 1
  else if c == 0xC2 then
    match r with
    | b :: _ => if b == 0x85 || b == 0xA0 then 2 else 0
    | _ => 0
  else if c == 0xE1 then
    match r with
    | b1 :: b2 :: _ => if b1 == 0x9A && b2 == 0x80 then 3 else 0
    | _ => 0
  else if c == 0xE2 then
    match r with
    | b1 :: b2 :: _ =>
      if b1 == 0x80 && ((0x80 ≤ b2.toNat && b2.toNat ≤ 0x8A) || b2 == 0xA8 || b2 == 0xA9 || b2 == 0xAF) then 3
      else if b1 == 0x81 && b2 == 0x9F then 3 else 0
    | _ => 0
  else if c == 0xE3 then
    match r with
    | b1 :: b2 :: _ => if b1 == 0x80 && b2 == 0x80 then 3 else 0
    | _ => 0
  else 0

def flush (cur : Bytes) (rest : List Bytes) : List Bytes := if cur.isEmpty then rest else cur.reverse :: rest

/-- `k` bytes of a multi-byte white-space rune still to drop; `cur` the field being collected, reversed -/
def fieldsGo : Nat → Bytes → Bytes → List Bytes
| _, cur, [] => flush cur []
| k + 1, cur, _ :: r => fieldsGo k cur r
| 0, cur, c :: r =>
  match spaceLen (c :: r) with
  | 0 => fieldsGo 0 (c :: cur) r
  | n + 1 => flush cur (fieldsGo n [] r)

/-- `strings.Fields` -/
def fields (s : Bytes) : List Bytes := fieldsGo 0 [] s

/-! ## strings.ToLower -/

def lowerAscii (c : UInt8) : UInt8 := if 65 ≤ c.toNat ∧ c.toNat ≤ 90 then c + 32 else c

/-- the code point of the well-formed sequence `c :: r` with `k` continuation bytes (`k` as answered by `Codec.utf8Tail`) -/
def decodeCp (c : UInt8) (r : Bytes) (k : Nat) : Nat :=
  let cont := fun (i : Nat) => (r.getD i 0).toNat % 64
  match k with
  | 1 => (c.toNat % 32) * 64 + cont 0
  | 2 => (c.toNat % 16) * 4096 + cont 0 * 64 + cont 1
  | _ => (c.toNat % 8) * 262144 + cont 0 * 4096 + cont 1 * 64 + cont 2

/-- `utf8.AppendRune` for a valid code point -/
def encodeCp (cp : Nat) : Bytes :=
  if cp < 0x80 then [UInt8.ofNat cp]
  else if cp < 0x800 then [UInt8.ofNat (0xC0 + cp / 64), UInt8.ofNat (0x80 + cp % 64)]
  else if cp < 0x10000 then [UInt8.ofNat (0xE0 + cp / 4096), UInt8.ofNat (0x80 + cp / 64 % 64), UInt8.ofNat (0x80 + cp % 64)]
  else [UInt8.ofNat (0xF0 + cp / 262144), UInt8.ofNat (0x80 + cp / 4096 % 64), UInt8.ofNat (0x80 + cp / 64 % 64), UInt8.ofNat (0x80 + cp % 64)]

/-- what Go cannot be asked for inside Lean: the IPv6 grammar of `net.ParseIP` and `unicode.ToLower` above ASCII -/
structure Oracle where
  ip6 : Bytes → Bool := fun _ => false
  lowerRune : Nat → Nat := id

/-- `strings.Map(unicode.ToLower, s)`; `k` bytes of an already decoded sequence still to drop -/
def mapLower (lr : Nat → Nat) : Nat → Bytes → Bytes
| _, [] => []
| k + 1, _ :: r => mapLower lr k r
| 0, c :: r =>
  if c.toNat < 128 then lowerAscii c :: mapLower lr 0 r
  else match Codec.utf8Tail c r with
    | 0 => 0xEF :: 0xBF :: 0xBD :: mapLower lr 0 r
    | n + 1 => encodeCp (lr (decodeCp c r (n + 1))) ++ mapLower lr (n + 1) r

/-- `strings.ToLower` -/
def goToLower (o : Oracle) (s : Bytes) : Bytes := mapLower o.lowerRune 0 s

/-! ## net.ParseIP -/

/-- `netip.parseIPv4Fields`: `val`, `pos` (fields closed so far), `digLen`, and whether the previous byte was a dot or the start -/
def ipv4Go : Nat → Nat → Nat → Bool → Bytes → Bool
| _, pos, _, atDot, [] => !atDot && pos == 3
| val, pos, digLen, atDot, c :: r =>
  if 48 ≤ c.toNat ∧ c.toNat ≤ 57 then
    if digLen == 1 && val == 0 then false
    else
      let v := val * 10 + (c.toNat - 48)
      if v > 255 then false else ipv4Go v pos (digLen + 1) false r
  else if c == 46 then
    if atDot || pos == 3 then false else ipv4Go 0 (pos + 1) 0 true r
  else false

def ipv4 (s : Bytes) : Bool := ipv4Go 0 0 0 true s

/-- the first of `.`, `:`, `%` (46, 58, 37) in the string -/
def firstMark : Bytes → Option UInt8
| [] => none
| c :: r => if c == 46 || c == 58 || c == 37 then some c else firstMark r

/-- `net.ParseIP(s) != nil` -/
def parseIP (o : Oracle) (s : Bytes) : Bool :=
  match firstMark s with
  | some 46 => ipv4 s
  | some 58 => o.ip6 s
  | _ => false

/-! ## Config -/

structure Cfg where
  confFile : Bytes
  host : Bytes
  port : Int
  logDir : Bytes
  logLevel : Bytes
  shardNum : Int
  chanBufferSize : Int
  databases : Int
  others : List (Bytes × Bytes)            -- newest first; `lookupOther` is the Go map
  clusterConfigPath : Bytes
  isCluster : Bool
  peerAddrs : Bytes
  peerIDs : Bytes
  raftAddr : Bytes
  nodeID : Int
  kvPort : Int
  joinCluster : Bool
deriving DecidableEq, Repr

/-- the literal at the top of `Setup` (package-level `default…` variables substituted) -/
def defaults : Cfg :=
  { confFile := b!"./redis.conf"
    host := b!"127.0.0.1"
    port := 6380
    logDir := b!"./"
    logLevel := b!"info"
    shardNum := 1024
    chanBufferSize := 10
    databases := 16
    others := []
    clusterConfigPath := []
    isCluster := false
    peerAddrs := []
    peerIDs := []
    raftAddr := []
    nodeID := -1
    kvPort := 0
    joinCluster := false }

def lookupOther (l : List (Bytes × Bytes)) (k : Bytes) : Option Bytes := (l.find? (·.1 == k)).map (·.2)

inductive Err where
  | hostInvalid (shown : Bytes)   -- "Given ip address <shown> is invalid": `shown` is the host the Config held BEFORE, not the offending field
  | portSyntax                    -- *strconv.NumError, ErrSyntax
  | portRange                     -- *strconv.NumError, ErrRange
  | portBounds (p : Int)          -- "Listening port should between 1024 and 65535, but <p> is given."
  | jsonFields                    -- "Invalid config file fields. "
  | clusterPathMissing            -- "cluster mode need a cluster config file to start. "
deriving DecidableEq, Repr

inductive PanicWhy where
  | shardSyntax | shardRange      -- panic(err) of the `shardnum` directive
  | nodeIdNotSet                  -- panic("NodeID not set")
  | raftIndex                     -- strings.Split(PeerAddrs, ",")[NodeID-1]: index out of range
deriving DecidableEq, Repr

inductive FatalWhy where
  | dbSyntax | dbRange            -- "Databases should be an integer. Get: …"
  | dbNonPositive                 -- "Databases should be an positive integer. Get: …"
deriving DecidableEq, Repr

inductive Outcome where
  | ok (c : Cfg)
  | error (e : Err)
  | panic (w : PanicWhy)
  | fatal (w : FatalWhy)
deriving DecidableEq, Repr

def Outcome.bind (x : Outcome) (f : Cfg → Outcome) : Outcome :=
  match x with
  | .ok c => f c
  | e => e

def Outcome.isOk : Outcome → Bool
| .ok _ => true
| _ => false

inductive Key where
  | host | port | logdir | loglevel | shardnum | databases
  | other (name : Bytes)
deriving DecidableEq, Repr

def nHost : Bytes := [104, 111, 115, 116]
def nPort : Bytes := [112, 111, 114, 116]
def nLogdir : Bytes := [108, 111, 103, 100, 105, 114]
def nLoglevel : Bytes := [108, 111, 103, 108, 101, 118, 101, 108]
def nShardnum : Bytes := [115, 104, 97, 114, 100, 110, 117, 109]
def nDatabases : Bytes := [100, 97, 116, 97, 98, 97, 115, 101, 115]

/-- the `switch cfgName` -/
def keyOf (n : Bytes) : Key :=
  if n = nHost then .host else if n = nPort then .port else if n = nLogdir then .logdir else if n = nLoglevel then .loglevel
  else if n = nShardnum then .shardnum else if n = nDatabases then .databases else .other n

/-- what a line of the file asks for: nothing (comment — FIRST byte `#` —, fewer than two fields), or a key and its value (the
    second field; further fields are ignored) -/
def directive (o : Oracle) (line : Bytes) : Option (Key × Bytes) :=
  if line.head? = some 35 then none else
  match fields line with
  | name :: val :: _ => some (keyOf (goToLower o name), val)
  | _ => none

/-- the body of one `case` -/
def applyDir (o : Oracle) (c : Cfg) : Key → Bytes → Outcome
| .host, v => if parseIP o v then .ok { c with host := v } else .error (.hostInvalid c.host)
| .port, v =>
  match atoi v with
  | .ok p => if p ≤ 1024 ∨ p ≥ 65535 then .error (.portBounds p) else .ok { c with port := p }
  | .syntaxErr => .error .portSyntax
  | .rangeErr => .error .portRange
| .logdir, v => .ok { c with logDir := goToLower o v }
| .loglevel, v => .ok { c with logLevel := goToLower o v }
| .shardnum, v =>
  match atoi v with
  | .ok n => .ok { c with shardNum := n }
  | .syntaxErr => .panic .shardSyntax
  | .rangeErr => .panic .shardRange
| .databases, v =>
  match atoi v with
  | .ok n => if n ≤ 0 then .fatal .dbNonPositive else .ok { c with databases := n }
  | .syntaxErr => .fatal .dbSyntax
  | .rangeErr => .fatal .dbRange
| .other name, v => .ok { c with others := (name, v) :: c.others }

def applyLine (o : Oracle) (c : Cfg) (line : Bytes) : Outcome :=
  match directive o line with
  | none => .ok c
  | some (k, v) => applyDir o c k v

def parseLines (o : Oracle) (c : Cfg) : List Bytes → Outcome
| [] => .ok c
| l :: ls => (applyLine o c l).bind fun c' => parseLines o c' ls

/-- the pieces `ReadString('\n')` delivers, without their newline; `cur` reversed -/
def splitAux : Bytes → Bytes → List Bytes
| cur, [] => [cur.reverse]
| cur, c :: r => if c = 10 then cur.reverse :: splitAux [] r else splitAux (c :: cur) r

def splitLines (file : Bytes) : List Bytes := splitAux [] file

/-- `(*Config).Parse` on the bytes of the file -/
def parse (o : Oracle) (c : Cfg) (file : Bytes) : Outcome := parseLines o c (splitLines file)

/-! ## ParseConfigJson after json.Unmarshal -/

/-- `strings.Split(s, ",")` -/
def splitCommaAux : Bytes → Bytes → List Bytes
| cur, [] => [cur.reverse]
| cur, c :: r => if c = 44 then cur.reverse :: splitCommaAux [] r else splitCommaAux (c :: cur) r

def splitComma (s : Bytes) : List Bytes := splitCommaAux [] s

/-- `j`: the Config as `json.Unmarshal` left it; `err`: whether `Unmarshal` returned an error -/
def clusterPost (j : Cfg) (err : Bool) : Outcome :=
  if j.nodeID ≤ 0 then .panic .nodeIdNotSet
  else if err then .error .jsonFields
  else if j.raftAddr.isEmpty then
    match (splitComma j.peerAddrs)[(j.nodeID - 1).toNat]? with
    | some a => .ok { j with raftAddr := a, databases := 1 }
    | none => .panic .raftIndex
  else .ok { j with databases := 1 }

/-- `Setup` after `flag.Parse`, with a configuration file: `Parse`, then in cluster mode `ParseConfigJson`; `unm c` is what
    `json.Unmarshal(data, cfg)` makes of the Config `c` (the decoded Config and whether it reported an error) -/
def startup (o : Oracle) (c0 : Cfg) (file : Bytes) (unm : Cfg → Cfg × Bool) : Outcome :=
  (parse o c0 file).bind fun c =>
    if c.isCluster then
      if c.clusterConfigPath.isEmpty then .error .clusterPathMissing
      else let (j, e) := unm c; clusterPost j e
    else .ok c

/-- `server.NewManager`: `make([]*memdb.MemDb, cfg.Databases)` -/
def dbCount (c : Cfg) : Nat := c.databases.toNat

/-- `len(server.NewManager(&Config{Databases: n}).DBs)`; `none` = panic (`make` with a negative length, `DBs[0]` of an empty slice) -/
def newManager (n : Int) : Option Nat := if n ≤ 0 then none else some n.toNat

end Config
