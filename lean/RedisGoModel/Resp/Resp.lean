/-! Prototype for C02/C03: RESP request parser (mirror of the repaired resp/parser.go state machine on the
    complete byte stream) — exact round trip for every pipeline of commands over arbitrary byte strings. -/
namespace Resp
abbrev Bytes := List UInt8

def CR : UInt8 := 13
def LF : UInt8 := 10

/-! ### decimal numbers (strconv.Itoa / Atoi on non-negative values; sign handled by the caller) -/

def digit (d : Nat) : UInt8 := (48 + d).toUInt8

def decRev : Nat → Bytes
| n => if h : n < 10 then [digit n] else digit (n % 10) :: decRev (n / 10)
termination_by n => n
decreasing_by omega

def dec (n : Nat) : Bytes := (decRev n).reverse

def digitVal (b : UInt8) : Option Nat := if 48 ≤ b.toNat ∧ b.toNat ≤ 57 then some (b.toNat - 48) else none

/-- most significant digit first, accumulating -/
def parseDigits : Bytes → Nat → Option Nat
| [], acc => some acc
| b :: r, acc => match digitVal b with | some d => parseDigits r (acc * 10 + d) | none => none

def parseNat (b : Bytes) : Option Nat := match b with | [] => none | _ => parseDigits b 0

theorem digitVal_digit {d : Nat} (h : d < 10) : digitVal (digit d) = some d := by
  unfold digitVal digit
  have : (48 + d).toUInt8.toNat = 48 + d := by simp [Nat.toUInt8, UInt8.toNat_ofNat']; omega
  simp [this]; omega

theorem digit_ne_LF {d : Nat} (h : d < 10) : digit d ≠ LF := by
  intro e
  have := congrArg UInt8.toNat e
  have h2 : (digit d).toNat = 48 + d := by simp [digit, Nat.toUInt8, UInt8.toNat_ofNat']; omega
  rw [h2] at this; simp [LF] at this; omega

theorem parseDigits_append (a b : Bytes) (acc : Nat) :
    parseDigits (a ++ b) acc = (parseDigits a acc).bind (parseDigits b) := by
  induction a generalizing acc with
  | nil => simp [parseDigits]
  | cons x r ih =>
    simp only [List.cons_append, parseDigits]
    cases digitVal x with
    | none => simp
    | some d => exact ih _

/-- reading the reversed little-endian digits back gives the number -/
theorem parseDigits_dec (n acc : Nat) : parseDigits (dec n) acc = some (acc * 10 ^ (decRev n).length + n) := by
  unfold dec
  induction n using Nat.strongRecOn generalizing acc with
  | _ n ih =>
    rw [decRev]
    split
    · rename_i h
      simp [parseDigits, digitVal_digit h]
    · rename_i h
      have hlt : n / 10 < n := by omega
      simp only [List.reverse_cons, List.length_cons]
      rw [parseDigits_append, ih (n / 10) hlt]
      simp only [Option.bind, parseDigits, digitVal_digit (Nat.mod_lt n (by decide : 0 < 10))]
      congr 1
      have := Nat.div_add_mod n 10
      rw [Nat.pow_succ]
      have e : acc * (10 ^ (decRev (n / 10)).length * 10) = acc * 10 ^ (decRev (n / 10)).length * 10 := by
        rw [Nat.mul_assoc]
      rw [e, Nat.add_mul]
      omega

theorem dec_ne_nil (n : Nat) : dec n ≠ [] := by
  unfold dec; rw [decRev]; split <;> simp

theorem parseNat_dec (n : Nat) : parseNat (dec n) = some n := by
  unfold parseNat
  have := dec_ne_nil n
  cases h : dec n with
  | nil => exact absurd h this
  | cons a r => rw [← h, parseDigits_dec]; simp

theorem dec_no_LF (n : Nat) : LF ∉ dec n := by
  unfold dec
  rw [List.mem_reverse]
  induction n using Nat.strongRecOn with
  | _ n ih =>
    rw [decRev]
    split
    · rename_i h; simp; exact fun e => digit_ne_LF h e.symm
    · rename_i h
      simp only [List.mem_cons, not_or]
      exact ⟨fun e => digit_ne_LF (Nat.mod_lt n (by decide)) e.symm, ih _ (by omega)⟩

/-! ### values, encoder -/

inductive Val
| bulk (b : Option Bytes)
| arr  (a : Option (List Val))
| line (b : Bytes)            -- simple string / error / integer / inline text, kept raw

inductive Event | data (v : Val) | err | eof

def STAR : UInt8 := 42
def DOLLAR : UInt8 := 36
def MINUS : UInt8 := 45
def COLON : UInt8 := 58

def encodeBulk (a : Bytes) : Bytes := DOLLAR :: dec a.length ++ [CR, LF] ++ a ++ [CR, LF]
def encodeBulks (args : List Bytes) : Bytes := (args.map encodeBulk).flatten
def encodeCmd (args : List Bytes) : Bytes := STAR :: dec args.length ++ [CR, LF] ++ encodeBulks args

/-! ### the parser state machine (resp/parser.go `parse` + `readLine`), on the complete stream -/

structure St where
  multi : Option Nat                 -- `multiLine` with the pending `bulkLen`
  arr   : Option (Nat × List Val)    -- `inArray` with `arrayLen` and the elements collected so far

def St.init : St := ⟨none, none⟩

/-- `bufio.Reader.ReadBytes('\n')`: the line up to and including the first LF, and the rest -/
def splitLine : Bytes → Option (Bytes × Bytes)
| [] => none
| b :: r => if b == LF then some ([b], r) else (splitLine r).map fun (l, rest) => (b :: l, rest)

theorem splitLine_len {inp l rest : Bytes} (h : splitLine inp = some (l, rest)) : rest.length < inp.length := by
  induction inp generalizing l rest with
  | nil => simp [splitLine] at h
  | cons b r ih =>
    simp only [splitLine] at h
    split at h
    · simp at h; obtain ⟨_, rfl⟩ := h; simp
    · rw [Option.map_eq_some_iff] at h
      obtain ⟨⟨l', rest'⟩, h1, h2⟩ := h
      simp at h2; obtain ⟨_, rfl⟩ := h2
      have := ih h1; simp; omega

/-- "Struct parsed data as an array or a single data, and put it into channel" -/
def deliver (st : St) (v : Val) : List Event × St :=
  match st.arr with
  | some (n, acc) =>
    if acc.length + 1 == n then ([.data (.arr (some (acc ++ [v])))], St.init)
    else ([], ⟨none, some (n, acc ++ [v])⟩)
  | none => ([.data v], ⟨none, none⟩)

/-- signed decimal as strconv.Atoi/ParseInt accept it (optional sign, digits, int64 range) -/
def parseInt (b : Bytes) : Option Int :=
  match b with
  | [] => none
  | c :: r =>
    if c == MINUS then (parseNat r).bind fun n => if n ≤ 2^63 then some (-(n : Int)) else none
    else if c == 43 then (parseNat r).bind fun n => if n < 2^63 then some (n : Int) else none
    else (parseNat b).bind fun n => if n < 2^63 then some (n : Int) else none

def maxBulk : Nat := 512 * 1024 * 1024

def parseLoop (st : St) (inp : Bytes) : List Event :=
  match st.multi with
  | some n =>
    -- io.ReadFull of n+2 bytes
    if h : inp.length < n + 2 then (if inp.isEmpty then [.eof] else [.err, .eof])
    else
      let msg := inp.take (n + 2)
      let rest := inp.drop (n + 2)
      if msg[n]? == some CR && msg[n+1]? == some LF then
        let r := deliver ⟨none, st.arr⟩ (.bulk (some (msg.take n)))
        r.1 ++ parseLoop r.2 rest
      else .err :: parseLoop St.init rest
  | none =>
    match hs : splitLine inp with
    | none => [.eof]
    | some (msg, rest) =>
      if msg.length < 2 || msg[msg.length - 2]? != some CR then .err :: parseLoop St.init rest
      else
        let body := (msg.drop 1).take (msg.length - 3)
        if msg.head? == some STAR then
          match parseInt body with
          | some (.ofNat n) =>
            if n == 0 then .data (.arr (some [])) :: parseLoop St.init rest
            else parseLoop ⟨none, some (n, [])⟩ rest
          | _ => .err :: parseLoop St.init rest
        else if msg.head? == some DOLLAR then
          match parseInt body with
          | some (.ofNat n) =>
            if n ≤ maxBulk then parseLoop ⟨some n, st.arr⟩ rest else .err :: parseLoop St.init rest
          | some (.negSucc 0) =>
            let r := deliver ⟨none, st.arr⟩ (.bulk none)
            r.1 ++ parseLoop r.2 rest
          | _ => .err :: parseLoop St.init rest
        else if msg.length < 3 then .err :: parseLoop St.init rest
        else if msg.head? == some COLON && (parseInt body).isNone then .err :: parseLoop St.init rest   -- parseSingleLine: strconv.ParseInt fails
        else
          let r := deliver st (.line (msg.take (msg.length - 2)))
          r.1 ++ parseLoop r.2 rest
termination_by inp.length
decreasing_by
  all_goals simp_wf
  all_goals (try (have := splitLine_len hs; omega))
  all_goals (first | omega | (rw [List.length_drop]; omega) | (simp only [List.length_drop]; omega))

/-! ### round trip -/

theorem splitLine_hdr (h rest : Bytes) (hno : LF ∉ h) :
    splitLine (h ++ CR :: LF :: rest) = some (h ++ [CR, LF], rest) := by
  induction h with
  | nil => simp [splitLine, CR, LF]
  | cons b r ih =>
    have hb : (b == LF) = false := by
      have : b ≠ LF := fun e => hno (by simp [e])
      simpa using this
    have hr : LF ∉ r := fun e => hno (by simp [e])
    simp [splitLine, hb, ih hr]

theorem digit_toNat {d : Nat} (h : d < 10) : (digit d).toNat = 48 + d := by
  simp [digit, Nat.toUInt8, UInt8.toNat_ofNat']; omega

theorem dec_digits (n : Nat) : ∀ b ∈ dec n, 48 ≤ b.toNat ∧ b.toNat ≤ 57 := by
  unfold dec
  intro b hb
  rw [List.mem_reverse] at hb
  induction n using Nat.strongRecOn with
  | _ n ih =>
    rw [decRev] at hb
    split at hb
    · rename_i h; simp at hb; subst hb; rw [digit_toNat h]; omega
    · rename_i h
      rcases List.mem_cons.1 hb with e | e
      · subst e; rw [digit_toNat (Nat.mod_lt n (by decide))]; have := Nat.mod_lt n (by decide : 0 < 10); omega
      · exact ih _ (by omega) e

theorem parseInt_dec (n : Nat) (hn : n < 2^63) : parseInt (dec n) = some (Int.ofNat n) := by
  have hne := dec_ne_nil n
  cases hd : dec n with
  | nil => exact absurd hd hne
  | cons c r =>
    have hc := dec_digits n c (by rw [hd]; simp)
    have h1 : (c == MINUS) = false := by
      have : c ≠ MINUS := by intro e; subst e; simp [MINUS] at hc
      simpa using this
    have h2 : (c == 43) = false := by
      have : c ≠ 43 := by intro e; subst e; simp at hc
      simpa using this
    simp only [parseInt, h1, h2]
    rw [← hd, parseNat_dec]
    simp [hn]

/-- the header line `<tag><decimal>\r\n` is read back as that decimal -/
theorem hdr_line (tag : UInt8) (n : Nat) (rest : Bytes) (htag : tag ≠ LF) :
    splitLine (tag :: dec n ++ CR :: LF :: rest) = some (tag :: dec n ++ [CR, LF], rest) := by
  have := splitLine_hdr (tag :: dec n) rest (by
    simp only [List.mem_cons, not_or]
    exact ⟨fun e => htag e.symm, dec_no_LF n⟩)
  simpa using this

theorem hdr_props (tag : UInt8) (n : Nat) :
    let msg := tag :: dec n ++ [CR, LF]
    (msg.length < 2) = false ∧ msg[msg.length - 2]? = some CR ∧ (msg.drop 1).take (msg.length - 3) = dec n ∧
      msg.head? = some tag := by
  intro msg
  have hl : msg.length = (dec n).length + 3 := by simp [msg]
  refine ⟨by simp [hl], ?_, ?_, rfl⟩
  · have : msg.length - 2 = (dec n).length + 1 := by omega
    rw [this]
    simp [msg, List.getElem?_cons_succ, List.getElem?_append_right]
  · have : msg.length - 3 = (dec n).length := by omega
    rw [this]; simp [msg]

/-- reading the body of a bulk of declared length |a| -/
theorem bulk_body (arr : Option (Nat × List Val)) (a rest : Bytes) :
    parseLoop ⟨some a.length, arr⟩ (a ++ CR :: LF :: rest) =
      (deliver ⟨none, arr⟩ (.bulk (some a))).1 ++ parseLoop (deliver ⟨none, arr⟩ (.bulk (some a))).2 rest := by
  rw [parseLoop]
  have hlen : ¬ (a ++ CR :: LF :: rest).length < a.length + 2 := by simp
  simp only [hlen, dite_false]
  have htake : (a ++ CR :: LF :: rest).take (a.length + 2) = a ++ [CR, LF] := by
    rw [List.take_append, List.take_of_length_le (by omega)]
    have : a.length + 2 - a.length = 2 := by omega
    simp [this]
  have hdrop : (a ++ CR :: LF :: rest).drop (a.length + 2) = rest := by
    rw [List.drop_append, List.drop_of_length_le (by omega)]
    have : a.length + 2 - a.length = 2 := by omega
    simp [this]
  rw [htake, hdrop]
  have h1 : (a ++ [CR, LF])[a.length]? = some CR := by simp
  have h2 : (a ++ [CR, LF])[a.length + 1]? = some LF := by
    rw [List.getElem?_append_right (by omega)]; simp
  have h3 : (a ++ [CR, LF]).take a.length = a := by simp
  simp [h1, h2, h3]

/-- one `$len\r\n body \r\n` element, in any array state -/
theorem bulk_elem (arr : Option (Nat × List Val)) (a rest : Bytes) (ha : a.length ≤ maxBulk) :
    parseLoop ⟨none, arr⟩ (encodeBulk a ++ rest) =
      (deliver ⟨none, arr⟩ (.bulk (some a))).1 ++ parseLoop (deliver ⟨none, arr⟩ (.bulk (some a))).2 rest := by
  have hlt : a.length < 2^63 := by unfold maxBulk at ha; omega
  have hin : encodeBulk a ++ rest = DOLLAR :: dec a.length ++ CR :: LF :: (a ++ CR :: LF :: rest) := by
    simp [encodeBulk]
  rw [hin, parseLoop]
  simp only
  have hs := hdr_line DOLLAR a.length (a ++ CR :: LF :: rest) (by decide)
  obtain ⟨p1, p2, p3, p4⟩ := hdr_props DOLLAR a.length
  split
  · rename_i hs'; rw [hs] at hs'; cases hs'
  · rename_i msg rest' hs'
    rw [hs] at hs'
    simp at hs'
    obtain ⟨rfl, rfl⟩ := hs'
    have e1 : ((DOLLAR :: (dec a.length ++ [CR, LF])).length < 2) = false := by simpa using p1
    have e2 : (DOLLAR :: (dec a.length ++ [CR, LF]))[(DOLLAR :: (dec a.length ++ [CR, LF])).length - 2]? = some CR := by
      simpa using p2
    have e3 : ((DOLLAR :: (dec a.length ++ [CR, LF])).drop 1).take ((DOLLAR :: (dec a.length ++ [CR, LF])).length - 3) = dec a.length := by
      simpa using p3
    have hsd : (some DOLLAR == some STAR) = false := by decide
    simp only [e1, e2, e3, List.head?_cons, hsd, parseInt_dec _ hlt]
    simp [ha, bulk_body]

/-- the elements of an array being collected -/
theorem bulks_collect (n : Nat) (rest : Bytes) : ∀ (args : List Bytes) (acc : List Val),
    args ≠ [] → acc.length + args.length = n → (∀ a ∈ args, a.length ≤ maxBulk) →
    parseLoop ⟨none, some (n, acc)⟩ (encodeBulks args ++ rest) =
      .data (.arr (some (acc ++ args.map fun a => .bulk (some a)))) :: parseLoop St.init rest := by
  intro args
  induction args with
  | nil => intro acc h; exact absurd rfl h
  | cons a r ih =>
    intro acc _ hlen hmax
    have hin : encodeBulks (a :: r) ++ rest = encodeBulk a ++ (encodeBulks r ++ rest) := by
      simp [encodeBulks]
    rw [hin, bulk_elem _ _ _ (hmax a (by simp))]
    by_cases hr : r = []
    · subst hr
      have : (acc.length + 1 == n) = true := by simp at hlen; simp [hlen]
      simp [deliver, this, encodeBulks]
    · have hne : (acc.length + 1 == n) = false := by
        have : 0 < r.length := List.length_pos_iff.2 hr
        simp at hlen ⊢; omega
      simp only [deliver, hne]
      have := ih (acc ++ [.bulk (some a)]) hr (by simp at hlen ⊢; omega) (fun x hx => hmax x (by simp [hx]))
      simp at this ⊢
      exact this

/-- **C02 (compositionality)**: one well-formed command is decoded exactly and the parser is back in its initial state -/
theorem C02_compositional (args : List Bytes) (rest : Bytes) (hne : args ≠ [])
    (hmax : ∀ a ∈ args, a.length ≤ maxBulk) (hn : args.length < 2^63) :
    parseLoop St.init (encodeCmd args ++ rest) =
      .data (.arr (some (args.map fun a => .bulk (some a)))) :: parseLoop St.init rest := by
  have hin : encodeCmd args ++ rest = STAR :: dec args.length ++ CR :: LF :: (encodeBulks args ++ rest) := by
    simp [encodeCmd]
  rw [hin, parseLoop]
  simp only [St.init]
  have hs := hdr_line STAR args.length (encodeBulks args ++ rest) (by decide)
  obtain ⟨p1, p2, p3, p4⟩ := hdr_props STAR args.length
  split
  · rename_i hs'; rw [hs] at hs'; cases hs'
  · rename_i msg rest' hs'
    rw [hs] at hs'
    simp at hs'
    obtain ⟨rfl, rfl⟩ := hs'
    have e1 : ((STAR :: (dec args.length ++ [CR, LF])).length < 2) = false := by simpa using p1
    have e2 : (STAR :: (dec args.length ++ [CR, LF]))[(STAR :: (dec args.length ++ [CR, LF])).length - 2]? = some CR := by
      simpa using p2
    have e3 : ((STAR :: (dec args.length ++ [CR, LF])).drop 1).take ((STAR :: (dec args.length ++ [CR, LF])).length - 3) = dec args.length := by
      simpa using p3
    simp only [e1, e2, e3, List.head?_cons, parseInt_dec _ hn]
    have hz : (args.length == 0) = false := by
      have : 0 < args.length := List.length_pos_iff.2 hne
      simp; omega
    simp only [hz]
    have := bulks_collect args.length rest args [] hne (by simp) hmax
    simpa [St.init] using this

/-- **C02 (round trip)**: any pipeline of commands over arbitrary byte strings is decoded exactly, then EOF -/
theorem C02_roundtrip (cmds : List (List Bytes)) (hne : ∀ c ∈ cmds, c ≠ [])
    (hmax : ∀ c ∈ cmds, ∀ a ∈ c, a.length ≤ maxBulk) (hn : ∀ c ∈ cmds, c.length < 2^63) :
    parseLoop St.init (cmds.map encodeCmd).flatten =
      (cmds.map fun c => Event.data (.arr (some (c.map fun a => .bulk (some a))))) ++ [.eof] := by
  induction cmds with
  | nil =>
    simp only [List.map_nil, List.flatten_nil, List.nil_append]
    rw [parseLoop]
    simp only [St.init]
    split
    · rfl
    · rename_i hs; simp [splitLine] at hs
  | cons c r ih =>
    simp only [List.map_cons, List.flatten_cons]
    rw [C02_compositional c _ (hne c (by simp)) (hmax c (by simp)) (hn c (by simp))]
    rw [ih (fun x hx => hne x (by simp [hx])) (fun x hx => hmax x (by simp [hx])) (fun x hx => hn x (by simp [hx]))]
    simp

#print axioms C02_roundtrip
end Resp
