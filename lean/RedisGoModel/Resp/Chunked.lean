import RedisGoModel.Resp.Resp
/-! # The request parser as an incremental reader over chunks (C02, fragmentation)

`Resp.parseLoop` consumes the *complete* byte stream.  resp/parser.go reads through a `bufio.Reader`: a header / inline line with
`ReadBytes('\n')` (blocks until a LF has arrived, however many underlying reads that takes) and a bulk body with
`io.ReadFull` of `bulkLen+2` bytes (blocks until that many bytes have arrived).  This file models exactly that reader over a
*list of chunks* (what the connection delivers, one underlying read each):

* `stepLine` / `stepBlock` — what `parse` does with ONE unit returned by `readLine` (a complete line, resp. a complete
  `n+2`-byte block): the events sent on the channel and the next `readState`.  `parseLoop_line` / `parseLoop_block` show that
  `parseLoop` is "read one unit, `step`, continue" — so these are the same transitions, not a second parser;
* `drain` — consume every complete unit available in the buffer, keep the remainder;
* `PState` (`readState` + the bytes carried between reads), `feed` (one chunk arrives), `finish` (the peer closed: EOF).

Theorems about it (fragmentation independence) are in `Props/C02.lean`.  Core Lean only (the driver runs `feed`). -/
namespace Resp

/-- `parse` on one complete line `msg` (LF-terminated, as `ReadBytes('\n')` returns it) outside a bulk body -/
def stepLine (st : St) (msg : Bytes) : List Event × St :=
  if msg.length < 2 || msg[msg.length - 2]? != some CR then ([.err], St.init)
  else
    let body := (msg.drop 1).take (msg.length - 3)
    if msg.head? == some STAR then
      match parseInt body with
      | some (.ofNat n) => if n == 0 then ([.data (.arr (some []))], St.init) else ([], ⟨none, some (n, [])⟩)
      | _ => ([.err], St.init)
    else if msg.head? == some DOLLAR then
      match parseInt body with
      | some (.ofNat n) => if n ≤ maxBulk then ([], ⟨some n, st.arr⟩) else ([.err], St.init)
      | some (.negSucc 0) => deliver ⟨none, st.arr⟩ (.bulk none)
      | _ => ([.err], St.init)
    else if msg.length < 3 then ([.err], St.init)
    else if msg.head? == some COLON && (parseInt body).isNone then ([.err], St.init)
    else deliver st (.line (msg.take (msg.length - 2)))

/-- `parse` on one complete bulk block `msg` of `n+2` bytes (as `io.ReadFull` fills it) -/
def stepBlock (st : St) (n : Nat) (msg : Bytes) : List Event × St :=
  if msg[n]? == some CR && msg[n+1]? == some LF then deliver ⟨none, st.arr⟩ (.bulk (some (msg.take n)))
  else ([.err], St.init)

/-- `parseLoop` outside a bulk body = take the first line, `stepLine`, continue -/
theorem parseLoop_line (st : St) (inp msg rest : Bytes) (hm : st.multi = none) (hs : splitLine inp = some (msg, rest)) :
    parseLoop st inp = (stepLine st msg).1 ++ parseLoop (stepLine st msg).2 rest := by
  rw [parseLoop]
  simp only [hm]
  split
  · rename_i hs'; rw [hs] at hs'; cases hs'
  · rename_i msg' rest' hs'
    rw [hs] at hs'
    simp only [Option.some.injEq, Prod.mk.injEq] at hs'
    obtain ⟨rfl, rfl⟩ := hs'
    unfold stepLine
    split
    · rfl
    · simp only []
      generalize parseInt (List.take (List.length msg - 3) (List.drop 1 msg)) = p
      split
      · cases p with
        | none => rfl
        | some i =>
          cases i with
          | ofNat n => simp only []; split <;> rfl
          | negSucc k => rfl
      · split
        · cases p with
          | none => rfl
          | some i =>
            cases i with
            | ofNat n => simp only []; split <;> rfl
            | negSucc k => cases k <;> rfl
        · split
          · rfl
          · split <;> rfl

/-- at end of input outside a bulk body (no LF left): `ReadBytes` returns `io.EOF`, whatever partial line it had -/
theorem parseLoop_noline (st : St) (inp : Bytes) (hm : st.multi = none) (hs : splitLine inp = none) : parseLoop st inp = [.eof] := by
  rw [parseLoop]
  simp only [hm]
  split
  · rfl
  · rename_i hs'; rw [hs] at hs'; cases hs'

/-- `parseLoop` inside a bulk body with the whole block available = take `n+2` bytes, `stepBlock`, continue -/
theorem parseLoop_block (st : St) (n : Nat) (inp : Bytes) (hm : st.multi = some n) (hl : ¬ inp.length < n + 2) :
    parseLoop st inp = (stepBlock st n (inp.take (n + 2))).1 ++ parseLoop (stepBlock st n (inp.take (n + 2))).2 (inp.drop (n + 2)) := by
  rw [parseLoop]
  simp only [hm, hl, dite_false]
  unfold stepBlock
  split <;> rfl

/-- inside a bulk body with fewer than `n+2` bytes left: `io.ReadFull` fails (`io.EOF` if nothing was read, else
    `io.ErrUnexpectedEOF`: a protocol error, then the EOF of the next read) -/
theorem parseLoop_short (st : St) (n : Nat) (inp : Bytes) (hm : st.multi = some n) (hl : inp.length < n + 2) :
    parseLoop st inp = if inp.isEmpty then [.eof] else [.err, .eof] := by
  rw [parseLoop]
  simp only [hm, hl, dite_true]

/-! ### the incremental reader -/

theorem stepBlock_len (n : Nat) (buf : Bytes) (h : ¬ buf.length < n + 2) : (buf.drop (n + 2)).length < buf.length := by
  rw [List.length_drop]; omega

/-- consume every complete unit (line / bulk block) present in `buf`; returns the events, the state and the unconsumed rest -/
def drain (st : St) (buf : Bytes) : List Event × St × Bytes :=
  match st.multi with
  | some n =>
    if _h : buf.length < n + 2 then ([], st, buf)
    else
      let r := stepBlock st n (buf.take (n + 2))
      let d := drain r.2 (buf.drop (n + 2))
      (r.1 ++ d.1, d.2)
  | none =>
    match _hs : splitLine buf with
    | none => ([], st, buf)
    | some (msg, rest) =>
      let r := stepLine st msg
      let d := drain r.2 rest
      (r.1 ++ d.1, d.2)
termination_by buf.length
decreasing_by
  · exact stepBlock_len n buf _h
  · exact splitLine_len _hs

/-- the parser between two reads of the connection: `readState` and the bytes received but not yet consumed -/
structure PState where
  st : St := St.init
  pending : Bytes := []

def PState.init : PState := {}

/-- one chunk arrives: everything that is now complete is parsed, the rest waits for the next chunk -/
def feed (p : PState) (chunk : Bytes) : PState × List Event :=
  let d := drain p.st (p.pending ++ chunk)
  (⟨d.2.1, d.2.2⟩, d.1)

/-- the peer closed the connection (the underlying reader returns `io.EOF`) -/
def finish (p : PState) : List Event :=
  match p.st.multi with
  | some _ => if p.pending.isEmpty then [.eof] else [.err, .eof]
  | none => [.eof]

/-- feed a list of chunks, collecting the events -/
def feedAll (p : PState) : List Bytes → PState × List Event
| [] => (p, [])
| c :: cs =>
  let r := feed p c
  let r' := feedAll r.1 cs
  (r'.1, r.2 ++ r'.2)

/-- the events of a chunked connection: everything `feed` produced, then what EOF produces -/
def runChunks (chunks : List Bytes) : List Event :=
  let r := feedAll PState.init chunks
  r.2 ++ finish r.1

end Resp
