import RedisGoModel.Resp.Resp
/-! Prototype for C03: an independent RESP2 reply decoder inverts the reply encoder (`ToBytes`) for every reply
    whose simple strings / errors contain no CR or LF; bulk payloads are unrestricted. -/
namespace Resp

inductive Reply
| simple (b : Bytes)
| err    (b : Bytes)
| int    (n : Int)
| bulk   (b : Option Bytes)
| arr    (a : Option (List Reply))

def PLUS : UInt8 := 43

def encInt (n : Int) : Bytes :=
  match n with
  | .ofNat k => dec k
  | .negSucc k => MINUS :: dec (k + 1)

mutual
def encode : Reply → Bytes
| .simple b => PLUS :: b ++ [CR, LF]
| .err b => MINUS :: b ++ [CR, LF]
| .int n => COLON :: encInt n ++ [CR, LF]
| .bulk none => DOLLAR :: MINUS :: dec 1 ++ [CR, LF]
| .bulk (some b) => DOLLAR :: dec b.length ++ [CR, LF] ++ b ++ [CR, LF]
| .arr none => STAR :: MINUS :: dec 1 ++ [CR, LF]
| .arr (some l) => STAR :: dec l.length ++ [CR, LF] ++ encodeList l
def encodeList : List Reply → Bytes
| [] => []
| r :: rs => encode r ++ encodeList rs
end

/-- line without its CRLF, and the rest -/
def takeLine (inp : Bytes) : Option (Bytes × Bytes) :=
  match splitLine inp with
  | none => none
  | some (l, rest) =>
    if l.length < 2 then none
    else if l[l.length - 2]? == some CR then some (l.take (l.length - 2), rest) else none

/-- signed decimal without a plus sign -/
def parseSigned (b : Bytes) : Option Int :=
  match b with
  | [] => none
  | c :: r => if c == MINUS then (parseNat r).map fun n => -(n : Int) else (parseNat b).map fun n => (n : Int)

mutual
def decode (fuel : Nat) (inp : Bytes) : Option (Reply × Bytes) :=
  match fuel with
  | 0 => none
  | fuel + 1 =>
    match inp with
    | [] => none
    | t :: body =>
      match takeLine body with
      | none => none
      | some (line, rest) =>
        if t == PLUS then some (.simple line, rest)
        else if t == MINUS then some (.err line, rest)
        else if t == COLON then (parseSigned line).map fun n => (.int n, rest)
        else if t == DOLLAR then
          match parseSigned line with
          | some (.ofNat n) =>
            if rest.length < n + 2 then none
            else if rest[n]? == some CR && rest[n+1]? == some LF then some (.bulk (some (rest.take n)), rest.drop (n + 2)) else none
          | some (.negSucc 0) => some (.bulk none, rest)
          | _ => none
        else if t == STAR then
          match parseSigned line with
          | some (.ofNat n) => (decodeList fuel n rest).map fun (l, r) => (.arr (some l), r)
          | some (.negSucc 0) => some (.arr none, rest)
          | _ => none
        else none
def decodeList (fuel : Nat) (n : Nat) (inp : Bytes) : Option (List Reply × Bytes) :=
  match fuel with
  | 0 => none
  | fuel + 1 =>
    match n with
    | 0 => some ([], inp)
    | n + 1 =>
      match decode fuel inp with
      | none => none
      | some (r, rest) => (decodeList fuel n rest).map fun (l, r') => (r :: l, r')
end

/-! ### round trip -/

theorem takeLine_enc (b rest : Bytes) (h : LF ∉ b) : takeLine (b ++ CR :: LF :: rest) = some (b, rest) := by
  unfold takeLine
  rw [splitLine_hdr b rest h]
  have hl : (b ++ [CR, LF]).length = b.length + 2 := by simp
  have h1 : ¬ (b ++ [CR, LF]).length < 2 := by omega
  have h2 : (b ++ [CR, LF])[(b ++ [CR, LF]).length - 2]? = some CR := by
    rw [hl]; simp
  have h3 : (b ++ [CR, LF]).take ((b ++ [CR, LF]).length - 2) = b := by
    rw [hl]; simp
  simp [h1, h2, h3]

theorem dec_head_not_minus (n : Nat) : ∀ c r, dec n = c :: r → (c == MINUS) = false := by
  intro c r h
  have hc := dec_digits n c (by rw [h]; simp)
  have : c ≠ MINUS := by intro e; subst e; simp [MINUS] at hc
  simpa using this

theorem parseSigned_dec (n : Nat) : parseSigned (dec n) = some (Int.ofNat n) := by
  have hne := dec_ne_nil n
  cases hd : dec n with
  | nil => exact absurd hd hne
  | cons c r =>
    simp only [parseSigned, dec_head_not_minus n c r hd]
    rw [← hd, parseNat_dec]; rfl

theorem parseSigned_neg (n : Nat) : parseSigned (MINUS :: dec (n + 1)) = some (Int.negSucc n) := by
  simp [parseSigned, parseNat_dec, Int.negSucc_eq]

theorem parseSigned_encInt (n : Int) : parseSigned (encInt n) = some n := by
  cases n with
  | ofNat k => exact parseSigned_dec k
  | negSucc k => exact parseSigned_neg k

theorem encInt_no_LF (n : Int) : LF ∉ encInt n := by
  cases n with
  | ofNat k => exact dec_no_LF k
  | negSucc k =>
    simp only [encInt, List.mem_cons, not_or]
    exact ⟨by decide, dec_no_LF _⟩

mutual
def size : Reply → Nat
| .arr (some l) => 1 + sizeList l
| _ => 1
def sizeList : List Reply → Nat
| [] => 1
| r :: rs => 1 + size r + sizeList rs
end

mutual
def WF : Reply → Prop
| .simple b => LF ∉ b ∧ CR ∉ b
| .err b => LF ∉ b ∧ CR ∉ b
| .arr (some l) => WFL l
| _ => True
def WFL : List Reply → Prop
| [] => True
| r :: rs => WF r ∧ WFL rs
end

mutual
theorem decode_encode : (r : Reply) → WF r → ∀ (fuel : Nat) (rest : Bytes), size r ≤ fuel →
    decode fuel (encode r ++ rest) = some (r, rest)
| .simple b, h, fuel, rest, hf => by
    cases fuel with
    | zero => simp [size] at hf
    | succ fuel =>
      have : encode (.simple b) ++ rest = PLUS :: (b ++ CR :: LF :: rest) := by simp [encode]
      rw [this, decode, takeLine_enc b rest h.1]; simp
| .err b, h, fuel, rest, hf => by
    cases fuel with
    | zero => simp [size] at hf
    | succ fuel =>
      have : encode (.err b) ++ rest = MINUS :: (b ++ CR :: LF :: rest) := by simp [encode]
      have e1 : (MINUS == PLUS) = false := by decide
      rw [this, decode, takeLine_enc b rest h.1]; simp [e1]
| .int n, _, fuel, rest, hf => by
    cases fuel with
    | zero => simp [size] at hf
    | succ fuel =>
      have : encode (.int n) ++ rest = COLON :: (encInt n ++ CR :: LF :: rest) := by simp [encode]
      have e1 : (COLON == PLUS) = false := by decide
      have e2 : (COLON == MINUS) = false := by decide
      rw [this, decode, takeLine_enc _ rest (encInt_no_LF n)]; simp [e1, e2, parseSigned_encInt]
| .bulk none, _, fuel, rest, hf => by
    cases fuel with
    | zero => simp [size] at hf
    | succ fuel =>
      have : encode (.bulk none) ++ rest = DOLLAR :: ((MINUS :: dec 1) ++ CR :: LF :: rest) := by simp [encode]
      have e1 : (DOLLAR == PLUS) = false := by decide
      have e2 : (DOLLAR == MINUS) = false := by decide
      have e3 : (DOLLAR == COLON) = false := by decide
      have hno : LF ∉ MINUS :: dec 1 := by
        simp only [List.mem_cons, not_or]; exact ⟨by decide, dec_no_LF 1⟩
      rw [this, decode, takeLine_enc _ rest hno]
      have hp : parseSigned (MINUS :: dec 1) = some (Int.negSucc 0) := parseSigned_neg 0
      simp only [e1, e2, e3, hp, Bool.false_eq_true, if_false, beq_self_eq_true, if_true]
| .bulk (some b), _, fuel, rest, hf => by
    cases fuel with
    | zero => simp [size] at hf
    | succ fuel =>
      have : encode (.bulk (some b)) ++ rest = DOLLAR :: (dec b.length ++ CR :: LF :: (b ++ CR :: LF :: rest)) := by
        simp [encode]
      have e1 : (DOLLAR == PLUS) = false := by decide
      have e2 : (DOLLAR == MINUS) = false := by decide
      have e3 : (DOLLAR == COLON) = false := by decide
      rw [this, decode, takeLine_enc _ _ (dec_no_LF _)]
      have hlen : ¬ (b ++ CR :: LF :: rest).length < b.length + 2 := by simp
      have h1 : (b ++ CR :: LF :: rest)[b.length]? = some CR := by simp
      have h2 : (b ++ CR :: LF :: rest)[b.length + 1]? = some LF := by
        rw [List.getElem?_append_right (by omega)]; simp
      have h3 : (b ++ CR :: LF :: rest).take b.length = b := by simp
      have h4 : (b ++ CR :: LF :: rest).drop (b.length + 2) = rest := by
        rw [List.drop_append, List.drop_of_length_le (by omega)]
        have : b.length + 2 - b.length = 2 := by omega
        simp [this]
      simp [e1, e2, e3, parseSigned_dec, hlen, h1, h2, h3, h4]
| .arr none, _, fuel, rest, hf => by
    cases fuel with
    | zero => simp [size] at hf
    | succ fuel =>
      have : encode (.arr none) ++ rest = STAR :: ((MINUS :: dec 1) ++ CR :: LF :: rest) := by simp [encode]
      have e1 : (STAR == PLUS) = false := by decide
      have e2 : (STAR == MINUS) = false := by decide
      have e3 : (STAR == COLON) = false := by decide
      have e4 : (STAR == DOLLAR) = false := by decide
      have hno : LF ∉ MINUS :: dec 1 := by
        simp only [List.mem_cons, not_or]; exact ⟨by decide, dec_no_LF 1⟩
      rw [this, decode, takeLine_enc _ rest hno]
      have hp : parseSigned (MINUS :: dec 1) = some (Int.negSucc 0) := parseSigned_neg 0
      simp only [e1, e2, e3, e4, hp, Bool.false_eq_true, if_false, beq_self_eq_true, if_true]
| .arr (some l), h, fuel, rest, hf => by
    cases fuel with
    | zero => simp [size] at hf
    | succ fuel =>
      have : encode (.arr (some l)) ++ rest = STAR :: (dec l.length ++ CR :: LF :: (encodeList l ++ rest)) := by
        simp [encode]
      have e1 : (STAR == PLUS) = false := by decide
      have e2 : (STAR == MINUS) = false := by decide
      have e3 : (STAR == COLON) = false := by decide
      have e4 : (STAR == DOLLAR) = false := by decide
      rw [this, decode, takeLine_enc _ _ (dec_no_LF _)]
      have hl := decodeList_encode l h fuel rest (by simp [size] at hf; omega)
      simp [e1, e2, e3, e4, parseSigned_dec, hl]
theorem decodeList_encode : (l : List Reply) → WFL l → ∀ (fuel : Nat) (rest : Bytes), sizeList l ≤ fuel →
    decodeList fuel l.length (encodeList l ++ rest) = some (l, rest)
| [], _, fuel, rest, hf => by
    cases fuel with
    | zero => simp [sizeList] at hf
    | succ fuel => simp [decodeList, encodeList]
| r :: rs, h, fuel, rest, hf => by
    cases fuel with
    | zero => simp [sizeList] at hf
    | succ fuel =>
      have hr := decode_encode r h.1 fuel (encodeList rs ++ rest) (by simp [sizeList] at hf; omega)
      have hrs := decodeList_encode rs h.2 fuel rest (by simp [sizeList] at hf; omega)
      simp [decodeList, encodeList, List.append_assoc, hr, hrs]
end

/-! ### a whole reply stream -/

/-- decode everything a client read from the connection: a sequence of RESP values; EVERY byte must be consumed (total: each
    decoded value consumes at least one byte, otherwise the stream is refused).  The serve / rendezvous engines of the driver
    run this on the raw bytes the server wrote. -/
def decodeAllReplies (b : Bytes) (acc : List Reply) : Option (List Reply) :=
  if b.isEmpty then some acc.reverse else
  match decode (b.length + 2) b with
  | some (r, rest) => if _h : rest.length < b.length then decodeAllReplies rest (r :: acc) else none
  | none => none
termination_by b.length

theorem dec_length_pos (n : Nat) : 0 < (dec n).length :=
  List.length_pos_iff.2 (dec_ne_nil n)

theorem encInt_length_pos (n : Int) : 0 < (encInt n).length := by
  cases n with
  | ofNat k => exact dec_length_pos k
  | negSucc k => simp [encInt]

mutual
/-- the decoder's fuel: the encoding of a reply is longer than its size -/
theorem size_le_encode : (r : Reply) → size r + 2 ≤ (encode r).length
| .simple b => by simp [size, encode]
| .err b => by simp [size, encode]
| .int n => by have := encInt_length_pos n; simp [size, encode]
| .bulk none => by have := dec_length_pos 1; simp [size, encode]
| .bulk (some b) => by have := dec_length_pos b.length; simp [size, encode]; omega
| .arr none => by have := dec_length_pos 1; simp [size, encode]
| .arr (some l) => by
    have := dec_length_pos l.length
    have := sizeList_le_encode l
    simp [size, encode]; omega
theorem sizeList_le_encode : (l : List Reply) → sizeList l ≤ (encodeList l).length + 1
| [] => by simp [sizeList, encodeList]
| r :: rs => by
    have := size_le_encode r
    have := sizeList_le_encode rs
    simp [sizeList, encodeList]; omega
end

/-- **a conforming client decodes a written reply stream exactly**: the concatenated encodings of any list of well-framed
    replies decode to exactly that list, all bytes consumed -/
theorem decodeAllReplies_encode (rs : List Reply) (h : ∀ r ∈ rs, WF r) (acc : List Reply) :
    decodeAllReplies (rs.map encode).flatten acc = some (acc.reverse ++ rs) := by
  induction rs generalizing acc with
  | nil => rw [decodeAllReplies]; simp
  | cons r rs ih =>
    have hlen := size_le_encode r
    rw [decodeAllReplies]
    simp only [List.map_cons, List.flatten_cons]
    have hne : (encode r ++ (rs.map encode).flatten).isEmpty = false := by
      cases he : encode r with
      | nil => rw [he] at hlen; simp at hlen
      | cons a t => rfl
    rw [hne]
    simp only [Bool.false_eq_true, if_false]
    rw [decode_encode r (h r (by simp)) _ _ (by simp; omega)]
    have hlt : (rs.map encode).flatten.length < (encode r ++ (rs.map encode).flatten).length := by simp; omega
    simp only [hlt, dite_true]
    rw [ih (fun x hx => h x (by simp [hx]))]
    simp

#print axioms decode_encode
end Resp
